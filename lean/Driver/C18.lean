import NdnVerif.C18.DriverLoop
import NdnVerif.C18.Model
import NdnVerif.C18.Spec
open Ndn Ndn.Driver Ndn.C18

namespace C18Drv

/-- spec-side state: built ONLY from the ops and the implementation's outputs -/
structure SpecSt where
  n : Nat := 0
  keys : List Nat := []
  links : List (Nat × Nat) := []      -- directed pairs (both directions of every up link)
  nbr : List (Nat × Nat) := []        -- (u, w): u holds a neighbour state for w
  pending : List (Nat × Nat) := []    -- directed links not yet exchanged in the current fair round
  rounds : Nat := 0                   -- complete fair rounds since the last disturbance
  stable : Option String := none      -- dump at the last converged check since the last disturbance
  seen : List (List (Nat × Nat) × String) := []  -- converged dump per topology (sorted link list)
  lastDump : List (Nat × String) := []  -- last observed dump per router
  lastChange : Nat := 0               -- fair round (since the last disturbance) in which a table last changed

structure St where
  net : Net := []
  keys : List Nat := []
  links : List (Nat × Nat) := []
  sp : SpecSt := {}

def idxOfKey (keys : List Nat) (k : Nat) : Option Nat :=
  let i := keys.idxOf k
  if i < keys.length then some i else none

def optStr : Option Nat → String
  | some i => toString i
  | none => "-"

def dashIfEmpty (s : String) : String := if s.isEmpty then "-" else s

/-- canonical dump of one model router (same text as dvsim.DumpRib) -/
def dumpRouter (keys : List Nat) (r : Router) : String :=
  let advs := r.rib.advert.map fun a => (idxOfKey keys a.dest, s!"{optStr (idxOfKey keys a.dest)}:{optStr (idxOfKey keys a.nh)}:{a.cost}:{a.other}")
  let advs := advs.mergeSort fun a b => a.1.getD 0 ≤ b.1.getD 0
  let ents := r.rib.reachable.map fun e =>
    let (f1, c1, f2, c2) := fibEntriesOf r.nbrs e
    let f1 := if c1 ≥ Spec.infinity then 0 else f1   -- which hop carries an infinite cost is not an observable
    let f2 := if c2 ≥ Spec.infinity then 0 else f2
    (idxOfKey keys e.dest, s!"{optStr (idxOfKey keys e.dest)}:{f1}:{c1}:{f2}:{c2}")
  let ents := ents.mergeSort fun a b => a.1.getD 0 ≤ b.1.getD 0
  "adv=" ++ dashIfEmpty (",".intercalate (advs.map (·.2))) ++ " ent=" ++ dashIfEmpty (",".intercalate (ents.map (·.2)))

def dumpAll (keys : List Nat) (net : Net) : String :=
  " ; ".intercalate ((List.range net.length).zip net |>.map fun (i, r) => s!"r{i} {dumpRouter keys r}")

/-- parse the `adv=` part of an implementation dump -/
def parseAdv (dump : String) : Option (List Spec.Obs) :=
  match dump.splitOn " " with
  | a :: _ =>
    if !a.startsWith "adv=" then none else
    let body := (a.drop 4).toString
    if body == "-" then some [] else
    (body.splitOn ",").mapM fun item =>
      match item.splitOn ":" with
      | [d, nh, c, o] => do
        let c ← c.toNat?
        let o ← o.toNat?
        pure { dest := d.toNat?, nh := nh.toNat?, cost := c, other := o }
      | _ => none
  | [] => none

def has (l : List (Nat × Nat)) (p : Nat × Nat) : Bool := l.contains p

def directedAll (sp : SpecSt) : List (Nat × Nat) := sp.links

def disturb (sp : SpecSt) : SpecSt := { sp with rounds := 0, pending := sp.links, stable := none, lastChange := 0 }

def topoOf (sp : SpecSt) : Spec.Topo := { n := sp.n, adj := fun a b => sp.links.contains (a, b) }

/-- no router holds state learnt from a router that is no longer its neighbour -/
def staleFree (sp : SpecSt) : Bool := sp.nbr.all fun p => sp.links.contains p

def advFiniteFails (who : String) (got : String) : List SpecFail :=
  match parseAdv got with
  | some adv =>
    if Spec.advertFinite adv then [] else
      [⟨"advert-never-infinite", "cost>=16", s!"{who} advertises a destination with best cost >= 16: {got}"⟩]
  | none => if isCrash got then [⟨"no-panic", "crash", s!"{who}: {got}"⟩] else
      [⟨"advert-never-infinite", "unparsable", s!"{who}: unparsable dump {got}"⟩]

def parseNats (l : List String) : Option (List Nat) := l.mapM String.toNat?

def step (s : St) (op : String) (got : String) : StepResult St :=
  let sp := s.sp
  match op.splitOn " " with
  | ["new", ns] =>
    match ns.toNat? with
    | none => { st := s, expected := some "bad-op" }
    | some n =>
      -- the keys (name hashes) are taken from the implementation; A-hash is checked here
      match got.splitOn " " with
      | "ok" :: ks =>
        match parseNats ks with
        | some keys =>
          let okKeys := keys.length == n && keys.eraseDups.length == n && !keys.contains 0
          let net : Net := keys.map Router.start
          { st := { net := net, keys := keys, links := [], sp := { n := n, keys := keys } },
            expected := none,
            spec := if okKeys then [] else [⟨"A-hash", "keys", s!"router keys not distinct / zero / wrong count: {got}"⟩] }
        | none => { st := {}, expected := some "ok <keys>" }
      | _ => { st := {}, expected := some "ok <keys>" }
  | ["sweep", a, wsT] =>
    -- ONE checkDeadNeighbors call of router a finds all the listed neighbours dead: the code performs
    -- RemoveNextHop + Prune for each of them inside the same call (model: the `dead` events in sequence)
    match a.toNat?, (wsT.splitOn ",").mapM String.toNat? with
    | some a, some ws =>
      let n := s.net.length
      let specFails := if got == "skip" then [] else advFiniteFails s!"r{a}" got
      let sp' := if got == "skip" then sp else disturb { sp with nbr := sp.nbr.filter fun p => !(p.1 == a && ws.contains p.2) }
      if a < n && ws.all (fun w => w < n && w != a) then
        let (net', k) := ws.foldl (fun (acc : Net × Nat) w =>
          match acc.1.dead a w with
          | some (net2, _) => (net2, acc.2 + 1)
          | none => acc) (s.net, 0)
        if k == 0 then { st := { s with sp := sp' }, expected := some "skip", spec := specFails, cov := ["dead-skip"] }
        else
          let ru := (net'.get? a).getD (Router.start 0)
          { st := { s with net := net', sp := sp' }, expected := some (dumpRouter s.keys ru), spec := specFails,
            cov := [if k ≥ 2 then "sweep-multi" else "sweep-single"] }
      else { st := { s with sp := sp' }, expected := some "skip", spec := specFails }
    | _, _ => { st := s, expected := some "bad-op" }
  | [lk, a, b] =>
    match a.toNat?, b.toNat? with
    | some a, some b =>
      let n := s.net.length
      if lk == "link" || lk == "unlink" then
        let up := lk == "link"
        let validM := a < n && b < n && a != b && (s.links.contains (a, b) != up)
        let links' := if up then (a, b) :: (b, a) :: s.links else s.links.filter fun p => p != (a, b) && p != (b, a)
        let spLinks' := if up then (a, b) :: (b, a) :: sp.links else sp.links.filter fun p => p != (a, b) && p != (b, a)
        let sp' := if got == "ok" then disturb { sp with links := spLinks' } else sp
        { st := { s with links := if validM then links' else s.links, sp := sp' },
          expected := some (if validM then "ok" else "skip"), cov := [lk] }
      else if lk == "fetch" then
        -- spec side
        let specFails := if got == "skip" then [] else advFiniteFails s!"r{a}" got
        let sp' :=
          if got == "skip" then sp else
          let nbr := if sp.nbr.contains (a, b) then sp.nbr else (a, b) :: sp.nbr
          let changed := ((sp.lastDump.find? (·.1 == a)).map (·.2)) != some got
          let sp := { sp with lastDump := (a, got) :: sp.lastDump.filter (·.1 != a),
                              lastChange := if changed then sp.rounds + 1 else sp.lastChange }
          let pend := sp.pending.filter fun p => p != (a, b)
          if pend.isEmpty then { sp with nbr := nbr, pending := sp.links, rounds := sp.rounds + 1 }
          else { sp with nbr := nbr, pending := pend }
        -- model side
        if a < n && b < n && a != b && s.links.contains (a, b) then
          match s.net.fetch a b (b + 1) with
          | some (net', dirty) =>
            let ru := (net'.get? a).getD (Router.start 0)
            let selfKey := s.keys.getD a 0
            let adv := ((s.net.get? b).map (·.rib.advert)).getD []
            let before := ((s.net.get? a).map (·.rib.entries.length)).getD 0
            let cov :=
              [if dirty then "fetch-dirty" else "fetch-clean"] ++
              (if adv.any (fun x => x.nh == selfKey && x.other < inf) then ["poison-reverse-other"] else []) ++
              (if adv.any (fun x => x.nh == selfKey && !(x.other < inf)) then ["poison-reverse-infinite"] else []) ++
              (if adv.any (fun x => x.nh != selfKey && x.cost + 1 ≥ inf) then ["skip-at-infinity"] else []) ++
              (if ru.rib.entries.length < before then ["prune-delete"] else []) ++
              (if ru.rib.entries.length > before then ["new-destination"] else []) ++
              (if ru.rib.entries.any (fun e => e.best.low1 == e.best.low2 && e.best.low1 < inf) then ["tie-break"] else []) ++
              (if ru.rib.entries.any (fun e => e.best.low1 ≥ 8) then ["counting-up"] else [])
            { st := { s with net := net', sp := sp' }, expected := some (dumpRouter s.keys ru), spec := specFails, cov := cov }
          | none => { st := { s with sp := sp' }, expected := some "skip", spec := specFails }
        else { st := { s with sp := sp' }, expected := some "skip", spec := specFails, cov := ["fetch-skip"] }
      else if lk == "dead" then
        let specFails := if got == "skip" then [] else advFiniteFails s!"r{a}" got
        let sp' := if got == "skip" then sp else disturb { sp with nbr := sp.nbr.filter fun p => p != (a, b) }
        if a < n && b < n && a != b then
          match s.net.dead a b with
          | some (net', dirty) =>
            let ru := (net'.get? a).getD (Router.start 0)
            { st := { s with net := net', sp := sp' }, expected := some (dumpRouter s.keys ru), spec := specFails,
              cov := [if dirty then "dead-dirty" else "dead-clean"] }
          | none => { st := { s with sp := sp' }, expected := some "skip", spec := specFails, cov := ["dead-skip"] }
        else { st := { s with sp := sp' }, expected := some "skip", spec := specFails }
      else { st := s, expected := some "bad-op" }
    | _, _ => { st := s, expected := some "bad-op" }
  | ["check"] =>
    if s.net.isEmpty && sp.n == 0 then { st := s, expected := some "skip" } else
    let parts := got.splitOn " ; "
    let advs : List (Option (List Spec.Obs)) := parts.map fun p => parseAdv ((" ".intercalate ((p.splitOn " ").drop 1)))
    let finiteFails := ((List.range parts.length).zip parts).flatMap fun (i, p) =>
      advFiniteFails s!"r{i}" (" ".intercalate ((p.splitOn " ").drop 1))
    let converged := staleFree sp && sp.rounds ≥ Spec.boundRounds && parts.length == sp.n
    let t := topoOf sp
    let spFails : List SpecFail :=
      if !converged then [] else
      ((List.range sp.n).zip advs).flatMap fun (u, a) =>
        match a with
        | some adv => (Spec.shortestPathFailures t u adv).map fun m =>
            ⟨"shortest-path-at-quiescence", "tables", s!"after {sp.rounds} fair rounds: {m}"⟩
        | none => []
    let stableFails : List SpecFail :=
      if !converged then [] else
      match sp.stable with
      | some prev => if prev == got then [] else
          [⟨"fixed-point-stable", "tables", s!"tables still change after {sp.rounds} fair rounds: {prev}  -->  {got}"⟩]
      | none => []
    let sig := sp.links.mergeSort fun a b => a.1 < b.1 || (a.1 == b.1 && a.2 ≤ b.2)
    let detFails : List SpecFail :=
      if !converged then [] else
      match sp.seen.find? (·.1 == sig) with
      | some (_, prev) => if prev == got then [] else
          [⟨"tie-break-deterministic", "tables", s!"the same topology led to different tables under another schedule: {prev}  -->  {got}"⟩]
      | none => []
    let sp' := if converged then
        { sp with stable := some got, seen := if (sp.seen.find? (·.1 == sig)).isSome then sp.seen else (sig, got) :: sp.seen }
      else sp
    let hasUnreach := converged && (List.range sp.n).any fun d => (Spec.distsTo t d).any fun k => k ≥ Spec.infinity
    { st := { s with sp := sp' }, expected := some (dumpAll s.keys s.net),
      spec := finiteFails ++ spFails ++ stableFails ++ detFails,
      cov := (if converged then ["check-converged"] else ["check-early"]) ++
             (if converged && sp.stable.isNone then [s!"rounds-to-fixed-point-{sp.lastChange}"] else []) ++
             (if converged && sp.stable.isSome then ["check-stable"] else []) ++
             (if converged && (sp.seen.find? (·.1 == sig)).isSome && sp.stable.isNone then ["check-same-topology-again"] else []) ++
             (if hasUnreach then ["unreachable-withdrawn"] else []),
      nontrivial := converged && sp.n ≥ 3 }
  | _ => { st := s, expected := some "bad-op" }

end C18Drv

def main : IO Unit := Ndn.Driver.runResilient ({} : C18Drv.St) C18Drv.step
