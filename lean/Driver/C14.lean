import NdnVerif.Driver.Common
import NdnVerif.C14.Model
open Ndn Ndn.Driver Ndn.C14

def intStr (i : Int) : String := toString i

def stepC14 (_ : Unit) (op : String) (got : String) : StepResult Unit :=
  match op.splitOn " " with
  | ["new"] => { st := (), expected := some "ok" }
  | ["cmp", a, b] =>
    match Name.ofText a, Name.ofText b with
    | some x, some y =>
      let c := cmpName x y
      { st := (), expected := some (intStr c), cov := [if c == 0 then "cmp-eq" else "cmp-ne"],
        nontrivial := x.length > 0 && y.length > 0,
        spec := if isCrash got then [⟨"no-panic", "cmp", s!"Compare crashed: {got}"⟩] else [] }
    | _, _ => { st := (), expected := some "bad-op" }
  | _ => { st := (), expected := some "bad-op" }

def main : IO Unit := Ndn.Driver.run () stepC14
