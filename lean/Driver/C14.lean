import NdnVerif.Driver.Common
import NdnVerif.C14.Spec
import NdnVerif.C14.Table
import NdnVerif.C14.XXHash
import NdnVerif.C14.Pattern
open Ndn Ndn.Driver Ndn.C14

/-- spec state: hashes and encodings seen in this history (implementation outputs only) -/
structure S14 where
  hashes : List (String × String) := []   -- name text ↦ hash reported by the implementation
  encs : List (String × String) := []     -- encoding hex ↦ name text

def resName : Res Name → String
  | .ok n => n.toText
  | .err => "err"
  | .panic => "PANIC"

def resComp : Res Component → String
  | .ok c => c.toText
  | .err => "err"
  | .panic => "PANIC"

def optName : Option Name → String
  | some n => n.toText
  | none => "err"

def crashSpec (what got : String) : List SpecFail :=
  if isCrash got then [⟨"no-panic", what, s!"{what} crashed: {got}"⟩] else []

def boolStr (b : Bool) : String := if b then "true" else "false"

def bad (s : S14) : StepResult S14 := { st := s, expected := some "bad-op" }

/-- a name-keyed table (trie: engine NameTrie; mem: object MemoryStore; pit: the forwarder's PIT tree) under
    insertions (+name), removals (-name) and lookups (?name): one observation character per operation;
    `tabx` = the same with a crafted XXH64 collision pair (reported under its own key) -/
def tabStep (s : S14) (tabop kind : String) (toks : List String) (got : String) : StepResult S14 :=
  -- a name-keyed table (trie: engine NameTrie; mem: object MemoryStore; pit: the forwarder's PIT tree) under
  -- insertions (+name), removals (-name) and lookups (?name): one observation character per operation
  let ops := toks.mapM fun t =>
    match Name.ofText ((t.drop 1).toString) with
    | some n => if t.startsWith "+" then some (TOp.ins n) else if t.startsWith "-" then some (TOp.rem n)
                else if t.startsWith "?" then some (TOp.has n) else none
    | none => none
  match ops with
  | some ops =>
    let exp := String.ofList (tabrRun compKey [] ops)
    let want := String.ofList (tabrRun id [] ops)
    { st := s, expected := some exp, cov := ["tabr-" ++ kind], nontrivial := ops.length ≥ 3,
      spec := crashSpec ("table " ++ kind) got ++
        (if !isCrash got && got != want then
          [⟨(if tabop == "tabx" then "hash-agrees-with-equality" else "table-keying"),
            (if tabop == "tabx" then "crafted-lane-collision-" ++ kind else "tabr-" ++ kind),
            s!"a {kind} table under {toks} answered {got}; by name equality it must answer {want}"⟩] else []) }
  | none => bad s

def stepC14 (s : S14) (op : String) (got : String) : StepResult S14 :=
  match op.splitOn " " with
  | ["new"] => { st := {}, expected := some "ok" }
  | ["cmp", a, b] =>
    match Name.ofText a, Name.ofText b with
    | some x, some y =>
      let c := cmpName x y
      let want := canonCmp x y
      { st := s, expected := some (toString c),
        cov := [if c == 0 then "cmp-eq" else if x.isPrefixOf y || y.isPrefixOf x then "cmp-prefix" else "cmp-ne"],
        nontrivial := x.length > 0 && y.length > 0,
        spec := crashSpec "Compare" got ++
          (if got != toString want then [⟨"canonical-order", "cmp", s!"Compare({a},{b}) = {got}, canonical order says {want}"⟩] else []) }
    | _, _ => bad s
  | ["eq", a, b] =>
    match Name.ofText a, Name.ofText b with
    | some x, some y =>
      { st := s, expected := some (boolStr (eqName x y)), cov := [if x == y then "eq-true" else "eq-false"],
        spec := crashSpec "Equal" got ++
          (if got != boolStr (x == y) then [⟨"equality", "eq", s!"Equal({a},{b}) = {got}"⟩] else []) }
    | _, _ => bad s
  | ["pfx", a, b] =>
    match Name.ofText a, Name.ofText b with
    | some x, some y =>
      { st := s, expected := some (boolStr (isPrefix x y)), cov := [if x.isPrefixOf y then "pfx-true" else "pfx-false"],
        spec := crashSpec "IsPrefix" got ++
          (if got != boolStr (x.isPrefixOf y) then [⟨"prefix", "pfx", s!"IsPrefix({a},{b}) = {got}"⟩] else []) }
    | _, _ => bad s
  | ["rt", a] =>
    -- Name.Bytes then NameFromBytes; output "<hex> <decoded name>"
    match Name.ofText a with
    | some x =>
      let e := encName x
      let hex := hexOfBytes e
      let parts := got.splitOn " "
      let gotHex := parts.headD ""
      let gotName := parts.getD 1 ""
      let clash := s.encs.find? (fun p => p.1 == gotHex && p.2 != a)
      { st := { s with encs := (gotHex, a) :: s.encs },
        expected := some s!"{hex} {optName (nameFromBytes e)}",
        cov := [if e.length > 255 then "rt-long" else "rt-short"],
        nontrivial := x.any (fun c => c.val.length ≥ 253),
        spec := crashSpec "Bytes/NameFromBytes" got ++
          (if !isCrash got && gotName != a then [⟨"encode-decode", "rt", s!"NameFromBytes(Bytes({a})) = {gotName}"⟩] else []) ++
          (match clash with
           | some p => [⟨"encoding-injective", "rt", s!"names {p.2} and {a} have the same encoding"⟩]
           | none => []) }
    | none => bad s
  | ["crt", c] =>
    match Component.ofText c with
    | some x =>
      let e := encComp x
      let parts := got.splitOn " "
      let gotC := parts.getD 1 ""
      { st := s, expected := some s!"{hexOfBytes e} {match compFromBytes e with | some y => y.toText | none => "err"}",
        cov := ["crt"],
        spec := crashSpec "Component.Bytes/ComponentFromBytes" got ++
          (if !isCrash got && gotC != c then [⟨"encode-decode", "crt", s!"ComponentFromBytes(Bytes({c})) = {gotC}"⟩] else []) }
    | none => bad s
  | ["dec", h] =>
    match bytesOfHex h with
    | some b => { st := s, expected := some (optName (nameFromBytes b)),
                  cov := [if (nameFromBytes b).isSome then "dec-ok" else "dec-err"], spec := crashSpec "NameFromBytes" got }
    | none => bad s
  | ["cdec", h] =>
    match bytesOfHex h with
    | some b => { st := s, expected := some (match compFromBytes b with | some y => y.toText | none => "err"),
                  cov := ["cdec"], spec := crashSpec "ComponentFromBytes" got }
    | none => bad s
  | ["str", a] =>
    match Name.ofText a with
    | some x => { st := s, expected := some (hexOrDash (nameToStr x)), cov := ["str"], spec := crashSpec "String" got }
    | none => bad s
  | ["canon", c] =>
    match Component.ofText c with
    | some x => { st := s, expected := some (hexOrDash (compCanon x)), cov := ["canon"], spec := crashSpec "CanonicalString" got }
    | none => bad s
  | ["urt", a] =>
    -- Name.String then NameFromStr; output "<hex of string> <parsed name>"
    match Name.ofText a with
    | some x =>
      let str := nameToStr x
      let parts := got.splitOn " "
      let gotName := parts.getD 1 ""
      let ok := nameUriOk x
      { st := s, expected := some s!"{hexOrDash str} {resName (nameFromStr str)}",
        cov := [if ok then "urt-guarded" else "urt-unguarded"], nontrivial := ok && x.length > 0,
        spec := crashSpec "String/NameFromStr" got ++
          (if ok && !isCrash got && gotName != a then [⟨"uri-roundtrip", "urt", s!"NameFromStr(String({a})) = {gotName}"⟩] else []) }
    | none => bad s
  | ["parse", h] =>
    match bytesOfHex h with
    | some b =>
      let r := nameFromStr b
      { st := s, expected := some (resName r),
        cov := [match r with | .ok _ => "parse-ok" | .err => "parse-err" | .panic => "parse-panic"],
        spec := crashSpec "NameFromStr" got }
    | none => bad s
  | ["cparse", h] =>
    match bytesOfHex h with
    | some b =>
      let r := compFromStr b
      { st := s, expected := some (resComp r),
        cov := [match r with | .ok _ => "cparse-ok" | .err => "cparse-err" | .panic => "cparse-panic"],
        spec := crashSpec "ComponentFromStr" got }
    | none => bad s
  | ["pparse", h] =>
    -- NamePatternFromStr: "err" or the pattern, components as c<type>:<hex>, placeholders as p<type>:<hex tag>
    match bytesOfHex h with
    | some b =>
      let r := namePatFromStr b
      let showP : CPat → String
        | .comp c => "c" ++ c.toText
        | .pat t tag => s!"p{t}:{hexOfBytes tag}"
      let txt := match r with
        | .ok [] => "-"
        | .ok l => "/".intercalate (l.map showP)
        | .err => "err"
        | .panic => "PANIC"
      { st := s, expected := some txt,
        cov := [match r with | .ok _ => "pparse-ok" | .err => "pparse-err" | .panic => "pparse-panic"],
        spec := crashSpec "NamePatternFromStr" got }
    | none => bad s
  | ["hx", a, b] =>
    -- a crafted pair of different names (computed by the generator from the lane structure of XXH64): the model
    -- predicts both hash values; names that are not Equal must not share one
    match Name.ofText a, Name.ofText b with
    | some x, some y =>
      let hx := hexU64 (nameHash x); let hy := hexU64 (nameHash y)
      let parts := got.splitOn " "
      { st := s, expected := some s!"{hx} {hy}", cov := ["crafted-collision"],
        spec := crashSpec "Hash" got ++
          (if !isCrash got && x != y && parts.getD 0 "x" == parts.getD 1 "y" then
            [⟨"hash-agrees-with-equality", "crafted-lane-collision", s!"the names {a} and {b} are not Equal but Hash() gives {parts.getD 0 ""} for both (XXH64 lane arithmetic is invertible: such pairs can be computed)"⟩] else []) }
    | _, _ => bad s
  | ["h", a] =>
    -- the hash VALUE is compared with XXH64 over the model's hash input (ties the framing: 8-byte type,
    -- 8-byte value length, value); the laws are evaluated on the implementation's outputs
    let prev := s.hashes.find? (fun p => p.1 == a)
    let clash := s.hashes.find? (fun p => p.1 != a && p.2 == got)
    { st := { s with hashes := (a, got) :: s.hashes },
      expected := (Name.ofText a).map fun x => hexU64 (nameHash x), cov := ["hash"],
      spec := crashSpec "Hash" got ++
        (match prev with
         | some p => if p.2 != got then [⟨"hash-of-equal-names", "h", s!"Hash({a}) gave {p.2} and then {got}"⟩] else []
         | none => []) ++
        (match clash with
         | some p => if !isCrash got then
             [⟨"hash-agrees-with-equality", "collision", s!"the names {p.1} and {a} are not Equal but hash to the same value {got}: every table keyed on the hash conflates them"⟩] else []
         | none => []) }
  | ["hc", _a, _b, _c] =>
    -- concurrent hashing of private copies: the hash of a name is a function of the name alone
    { st := s, expected := some "stable", cov := ["hash-concurrent"],
      spec := crashSpec "Hash (concurrent)" got ++
        (if !isCrash got && got != "stable" then
          [⟨"hash-of-equal-names", "hc", s!"hashing the same names from several goroutines gave different values than sequentially: {got}"⟩] else []) }
  | ["ph", a] =>
    -- output "<PrefixHash() list> <Hash() of each prefix>" : must agree position by position
    let parts := got.splitOn " "
    let want := (Name.ofText a).map fun x =>
      let l := ",".intercalate ((List.range (x.length + 1)).map fun i => hexU64 (nameHash (x.take i)))
      l ++ " " ++ l
    { st := s, expected := want, cov := ["prefix-hash"],
      spec := crashSpec "PrefixHash" got ++
        (if !isCrash got && parts.getD 0 "x" != parts.getD 1 "y" then
          [⟨"prefix-hash", "ph", s!"PrefixHash differs from the hashes of the prefixes: {got}"⟩] else []) }
  | ["cln", a] =>
    -- NameFromBytes (decodes in place), Clone, then the source buffer is overwritten: the clone is still the name
    match Name.ofText a with
    | some x =>
      let lastT := match x.getLast? with | some c => c.toText | none => "0:"
      let want := a ++ " " ++ lastT
      { st := s, expected := some want, cov := ["clone"],
        spec := crashSpec "Clone" got ++
          (if !isCrash got && got != want then
            [⟨"clone-independent", "cln", s!"a clone of {a} (decoded from a buffer that was then reused) reads {got}"⟩] else []) }
    | none => bad s
  | "memp" :: toks =>
    -- MemoryStore: P:<name>:<version> puts, then Q:<name> = Get(name, prefix=true): index of the put served, or -
    let puts := toks.filterMap fun t =>
      match t.splitOn ":" with
      | "P" :: rest => match rest.reverse with
        | v :: nm => match Name.ofText (":".intercalate nm.reverse), v.toNat? with
          | some n, some ver => some (n, ver)
          | _, _ => none
        | _ => none
      | _ => none
    let qs := toks.filterMap fun t => if t.startsWith "Q:" then Name.ofText ((t.drop 2).toString) else none
    let want := " ".intercalate (qs.map fun q => match memNewest puts q with | some i => toString i | none => "-")
    { st := s, expected := some want, cov := ["memp"], nontrivial := puts.length ≥ 2,
      spec := crashSpec "MemoryStore.Get(prefix)" got ++
        (if !isCrash got && got != want then
          [⟨"prefix-agrees", "memp", s!"MemoryStore over {toks} answered {got}; the stored names under each queried prefix (Name.IsPrefix) prescribe {want}"⟩] else []) }
  | "pitm" :: toks =>
    -- PIT: I:<name>:<cbp> Interests, then D:<name>:<t> Data (t = index of the entry whose token it echoes, or -):
    -- indices of the entries matched
    let ints := toks.filterMap fun t =>
      match t.splitOn ":" with
      | "I" :: rest => match rest.reverse with
        | c :: nm => match Name.ofText (":".intercalate nm.reverse) with
          | some n => some (n, c == "1")
          | none => none
        | _ => none
      | _ => none
    let ds := toks.filterMap fun t =>
      match t.splitOn ":" with
      | "D" :: rest => match rest.reverse with
        | tk :: nm => match Name.ofText (":".intercalate nm.reverse) with
          | some n => some (n, tk.toNat?)
          | none => none
        | _ => none
      | _ => none
    let showL (l : List Nat) := if l.isEmpty then "-" else ",".intercalate (l.map toString)
    let want := " ".intercalate (ds.map fun d => match d.2 with
      | some t => showL (pitTokenMatch ints t)
      | none => showL (pitNameMatch ints d.1))
    { st := s, expected := some want, cov := ["pitm"], nontrivial := ints.length ≥ 2,
      spec := crashSpec "PIT data match" got ++
        (if !isCrash got && got != want then
          [⟨"prefix-agrees", "pitm", s!"the PIT over {toks} matched {got}; the token rule / the prefix relation prescribe {want}"⟩] else []) }
  | "tabr" :: kind :: toks => tabStep s "tabr" kind toks got
  | "tabx" :: kind :: toks => tabStep s "tabx" kind toks got
  | "tab" :: kind :: q :: ns =>
    -- a table keyed on names (kind = trie: engine NameTrie; mem: object MemoryStore): insert the names in
    -- order, report for each the index of the entry the table finds for it (its class), and for the trie the
    -- depth of the node PrefixMatch(q) returns.  Names the table cannot tell apart must be Equal.
    match Name.ofText q, ns.mapM Name.ofText with
    | some qn, some names =>
      let cls := classes compKey names
      let want := eqClasses names
      let showL (l : List Nat) := ",".intercalate (l.map toString)
      let d := prefixDepth compKey names qn
      let exp := if kind == "trie" then s!"c={showL cls} d={d}" else s!"c={showL cls}"
      let wantS := if kind == "trie" then s!"c={showL want} d={specPrefixDepth names qn}" else s!"c={showL want}"
      { st := s, expected := some exp, cov := ["tab-" ++ kind] ++ (if want.zipIdx.any (fun p => p.1 != p.2) then ["tab-equal-names"] else []),
        nontrivial := names.length ≥ 2,
        spec := crashSpec ("table " ++ kind) got ++
          (if !isCrash got && got != wantS then
            [⟨"table-keying", "tab-" ++ kind, s!"a {kind} table over {ns} (query {q}) answered {got}; by name equality it must answer {wantS}"⟩] else []) }
    | _, _ => bad s
  | _ => bad s

def main : IO Unit := Ndn.Driver.run ({} : S14) stepC14
