import NdnVerif.C01.FwDriver
/-! C09 executable: the shared Fw model driver reporting the clauses of C09. -/
def main : IO Unit := Ndn.Driver.run ({} : Ndn.Fw.Drv.DrvSt) (Ndn.Fw.Drv.stepFw "C09")
