/-
  C11 model driver: replays the harness trace through the Lean model of readTlvStream /
  StreamFace.Run (DIFF) and evaluates the specification — "the delivered frames are exactly the
  blocks, in order, none lost / duplicated / split / merged, each as soon as it is complete" —
  directly on the implementation's own output (SPEC).
-/
import NdnVerif.Driver.Common
import NdnVerif.C11.Model
import NdnVerif.C11.Spec
open Ndn Ndn.Driver Ndn.C11

/-- value pattern shared with harness/c11 `Fill` -/
def fillByte (seed i : Nat) : Nat :=
  if seed = 0 then 0xfd else if seed = 1 then 0xff
  else (seed * 131 + i * 7 + i / 256 * 13 + (i * i) % 251) % 256

def fill (n seed : Nat) : Bytes := (List.range n).map (fillByte seed)

def mkBlock (typ n seed : Nat) : Bytes := encTL typ ++ encTL n ++ fill n seed

/-- harness/c11 `BlockForm`: T in the `tf`-byte form, L in the `lf`-byte form (not necessarily shortest) -/
def mkBlockForm (typ tf n lf seed : Nat) : Bytes := encTLForm tf typ ++ encTLForm lf n ++ fill n seed

/-- listener legs: a block that is an Interest (harness/c11 `InterestBlock`) -/
def mkInterestBlock (n seed : Nat) : Bytes :=
  let comp := mkBlock 8 n seed
  let name := [7] ++ encTL comp.length ++ comp
  let body := name ++ [0x0a, 4, 1, 2, 3, 4]
  [5] ++ encTL body.length ++ body

def fnv64 (b : Bytes) : UInt64 :=
  b.foldl (fun h c => (h ^^^ c.toUInt64) * 0x100000001b3) 0xcbf29ce484222325

def hex64 (x : UInt64) : String := String.ofList (Nat.toDigits 16 x.toNat)

def digest (b : Bytes) : String := s!"{b.length}:{hex64 (fnv64 b)}"

def framesText (fs : List Bytes) : String :=
  if fs.isEmpty then "-" else ",".intercalate (fs.map digest)

inductive Kind | fw | app | sock | sockS | appS | none
  deriving DecidableEq

structure DSt where
  kind : Kind := .none
  -- implementation model
  stream : Bytes := []          -- bytes defined and not yet handed to Read
  st : St := init               -- fw
  appPending : Bytes := []      -- app / sock: bytes received and not yet framed
  sockAcc : List Bytes := []    -- sock: frames handed to the link service so far (reported at eof)
  allModel : List Bytes := []   -- app: every frame the model delivered in this history
  allImpl : List String := []   -- app spec: every frame digest the implementation reported at delivery
  sendMtu : Nat := 0            -- sockS: MTU of the SENDING transport
  plainUdp : Bool := false      -- sockS: the sender is a plain UDP socket of the harness (`new udp`)
  appo : Bool := false          -- application face opening its own connection
  lis : Bool := false           -- listener leg: blocks are Interests, frames = what reaches the forwarding thread
  blkQ : List Bytes := []       -- sockS: blocks defined and not yet handed to sendFrame
  sexpect : List (Nat × String) := []  -- sockS spec: blocks the sending transport must let through
  dead : Option String := none
  -- specification state (depends only on ops and implementation outputs)
  expect : List (Nat × String) := []   -- blocks defined and not yet delivered: (length, digest)
  credit : Nat := 0                     -- bytes handed over and not yet part of a delivered frame
  undelivered : Nat := 0                -- bytes defined and not yet handed over
  specDead : Bool := false

/-- evaluate the spec on one implementation output: frames delivered after `k` more bytes -/
def specFrames (d : DSt) (k : Nat) (frames : List String) (atEof : Bool) : DSt × List SpecFail := Id.run do
  let mut expect := d.expect
  let mut credit := d.credit + k
  let mut fails : List SpecFail := []
  for f in frames do
    if !fails.isEmpty then continue   -- framing is lost: report the first discrepancy only
    match expect with
    | [] =>
      fails := fails ++ [⟨"exactly-the-blocks", "extra-frame", s!"frame {f} delivered but every block was already delivered"⟩]
    | (len, dg) :: rest =>
      if f != dg then
        fails := fails ++ [⟨"exactly-the-blocks", "wrong-frame", s!"delivered {f}, next block is {dg}"⟩]
        expect := []   -- framing is lost; report once
      else
        if credit < len then
          fails := fails ++ [⟨"exactly-the-blocks", "early-frame", s!"frame {f} delivered before all its bytes were read"⟩]
        credit := credit - len
        expect := rest
  -- promptness: a block whose bytes were all read must have been handed up
  if fails.isEmpty then
    match expect with
    | (len, dg) :: _ =>
      if credit ≥ len then
        fails := fails ++ [⟨if atEof then "none-lost" else "prompt", "held-back", s!"block {dg} completely read ({credit} bytes pending) but not delivered"⟩]
    | [] => pure ()
  return ({ d with expect := expect, credit := credit, undelivered := d.undelivered - k }, fails)

def parseFrames (s : String) : List String := if s == "-" then [] else s.splitOn ","

/-- split "k=12 f=a,b ret=x" into fields -/
def field (toks : List String) (key : String) : Option String :=
  toks.findSome? fun t => if t.startsWith (key ++ "=") then some ((t.drop (key.length + 1)).toString) else none

/-- the next block is handed to the sending side (`sf`: one sendFrame / one datagram; `sfr`: a plain UDP
    peer sends it as TWO datagrams and, in between, the receiving transport's socket reports
    "connection refused" — the error the transport ignores; it must not cost the buffered half) -/
def sfStep (d : DSt) (got : String) (crash : List SpecFail) (extraCov : List String) : StepResult DSt :=
  -- the next block is handed to the sending transport's sendFrame: it is written to the stream iff
  -- it is not larger than that transport's MTU (`len(frame) > t.MTU()` → DROP), and must then come
  -- out of the receiving transport's receive loop
  if d.kind != .sockS then { st := d, expected := some "skip" } else
  match d.dead with
  | some r => { st := d, expected := some s!"dead {r}", spec := crash }
  | none =>
    match d.blkQ with
    | [] => { st := d, expected := some "skip", spec := crash }
    | b :: rest =>
      let hang : List SpecFail := if got.startsWith "hang" then [⟨"no-spin", "hang", s!"sf: {got}"⟩] else []
      if b.length ≤ d.sendMtu then
        let r := parseLoop (d.appPending ++ b)
        { st := { d with blkQ := rest, appPending := r.2.1, sockAcc := d.sockAcc ++ r.1,
                         sexpect := d.sexpect ++ [(b.length, digest b)], credit := d.credit + b.length },
          expected := some s!"k={b.length} w", spec := crash ++ hang,
          cov := [if b.length = d.sendMtu then "sf-size-eq-mtu" else "sf-sent"] ++ extraCov, nontrivial := b.length = d.sendMtu }
      else
        { st := { d with blkQ := rest }, expected := some s!"k={b.length} w", spec := crash ++ hang,
          cov := ["sf-larger-than-mtu-dropped"] }

def stepC11 (d : DSt) (op : String) (got : String) : StepResult DSt :=
  let crash : List SpecFail :=
    if isCrash got || (got.splitOn " ret=PANIC").length > 1 then [⟨"no-crash", "crash", s!"{op}: {got}"⟩] else []
  match op.splitOn " " with
  | ["new", "appo"] =>
    -- application face that opens its own connection (and is re-opened in mid-stream): the packets handed
    -- to the engine are reported at eof
    { st := { kind := .sock, appo := true }, expected := some "ok", cov := ["new-appo"] }
  | ["reopen", t, n, sd] =>
    -- the block reaches the engine; while its callback runs the application closes the face and opens
    -- it again: the block counts, and the stream goes on over the new connection
    if !d.appo then { st := d, expected := some "skip" } else
    match d.dead, t.toNat?, n.toNat?, sd.toNat? with
    | some r, _, _, _ => { st := d, expected := some s!"dead {r}", spec := crash }
    | none, some t, some n, some sd =>
      if !d.stream.isEmpty || !d.appPending.isEmpty then { st := d, expected := some "skip", spec := crash } else
      let b := mkBlock t n sd
      let hang : List SpecFail := if got.startsWith "hang" then [⟨"no-spin", "hang", s!"reopen: {got}"⟩] else []
      { st := { d with sockAcc := d.sockAcc ++ [b], expect := d.expect ++ [(b.length, digest b)], credit := d.credit + b.length,
                       specDead := d.specDead || got.startsWith "hang" },
        expected := some "ok", spec := crash ++ hang, cov := ["reopen"], nontrivial := true }
    | _, _, _, _ => { st := d, expected := some "bad-op" }
  | ["new", k] =>
    let kind := if k == "fw" then Kind.fw else if k == "app" then Kind.app
                else if k == "appsend" then Kind.appS else Kind.none
    if kind == .none then { st := {}, expected := some "bad-op" }
    else { st := { kind := kind }, expected := some "ok", cov := [s!"new-{k}"] }
  | ["new", k, mtu] =>
    -- the real TCP / Unix / UDP transport receive loop; its own (send) MTU must not matter on receive
    if (k == "tcp" || k == "unix" || k == "tcpr") && mtu.toNat?.isSome then
      { st := { kind := .sock }, expected := some "ok", cov := [s!"new-{k}"] }
    else if k == "udp" && mtu.toNat?.isSome then
      -- datagrams from a plain socket (no sending MTU): one block per `sf`
      { st := { kind := .sockS, sendMtu := 1073741824, plainUdp := true }, expected := some "ok", cov := [s!"new-{k}"] }
    else { st := {}, expected := some "bad-op" }
  | ["new", "lis", k, life] =>
    -- the face is made by the REAL listener (TCP listener: accept → transport → NDNLP link service;
    -- WebSocket listener handler): the Interests sent must all reach the forwarding thread, whatever
    -- the chunking, the message size or the age of the connection
    if life.toNat?.isNone then { st := {}, expected := some "bad-op" }
    else if k == "tcp" then { st := { kind := .sock, lis := true }, expected := some "ok", cov := ["new-lis-tcp"] }
    -- (a WebSocket message larger than the NDN packet size limit is dropped by the receiving transport, the
    -- messages after it are delivered as before: same outcome as a block the sender's MTU refuses)
    else if k == "ws" then { st := { kind := .sockS, sendMtu := maxPkt, lis := true }, expected := some "ok", cov := ["new-lis-ws"] }
    else { st := {}, expected := some "bad-op" }
  | ["pause", ms] =>
    if d.lis && ms.toNat?.isSome then { st := d, expected := some "ok", spec := crash, cov := ["lis-pause"] }
    else { st := d, expected := some "skip" }
  | ["new", k, smtu, rmtu] =>
    -- send-side leg: blocks go through the sendFrame of a real transport with MTU <smtu>; the MTU
    -- <rmtu> of the receiving transport (possibly lower) must not matter
    if (k == "tcpo" || k == "tcpa") && smtu.toNat?.isSome && rmtu.toNat?.isSome then
      -- the real OUTGOING TCP transport sends; the face is closed right after the last block while the peer
      -- (slow reader, small window) still lags: what was sent before the close must all arrive
      { st := { kind := .sockS, sendMtu := smtu.toNat?.getD 0 }, expected := some "ok", cov := [s!"new-{k}"] }
    else
    if k == "tcpb" && smtu.toNat?.isSome && rmtu.toNat?.isSome then
      -- back-pressure leg: a real TCP transport sends to a peer that reads nothing for <rmtu> ms
      -- and then everything: a blocked Write must neither lose nor tear a block
      { st := { kind := .sockS, sendMtu := smtu.toNat?.getD 0 }, expected := some "ok",
        cov := ["new-tcpb"] ++ (if rmtu.toNat?.getD 0 ≥ 2000 then ["tcpb-stall-over-2s"] else []) }
    else
    if (k == "tcps" || k == "unixs" || k == "udps") && smtu.toNat?.isSome && rmtu.toNat?.isSome then
      { st := { kind := .sockS, sendMtu := smtu.toNat?.getD 0 }, expected := some "ok",
        cov := [s!"new-{k}"] ++ (if rmtu.toNat?.getD 0 < smtu.toNat?.getD 0 then ["recv-mtu-below-send-mtu"] else []) }
    else { st := {}, expected := some "bad-op" }
  | ["blk", t, n, sd] =>
    if d.kind == .none then { st := d, expected := some "skip" } else
    match t.toNat?, n.toNat?, sd.toNat? with
    | some t, some n, some sd =>
      let b := if d.lis then mkInterestBlock n sd else mkBlock t n sd
      let d' := if d.kind == .sockS || d.kind == .appS then { d with blkQ := d.blkQ ++ [b] } else
                { d with stream := d.stream ++ b, expect := d.expect ++ [(b.length, digest b)],
                         undelivered := d.undelivered + b.length }
      { st := d', expected := some "ok", spec := crash,
        cov := [s!"blk-T{tlLen t}-L{tlLen n}"] ++ (if b.length = maxPkt then ["blk-maxsize"] else []) }
    | _, _, _ => { st := d, expected := some "bad-op" }
  | ["blkf", t, tf, n, lf, sd] =>
    if d.kind == .none || d.lis || d.kind == .sockS || d.kind == .appS then { st := d, expected := some "skip" } else
    match t.toNat?, tf.toNat?, n.toNat?, lf.toNat?, sd.toNat? with
    | some t, some tf, some n, some lf, some sd =>
      if !(decide (formFits tf t) && decide (formFits lf n)) then { st := d, expected := some "skip" } else
      let b := mkBlockForm t tf n lf sd
      let d' := { d with stream := d.stream ++ b, expect := d.expect ++ [(b.length, digest b)],
                         undelivered := d.undelivered + b.length }
      { st := d', expected := some "ok", spec := crash,
        cov := [s!"blkf-T{tf}-L{lf}"] ++ (if tf != tlLen t then ["blkf-T-not-shortest"] else []) ++
               (if lf != tlLen n then ["blkf-L-not-shortest"] else []) ++
               (if b.length = maxPkt then ["blk-maxsize"] else []) }
    | _, _, _, _, _ => { st := d, expected := some "bad-op" }
  | ["rs", n] =>
    -- application side, SEND: the same Wire value is passed to StreamFace.Send twice (a retransmitted Interest,
    -- a cached Data served again): the stream carries the block twice — Send must not consume its argument
    if d.kind != .appS || n.toNat?.isNone then { st := d, expected := some "skip" } else
    match d.blkQ with
    | a :: rest =>
      let frames := match field (got.splitOn " ") "f" with | some fs => parseFrames fs | none => []
      let fails : List SpecFail :=
        if got.startsWith "k=" && frames != [digest a, digest a] then
          [⟨"exactly-the-blocks", "resend-lost",
            s!"{op}: block {digest a} was handed to Send twice (the same Wire value), the stream carries {frames}"⟩]
        else if got == "send-error" then [⟨"exactly-the-blocks", "resend-lost", s!"{op}: Send failed"⟩]
        else []
      { st := { d with blkQ := rest }, expected := some s!"k={2 * a.length} f={digest a},{digest a}",
        spec := crash ++ fails, cov := ["rs"], nontrivial := true }
    | _ => { st := d, expected := some "skip" }
  | ["cs", na, nb] =>
    -- application side, SEND: two goroutines call StreamFace.Send concurrently (Wires of <na> and <nb>
    -- buffers); the face serialises whole Wires, so the byte stream is the two blocks, unsplit
    if d.kind != .appS || na.toNat?.isNone || nb.toNat?.isNone then { st := d, expected := some "skip" } else
    match d.blkQ with
    | a :: b :: rest =>
      let frames := match field (got.splitOn " ") "f" with | some fs => parseFrames fs | none => []
      let ok := frames = [digest a, digest b] || frames = [digest b, digest a]
      let fails : List SpecFail :=
        if got.startsWith "hang" then [⟨"no-spin", "hang", s!"{op}: {got}"⟩]
        else if got.startsWith "k=" && !ok then
          [⟨"exactly-the-blocks", "send-interleaved",
            s!"{op}: two concurrent Sends of blocks {digest a} and {digest b} produced the stream {frames}: a block was split / merged on the wire"⟩]
        else []
      { st := { d with blkQ := rest }, expected := some s!"k={a.length + b.length} f={digest a},{digest b}",
        spec := crash ++ fails, cov := ["cs"], nontrivial := true }
    | _ => { st := d, expected := some "skip" }
  | ["sf"] => sfStep d got crash []
  | ["sfr", k] =>
    if k.toNat?.isNone then { st := d, expected := some "bad-op" } else
    if !d.plainUdp then { st := d, expected := some "skip" } else
    sfStep d got crash ["sfr-refused-mid-block"]
  | ["rst"] =>
    -- tcpr: the connection of a permanent outgoing TCP face is aborted and the face dials again.  The
    -- byte stream of the old connection has ENDED: the block received only in part is gone, and the
    -- new connection starts with an empty receive buffer (what was defined and not written is dropped)
    if d.kind != .sock then { st := d, expected := some "skip" } else
    match d.dead with
    | some r => { st := d, expected := some s!"dead {r}", spec := crash }
    | none =>
      -- specification: the blocks completely handed over stay owed, the others are dropped
      let kept := (d.expect.foldl (fun (acc : List (Nat × String) × Nat) b =>
                    if acc.2 + b.1 ≤ d.credit then (acc.1 ++ [b], acc.2 + b.1) else (acc.1, d.credit + 1)) ([], 0)).1
      let sent := kept.foldl (fun a b => a + b.1) 0
      let hang : List SpecFail := if got.startsWith "hang" then [⟨"no-spin", "hang", s!"rst: {got}"⟩] else []
      { st := { d with stream := [], appPending := [], expect := kept, credit := sent, undelivered := 0,
                       specDead := d.specDead || got.startsWith "hang" },
        expected := some "ok", spec := crash ++ hang,
        cov := [if d.appPending.isEmpty then "rst-at-boundary" else "rst-mid-block"], nontrivial := !d.appPending.isEmpty }
  | [rdop, n] =>
    if rdop != "rd" && rdop != "rde" then { st := d, expected := some "bad-op" } else
    let withErr := rdop == "rde"
    if d.kind == .none then { st := d, expected := some "skip" } else
    match n.toNat? with
    | none => { st := d, expected := some "bad-op" }
    | some n =>
      -- specification side, on the implementation's own answer
      let toks := got.splitOn " "
      let (dS, fails) :=
        if d.specDead then (d, []) else
        match field toks "k", field toks "f" with
        | some ks, some fs => specFrames d (ks.toNat?.getD 0) (parseFrames fs) false
        | some ks, none =>   -- socket kinds: bytes written to the peer end, frames are reported at eof
          ({ d with credit := d.credit + ks.toNat?.getD 0, undelivered := d.undelivered - ks.toNat?.getD 0 }, [])
        | _, _ => (d, [])
      let fails := fails ++ (if got.startsWith "stall" then [⟨"no-stall", "stall", s!"{op}: Read was offered an empty buffer (the receive loop spins, everything after this point is lost): {got}"⟩] else [])
      let fails := fails ++ (if got.startsWith "hang" then [⟨"no-spin", "hang", s!"{op}: the receive loop neither returned to Read nor terminated: {got}"⟩] else [])
      let fails := fails ++ (if (field toks "ret").isSome && !d.specDead then
                               [⟨"no-abort", "early-return", s!"{op}: readTlvStream returned on a well-formed stream: {got}"⟩] else [])
      let dS := { dS with specDead := d.specDead || (field toks "ret").isSome || got.startsWith "dead" || got.startsWith "hang" || got.startsWith "stall" || !crash.isEmpty }
      -- model side
      match d.dead with
      | some r => { st := dS, expected := some s!"dead {r}", spec := crash ++ fails }
      | none =>
        let n' := min n d.stream.length
        if withErr && d.kind != .fw then { st := dS, expected := some "skip", spec := crash ++ fails } else
        if n' = 0 && !withErr then { st := dS, expected := some "skip", spec := crash ++ fails } else
        match d.kind with
        | .sock =>
          let chunk := d.stream.take n'
          let r := parseLoop (d.appPending ++ chunk)
          { st := { dS with stream := d.stream.drop n', appPending := r.2.1, sockAcc := d.sockAcc ++ r.1 },
            expected := some s!"k={n'} w", spec := crash ++ fails,
            cov := [if r.1.isEmpty then "sock-no-frame" else "sock-frames"] }
        | .fw =>
          -- an ignorable error alone, or together with the bytes: after the repair of readTlvStream it
          -- is transparent (the bytes are processed first, then the error is ignored)
          if withErr && (n' = 0 || d.st.free = 0) then
            let r := onRead d.st []
            { st := { dS with st := r.1 }, expected := some s!"k=0 f={framesText r.2.1}", spec := crash ++ fails,
              cov := ["rde-error-alone"] }
          else
          if d.st.free = 0 then { st := dS, expected := some "stall k=0 f=-", spec := crash ++ fails, cov := ["rd-stall"] } else
          let k := min n' d.st.free
          let chunk := d.stream.take k
          let r := onRead d.st chunk
          let rest := r.1.unread
          let cov := (if k < n' then ["rd-bounded-by-free"] else []) ++
                     (if r.2.1.length ≥ 2 then ["rd-multi-frame"] else if r.2.1.length = 1 then ["rd-one-frame"] else ["rd-no-frame"]) ++
                     (if rest.isEmpty then ["rest-empty"] else
                       match decTL rest with
                       | none => ["rest-inside-T"]
                       | some (_, r1) => match decTL r1 with
                         | none => ["rest-inside-L"]
                         | some _ => ["rest-inside-value"]) ++
                     (if r.1.tlvOff = 0 then ["compact"] else ["no-compact"]) ++
                     (if k = 1 then ["rd-1byte"] else []) ++
                     (if withErr then [if r.2.1.isEmpty then "rde-bytes-with-error" else "rde-bytes-with-error-complete-block"] else [])
          let nt := !rest.isEmpty && (match decTL rest with | none => true | some (_, r1) => (decTL r1).isNone)
          let base := s!"k={k} f={framesText r.2.1}"
          let (exp, dead) : Option String × Option String := match r.2.2 with
            | .more => (some base, none)
            | .tooMuch => (some (base ++ " ret=err"), some "err")
            | .tooBig => (some (base ++ " ret=err"), some "err")
            | _ => (none, some "?")
          { st := { dS with stream := d.stream.drop k, st := r.1, dead := dead }, expected := exp,
            spec := crash ++ fails, cov := cov, nontrivial := nt }
        | .app =>
          let k := n'
          let chunk := d.stream.take k
          let r := appLoop (d.appPending ++ chunk)
          let rest := r.2.1
          let cov := (if r.1.length ≥ 2 then ["app-multi-frame"] else if r.1.length = 1 then ["app-one-frame"] else ["app-no-frame"]) ++
                     (if rest.isEmpty then ["app-rest-empty"] else
                       match decTL rest with
                       | none => ["app-rest-inside-T"]
                       | some (_, r1) => match decTL r1 with
                         | none => ["app-rest-inside-L"]
                         | some _ => ["app-rest-inside-value"])
          let nt := !rest.isEmpty && (match decTL rest with | none => true | some (_, r1) => (decTL r1).isNone)
          let (exp, dead) : Option String × Option String := match r.2.2 with
            | .more => (some s!"k={k} f={framesText r.1}", none)
            | _ => (none, some "?")
          let implNow := match field toks "f" with | some fs => parseFrames fs | none => []
          { st := { dS with stream := d.stream.drop k, appPending := rest, dead := dead,
                            allModel := d.allModel ++ r.1, allImpl := d.allImpl ++ implNow }, expected := exp,
            spec := crash ++ fails, cov := cov, nontrivial := nt }
        | .sockS => { st := dS, expected := some "skip", spec := crash }
        | .appS => { st := dS, expected := some "skip", spec := crash }
        | .none => { st := dS, expected := some "skip" }
  | ["eof"] =>
    if d.kind == .none then { st := d, expected := some "skip" } else
    let toks := got.splitOn " "
    let (dS, fails) :=
      if d.specDead then (d, []) else
      let frames := match field toks "f" with | some fs => parseFrames fs | none => []
      let d := if d.kind == .sockS then { d with expect := d.sexpect, undelivered := 0 } else d
      let (dS, f1) := specFrames d 0 frames true
      -- every block whose bytes were all handed over must have been delivered by now
      let f2 : List SpecFail :=
        if f1.isEmpty && dS.undelivered = 0 && !dS.expect.isEmpty then
          [⟨"none-lost", "lost-at-eof", s!"{dS.expect.length} block(s) never delivered although every byte was read"⟩] else []
      let f3 : List SpecFail :=
        if got.startsWith "hang" then [⟨"no-spin", "hang", s!"eof: the receive loop did not terminate: {got}"⟩]
        else if !(got.startsWith "nil") && !isCrash got && !(got.startsWith "dead") then
          [⟨"no-abort", "eof-error", s!"EOF on a well-formed stream reported as {got}"⟩] else []
      -- application side: the packets handed to the engine must keep their bytes (the engine keeps
      -- slices of them); the harness retained them uncopied and digests all of them again at eof
      let f4 : List SpecFail :=
        match field toks "h" with
        | some hs =>
          let now := parseFrames hs
          if now = d.allImpl then [] else
            let bad := (List.range d.allImpl.length).filter fun k => now[k]? ≠ d.allImpl[k]?
            [⟨"delivered-bytes-stable", "changed-after-delivery",
              s!"{bad.length} of the {d.allImpl.length} packets handed to the engine (delivery no. {(bad.take 8).map (· + 1)}) no longer have the bytes they were delivered with"⟩]
        | none => []
      (dS, f1 ++ f2 ++ f3 ++ f4)
    match d.dead with
    | some r => { st := { dS with specDead := true }, expected := some s!"dead {r}", spec := crash ++ fails }
    | none =>
      let exp := if d.kind == .sock || d.kind == .sockS then s!"nil f={framesText d.sockAcc}"
                 else if d.kind == .app then s!"nil h={framesText d.allModel}" else "nil"
      { st := { dS with dead := some "nil", specDead := true }, expected := some exp, spec := crash ++ fails, cov := ["eof"] }
  | _ => { st := d, expected := some "bad-op" }

def main : IO Unit := Ndn.Driver.run ({} : DSt) stepC11
