/-
  Driver/C06.lean — replays a C06 trace (the real RIB on top of each of the two real FIBs) through
  the Lean RIB model (expected output → DIFF) and evaluates the specification (C06/Spec.lean:
  route map + `flatten` + LPM) on the implementation's own outputs (→ SPEC).

  protocol (see harness/c06/c06_test.go):
    new <m> <n1>,<n2>,…                          => ok
    reg <name> <face> <origin> <cost> <flags>    => ok
    unreg <name> <face> <origin>                 => ok
    cleanup <face>                               => ok
    qa                                           => T <hops>|<hops>|…  H <hops>|…      (FindNextHopsEnc per universe name)
    lf                                           => T <name>=<hops>;… H …                 (GetAllFIBEntries)
    lr                                           => T <name>=<face>/<origin>/<cost>/<flags>,…;… H …   (Rib.GetAllEntries)
-/
import NdnVerif.Driver.Common
import NdnVerif.C06.Model
open Ndn Ndn.Driver Ndn.C05 Ndn.C06

namespace C06Driver

def insertBy {α : Type} (lt : α → α → Bool) (x : α) : List α → List α
  | [] => [x]
  | y :: t => if lt x y then x :: y :: t else y :: insertBy lt x t

def sortBy {α : Type} (lt : α → α → Bool) (l : List α) : List α := l.foldl (fun acc x => insertBy lt x acc) []

def renderHops (h : Hops) : String :=
  if h.isEmpty then "-"
  else ",".intercalate ((sortBy (fun a b => a.1 < b.1 || (a.1 == b.1 && a.2 < b.2)) h).map fun p => s!"{p.1}:{p.2}")

def renderListing (l : List (String × String)) : String :=
  if l.isEmpty then "-"
  else ";".intercalate ((sortBy (fun a b => a.1 < b.1 || (a.1 == b.1 && a.2 < b.2)) l).map fun p => p.1 ++ "=" ++ p.2)

def renderFib (l : List (Name × Hops)) : String := renderListing (l.map fun p => (p.1.toText, renderHops p.2))

def routeLt (a b : Route) : Bool :=
  a.face < b.face || (a.face == b.face && (a.origin < b.origin || (a.origin == b.origin &&
    (a.cost < b.cost || (a.cost == b.cost && a.flags < b.flags)))))

def renderRoutes (rs : List Route) : String :=
  ",".intercalate ((sortBy routeLt rs).map fun r => s!"{r.face}/{r.origin}/{r.cost}/{r.flags}")

def renderRib (l : List (Name × List Route)) : String := renderListing (l.map fun p => (p.1.toText, renderRoutes p.2))

structure DSt where
  univ : List Name := []
  model : C06.St := C06.St.init []
  spec : C06.Spec := C06.Spec.init
  removed : Bool := false

def splitTH (got : String) : Option (String × String) :=
  if got.startsWith "T " then
    match (got.drop 2).toString.splitOn " H " with
    | [x, y] => some (x, y)
    | _ => none
  else none

def firstDiff (a b : List String) (i : Nat := 0) : Option (Nat × String × String) :=
  match a, b with
  | [], [] => none
  | x :: xs, y :: ys => if x == y then firstDiff xs ys (i + 1) else some (i, x, y)
  | x :: _, [] => some (i, x, "<missing>")
  | [], y :: _ => some (i, "<missing>", y)

/-- classify a wrong lookup: the implementation forwards to faces the flattening does not
    contain (`extra`), misses some (`missing`) or has a wrong cost (`cost`) -/
def classify (want got : String) : String :=
  let faces (s : String) : List String := if s == "-" then [] else (s.splitOn ",").map fun x => (x.splitOn ":").headD ""
  let fw := faces want
  let fg := faces got
  if fg.any (fun f => !fw.contains f) then "extra-face"
  else if fw.any (fun f => !fg.contains f) then "missing-face"
  else "cost"

def lookupSpec (which : String) (names : List Name) (want got : List String) : List SpecFail :=
  match firstDiff want got with
  | none => []
  | some (i, w, g) =>
    let nm := (names.getD i []).toText
    [⟨"fib-eq-flatten", which ++ ":" ++ classify w g,
      s!"RIB over {which} FIB: lookup of {nm} must give {w} (flattening of the registered routes), implementation returned {g}"⟩]

def listSpec (clause which : String) (want got : String) : List SpecFail :=
  if want == got then []
  else
    let root := (got.startsWith "/=" || (got.splitOn ";/=").length > 1) && !(want.startsWith "/=")
    [⟨clause, which ++ (if root then ":root-entry" else ""), s!"RIB over {which} FIB: listing is {got}, must be exactly {want}"⟩]

def mutate (st : DSt) (op : C06.Op) (got : String) : StepResult DSt :=
  let m' := st.model.apply op
  let s' := st.spec.apply op
  let covP := if m'.rib.nodes.length + 1 < st.model.rib.nodes.length then ["rib-prune-chain"]
    else if m'.rib.nodes.length < st.model.rib.nodes.length then ["rib-prune-leaf"]
    else if m'.rib.nodes.length > st.model.rib.nodes.length + 1 then ["rib-fill-chain"]
    else if m'.rib.nodes.length > st.model.rib.nodes.length then ["rib-fill-one"] else []
  let covO := match op with
    | .reg n r =>
      [if (st.spec.routesAt n).any (fun x => x.sameKey r.face r.origin) then "reg-update" else "reg-new",
       if r.capture then "reg-capture" else "reg-nocapture", if r.childInherit then "reg-inherit" else "reg-noinherit"]
      ++ (if (st.spec.routesAt n).any (fun x => x.face == r.face && x.origin != r.origin) then ["reg-same-face-other-origin"] else [])
    | .unreg n f o =>
      [if (st.spec.routesAt n).any (fun x => x.sameKey f o) then
         (if (st.spec.routesAt n).length == 1 then "unreg-last" else "unreg-hit") else "unreg-miss"]
    | .cleanup f =>
      let k := (st.spec.routes.filter fun p => p.2.any fun r => r.face == f).length
      [if k == 0 then "cleanup-none" else if k == 1 then "cleanup-one" else "cleanup-many"]
      ++ (if st.spec.routes.any (fun p => (p.2.filter fun r => r.face == f).length ≥ 2) then ["cleanup-two-origins"] else [])
      ++ (if (st.spec.routesAt []).any (fun r => r.face == f) then ["cleanup-root"] else [])
  let removed := st.removed || (match op with | .reg .. => false | _ => true)
  { st := { st with model := m', spec := s', removed := removed }, expected := some "ok", cov := covP ++ covO,
    spec := if isCrash got then [⟨"no-panic", "op", s!"RIB operation crashed: {got}"⟩] else [] }

def inhTag (s : C06.Spec) (n : Name) : List String :=
  let own := s.routesAt n
  if own.isEmpty then []
  else if own.any Route.capture then ["flatten-own-capture"]
  else
    let inh := inherited s.routesAt n n.length
    let stopped := (List.range n.length).any fun k => (s.routesAt (n.take k)).any Route.capture
    (if inh.isEmpty then ["flatten-no-inherit"] else ["flatten-inherit"]) ++ (if stopped then ["flatten-ancestor-capture"] else [])

def dedup (l : List String) : List String := l.foldl (fun acc x => if acc.contains x then acc else acc ++ [x]) []

def step (st : DSt) (op : String) (got : String) : StepResult DSt :=
  match op.splitOn " " with
  | ["new", m, names] =>
    match m.toNat?, (names.splitOn ",").mapM Name.ofText with
    | some _, some univ => { st := { univ := univ }, expected := some "ok" }
    | _, _ => { st := {}, expected := some "bad-op" }
  | ["reg", n, f, o, c, fl] =>
    match Name.ofText n, f.toNat?, o.toNat?, c.toNat?, fl.toNat? with
    | some n, some f, some o, some c, some fl => mutate st (.reg n ⟨f, o, c, fl⟩) got
    | _, _, _, _, _ => { st := st, expected := some "bad-op" }
  | ["unreg", n, f, o] =>
    match Name.ofText n, f.toNat?, o.toNat? with
    | some n, some f, some o => mutate st (.unreg n f o) got
    | _, _, _ => { st := st, expected := some "bad-op" }
  | ["cleanup", f] =>
    match f.toNat? with
    | some f => mutate st (.cleanup f) got
    | _ => { st := st, expected := some "bad-op" }
  | ["qa"] =>
    let want := st.univ.map fun n => renderHops (st.spec.lookup n)
    let mm := "|".intercalate (st.univ.map fun n => renderHops (st.model.fib.lpmNextHops n))
    let sp := match splitTH got with
      | some (x, y) => lookupSpec "tree" st.univ want (x.splitOn "|") ++ lookupSpec "hash" st.univ want (y.splitOn "|")
      | none => [⟨"no-panic", "qa", s!"lookup crashed or malformed: {got.take 200}"⟩]
    { st := st, expected := some s!"T {mm} H {mm}", spec := sp,
      cov := dedup (st.univ.flatMap (inhTag st.spec)),
      nontrivial := st.removed && st.spec.routes.length ≥ 2 }
  | ["lf"] =>
    let want := renderFib st.spec.listFib
    let mm := renderFib st.model.fib.listFib
    let sp := match splitTH got with
      | some (x, y) => listSpec "fib-entries" "tree" want x ++ listSpec "fib-entries" "hash" want y
      | none => [⟨"no-panic", "lf", s!"listing crashed or malformed: {got.take 200}"⟩]
    { st := st, expected := some s!"T {mm} H {mm}", spec := sp }
  | ["lr"] =>
    let want := renderRib st.spec.listRib
    let mm := renderRib st.model.rib.list
    let sp := match splitTH got with
      | some (x, y) => listSpec "rib-entries" "tree" want x ++ listSpec "rib-entries" "hash" want y
      | none => [⟨"no-panic", "lr", s!"listing crashed or malformed: {got.take 200}"⟩]
    { st := st, expected := some s!"T {mm} H {mm}", spec := sp }
  | _ => { st := st, expected := some "bad-op" }

end C06Driver

def main : IO Unit := Ndn.Driver.run ({} : C06Driver.DSt) C06Driver.step
