/-
  Driver/C04.lean — replays the C04 harness trace: decoders (generic schema interpreter of C13 over
  the regenerated schema table), ReadPacket, link-service receive path, stream framing, dispatch.
-/
import NdnVerif.Driver.Common
import NdnVerif.C13.Text
import NdnVerif.C04.Model
import NdnVerif.C04.SegmentedModel
import NdnVerif.Gen.C13Schemas
open Ndn Ndn.Driver Ndn.C13 Ndn.C04

def findSchema (n : String) : Option Schema := Ndn.Gen.C13.allSchemas.find? (·.name == n)

/-- value of the field with type number `typ` -/
def fieldVal : Fields → Vals → Nat → Val
  | .cons t k fs, .cons v vs, typ => if k.hasTyp && t == typ then v else fieldVal fs vs typ
  | _, _, _ => .absent

def subFields : Fields → Nat → Fields
  | .cons t k fs, typ =>
    if t == typ then (match k with | .struct _ sf => sf | _ => .nil) else subFields fs typ
  | .nil, _ => .nil

def isPresent : Val → Bool
  | .absent => false
  | _ => true

def natOf : Val → Option Nat
  | .nat n => some n
  | _ => none

def bytesOf : Val → Option Bytes
  | .bytes b => some b
  | _ => none

inductive RP where
  | err
  | ok (p : Pkt)
  | unknown      -- depends on a SHA-256 digest comparison (Interest with ApplicationParameters)

/-- `spec.ReadPacket(enc.NewBufferReader(b))` -/
def readPacket (s : Schema) (b : Bytes) : RP :=
  match parse s false b with
  | .ok vs _ =>
    let vi := fieldVal s.fields vs 5
    let vd := fieldVal s.fields vs 6
    let vl := fieldVal s.fields vs 100
    let lpInfo : Option LpInfo := match vl with
      | .struct lv =>
        let lf := subFields s.fields 100
        some ⟨natOf (fieldVal lf lv 81), natOf (fieldVal lf lv 82), natOf (fieldVal lf lv 83),
              bytesOf (fieldVal lf lv 98), bytesOf (fieldVal lf lv 80)⟩
      | _ => none
    let pkt : Pkt := ⟨isPresent vi, isPresent vd, lpInfo⟩
    match vd, vi, vl with
    | .struct dv, _, _ => if isPresent (fieldVal (subFields s.fields 6) dv 7) then .ok pkt else .err
    | _, .struct iv, _ =>
      let f := subFields s.fields 5
      let lastDigest := match fieldVal f iv 7 with
        | .name n => (match n.getLast? with | some c => c.typ == 2 | none => false)
        | _ => false
      if !isPresent (fieldVal f iv 7) then .err
      else if isPresent (fieldVal f iv 46) && !isPresent (fieldVal f iv 36) then .err
      else if !isPresent (fieldVal f iv 36) then (if lastDigest then .err else .ok pkt)   -- digest without parameters
      else if !lastDigest then .err            -- parameters without a trailing digest component
      else .unknown                             -- SHA-256 comparison
    | _, _, .struct _ => match lpInfo with
      | some i => if i.fragment.isSome then .ok pkt else .err
      | none => .err
    | _, _, _ => .err
  | _ => .err

inductive Mode where
  | none | dec (s : Schema) | pkt (s : Schema) | link (s : Schema) | stream | disp (n : Nat) | udp

structure St where
  mode : Mode := .none
  -- link: model state
  cfgThreads : Nat := 1
  cfgReasm : Bool := true
  link : LinkSt := { store := [] }
  synced : Bool := true
  -- link: spec state (from the implementation's outputs only)
  prevStore : String := "0/0/0"
  prevCnt : String := "0/0"
  frames : Nat := 0
  frameBytes : Nat := 0

/-- the harness's `splitCuts`: ascending absolute offsets, clamped; equal neighbours give an empty segment -/
def segsOf (b : Bytes) (cuts : List Nat) : List Bytes :=
  let rec go (prev : Nat) : List Nat → List Bytes
    | [] => [b.drop prev]
    | c :: cs =>
      let c := min (max c prev) b.length
      (b.drop prev).take (c - prev) :: go c cs
  go 0 cuts

def clsText : Res Vals → String
  | .ok _ _ => "ok"
  | .err _ => "err"
  | .panic => "PANIC model"
  | .fuel => "FUEL model"

def crashSpec (what key op got : String) : List SpecFail :=
  if got.startsWith "TIMEOUT" || (got.splitOn "watchdog timeout").length > 1 then [⟨"no-spin", key, s!"{what} did not return on {op.take 160}"⟩]
  else if got.startsWith "MISMATCH" then [⟨"segmented-eq-contiguous", key, s!"{what} through the segmented reader returned a different value than through the contiguous reader on {op.take 160}"⟩]
  else if got.startsWith "PANIC" || got.startsWith "CRASH" then [⟨"no-panic", key, s!"{what} crashed on {op.take 160}: {got}"⟩]
  else if got.startsWith "ALLOC" then [⟨"alloc-linear", key, s!"{what} allocated out of proportion to its input on {op.take 160}: {got}"⟩]
  else []

def kv (s key : String) : String :=
  match (s.splitOn " ").find? (·.startsWith (key ++ "=")) with
  | some t => (t.drop (key.length + 1)).toString
  | none => ""

/-- `soak`: the first 8 bytes of the harness's Data /s with content "soak", and the LpPacket that carries
    them as fragment 0 of 2 with the given 8-byte sequence number -/
def soakFragment : Bytes := [0x06, 0x12, 0x07, 0x03, 0x08, 0x01, 0x73, 0x15]

def soakFrame (seq : Nat) (frag : Bytes) : Bytes :=
  let be8 : Bytes := (List.range 8).map fun k => (seq / 256 ^ (7 - k)) % 256
  let h1 : Bytes := [0x51, 0x08]
  let h2 : Bytes := [0x52, 0x01, 0x00, 0x53, 0x01, 0x02, 0x50, frag.length]
  let inner : Bytes := h1 ++ be8 ++ h2 ++ frag
  let h0 : Bytes := [0x64, inner.length]
  h0 ++ inner

def storeStats (st : List (Nat × List Bytes)) : String :=
  let slots := (st.map (·.2.length)).sum
  let bytes := (st.map fun e => (e.2.map (·.length)).sum).sum
  s!"{st.length}/{slots}/{bytes}"

/-- chunk text of the stream ops: items separated by ',', parts by '.', part = hex or z<count> -/
def parseChunk (s : String) : Option Bytes :=
  (s.splitOn ".").foldlM (fun acc part =>
    if part == "" || part == "-" then some acc
    else if part.startsWith "z" then (part.drop 1).toString.toNat?.map fun n => acc ++ List.replicate n 0
    else (bytesOfHexAux part.toList).map fun b => acc ++ b) []

def step (st : St) (op : String) (got : String) : StepResult St :=
  match op.splitOn " " with
  | ["new", "dec", name] =>
    match findSchema name with
    | some s => { st := { mode := .dec s }, expected := some "ok" }
    | none => { st := { mode := .none }, expected := some "skip" }
  | ["new", "pkt"] =>
    match findSchema "spec_2022.Packet" with
    | some s => { st := { mode := .pkt s }, expected := some "ok" }
    | none => { st := { mode := .none }, expected := some "model-has-no-Packet-schema" }
  | ["new", "link", n, r] =>
    match findSchema "spec_2022.Packet" with
    | some s => { st := { mode := .link s, cfgThreads := n.toNat?.getD 1, cfgReasm := r == "1" }, expected := some "ok" }
    | none => { st := { mode := .none }, expected := some "model-has-no-Packet-schema" }
  | ["new", "stream"] => { st := { mode := .stream }, expected := some "ok" }
  | ["new", "udp"] => { st := { mode := .udp }, expected := none }
  | ["new", "udpl"] => { st := { mode := .udp }, expected := none }
  | ["first", hex] =>
    -- the first datagram of a new remote endpoint at the real UDP listener: whatever its bytes (none at
    -- all included), the listener survives and the endpoint gets its on-demand face
    { st := st, expected := if got == "skip" then none else some "faces=+1",
      spec := if isCrash got then [⟨"no-panic", "udp-listener", s!"the UDP listener crashed on the first datagram ({hex}) of a new endpoint: {got}"⟩] else [],
      cov := ["udpl-first"] ++ (if hex == "-" then ["udpl-first-empty"] else []), nontrivial := true }
  | ["persist", _] =>
    { st := st, expected := if got == "skip" then none else some "ok",
      spec := if isCrash got then [⟨"no-panic", "udp-transport", s!"face update crashed: {got}"⟩] else [] }
  | ["dgram", hex] =>
    match bytesOfHex hex with
    | some b =>
      -- a datagram made of complete TLV blocks is accounted in full and handed to the link service
      { st := st, expected := if got == "skip" then none else some s!"in={b.length}",
        spec := if isCrash got then [⟨"no-panic", "udp-transport", s!"the UDP transport's receive loop crashed on a datagram of {b.length} bytes: {got}"⟩] else [],
        cov := ["udp-dgram"], nontrivial := true }
    | none => { st := st, expected := some "bad-op" }
  | ["new", "disp", n] => { st := { mode := .disp (n.toNat?.getD 1) }, expected := some "ok" }
  | ["p", ic, hex, cuts] =>
    match st.mode, bytesOfHex hex with
    | .dec s, some b =>
      let key := s.name ++ (if cuts == "-" then ":buf" else ":wire")
      let sp := crashSpec ("Parse of " ++ s.name) key op got
      if cuts == "-" then
        let r := parse s (ic == "1") b
        { st := st, expected := some (clsText r), spec := sp,
          cov := [match r with | .ok _ _ => "dec-ok" | _ => "dec-err"], nontrivial := true }
      else
        -- segmented input: the reader-based interpreter over the WireReader model (C03/Reader.lean);
        -- `parseR_eq_parse` proves it equal to the contiguous decoder when the segments after the first are
        -- non-empty; other segmentations are compared too (the model has the same empty-segment handling)
        match (cuts.splitOn ",").mapM String.toNat? with
        | some cs =>
          let segs := segsOf b cs
          let healthy := (segs.drop 1).all (fun x => !x.isEmpty)
          -- small inputs run the WireReader model itself (ties C03/Reader.lean + parseR to the real code);
          -- larger ones use the contiguous decoder, which `parseR_eq_parse` proves equal on healthy readers
          let r := if b.length ≤ 40 then Ndn.C04.Seg.parseR s (ic == "1") (Ndn.C03.newWireReader segs)
                   else parse s (ic == "1") b
          { st := st, expected := if healthy then some (clsText r) else none, spec := sp,
            cov := [if !healthy then "dec-wire-emptyseg" else if b.length ≤ 40 then "dec-wire-model" else "dec-wire"], nontrivial := true }
        | none => { st := st, expected := none, spec := sp, cov := ["dec-wire"] }
    | _, _ => { st := st, expected := some "skip" }
  | ["rp", hex, cuts] =>
    match st.mode, bytesOfHex hex with
    | .pkt s, some b =>
      let sp := crashSpec "ReadPacket" (if cuts == "-" then "ReadPacket:buf" else "ReadPacket:wire") op got
      if cuts == "-" then
        match readPacket s b with
        | .ok _ => { st := st, expected := some "ok", spec := sp, cov := ["rp-ok"], nontrivial := true }
        | .err => { st := st, expected := some "err", spec := sp, cov := ["rp-err"], nontrivial := true }
        | .unknown => { st := st, expected := none, spec := sp, cov := ["rp-digest"] }
      else { st := st, expected := none, spec := sp, cov := ["rp-wire"] }
    | _, _ => { st := st, expected := some "skip" }
  | ["frame", hex] =>
    match st.mode, bytesOfHex hex with
    | .link s, some b =>
      let sp := crashSpec "handleIncomingFrame" "link" op got
      -- spec on the implementation's own outputs
      let gStore := kv got "store"
      let gCnt := kv got "cnt"
      let frames := st.frames + 1
      let fbytes := st.frameBytes + b.length
      let bad := got.startsWith "PANIC" || got.startsWith "ALLOC" || got.startsWith "TIMEOUT" || got.startsWith "CRASH"
      let spRej :=
        if !bad && kv got "dec" == "0" &&
            (kv got "i" != "0" || !(kv got "d").startsWith "0" || gStore != st.prevStore || gCnt != st.prevCnt) then
          [⟨"reject-no-state-change", "link", s!"a frame that failed to decode changed link state: before store={st.prevStore} cnt={st.prevCnt}, after {got}"⟩]
        else []
      let spBound :=
        match gStore.splitOn "/" with
        | [_, sl, by_] =>
          if sl.toNat?.getD 0 > maxFragments * frames || by_.toNat?.getD 0 > fbytes then
            [⟨"store-bounded", "link", s!"partial message store out of proportion after {frames} frames / {fbytes} bytes: {gStore}"⟩] else []
        | _ => []
      -- packets already queued to the forwarding threads stay untouched by later frames (the harness
      -- keeps them uncopied and renders them again after every frame, which arrives in a reused buffer)
      let spQ : List SpecFail :=
        if !bad && (kv got "qs").startsWith "0" then
          [⟨"reject-no-state-change", (if kv got "dec" == "0" then "queued-packet" else "queued-packet-later-frame"),
            s!"after this frame (dec={kv got "dec"}) a packet queued EARLIER to a forwarding thread (no. {(kv got "qs").drop 2}) no longer has the name / bytes / token it was queued with"⟩]
        else []
      let spRej := spRej ++ spQ
      let st1 := { st with frames := frames, frameBytes := fbytes,
                           prevStore := if bad then st.prevStore else gStore, prevCnt := if bad then st.prevCnt else gCnt }
      if !st.synced then { st := st1, expected := none, spec := sp ++ spRej ++ spBound }
      else
        let dec : Bytes → Option Pkt := fun x => match readPacket s x with | .ok p => some p | _ => none
        let digest := match readPacket s b with | .unknown => true | _ => false
        if digest then { st := { st1 with synced := false }, expected := none, spec := sp ++ spRej ++ spBound, cov := ["link-digest"] }
        else
          let cfg : Cfg := ⟨st.cfgReasm, st.cfgThreads, dec⟩
          match handleFrame cfg st.link b with
          | none => { st := st1, expected := some "PANIC model", spec := sp ++ spRej ++ spBound }
          | some (l', dl) =>
            let decS := if (dec b).isSome then "1" else "0"
            let (i, d, tag) := match dl with
              | .nothing => ("0", "0:", "link-nothing")
              | .interest => ("1", "0:", "link-interest")
              | .dataTok t => ("0", s!"1:{t}", "link-data-token")
              | .dataDrop => ("0", "0:", "link-data-badtoken")
              -- token-less Data: one QueueData per distinct thread among the name-prefix threads (incl. the
              -- empty prefix); the hashes are not modelled, so count and ids are taken from the implementation
              -- and checked by the spec below (1 ≤ count ≤ threads, ids distinct and < threads)
              | .dataHash => ("0", kv got "d", "link-data-hash")
            let spHash : List SpecFail :=
              match dl with
              | .dataHash =>
                let parts := (kv got "d").splitOn ":"
                let ids := ((parts.getD 1 "").splitOn "+").filterMap String.toNat?
                let cnt := (parts.getD 0 "").toNat?.getD 0
                if bad then []
                else if cnt == 0 || cnt != ids.length || cnt > st.cfgThreads || ids.any (· ≥ st.cfgThreads) || ids.eraseDups.length != ids.length then
                  [⟨"dispatch-total", "hash", s!"token-less Data must go to between 1 and {st.cfgThreads} distinct existing threads: {kv got "d"}"⟩]
                else []
              | _ => []
            let expected := s!"dec={decS} i={i} d={d} store={storeStats l'.store} cnt={l'.nInInterests}/{l'.nInData} qs=1"
            let tags := [tag] ++ (if l'.store.length != st.link.store.length then ["link-store-change"] else [])
            { st := { st1 with link := l' }, expected := some expected, spec := sp ++ spRej ++ spBound ++ spHash, cov := tags,
              nontrivial := l'.store.length != st.link.store.length || dl != .nothing }
    | _, _ => { st := st, expected := some "skip" }
  | ["soak", _ms] =>
    -- a lossy peer for a while: first fragments (index 0 of 2) of 4096 messages, base sequences 2^40 + 2i,
    -- round and round; whatever the number of rounds the store then holds these 4096 incomplete messages
    match st.mode with
    | .link s =>
      let sp := crashSpec "handleIncomingFrame" "link-soak" op got
      if !st.synced then { st := st, expected := none, spec := sp } else
      let dec : Bytes → Option Pkt := fun x => match readPacket s x with | .ok p => some p | _ => none
      let cfg : Cfg := ⟨st.cfgReasm, st.cfgThreads, dec⟩
      let frag : Bytes := (soakFragment).take 8
      let res := (List.range 4096).foldl (fun (acc : Option LinkSt) i =>
        match acc with
        | none => none
        | some l => (handleFrame cfg l (soakFrame (1099511627776 + 2 * i) frag)).map (·.1)) (some st.link)
      match res with
      | none => { st := st, expected := some "PANIC model", spec := sp }
      | some l' =>
        let exp := s!"store={storeStats l'.store} cnt={l'.nInInterests}/{l'.nInData} qs=1"
        { st := { st with link := l', frames := st.frames + 4096, frameBytes := st.frameBytes + 4096 * 28,
                          prevStore := kv got "store", prevCnt := kv got "cnt" },
          expected := some exp, spec := sp, cov := ["link-soak"], nontrivial := true }
    | _ => { st := st, expected := some "skip" }
  | ["st", chunkText] =>
    match st.mode, (chunkText.splitOn ",").mapM parseChunk with
    | .stream, some chunks =>
      let sp :=
        (if got.startsWith "PANIC" || got.startsWith "CRASH" then [⟨"stream-total", "stream", s!"readTlvStream crashed: {got}"⟩] else []) ++
        (if got.endsWith "SPIN" || got.startsWith "TIMEOUT" then [⟨"stream-progress", "stream", s!"readTlvStream reached a zero-length read and can no longer make progress: {got.take 100}"⟩] else []) ++
        (if got.startsWith "ALLOC" then [⟨"alloc-linear", "stream", s!"readTlvStream: {got}"⟩] else [])
      let (frames, fin) := runStream chunks
      let e := match fin with
        | .eof => "eof" | .err => "err" | .spin => "SPIN" | .panic => "PANIC model" | .fuel => "FUEL model"
      let expected := "frames=" ++ "+".intercalate (frames.map fun f => toString f.length) ++ " " ++ e
      { st := st, expected := some expected, spec := sp, cov := ["stream-" ++ e], nontrivial := frames.length > 0 }
    | _, _ => { st := st, expected := some "skip" }
  | ["tok", hex] =>
    match st.mode, bytesOfHex hex with
    | .disp n, some b =>
      let sp := if isCrash got then [⟨"dispatch-total", "token", s!"GetFWThread crashed for token {hex} with {n} threads: {got}"⟩] else []
      let e := match getThread n (beDec (b.take 2)) with
        | some (some i) => s!"thread={i}"
        | some none => "drop"
        | none => "PANIC model"
      { st := st, expected := some e, spec := sp, cov := ["disp-" ++ (e.takeWhile (· != '=')).toString], nontrivial := true }
    | _, _ => { st := st, expected := some "skip" }
  | _ => { st := st, expected := some "bad-op" }

def main : IO Unit := Ndn.Driver.run ({} : St) step
