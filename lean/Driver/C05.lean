/-
  Driver/C05.lean — replays a C05 trace (both real FIBs driven by the Go harness) through the two
  Lean models (expected output → DIFF) and evaluates the specification (Spec.lean: maps + LPM)
  on the implementation's own outputs (→ SPEC).

  protocol (see harness/c05/c05_test.go):
    new <m> <n1>,<n2>,…            => ok <root strategy tree> <root strategy hash>
    ins <name> <face> <cost> | rem <name> <face> | clr <name> | sets <name> <s> | unsets <name>  => ok
    rep <name>=<hops>;<name>=<hops>…   (ReplaceNextHopsEnc; hops = f:c,f:c or -)                 => ok
    qa                             => T <hops>@<strat>|…  H <hops>@<strat>|…      (one item per universe name)
    q <name>                       => T <hops>@<strat> H <hops>@<strat>
    lf                             => T <name>=<hops>;… H …                          (sorted by name text)
    ls                             => T <name>=<strat>;… H …
-/
import NdnVerif.Driver.Common
import NdnVerif.C05.Model
import NdnVerif.C05.Spec
open Ndn Ndn.Driver Ndn.C05

namespace C05Driver

def insertBy {α : Type} (lt : α → α → Bool) (x : α) : List α → List α
  | [] => [x]
  | y :: t => if lt x y then x :: y :: t else y :: insertBy lt x t

def sortBy {α : Type} (lt : α → α → Bool) (l : List α) : List α := l.foldl (fun acc x => insertBy lt x acc) []

def renderHops (h : Hops) : String :=
  if h.isEmpty then "-"
  else ",".intercalate ((sortBy (fun a b => a.1 < b.1 || (a.1 == b.1 && a.2 < b.2)) h).map fun p => s!"{p.1}:{p.2}")

def renderStrat : Option Name → String
  | none => "nil"
  | some s => s.toText

def renderListing (l : List (String × String)) : String :=
  if l.isEmpty then "-"
  else ";".intercalate ((sortBy (fun a b => a.1 < b.1 || (a.1 == b.1 && a.2 < b.2)) l).map fun p => p.1 ++ "=" ++ p.2)

def renderFib (l : List (Name × Hops)) : String := renderListing (l.map fun p => (p.1.toText, renderHops p.2))
def renderStrats (l : List (Name × Name)) : String := renderListing (l.map fun p => (p.1.toText, p.2.toText))

structure St where
  univ : List Name := []
  tree : Tree := Tree.init []
  hash : Hash := Hash.init 1 []
  spec : Spec := Spec.init []
  removed : Bool := false

/-- split "T <x> H <y>" -/
def splitTH (got : String) : Option (String × String) :=
  if got.startsWith "T " then
    match (got.drop 2).toString.splitOn " H " with
    | [x, y] => some (x, y)
    | _ => none
  else none

def firstDiff (a b : List String) (i : Nat := 0) : Option (Nat × String × String) :=
  match a, b with
  | [], [] => none
  | x :: xs, y :: ys => if x == y then firstDiff xs ys (i + 1) else some (i, x, y)
  | x :: _, [] => some (i, x, "<missing>")
  | [], y :: _ => some (i, "<missing>", y)

/-- compare one implementation's lookup items with the spec's -/
def lookupSpec (which : String) (names : List Name) (want got : List String) : List SpecFail :=
  match firstDiff want got with
  | none => []
  | some (i, w, g) =>
    let nm := (names.getD i []).toText
    let kind := match w.splitOn "@", g.splitOn "@" with
      | [wh, _], [gh, _] => if wh != gh then "nexthops" else "strategy"
      | _, _ => "format"
    [⟨"lpm-" ++ kind, which, s!"{which} FIB lookup of {nm}: longest-prefix match gives {w}, implementation returned {g}"⟩]

def listSpec (clause which : String) (want got : String) : List SpecFail :=
  if want == got then []
  else [⟨clause, which, s!"{which} FIB listing is {got}, the table holds exactly {want}"⟩]

def specItem (s : Spec) (n : Name) : String := renderHops (s.lpmNextHops n) ++ "@" ++ renderStrat (s.lpmStrategy n)
def treeItem (t : Tree) (n : Name) : String := renderHops (t.findNextHops n) ++ "@" ++ renderStrat (t.findStrategy n)
def hashItem (h : Hash) (n : Name) : String := renderHops (h.findNextHops n) ++ "@" ++ renderStrat (h.findStrategy n)

def lpmTag (h : Hash) (n : Name) : String :=
  if n.length ≤ h.m then "hash-lpm-short"
  else match afind h.virt (n.take h.m) with
    | none => "hash-lpm-novirt"
    | some md => match scanReal h.real n (h.m + 1) (min md n.length) with
      | some _ => "hash-lpm-virt-hit"
      | none => "hash-lpm-virt-fallback"

def dedup (l : List String) : List String := l.foldl (fun acc x => if acc.contains x then acc else acc ++ [x]) []

def parseHops (s : String) : Option Hops :=
  if s == "-" then some []
  else (s.splitOn ",").mapM fun x =>
    match x.splitOn ":" with
    | [f, c] => do let f ← f.toNat?; let c ← c.toNat?; pure (f, c)
    | _ => none

/-- `<name>=<hops>;<name>=<hops>…` -/
def parseUpdates (s : String) : Option (List Update) :=
  (s.splitOn ";").mapM fun x =>
    match x.splitOn "=" with
    | [n, h] => do let n ← Name.ofText n; let h ← parseHops h; pure (n, h)
    | _ => none

def mutateCall (st : St) (call : Call) (got : String) : StepResult St :=
  let op : Op := match call with | .op o => o | .replace _ => .clr []   -- only used for the per-op tags
  let t' := st.tree.call call
  let h' := st.hash.call call
  let s' := st.spec.call call
  let covT := if t'.nodes.length + 1 < st.tree.nodes.length then ["tree-prune-chain"]
    else if t'.nodes.length < st.tree.nodes.length then ["tree-prune-leaf"]
    else if t'.nodes.length > st.tree.nodes.length + 1 then ["tree-fill-chain"]
    else if t'.nodes.length > st.tree.nodes.length then ["tree-fill-one"] else []
  let covH := (if h'.virt.length < st.hash.virt.length then ["hash-virt-del"]
    else if h'.virt.length > st.hash.virt.length then ["hash-virt-new"] else [])
    ++ (if h'.virt.any (fun p => match afind st.hash.virt p.1 with | some md => p.2 < md | none => false) then ["hash-md-shrink"] else [])
    ++ (if h'.virt.any (fun p => match afind st.hash.virt p.1 with | some md => p.2 > md | none => false) then ["hash-md-grow"] else [])
    ++ (if h'.real.length < st.hash.real.length then ["hash-real-del"] else [])
  let covO := match call with
    | .op (.ins n f _) => [if hasFace (st.spec.nhAt n) f then "ins-update" else "ins-new"]
    | .op (.rem n f) => [if hasFace (st.spec.nhAt n) f then "rem-hit" else "rem-miss"]
    | .op (.clr n) => [if (st.spec.nhAt n).isEmpty then "clr-miss" else "clr-hit"]
    | .op (.sets n _) => [if (st.spec.stAt n).isSome then "sets-replace" else "sets-new"]
    | .op (.unsets n) => [if (st.spec.stAt n).isSome then "unsets-hit" else "unsets-miss"]
    | .replace us =>
      (if us.length > 1 then ["rep-batch"] else []) ++ us.flatMap fun u =>
        let cur := st.spec.nhAt u.1
        let new := (Spec.call ⟨[], []⟩ (.replace [u])).nhAt u.1
        [if new.isEmpty then (if cur.isEmpty then "rep-empty-noop" else "rep-clears")
         else if cur.isEmpty then "rep-creates"
         else if renderHops cur == renderHops new then "rep-unchanged"
         else if cur.length == new.length then "rep-same-length" else "rep-other-length"]
        ++ (if cur.length == new.length && renderHops cur != renderHops new &&
              cur.all (fun h => new.contains h || (h.2 == 0 && !hasFace new h.1)) then ["rep-drops-only-cost0"] else [])
        ++ (if u.2.length != new.length then ["rep-duplicate-face"] else [])
  let removed := st.removed || (match call with | .op (.ins ..) => false | .op (.sets ..) => false | _ => true)
  { st := { st with tree := t', hash := h', spec := s', removed := removed },
    expected := some "ok", cov := covT ++ covH ++ covO,
    spec := if isCrash got then [⟨"no-panic", "op", s!"table operation crashed: {got}"⟩]
            else if !op.admissible then [] else [] }

def mutate (st : St) (op : Op) (got : String) : StepResult St := mutateCall st (.op op) got

def step (st : St) (op : String) (got : String) : StepResult St :=
  match op.splitOn " " with
  | ["own", k] =>
    -- how the caller treats the memory of the names it passes (harness: reused after every call,
    -- root as nil): no table operation; the tables must not depend on it
    { st := st, expected := some "ok",
      cov := [s!"own-{k}"],
      spec := if isCrash got then [⟨"no-panic", "op", s!"own: {got}"⟩] else [] }
  | ["new", m, names] =>
    match m.toNat?, (names.splitOn ",").mapM Name.ofText with
    | some m, some univ =>
      match got.splitOn " " with
      | ["ok", dt, dh] =>
        match Name.ofText dt, Name.ofText dh with
        | some dt', some dh' =>
          { st := { univ := univ, tree := Tree.init dt', hash := Hash.init m dh', spec := Spec.init dt' },
            expected := some got,
            spec := if dt != dh then [⟨"tree-hash-equal", "root-strategy", s!"root strategies differ: {dt} vs {dh}"⟩] else [] }
        | _, _ => { st := {}, expected := some "ok <root strategy> <root strategy>",
                    spec := [⟨"lpm-strategy", "root", s!"a fresh table has no root strategy: {got}"⟩] }
      | _ => { st := {}, expected := some "ok <root strategy> <root strategy>" }
    | _, _ => { st := {}, expected := some "bad-op" }
  | ["ins", n, f, c] =>
    match Name.ofText n, f.toNat?, c.toNat? with
    | some n, some f, some c => mutate st (.ins n f c) got
    | _, _, _ => { st := st, expected := some "bad-op" }
  | ["rem", n, f] =>
    match Name.ofText n, f.toNat? with
    | some n, some f => mutate st (.rem n f) got
    | _, _ => { st := st, expected := some "bad-op" }
  | ["clr", n] =>
    match Name.ofText n with
    | some n => mutate st (.clr n) got
    | _ => { st := st, expected := some "bad-op" }
  | ["sets", n, s] =>
    match Name.ofText n, Name.ofText s with
    | some n, some s => mutate st (.sets n s) got
    | _, _ => { st := st, expected := some "bad-op" }
  | ["unsets", n] =>
    match Name.ofText n with
    | some n =>
      if n.isEmpty then { st := st, expected := some "skip" }   -- management never produces this
      else mutate st (.unsets n) got
    | _ => { st := st, expected := some "bad-op" }
  | ["rep", us] =>
    match parseUpdates us with
    | some us => mutateCall st (.replace us) got
    | none => { st := st, expected := some "bad-op" }
  | ["qa"] =>
    let want := st.univ.map (specItem st.spec)
    let mt := "|".intercalate (st.univ.map (treeItem st.tree))
    let mh := "|".intercalate (st.univ.map (hashItem st.hash))
    let sp := match splitTH got with
      | some (x, y) =>
        lookupSpec "tree" st.univ want (x.splitOn "|") ++ lookupSpec "hash" st.univ want (y.splitOn "|")
        ++ (if x != y then [⟨"tree-hash-equal", "lookup", "the two FIB implementations answer differently"⟩] else [])
      | none => [⟨"no-panic", "qa", s!"lookup crashed or malformed: {got.take 200}"⟩]
    { st := st, expected := some s!"T {mt} H {mh}", spec := sp,
      cov := dedup (st.univ.map (lpmTag st.hash)),
      nontrivial := st.removed && st.spec.nh.length ≥ 2 }
  | ["q", n] =>
    match Name.ofText n with
    | some n =>
      let want := [specItem st.spec n]
      let sp := match splitTH got with
        | some (x, y) => lookupSpec "tree" [n] want [x] ++ lookupSpec "hash" [n] want [y]
          ++ (if x != y then [⟨"tree-hash-equal", "lookup", "the two FIB implementations answer differently"⟩] else [])
        | none => [⟨"no-panic", "q", s!"lookup crashed or malformed: {got.take 200}"⟩]
      { st := st, expected := some s!"T {treeItem st.tree n} H {hashItem st.hash n}", spec := sp, cov := [lpmTag st.hash n] }
    | none => { st := st, expected := some "bad-op" }
  | ["wb"] =>
    -- white-box dump of the node sets: NOT an observable of C05 (never compared, never a verdict);
    -- only recorded as coverage so that the evidence shows whether the structures are minimal
    let mt := ";".intercalate (sortBy (fun a b => a < b) (st.tree.nodes.map fun q =>
      q.1.toText ++ ":" ++ (if q.2.name.isSome then "n" else "-") ++ (if q.2.hops.isEmpty then "-" else "h") ++ (if q.2.strat.isSome then "s" else "-")))
    let mv := ";".intercalate (sortBy (fun a b => a < b) (st.hash.virt.map fun q =>
      s!"{q.1.toText}:{q.2}:{((afind st.hash.vnames q.1).getD []).length}"))
    let tags := match splitTH got with
      | some (x, y) =>
        [if x == mt then "wb-tree-nodes-as-model" else "wb-tree-nodes-differ",
         if (y.splitOn " virt=").getLastD "" == mv then "wb-hash-virt-as-model" else "wb-hash-virt-differ"]
      | none => []
    { st := st, expected := none, cov := tags }
  | ["lf"] =>
    let want := renderFib st.spec.listFib
    let sp := match splitTH got with
      | some (x, y) => listSpec "list-fib" "tree" want x ++ listSpec "list-fib" "hash" want y
      | none => [⟨"no-panic", "lf", s!"listing crashed or malformed: {got.take 200}"⟩]
    { st := st, expected := some s!"T {renderFib st.tree.listFib} H {renderFib st.hash.listFib}", spec := sp }
  | ["ls"] =>
    let want := renderStrats st.spec.listStrat
    let sp := match splitTH got with
      | some (x, y) => listSpec "list-strategy" "tree" want x ++ listSpec "list-strategy" "hash" want y
      | none => [⟨"no-panic", "ls", s!"listing crashed or malformed: {got.take 200}"⟩]
    { st := st, expected := some s!"T {renderStrats st.tree.listStrat} H {renderStrats st.hash.listStrat}", spec := sp }
  | _ => { st := st, expected := some "bad-op" }

end C05Driver

def main : IO Unit := Ndn.Driver.run ({} : C05Driver.St) C05Driver.step
