/-
  C08 model driver.  Four kinds of histories (first token after `new`):

    new pit cap=K dnl=MS strat=best|multi nh=f:c,f:c|-     one real fw.Thread (virtual clock)
      I <face> <name> <cbp> <mbf> <nonce> <life-ms|->
      D <face> <name> <fresh-ms|-> <tok: -|T<k>|X> <wirehex>
      adv <ms> | quiesce <ms> | cap <K>                      every output is a white-box dump
    new fibtree | new fibhash <m>
      fins <name> <face> <cost> | frem <name> <face> | fclr <name> | fset <name> | funs <name>
    new rib tree|hash <m>
      radd <name> <face> <origin> <cost> <flags> | rrem <name> <face> <origin> | rface <face>

  DIFF: the dump predicted by the model vs the dump of the real code.
  SPEC: the C08 predicates of Spec.lean evaluated on the real code's dump.
-/
import NdnVerif.Driver.Common
import NdnVerif.C08.Spec
import NdnVerif.C07.Spec
open Ndn Ndn.Driver Ndn.C08

def msNs (ms : Nat) : Nat := ms * 1000000
def sortStrs (l : List String) : List String := l.mergeSort (fun a b => decide (a ≤ b))
def joinOr (sep : String) (l : List String) : String := if l.isEmpty then "-" else sep.intercalate l
def namesSorted (l : List Name) : String := joinOr "," (sortStrs (l.map Name.toText))

def sendText : Send → String
  | .interest f n => s!"I>{f}:{n.toText}"
  | .data f n => s!"D>{f}:{n.toText}"

def insertBy {α : Type} (key : α → Nat) (x : α) : List α → List α
  | [] => [x]
  | y :: t => if key x < key y then x :: y :: t else y :: insertBy key x t
def sortBy {α : Type} (key : α → Nat) (l : List α) : List α := l.foldr (insertBy key) []

def optNat : Option Nat → String
  | some n => toString n
  | none => "-"

def entryText (e : PitEntry) : String :=
  let ins := joinOr "+" ((sortBy (·.face) e.ins).map fun r => s!"{r.face}~{r.nonce}~{r.exp}")
  let outs := joinOr "+" ((sortBy (·.face) e.outs).map fun r => s!"{r.face}~{r.nonce}~{r.ts}~{r.exp}")
  let b := fun (x : Bool) => if x then "1" else "0"
  s!"T{e.tok}|{e.name.toText}|{b e.cbp}{b e.mbf}|{ins}|{outs}|{optNat e.sched}|{b e.satisfied}"

def renderDump (s : St) (sent : List Send) : String :=
  let pit := joinOr ";" ((sortBy (·.tok) s.pit).map entryText)
  let dnl := joinOr "," (sortStrs (s.dnl.map fun d => s!"{d.name.toText}#{d.nonce}"))
  s!"t={s.now} sent={joinOr "," (sortStrs (sent.map sendText))} npit={s.nPit} ncs={s.cs.nCs} tokmap={s.pit.length} " ++
  s!"q={(s.pit.filter (fun e => e.sched.isSome)).length} pit={pit} nodes={namesSorted s.cs.nodes} " ++
  s!"cs={namesSorted s.cs.cs.keys} lru={joinOr "," (s.cs.queue.map Name.toText)} loc={s.cs.queue.length} " ++
  s!"dnl={dnl} dnlq={s.dnl.length}"

/-! parsing of the implementation's dump (for the specification side only) -/

def kvs (line : String) : List (String × String) :=
  (line.splitOn " ").filterMap fun t =>
    match t.splitOn "=" with
    | k :: rest@(_ :: _) => some (k, "=".intercalate rest)
    | _ => none

def kv (m : List (String × String)) (k : String) : String := ((m.find? (·.1 == k)).map (·.2)).getD ""
def kvNat (m : List (String × String)) (k : String) : Nat := (kv m k).toNat?.getD 0

def listOf (sep : String) (s : String) : List String := if s == "-" || s == "" then [] else s.splitOn sep

def parseNames (s : String) : List Name := (listOf "," s).filterMap Name.ofText

def parseRec (out : Bool) (s : String) : Option Rec :=
  match s.splitOn "~", out with
  | [f, n, e], false => some ⟨f.toNat?.getD 0, n.toNat?.getD 0, 0, e.toNat?.getD 0, []⟩
  | [f, n, t, e], true => some ⟨f.toNat?.getD 0, n.toNat?.getD 0, t.toNat?.getD 0, e.toNat?.getD 0, []⟩
  | _, _ => none

def parseEntry (s : String) : Option PitEntry :=
  match s.splitOn "|" with
  | [t, n, fl, ins, outs, q, sat] => do
    let name ← Name.ofText n
    pure { tok := (t.drop 1).toString.toNat?.getD 0, name := name, cbp := fl.startsWith "1", mbf := fl.endsWith "1",
           ins := (listOf "+" ins).filterMap (parseRec false), outs := (listOf "+" outs).filterMap (parseRec true),
           sched := q.toNat?, satisfied := sat == "1" }
  | _ => none

def parseDump (got : String) : Option Dump :=
  if !got.startsWith "t=" then none else
  let m := kvs got
  some { now := kvNat m "t", nPit := kvNat m "npit", nCs := kvNat m "ncs", tokMap := kvNat m "tokmap",
         qLen := kvNat m "q", pit := (listOf ";" (kv m "pit")).filterMap parseEntry, nodes := parseNames (kv m "nodes"),
         cs := parseNames (kv m "cs"), lru := parseNames (kv m "lru"), loc := kvNat m "loc",
         dnl := (listOf "," (kv m "dnl")).length, dnlq := kvNat m "dnlq" }

/-! driver state -/

inductive Mode where | none | pit | fibtree | fibhash | rib
deriving DecidableEq

structure DSt where
  mode : Mode := .none
  m : St := {}
  ft : FibTree := {}
  fh : FibHash := { m := 1 }
  rb : Rib := {}
  -- specification side (ops + implementation outputs only)
  horizon : Nat := 0        -- latest instant at which a lifetime recorded so far ends
  hz : List (Nat × Nat) := []   -- per entry (token index): latest end of lifetime of an Interest recorded in it
  dnlLife : Nat := 0
  now : Nat := 0
  interesting : Bool := false
  nodiff : Bool := false    -- `new pit … nodiff`: evaluate the specification only (hand-written replays of known defects)

def bad (s : DSt) : StepResult DSt := { st := s, expected := some "bad-op" }

def parseNh (s : String) : List (Nat × Nat) :=
  (listOf "," s).filterMap fun t => match t.splitOn ":" with
    | [f, c] => do pure (← f.toNat?, ← c.toNat?)
    | _ => none

def fail (c k m : String) : SpecFail := ⟨c, k, m⟩

/-- C08 predicates on one dump of the implementation -/
def hzOf (hz : List (Nat × Nat)) (tok : Nat) : Nat := ((hz.find? (·.1 == tok)).map (·.2)).getD 0

def specDump (hz : List (Nat × Nat)) (d : Dump) (quiescent : Bool) : List SpecFail :=
  (if allScheduled d then [] else
    let e := (d.pit.filter (fun e => e.sched.isNone)).head?
    [fail "pit-unscheduled" "no-queue-item" s!"PIT entry {(e.map (·.name.toText)).getD "?"} has no item in the expiry queue at t={d.now}: it will never be reaped"]) ++
  (if schedBounded (hzOf hz) d then [] else [fail "pit-sched-bound" "late" s!"a PIT entry is scheduled later than its latest recorded lifetime at t={d.now}"]) ++
  (if notOverdue d then [] else [fail "pit-overdue" "overdue" s!"a PIT entry is still present more than one update period after its scheduled expiry at t={d.now}"]) ++
  (if sizesTrue d then [] else
    let key := if d.nPit != d.pit.length then "npit" else if d.nCs != d.cs.length then "ncs"
               else if d.tokMap != d.pit.length then "tokmap" else if d.loc != d.cs.length then "lru-locations"
               else if d.lru.length != d.cs.length then "lru-queue" else "queue"
    if key == "lru-locations" && !quiescent then [] else
    [fail "sizes-true" key s!"reported/bookkept sizes differ from the true ones at t={d.now}: npit={d.nPit}/{d.pit.length} ncs={d.nCs}/{d.cs.length} tokmap={d.tokMap} queue={d.qLen} lru={d.lru.length} locations={d.loc}"]) ++
  (if !quiescent then [] else
    (if quiescentPit d then [] else [fail "quiescent-pit" (if allScheduled d then "scheduled" else "unscheduled") s!"all lifetimes have elapsed at t={d.now} but the PIT still holds {d.pit.length} entries (npit={d.nPit}, tokmap={d.tokMap}, queue={d.qLen})"]) ++
    (if quiescentDnl d then [] else [fail "quiescent-dnl" "records" s!"dead-nonce records survive their lifetime at t={d.now}: list={d.dnl} queue={d.dnlq}"]) ++
    (if treeMinimal d then [] else
      let dead := d.nodes.filter (fun n => !(C07.memb n (closure (d.cs ++ d.pit.map (·.name)))))
      [fail "quiescent-tree" (if dead.isEmpty then "missing-node" else "dead-branch") s!"the name tree holds nodes on no path to a live entry at t={d.now}: {namesSorted dead}"]))

/-- "removed promptly once satisfied": after a Data packet that the forwarder accepts, every entry of
    the implementation's dump it satisfies (token: the entry with that token; else by name) is
    scheduled for now or earlier -/
def specPrompt (got : String) (accepted : Bool) (matched : PitEntry → Bool) : List SpecFail :=
  if !accepted then [] else
  match parseDump got with
  | some d =>
    if satisfiedPrompt d matched then [] else
      let bad := (d.pit.filter (fun e => matched e && (match e.sched with | some p => decide (p > d.now) | none => false))).head?
      [fail "satisfied-prompt" "still-pending" s!"Data satisfied PIT entry {(bad.map (·.name.toText)).getD "?"} at t={d.now} but the entry is not scheduled for removal now (it stays until its lifetime ends)"]
  | none => []

def pitStep (_s : DSt) (r : St × List Send) (got : String) (quiescent : Bool) (cov : List String) (s' : DSt) : StepResult DSt :=
  let crash : List SpecFail := if isCrash got then [fail "no-panic" "thread" s!"the forwarding thread crashed: {got}"] else []
  let spec := match parseDump got with
    | some d => specDump s'.hz d quiescent
    | none => []
  { st := { s' with m := r.1 }, expected := if s'.nodiff then none else some (renderDump r.1 r.2), spec := crash ++ spec, cov := cov,
    nontrivial := s'.interesting }

/-- child order that reproduces the implementation's choice of prefix match (taken from its `sent`) -/
def ordFor (got : String) : List Name → List Name :=
  let sent := kv (kvs got) "sent"
  let target : Option Name :=
    if sent.startsWith "D>" then
      match sent.splitOn ":" with
      | _ :: rest => Name.ofText (":".intercalate rest)
      | _ => none
    else none
  match target with
  | some t => fun l => l.filter (fun q => C07.isPrefix q t) ++ l.filter (fun q => !C07.isPrefix q t)
  | none => id

/-! rendering of the route-structure dumps -/

def fibTreeText (f : FibTree) : String :=
  let line := fun (n : Name) => s!"{n.toText}|{(aget [] f.nh n).length}|{if aget false f.st n then 1 else 0}"
  s!"nodes={joinOr "," (sortStrs (([] :: f.nodes).map line))} pfx={f.pfx.length}"

def fibHashText (f : FibHash) : String :=
  let real := sortStrs (f.real.map fun p => s!"{p.1.toText}|{p.2.1.length}|{if p.2.2 then 1 else 0}")
  let keys := (f.virt.map (·.1)) ++ ((f.vnames.map (·.1)).filter (fun k => !(f.virt.any (fun p => decide (p.1 = k)))))
  let virt := sortStrs (keys.map fun k =>
    let md := if f.virt.any (fun p => decide (p.1 = k)) then toString (aget 0 f.virt k) else "-"
    let names := if f.vnames.any (fun p => decide (p.1 = k)) then "+".intercalate (sortStrs ((aget [] f.vnames k).map Name.toText)) else "!"
    s!"{k.toText}|{md}|{names}")
  s!"m={f.m} real={joinOr "," real} virt={joinOr "," virt}"

def sortNats (l : List Nat) : List Nat := l.mergeSort (fun a b => decide (a ≤ b))

def ribText (r : Rib) : String :=
  let withRoutes := ([] :: r.nodes).filter (fun n => !(aget [] r.routes n).isEmpty)
  let routes := withRoutes.map fun n => s!"{n.toText}|{"+".intercalate ((sortNats ((aget [] r.routes n).map (·.1))).map toString)}"
  s!"rib={joinOr "," (sortStrs (([] :: r.nodes).map fun n => s!"{n.toText}|{(aget [] r.routes n).length}"))} routes={joinOr "," (sortStrs routes)}"

/-- parse "name|f+f,name|f" -/
def parseFaces (s : String) : List (Name × List Nat) :=
  (listOf "," s).filterMap fun t => match t.splitOn "|" with
    | [a, b] => (Name.ofText a).map fun n => (n, (listOf "+" b).filterMap String.toNat?)
    | _ => none

def specFibJustified (ribPart fibPart : String) : List SpecFail :=
  let routes := parseFaces (kv (kvs ribPart) "routes")
  let fibnh := parseFaces (kv (kvs fibPart) "fibnh")
  if fibJustified fibnh routes then [] else
    let badOnes := fibnh.filter (fun p => !(fibJustified [p] routes))
    [fail "fib-beyond-rib" (if badOnes.any (fun p => p.1.isEmpty) then "root" else "prefix")
      s!"the FIB holds next hops no live route requires: {joinOr "," (badOnes.map fun p => s!"{p.1.toText}|{"+".intercalate (p.2.map toString)}")} with routes {kv (kvs ribPart) "routes"}"]

/-- parse "a|b|c,a|b|c" -/
def parseTriples (s : String) : List (String × String × String) :=
  (listOf "," s).filterMap fun t => match t.splitOn "|" with
    | [a, b, c] => some (a, b, c)
    | _ => none

def specFibTree (got : String) : List SpecFail :=
  let m := kvs got
  let ts := parseTriples (kv m "nodes")
  let nodes := ts.filterMap fun (a, _, _) => Name.ofText a
  let live := ts.filterMap fun (a, b, c) => if b != "0" || c == "1" then Name.ofText a else none
  let withNh := (ts.filter fun (_, b, _) => b != "0").length
  if ts.isEmpty then [] else
  if fibTreeMinimal (nodes.filter (· ≠ [])) live (kvNat m "pfx") withNh then [] else
    let dead := nodes.filter (fun n => n ≠ [] && !(C07.memb n (closure live)))
    [fail "fib-tree-minimal" (if !dead.isEmpty then "dead-node" else if kvNat m "pfx" != withNh then "fibPrefixes" else "missing-node")
      s!"the name-tree FIB holds more than its live entries require: dead nodes {namesSorted dead}, fibPrefixes={kvNat m "pfx"} for {withNh} prefixes with next hops"]

def specFibHash (got : String) : List SpecFail :=
  let m := kvs got
  let ts := parseTriples (kv m "real")
  if ts.isEmpty then [] else
  let real := ts.filterMap fun (a, _, _) => Name.ofText a
  let live := ts.filterMap fun (a, b, c) => if b != "0" || c == "1" then Name.ofText a else none
  let vts := parseTriples (kv m "virt")
  let unknown := vts.any fun (a, _, _) => a == "?"
  let virt := vts.filterMap fun (a, b, _) => do pure ((← Name.ofText a), (← b.toNat?))
  let vnames := vts.filterMap fun (a, _, c) => if c == "!" then none else do
    pure ((← Name.ofText a), (listOf "+" c).filterMap Name.ofText)
  if !unknown && fibHashMinimal (kvNat m "m") real live virt vnames then [] else
    let long := real.filter (fun n => decide (n.length ≥ kvNat m "m"))
    let vs := long.map (fun n => n.take (kvNat m "m"))
    let key := if !(sameSet real live) then "dead-real-entry"
      else if unknown || !(subset (virt.map (·.1)) vs) then "dead-virtual-entry"
      else if !(virt.all (fun p => p.2 == maxLen (long.filter (fun n => decide (n.take (kvNat m "m") = p.1))))) then "stale-md"
      else "virtual-names"
    [fail "fib-hash-minimal" key s!"the hash-table FIB holds more than its live entries require: {kv m "virt"} for real {kv m "real"}"]

def specRib (got : String) : List SpecFail :=
  let m := kvs got
  let ps := (listOf "," (kv m "rib")).filterMap fun t => match t.splitOn "|" with
    | [a, b] => some (a, b)
    | _ => none
  if ps.isEmpty then [] else
  let nodes := ps.filterMap fun (a, _) => Name.ofText a
  let live := ps.filterMap fun (a, b) => if b != "0" then Name.ofText a else none
  if ribMinimal (nodes.filter (· ≠ [])) live then [] else
    [fail "rib-minimal" "dead-node" s!"the RIB holds nodes on no path to a route: {namesSorted (nodes.filter (fun n => n ≠ [] && !(C07.memb n (closure live))))}"]

def crashSpec (got what : String) : List SpecFail :=
  if isCrash got then [fail "no-panic" what s!"{what} crashed: {got}"] else []

def stepC08 (s : DSt) (op : String) (got : String) : StepResult DSt :=
  match op.splitOn " " with
  | "new" :: "pit" :: c :: d :: st :: nh :: rest =>
    let cap := ((c.splitOn "=").getD 1 "").toNat?.getD 0
    let dl := msNs (((d.splitOn "=").getD 1 "").toNat?.getD 0)
    let strat := if (st.splitOn "=").getD 1 "" == "multi" then Strat.multi else Strat.best
    let cfg : Cfg := { nexthops := parseNh ((nh.splitOn "=").getD 1 ""), strat := strat, dnlLife := dl }
    { st := { mode := .pit, m := init cfg cap, dnlLife := dl, nodiff := rest == ["nodiff"] }, expected := some "ok", spec := crashSpec got "thread" }
  | ["new", "fibtree"] => { st := { mode := .fibtree }, expected := some "ok" }
  | ["new", "fibhash", m] => { st := { mode := .fibhash, fh := { m := m.toNat?.getD 1 } }, expected := some "ok" }
  | ["new", "rib", kind, m] =>
    { st := { mode := .rib, fh := { m := m.toNat?.getD 1 }, ft := if kind == "tree" then {} else { nodes := [[]] } }, expected := some "ok" }
  | ["I", f, n, c, mb, nonce, life, hl, nhf] =>
    if s.mode != .pit then bad s else
    match f.toNat?, Name.ofText n with
    | some f, some n =>
      let life := msNs (if life == "-" then 4000 else life.toNat?.getD 4000)
      let nonce := nonce.toNat?
      let hop := hl.toNat?
      let nhfv := nhf.toNat?
      let r := procInterestPkt (ordFor got) s.m f n (c == "1") (mb == "1") nonce life hop nhfv
      let hit := r.2.any (fun x => match x with | .data _ _ => true | _ => false)
      let isNew := r.1.tokNext > s.m.tokNext
      let early := !faceExists f || hop == some 0 || isLocalhost n || nonce.isNone
      let cov := (if !faceExists f then ["I-bad-face"] else if hop == some 0 then ["I-hop0"] else
                  if isLocalhost n then ["I-localhost"] else if nonce.isNone then ["I-no-nonce"] else
                  if C08.dnlHas s.m.dnl n (nonce.getD 0) then ["I-dnl-drop"] else
                  if hit then ["I-cs-hit"] else
                  match nhfv with
                  | some x => if !faceExists x then ["I-nhf-noface"] else if r.2.isEmpty then ["I-nhf-nosend"] else ["I-nhf-send"]
                  | none =>
                    if r.2.isEmpty then (if isNew then ["I-new-nosend"] else ["I-agg-or-drop"]) else
                    if isNew then ["I-new-fwd"] else ["I-retx-fwd"]) ++
                 (if hop == some 1 && !early then ["I-hop1"] else [])
      -- spec side: the entry (of the implementation's dump) this Interest belongs to
      let hz' := match parseDump got with
        | some d => match d.pit.find? (fun e => decide (e.name = n) && e.cbp == (c == "1") && e.mbf == (mb == "1")) with
          | some e => (e.tok, max (hzOf s.hz e.tok) (d.now + life)) :: s.hz.filter (·.1 != e.tok)
          | none => s.hz
        | none => s.hz
      pitStep s r got false cov { s with horizon := max s.horizon (s.now + life), hz := hz', interesting := s.interesting || hit }
    | _, _ => bad s
  | ["D", f, n, fresh, tok, w] =>
    if s.mode != .pit then bad s else
    match f.toNat?, Name.ofText n, bytesOfHex w with
    | some f, some n, some w =>
      let tk : Option (Option (Option Nat)) :=
        if tok == "-" || tok == "S" then some none else if tok == "X" then some (some none)
        else if tok.startsWith "T" then (tok.drop 1).toString.toNat?.map (fun k => some (some k)) else none
      match tk with
      | none => bad s
      | some tk =>
        match tk with
        | some (some k) => if k ≥ s.m.tokNext then { st := s, expected := some "skip" } else
          let d : DataPkt := ⟨f, n, msNs (if fresh == "-" then 0 else fresh.toNat?.getD 0), tk, w⟩
          let r := procDataPkt s.m d
          let res := pitStep s r got false [if r.2.isEmpty then "D-tok-nomatch" else "D-tok-match"] { s with horizon := max s.horizon s.now }
          { res with spec := res.spec ++ specPrompt got (faceExists f && !isLocalhost n) (fun e => e.tok == k) }
        | _ =>
          let d : DataPkt := ⟨f, n, msNs (if fresh == "-" then 0 else fresh.toNat?.getD 0), tk, w⟩
          let r := procDataPkt s.m d
          let nm := (prefixMatch s.m.pit n).length
          let ev := r.1.cs.cs.length < s.m.cs.cs.length + 1 && !(s.m.cs.cs.has n)
          let res := pitStep s r got false ([if !faceExists f then "D-bad-face" else if isLocalhost n then "D-localhost" else if tok == "S" then "D-short-token" else if tk.isSome then "D-foreign-token" else if nm == 0 then "D-unsolicited" else if nm == 1 then "D-match-one" else "D-match-many"] ++ (if ev then ["D-evict"] else []))
            { s with horizon := max s.horizon s.now, interesting := s.interesting || ev }
          { res with spec := res.spec ++ specPrompt got (faceExists f && !isLocalhost n && tk.isNone) (dataSatisfies n),
                     cov := res.cov ++ (if nm ≥ 2 && ((prefixMatch s.m.pit n).any fun e => e.ins.all (fun r => r.face == f) && !e.ins.isEmpty) then ["D-many-same-face"] else []) }
    | _, _, _ => bad s
  | [a, ms] =>
    if a == "adv" || a == "quiesce" || a == "advu" then
      if s.mode != .pit then bad s else
      match ms.toNat? with
      | some ms =>
        let target := s.now + (if a == "advu" then ms * 1000 else msNs ms)
        -- simultaneous PIT-update / DNL-tick: Go's select may take either first; follow the implementation
        let mA := advanceTo (fun _ => false) 200000 s.m target
        let mB := advanceTo (fun _ => true) 200000 s.m target
        let m' := if renderDump mA [] == got || s.nodiff then mA else if renderDump mB [] == got then mB else mA
        let exhausted := m'.now != target
        let expired := m'.nPit < s.m.nPit
        -- quiescent: every lifetime recorded so far, one update period, the dead-nonce lifetime and its tick have elapsed
        let quiescent := a == "quiesce" && decide (target > s.horizon + period + s.dnlLife + 2 * period)
        let r := pitStep s (m', []) got quiescent
          ((if expired then ["adv-expire"] else []) ++ (if m'.dnl.length < s.m.dnl.length then ["adv-dnl-reap"] else []) ++
           (if s.m.dnl.length > dnlBatch && m'.dnl.length < s.m.dnl.length then ["adv-dnl-over-batch"] else []) ++
           (if quiescent then ["quiescent"] else []) ++ (if renderDump mA [] != renderDump mB [] then ["adv-timer-tie"] else []) ++ (if exhausted then ["FUEL-EXHAUSTED"] else []))
          { s with now := target, interesting := s.interesting || expired }
        if exhausted then { r with expected := some "model-fuel-exhausted" } else r
      | none => bad s
    else if a == "cap" then
      if s.mode != .pit then bad s else
      match ms.toNat? with
      | some k => pitStep s (setCap s.m k, []) got false ["cap"] s
      | none => bad s
    else if a == "fclr" || a == "fset" || a == "funs" then
      match Name.ofText ms with
      | some n =>
        if s.mode == .fibtree then
          let f' := if a == "fclr" then s.ft.clr n else if a == "fset" then s.ft.set n else s.ft.uns n
          { st := { s with ft := f' }, expected := some (fibTreeText f'), spec := crashSpec got "fib" ++ specFibTree got,
            cov := ["tree-" ++ a] ++ (if f'.nodes.length < s.ft.nodes.length then ["tree-prune"] else []),
            nontrivial := f'.nodes.length < s.ft.nodes.length }
        else if s.mode == .fibhash then
          let f' := if a == "fclr" then s.fh.clr n else if a == "fset" then s.fh.set n else s.fh.uns n
          { st := { s with fh := f' }, expected := some (fibHashText f'), spec := crashSpec got "fib" ++ specFibHash got,
            cov := ["hash-" ++ a] ++ (if f'.virt.length < s.fh.virt.length then ["hash-virt-prune"] else []),
            nontrivial := f'.real.length < s.fh.real.length }
        else bad s
      | none => bad s
    else if a == "rface" then
      if s.mode != .rib then bad s else
      match ms.toNat? with
      | some face =>
        let r' := s.rb.cleanUp face
        let ribPart := (got.splitOn " ;; ").headD ""
        let fibPart := " ;; ".intercalate ((got.splitOn " ;; ").drop 1)
        { st := { s with rb := r' }, expected := some (ribText r' ++ " ;; " ++ fibPart),
          spec := crashSpec got "rib" ++ specRib ribPart ++ specFibJustified ribPart fibPart ++ (if fibPart.startsWith "m=" then specFibHash fibPart else specFibTree fibPart),
          cov := ["rib-cleanup"] ++ (if r'.nodes.length < s.rb.nodes.length then ["rib-prune"] else []),
          nontrivial := r'.nodes.length < s.rb.nodes.length }
      | none => bad s
    else bad s
  | ["fins", n, f, _] =>
    match Name.ofText n, f.toNat? with
    | some n, some f =>
      if s.mode == .fibtree then
        let f' := s.ft.ins n f
        { st := { s with ft := f' }, expected := some (fibTreeText f'), spec := crashSpec got "fib" ++ specFibTree got, cov := ["tree-fins"] }
      else if s.mode == .fibhash then
        let f' := s.fh.ins n f
        { st := { s with fh := f' }, expected := some (fibHashText f'), spec := crashSpec got "fib" ++ specFibHash got, cov := ["hash-fins"] }
      else bad s
    | _, _ => bad s
  | ["frem", n, f] =>
    match Name.ofText n, f.toNat? with
    | some n, some f =>
      if s.mode == .fibtree then
        let f' := s.ft.rem n f
        { st := { s with ft := f' }, expected := some (fibTreeText f'), spec := crashSpec got "fib" ++ specFibTree got,
          cov := ["tree-frem"] ++ (if f'.nodes.length + 1 < s.ft.nodes.length then ["tree-prune-chain"] else if f'.nodes.length < s.ft.nodes.length then ["tree-prune"] else []),
          nontrivial := f'.nodes.length < s.ft.nodes.length }
      else if s.mode == .fibhash then
        let f' := s.fh.rem n f
        { st := { s with fh := f' }, expected := some (fibHashText f'), spec := crashSpec got "fib" ++ specFibHash got,
          cov := ["hash-frem"] ++ (if f'.virt.length < s.fh.virt.length then ["hash-virt-prune"] else []),
          nontrivial := f'.real.length < s.fh.real.length }
      else bad s
    | _, _ => bad s
  | ["radd", n, f, o, _, _] =>
    if s.mode != .rib then bad s else
    match Name.ofText n, f.toNat?, o.toNat? with
    | some n, some f, some o =>
      let r' := s.rb.add n f o
      let ribPart := (got.splitOn " ;; ").headD ""
      let fibPart := " ;; ".intercalate ((got.splitOn " ;; ").drop 1)
      { st := { s with rb := r' }, expected := some (ribText r' ++ " ;; " ++ fibPart),
        spec := crashSpec got "rib" ++ specRib ribPart ++ specFibJustified ribPart fibPart ++ (if fibPart.startsWith "m=" then specFibHash fibPart else specFibTree fibPart),
        cov := ["rib-add"] }
    | _, _, _ => bad s
  | ["rrem", n, f, o] =>
    if s.mode != .rib then bad s else
    match Name.ofText n, f.toNat?, o.toNat? with
    | some n, some f, some o =>
      let r' := s.rb.remove n f o
      let ribPart := (got.splitOn " ;; ").headD ""
      let fibPart := " ;; ".intercalate ((got.splitOn " ;; ").drop 1)
      { st := { s with rb := r' }, expected := some (ribText r' ++ " ;; " ++ fibPart),
        spec := crashSpec got "rib" ++ specRib ribPart ++ specFibJustified ribPart fibPart ++ (if fibPart.startsWith "m=" then specFibHash fibPart else specFibTree fibPart),
        cov := ["rib-remove"] ++ (if r'.nodes.length < s.rb.nodes.length then ["rib-prune"] else []),
        nontrivial := r'.nodes.length < s.rb.nodes.length }
    | _, _, _ => bad s
  | _ => bad s

def main : IO Unit := Ndn.Driver.run ({} : DSt) stepC08
