/-
  C10 model driver.  ops (see harness/c10):
    new <mtu> <frag> <reasm> <ifi> <cm> <thr> <seq> <nthreads> <sscope l|n> <rscope l|n>
    mtu <n> | opt <frag> <ifi>      reconfiguration of the LIVE sending face between sends      => ok
    tx <id> <pkthex> <tokhex|-> <itok> <mark|-> <inface|-> <cong> <hn> <hp>  => n=<k> <framehex>*
       (hn, hp: hash facts of the dispatch rule — thread of the name, ascending threads of all prefixes)
    rx <id> <i>                    => ps=<n> [d=<pkthex>/<tokhex|->/<mark|->@<threads queued to>]* [st=<digest of all retained packets>]
    end                                                            => ps=<n> [h=<pkthex>/<tokhex|->/<mark|->]*   (every retained packet again)
  DIFF: the Lean model of sendPacket / handleIncomingFrame against the real link services.
  SPEC: the specification predicates evaluated on the frames and deliveries of the REAL code.
-/
import NdnVerif.Driver.Common
import NdnVerif.Base.Name
import NdnVerif.C10.Model
import NdnVerif.C10.Spec
open Ndn Ndn.Driver Ndn.C10

/-- `validL3` of the model: an outer TLV of type Interest/Data spanning the whole buffer -/
def outerOk (w : Bytes) : Bool :=
  match decTL w with
  | some (t, r1) => match decTL r1 with
    | some (l, r2) => (t == 5 || t == 6) && r2.length == l
    | none => false
  | none => false

structure MsgInfo where
  id : String
  sent : Sent                 -- spec view of the message (mark = the mark the frames must carry)
  frames : List Bytes         -- frames emitted by the IMPLEMENTATION
  judged : Bool               -- the sender side was well-formed, so the receiver can be judged
  handed : List Nat := []
  hn : Nat := 0               -- fw.HashNameToFwThread(name)            (hash facts from the tx line)
  hp : List Nat := [0]        -- threads of fw.HashNameToAllPrefixFwThreads(name), ascending
  pkt : OutPkt := { wire := [] }  -- the packet as handed to sendPacket (for `txb`)

def fnvText (h : UInt64) (s : String) : UInt64 :=
  s.foldl (fun h c => (h ^^^ c.toNat.toUInt64) * 0x100000001b3) h

/-- digest of the renderings of all retained packets (harness `heldDigest`) -/
def heldDigest (rs : List String) : String :=
  String.ofList (Nat.toDigits 16 (rs.foldl (fun h r => fnvText (fnvText h r) ";") 0xcbf29ce484222325).toNat)

structure DSt where
  active : Bool := false
  heldModel : List String := []   -- model: renderings of the packets delivered so far
  heldImpl : List String := []    -- spec: renderings as the IMPLEMENTATION reported them at delivery
  cfg : TxCfg := { mtu := 0 }
  reasm : Bool := true
  tx : TxSt := {}
  store : Store := []
  msgs : List MsgInfo := []
  judgeRx : Bool := true
  nThreads : Nat := 1
  cfgB : TxCfg := { mtu := 0 }   -- second sending face (configuration of `new`, never reconfigured)
  txB : TxSt := {}

def optNatText (s : String) : Option (Option Nat) :=
  if s == "-" then some none else s.toNat?.map some

def natText : Option Nat → String
  | none => "-" | some n => toString n

/-- the Name element (type 7, whole TLV) a packet starts with: what `pkt.Name.Bytes()` must be -/
def nameOf (w : Bytes) : Bytes :=
  match decTL w with
  | some (_, r1) => match decTL r1 with
    | some (_, inner) => match decTL inner with
      | some (7, r2) => match decTL r2 with
        | some (l, v) => encTL 7 ++ encTL l ++ v.take l
        | none => []
      | _ => []
    | none => []
  | none => []

def renderText (w tok : Bytes) (mark : Option Nat) : String :=
  s!"{hexOfBytes w}/{hexOrDash tok}/{natText mark}/{hexOrDash (nameOf w)}"

def threadsText (ts : List Nat) : String := ",".intercalate (ts.map toString)

def deliveryText (w tok : Bytes) (mark : Option Nat) (threads : List Nat) : String :=
  "d=" ++ renderText w tok mark ++ "@" ++ threadsText threads ++ "!1"

def parseThreads (s : String) : Option (List Nat) :=
  if s.isEmpty then some [] else (s.splitOn ",").mapM String.toNat?

/-- the name rendered with a delivery ("d=<pkt>/<tok>/<mark>/<name>@..." or a held rendering) agrees with the
    name inside the delivered bytes -/
def nameAgrees (rendering : String) : Bool :=
  match (((rendering.splitOn "@").headD "").splitOn "/") with
  | [w, _, _, name] =>
    match bytesOfHex w with
    | some w => name == hexOrDash (nameOf w)
    | none => true
  | _ => true

/-- "d=<pkt>/<tok>/<mark>/<name>@<threads>" → the delivery and the threads it was queued to (call order) -/
def parseDelivery (s : String) : Option (Delivery × List Nat) :=
  if !s.startsWith "d=" then none else
  match ((s.drop 2).toString).splitOn "@" with
  | [body, ths] =>
    match body.splitOn "/", parseThreads ((ths.splitOn "!").headD "") with
    | [w, t, m, _name], some ths =>
      match bytesOfHex w, (if t == "-" then some [] else bytesOfHex t), optNatText m with
      | some w, some t, some m => some (⟨w, t, m⟩, ths)
      | _, _, _ => none
    | _, _ => none
  | _ => none

def bool01 (s : String) : Bool := s == "1"

/-- one packet through a sending link service: face A (the live, reconfigurable one) or face B (a
    second, never congested face the SAME packet object is sent on as well) -/
def txCommon (d : DSt) (crash : List SpecFail) (got : String) (id : String) (p : OutPkt)
    (hn : Nat) (hp : List Nat) (faceB : Bool) : StepResult DSt :=
    let cfg := if faceB then d.cfgB else d.cfg
    let txst := if faceB then d.txB else d.tx
    let setTx (d : DSt) (t : TxSt) : DSt := if faceB then { d with txB := t } else { d with tx := t }
    let wire := p.wire
    let tok := p.token
    let mark := p.mark
    let inface := p.inFace
    -- ---------- model
    let r := sendPacketF cfg txst p
    let mframes := r.2.1.map encFrame
    let expected := s!"n={mframes.length}" ++ String.join (mframes.map fun f => " " ++ hexOfBytes f)
    let cov := [match r.2.2 with
                | .single => "tx-single" | .dropNoFrag => "tx-drop-nofrag"
                | .dropTinyMtu => "tx-drop-tiny-mtu" | .fragmented => "tx-fragmented"] ++
               (if r.1.nextSeq < txst.nextSeq then ["tx-seq-wrap"] else []) ++
               (if (congestionStep cfg txst p).1 ≠ mark then ["tx-own-congestion-mark"] else []) ++
               (if tok ≠ [] then ["tx-token"] else []) ++ (if mark.isSome then ["tx-mark"] else []) ++
               (if cfg.ifiEnabled ∧ inface.isSome then ["tx-inface"] else [])
    -- ---------- specification on the implementation's frames
    let toks := got.splitOn " "
    let iframes : Option (List Bytes) :=
      match toks with
      | n :: hs => if n.startsWith "n=" then hs.mapM bytesOfHex else none
      | [] => none
    match iframes with
    | none => { st := { (setTx d r.1) with judgeRx := false }, expected := some expected, spec := crash, cov := cov }
    | some iframes =>
      let m0 : Sent := { wire := wire, token := tok, mark := mark,
                         inFace := if cfg.ifiEnabled then inface else none }
      let inScope := m0.admissible && cfg.mtu ≥ specMinMtu
      -- the mark the frames have to carry: the packet's, unless the link signals congestion itself
      let ownMarkAllowed := cfg.congMarking && p.congested
      let firstMark : Option Nat := match decodeAll iframes with
        | some (f :: _) => f.mark | _ => mark
      -- nothing was sent: when the link may add its own mark, judge the drop against the smallest
      -- frame it could have built with a mark of its own (any 1-byte mark has the same size)
      let mOwn : Sent := { m0 with mark := some 1 }
      let m : Sent :=
        if iframes.isEmpty && ownMarkAllowed && mark.isNone && !mOwn.fitsWhole cfg.mtu then mOwn
        else if ownMarkAllowed && (mark.isNone || firstMark.isSome) then { m0 with mark := firstMark } else m0
      let fails : List SpecFail :=
        if !inScope then [] else
        (if framesFit cfg.mtu iframes then [] else
          [⟨"frame-le-mtu", "frame-gt-mtu", s!"mtu={cfg.mtu} packet={wire.length}B frame sizes={iframes.map (·.length)}"⟩]) ++
        (if singleOk m cfg.mtu iframes then [] else
          [⟨"fits-single-frame", "not-single", s!"mtu={cfg.mtu} packet={wire.length}B fits one frame of {(encFrame m.whole).length}B but {iframes.length} frames were sent"⟩]) ++
        (if noFragOk m cfg.mtu cfg.fragEnabled iframes then [] else
          [⟨"nofrag-oversize-dropped", "sent-oversize", s!"fragmentation disabled, mtu={cfg.mtu}, packet={wire.length}B, yet {iframes.length} frame(s) sent"⟩]) ++
        (if iframes.isEmpty then
           (if cfg.fragEnabled || m.fitsWhole cfg.mtu then
             [⟨"delivers-original", "sender-dropped", s!"mtu={cfg.mtu} packet={wire.length}B: nothing was sent"⟩] else [])
         else match carriesWhy m iframes with
           | none => []
           | some why => [⟨"delivers-original", "frames-" ++ why, s!"mtu={cfg.mtu} packet={wire.length}B {iframes.length} frame(s): the frames do not carry the packet ({why})"⟩])
      let judged := inScope && fails.isEmpty && d.reasm
      let info : MsgInfo := { id := id, sent := m, frames := iframes, judged := judged, hn := hn, hp := hp, pkt := p }
      { st := { (setTx d r.1) with msgs := info :: d.msgs.filter (·.id ≠ id) }, expected := some expected,
        spec := crash ++ fails, cov := cov ++ (if faceB then ["tx-same-packet-on-second-face"] else []), nontrivial := iframes.length > 1 }


/-- one arrival at the receiver (an LP frame of a message, or a bare packet): model replay and the
    specification on the implementation's own output -/
def rxCommon (d : DSt) (crash : List SpecFail) (got : String) (id : String) (info : MsgInfo)
    (frame : Bytes) (sentView : Sent) (want0 : List Delivery) (judge0 dup : Bool) (descr : String)
    (handed' : List Nat) : StepResult DSt :=
    -- ---------- model
    let r := handleFrame d.reasm outerOk d.store frame
    let mthreads := match r.2 with
      | .drop => []
      | .deliver x => dispatchThreads d.nThreads x.wire x.token info.hn info.hp
    let heldModel' := match r.2 with
      | .drop => d.heldModel
      | .deliver x => if mthreads.isEmpty then d.heldModel else d.heldModel ++ [renderText x.wire x.token x.mark]
    let (expected, cov) : Option String × List String := match r.2 with
      | .drop => (some s!"ps={r.1.length}", [if r.1.length > d.store.length then "rx-store-new" else if r.1.length > 0 ∧ info.frames.length > 1 then "rx-store-more" else "rx-drop"])
      | .deliver x =>
        if mthreads.isEmpty then (some s!"ps={r.1.length}", ["rx-dispatch-drop"]) else
        (some s!"ps={r.1.length} {deliveryText x.wire x.token x.mark mthreads} st={heldDigest heldModel'}",
                       [if info.frames.length > 1 then "rx-deliver-reassembled" else "rx-deliver-single"] ++
                       [if mthreads.length > 1 then "rx-dispatch-several-threads" else "rx-dispatch-one-thread"] ++
                       (if info.frames.length > 1 && !d.heldModel.isEmpty then ["rx-deliver-while-holding-earlier"] else []))
    -- ---------- specification on the implementation's deliveries
    let judge := judge0
    let toks := (got.splitOn " ").filter (· ≠ "")
    let idelT : List (Option (Delivery × List Nat)) := (toks.filter (·.startsWith "d=")).map parseDelivery
    let wantThreads := destThreads d.nThreads sentView info.hn info.hp
    let want := if wantThreads.isEmpty then [] else want0
    let fails : List SpecFail :=
      if !judge || !got.startsWith "ps=" then [] else
      if idelT.any Option.isNone then [⟨"delivered-exactly-once", "unparsable", got.take 80 |>.toString⟩] else
      let idelT := idelT.filterMap (fun x => x)
      let idel := idelT.map (·.1)
      if idel = want then
        -- the right packet(s): each must have been queued exactly once to every destination thread
        (idelT.filter (fun x => !threadsOk wantThreads x.2)).map fun x =>
          ⟨"delivered-exactly-once",
           (if x.2.any (fun t => x.2.count t > 1) then "twice-to-a-thread" else "wrong-threads"),
           s!"message {id}: queued to forwarding thread(s) {x.2}, the dispatch rule gives {wantThreads} (each exactly once)"⟩
      else
      match want, idel with
      | [w], [] => [⟨"delivered-exactly-once", "missing", s!"all {info.frames.length} frame(s) of message {id} ({w.wire.length}B) have arrived, nothing was delivered"⟩]
      | [], x :: _ => [⟨"delivered-exactly-once", "unexpected", s!"message {id}: a {x.wire.length}B packet was delivered before all frames arrived / a second time"⟩]
      | [w], [x] => [⟨"delivered-exactly-once",
                      (if x.wire ≠ w.wire then "wrong-bytes" else if x.token ≠ w.token then "wrong-token" else "wrong-mark"),
                      s!"message {id}: delivered {x.wire.length}B token={hexOrDash x.token} mark={natText x.mark}, sent {w.wire.length}B token={hexOrDash w.token} mark={natText w.mark}"⟩]
      | _, _ => [⟨"delivered-exactly-once", "count", s!"message {id}: {idel.length} distinct packets delivered at one arrival"⟩]
    -- delivered packets must keep their bytes while the forwarder holds them: the harness retains
    -- every delivered packet uncopied and re-renders all of them (digest `st`) at each delivery
    let newImpl := (toks.filter (·.startsWith "d=")).map (fun t => (((t.drop 2).toString).splitOn "@").headD "")
    let heldImpl' := d.heldImpl ++ newImpl
    let stable : List SpecFail :=
      match toks.find? (·.startsWith "st=") with
      | some t =>
        if (t.drop 3).toString == heldDigest heldImpl' then [] else
          [⟨"delivered-bytes-stable", "changed-after-delivery",
            s!"after the delivery at '{descr}' a packet delivered EARLIER in this history (of {d.heldImpl.length}) no longer has the bytes / token / mark it was delivered with"⟩]
      | none => []
    let nameBad : List SpecFail :=
      if newImpl.all nameAgrees then [] else
        [⟨"delivered-bytes-stable", "name-not-of-packet",
          s!"'{descr}': the name handed to the forwarder with the packet (pkt.Name of the decoded L3) is not the name inside the delivered bytes"⟩]
    let detached : List SpecFail :=
      if (toks.filter (·.startsWith "d=")).any (·.endsWith "!0") then
        [⟨"delivers-original", "decoded-view-detached",
          s!"'{descr}': the decoded packet handed to the forwarder (pkt.L3, through which it edits e.g. the HopLimit) does not live in the memory of pkt.Raw, the bytes that are sent on"⟩]
      else []
    let info' := { info with handed := handed' }
    { st := { d with store := r.1, msgs := info' :: d.msgs.filter (·.id ≠ id), judgeRx := d.judgeRx && !dup,
                     heldModel := heldModel', heldImpl := heldImpl' },
      expected := expected, spec := crash ++ fails ++ stable ++ nameBad ++ detached, cov := cov ++ (if dup then ["rx-duplicate"] else []) }


def stepC10 (d : DSt) (op : String) (got : String) : StepResult DSt :=
  let crash : List SpecFail := if isCrash got then [⟨"no-crash", "crash", s!"{op.take 60}: {got}"⟩] else []
  match op.splitOn " " with
  | ["new", mtu, frag, reasm, ifi, cm, thr, seq, nth, sscope, rscope] =>
    match mtu.toNat?, thr.toNat?, seq.toNat?.bind (fun s => nth.toNat?.map (fun n => (s, n))) with
    | some mtu, some thr, some (seq, nth) =>
      let cfg : TxCfg := { mtu := mtu, fragEnabled := bool01 frag, ifiEnabled := bool01 ifi,
                           congMarking := bool01 cm, threshold := thr }
      { st := { active := true, cfg := cfg, cfgB := cfg, reasm := bool01 reasm, tx := { nextSeq := seq },
                txB := { nextSeq := (seq + 9223372036854775808) % two64 },
                nThreads := max 1 (min nth 8) },
        expected := some "ok",
        cov := [s!"threads-{max 1 (min nth 8)}", s!"scope-send-{sscope}", s!"scope-recv-{rscope}"] ++ [if bool01 frag then "cfg-frag" else "cfg-nofrag"] ++ (if bool01 ifi then ["cfg-ifi"] else []) ++
               (if bool01 cm then ["cfg-congestion-marking"] else []) ++
               (if seq + 300 ≥ two64 then ["seq-near-2^64"] else if seq + 300 ≥ 4294967296 ∧ seq < 4294967296 then ["seq-near-2^32"] else []) }
    | _, _, _ => { st := {}, expected := some "bad-op" }
  | ["mtu", n] =>
    if !d.active then { st := d, expected := some "skip" } else
    match n.toNat? with
    | some n => { st := { d with cfg := { d.cfg with mtu := n } }, expected := some "ok", spec := crash,
                  cov := [if n < d.cfg.mtu then "reconf-mtu-down" else "reconf-mtu-up"] }
    | none => { st := d, expected := some "bad-op" }
  | ["opt", frag, ifi] =>
    if !d.active then { st := d, expected := some "skip" } else
    { st := { d with cfg := { d.cfg with fragEnabled := bool01 frag, ifiEnabled := bool01 ifi } },
      expected := some "ok", spec := crash, cov := ["reconf-options"] }
  | ["tx", id, pkt, tok, _itok, mark, inface, cong, hn, hp] =>
    if !d.active then { st := d, expected := some "skip" } else
    match bytesOfHex pkt, (if tok == "-" then some [] else bytesOfHex tok), optNatText mark, optNatText inface,
          hn.toNat?.bind (fun a => (parseThreads hp).map (fun b => (a, b))) with
    | some wire, some tok, some mark, some inface, some (hn, hp) =>
      txCommon d crash got id { wire := wire, token := tok, mark := mark, inFace := inface, congested := bool01 cong } hn hp false
    | _, _, _, _, _ => { st := d, expected := some "bad-op" }
  | ["txb", id2, id] =>
    -- the SAME packet object (defn.Pkt / OutPkt of message <id>) is sent on a second, uncongested face
    -- as well (multicast Interest, Data with several downstreams): what its peer gets must be the
    -- original packet with the ORIGINAL mark, whatever the first face decided for itself
    if !d.active then { st := d, expected := some "skip" } else
    match d.msgs.find? (·.id = id) with
    | some info => txCommon d crash got id2 { info.pkt with congested := false } info.hn info.hp true
    | none => { st := d, expected := some "skip" }
  | ["rx", id, i] =>
    if !d.active then { st := d, expected := some "skip" } else
    match d.msgs.find? (·.id = id), i.toNat? with
    | some info, some i =>
      match info.frames[i]? with
      | none => { st := d, expected := some "skip" }
      | some frame =>
        let dup := info.handed.contains i
        rxCommon d crash got id info frame info.sent
          (expectedAt info.sent info.frames.length info.handed i)
          (d.judgeRx && info.judged && !dup) dup s!"rx {id} {i}" (i :: info.handed)
    | _, _ => { st := d, expected := some "skip" }
  | ["rxs", id, i, _chunk] =>
    -- the frame arrives over the history's STREAM connection (real readTlvStream in front of the link
    -- service, reads that never end on a block boundary): framing is the identity on blocks (C11), so
    -- the receiver sees exactly what `rx` hands it
    if !d.active then { st := d, expected := some "skip" } else
    match d.msgs.find? (·.id = id), i.toNat? with
    | some info, some i =>
      match info.frames[i]? with
      | none => { st := d, expected := some "skip" }
      | some frame =>
        let dup := info.handed.contains i
        let r := rxCommon d crash got id info frame info.sent
          (expectedAt info.sent info.frames.length info.handed i)
          (d.judgeRx && info.judged && !dup) dup s!"rxs {id} {i}" (i :: info.handed)
        let down : List SpecFail := if got.startsWith "stream-down" then
          [⟨"delivered-exactly-once", "stream-face-down", s!"rxs {id} {i}: the stream receive loop returned or hung on a well-formed stream of LP frames: {(got.take 120).toString}"⟩] else []
        { r with cov := r.cov ++ ["rx-over-stream"], spec := r.spec ++ down }
    | _, _ => { st := d, expected := some "skip" }
  | ["rxb", id] =>
    -- the packet itself arrives bare (no LpPacket): delivered as it is, without token and mark
    if !d.active then { st := d, expected := some "skip" } else
    match d.msgs.find? (·.id = id) with
    | some info =>
      let bare : Sent := { wire := info.sent.wire }
      rxCommon d crash got id info info.sent.wire bare [bare.delivery]
        (d.judgeRx && bare.admissible && outerOk bare.wire) false s!"rxb {id}" info.handed
    | none => { st := d, expected := some "skip" }
  | ["rxbi", id] =>
    -- the bare packet is the INITIAL frame of a new face (UDP listener: first datagram of a new
    -- peer, `LinkService.Run(recvBuf[:n])`, buffer re-used at once): handled like any bare arrival
    if !d.active then { st := d, expected := some "skip" } else
    match d.msgs.find? (·.id = id) with
    | some info =>
      let bare : Sent := { wire := info.sent.wire }
      let r := rxCommon d crash got id info info.sent.wire bare [bare.delivery]
        (d.judgeRx && bare.admissible && outerOk bare.wire) false s!"rxbi {id}" info.handed
      { r with cov := r.cov ++ ["rx-initial-bare"] }
    | none => { st := d, expected := some "skip" }
  | ["rxi", id] =>
    -- the only frame of a one-frame message as the initial frame of a new face
    if !d.active then { st := d, expected := some "skip" } else
    match d.msgs.find? (·.id = id) with
    | some info =>
      match info.frames with
      | [frame] =>
        let dup := info.handed.contains 0
        let r := rxCommon d crash got id info frame info.sent
          (expectedAt info.sent 1 info.handed 0)
          (d.judgeRx && info.judged && !dup) dup s!"rxi {id}" (0 :: info.handed)
        { r with cov := r.cov ++ ["rx-initial-lp"] }
      | _ => { st := d, expected := some "skip" }
    | none => { st := d, expected := some "skip" }
  | ["end"] =>
    if !d.active then { st := d, expected := some "skip" } else
    let toks := (got.splitOn " ").filter (· ≠ "")
    let hImpl := (toks.filter (·.startsWith "h=")).map (fun t => (t.drop 2).toString)
    let stable : List SpecFail :=
      if !got.startsWith "ps=" || hImpl = d.heldImpl then [] else
      let bad := ((List.range d.heldImpl.length).filter fun k => hImpl[k]? ≠ d.heldImpl[k]?)
      [⟨"delivered-bytes-stable", "changed-at-end",
        s!"at the end of the history {bad.length} of the {d.heldImpl.length} delivered packet(s) (delivery no. {bad.map (· + 1)}) no longer have the bytes / token / mark they were delivered with"⟩]
    { st := d, expected := some (s!"ps={d.store.length}" ++ String.join (d.heldModel.map fun r => " h=" ++ r)),
      spec := crash ++ stable, cov := [if d.store.isEmpty then "end-store-empty" else "end-store-nonempty"] }
  | _ => { st := d, expected := some "bad-op" }

def main : IO Unit := Ndn.Driver.run ({} : DSt) stepC10
