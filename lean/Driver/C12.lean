import NdnVerif.C03.DriverLib
open Ndn Ndn.Driver Ndn.C03 Ndn.C03.Text Ndn.C03.Drv

structure St where
  last : Option Mk := none
  held : Option Mk := none
  mkExpected : Option String := none   -- the model's prediction for the make op (compared at `cmp`)

/-- the SignatureType a shipped validator insists on, by signer token -/
def validatorType (tok : String) : Option Nat :=
  if tok.startsWith "sha" then some 0 else if tok.startsWith "hmac" then some 4
  else if tok.startsWith "ecc" then some 3 else if tok.startsWith "rsa" then some 1 else none

/-- decode (model) + validator prediction under A-crypto: the validator of the matching type
    accepts (covered', value') iff it is exactly the (covered, value) pair the signer produced.
    Returns the verdict letter and the signed portion the parser reports. -/
def modelVerdict (mk : Mk) (r : Rd) : Char × Bytes :=
  let res : Res (Option SigInfo × Option Bytes × Bytes) :=
    if mk.kind == 'D' then do
      let (d, cov) ← readData r
      pure (d.si, d.sv, cov)
    else do
      let (i, cov) ← readInterest Sha.sha256 r
      pure (i.si, i.sv, cov)
  match res with
  | .ok (si, sv, cov) =>
    match validatorType mk.signer with
    | none => ('n', cov)
    | some t =>
      -- Interest.SigValue() joins a nil wire to an empty value; Data.SigValue() returns nil
      if si.map (·.typ) == some t ∧ some cov == mk.handedCov ∧ sv.getD [] == mk.sv.getD [] ∧ mk.sv.isSome then ('a', cov) else ('r', cov)
  | .err => ('e', [])
  | .panic _ => ('p', [])
  | .alloc => ('?', [])
  | .oom => ('?', [])

def flipBit (w : Bytes) (bit : Nat) : Bytes :=
  w.set (bit / 8) (Nat.xor (w.getD (bit / 8) 0) (2 ^ (7 - bit % 8)))

/-- positions (byte offsets) whose tampering the property promises to detect -/
def claimed (w : Bytes) : List (Nat × Nat) :=
  Spec.signedRanges w ++ (Spec.sigValueRange w).toList ++ (Spec.paramsRange w).toList

/-- value bytes of the ParametersSha256Digest component (last name component, type 2) of an Interest
    that carries ApplicationParameters -/
def digestRange (w : Bytes) : Option (Nat × Nat) :=
  match Spec.elements w with
  | some (o, ts) =>
    if o.typ ≠ 5 ∨ (Spec.findT ts 36).isNone then none else
    match Spec.findT ts 7 with
    | some nm =>
      match ((Spec.tlvs nm.val).getD []).getLast? with
      | some c => if c.typ = 2 then some (nm.off + nm.hdr + c.off + c.hdr, nm.off + nm.hdr + c.off + c.hdr + c.val.length) else none
      | none => none
    | none => none
  | none => none

/-- `got` of the form "x!y": ReadPacket's verdict y differs from ReadData/ReadInterest's x -/
def specAgree (mk : Mk) (what : String) (got : String) : List SpecFail :=
  if (got.splitOn "!").length > 1 then
    [⟨"readers-agree", String.singleton mk.kind ++ "-" ++ sigBase mk.signer,
      s!"{what}: ReadPacket and Read{if mk.kind == 'D' then "Data" else "Interest"} disagree (verdicts {tk got 12})"⟩]
  else []

/-- the packet without its first top-level element of type `typ` (outer length re-encoded) -/
def withoutElement (w : Bytes) (typ : Nat) : Option Bytes :=
  match Spec.elements w with
  | some (o, ts) =>
    match Spec.findT ts typ with
    | some t =>
      let nv := (w.drop o.hdr).take (t.off - o.hdr) ++ w.drop (t.off + t.hdr + t.val.length)
      some (encTL o.typ ++ encTL nv.length ++ nv)
    | none => none
  | none => none

def specFlip (mk : Mk) (bit : Nat) (v : Char) (cuts : String := "c") : List SpecFail :=
  let inClaim := Spec.inRanges (claimed mk.w) (bit / 8)
  let region := if Spec.inRanges (Spec.signedRanges mk.w) (bit / 8) then "signed"
    else if Spec.inRanges (Spec.sigValueRange mk.w).toList (bit / 8) then "sigvalue" else "params"
  -- a signature can only protect what a validator checks: signed regions are claimed for signed
  -- packets, the parameters for every Interest that carries them
  let applies := inClaim ∧ ((validatorType mk.signer).isSome ∧ mk.signed ∨ region == "params")
  -- a Go panic while decoding tampered bytes ('p') is a decoding failure for THIS property (the
  -- packet is not accepted); crash-freedom on arbitrary bytes is property C04. The model predicts
  -- every verdict it can decide, so an unexpected panic still surfaces as a DIFF.
  let inDigest := Spec.inRanges (digestRange mk.w).toList (bit / 8)
  if applies ∧ (v == 'a' ∨ v == 'n') then
    [⟨"tamper-detected", region ++ "-" ++ String.singleton mk.kind ++ "-" ++ sigBase mk.signer,
      s!"bit {bit} (byte {bit / 8}, {region}) flipped, reader {cuts}: the packet still decodes and is not rejected (verdict {v})"⟩]
  else if inDigest ∧ v != 'e' ∧ v != 'p' then
    -- "one whose digest does not match is rejected on decode"
    [⟨"digest-checked", String.singleton mk.kind ++ "-" ++ sigBase mk.signer,
      s!"bit {bit} of the ParametersSha256Digest component flipped, reader {cuts}: the Interest still decodes (verdict {v})"⟩]
  else []

def stepC12 (st : St) (op : String) (got : String) : StepResult St :=
  let f := op.splitOn " "
  match f with
  | ["new"] => { st := {}, expected := some "ok" }
  | "mkd" :: _ =>
    let r := runMkd f got
    { st := { st with last := r.built, mkExpected := some r.expected }, expected := none, cov := r.cov,
      spec := r.spec.filter (fun s => s.clause == "builds" || s.clause == "no-panic" || s.clause == "covered-returned"),
      nontrivial := (r.built.map (·.signed)).getD false }
  | "mki" :: _ =>
    let r := runMki f got
    { st := { st with last := r.built, mkExpected := some r.expected }, expected := none, cov := r.cov,
      spec := r.spec.filter (fun s => s.clause == "builds" || s.clause == "no-panic" || s.clause == "covered-returned"),
      nontrivial := (r.built.map (fun m => m.signed || m.hasParams)).getD false }
  | "delap" :: rest =>
    let cuts := rest.headD "c"
    match st.last with
    | none => { st := st, expected := some "skip" }
    | some mk =>
      if mk.kind != 'I' then { st := st, expected := some "skip" } else
      match withoutElement mk.w 36 with
      | none => { st := st, expected := some "skip" }
      | some w =>
        match readerOf w cuts mk.segLens with
        | none => { st := st, expected := some "bad-op" }
        | some r =>
          let (v, _) := modelVerdict mk r
          { st := st, expected := some (String.singleton v), cov := ["delap"],
            spec := specAgree mk s!"ApplicationParameters removed, reader {cuts}" got ++
              (if !got.startsWith "e" ∧ !got.startsWith "p" ∧ !isCrash got then
                [⟨"params-removed", "I-" ++ sigBase mk.signer,
                  s!"the Interest with its ApplicationParameters element removed still decodes (reader {cuts}, verdict {tk got 8})"⟩] else []) }
  | "fmk" :: _ =>
    -- a make op under a failing entropy source: its own outcome is not part of the property (signers
    -- that need randomness report an error, the others succeed); it only must not disturb the signer
    { st := st, expected := none, cov := [if got == "err" then "fmk-err" else "fmk-ok"],
      spec := if isCrash got then [⟨"no-panic", "fmk", tk got 160⟩] else [] }
  | "par" :: _ :: rest =>
    let tok := rest.getLast?.getD ""
    let kind := if rest.head? == some "mkd" then "D" else "I"
    let hasVal := (validatorType tok).isSome
    let shipped := (if kind == "D" then shippedDataSigners else shippedIntSigners).contains (sigBase tok)
    let letters := got.toList
    { st := st, expected := none, cov := ["par"] ++ (if letters.all (· == 'a') then ["par-accepted"] else []),
      spec :=
        (if isCrash got ∨ letters.contains 'p' then
          [⟨"no-panic", "par-" ++ kind ++ "-" ++ sigBase tok, s!"building packets concurrently with one signer instance panicked: {tk got 80}"⟩] else []) ++
        (if !isCrash got ∧ (letters.contains 'e' ∨ letters.contains 'c') then
          [⟨"covered", "par-" ++ kind ++ "-" ++ sigBase tok, s!"a packet built concurrently with one signer instance does not decode to the bytes the signer was handed: {got}"⟩] else []) ++
        (if !isCrash got ∧ hasVal ∧ letters.contains 'r' then
          [⟨"accepts", "par-" ++ kind ++ "-" ++ sigBase tok, s!"an untampered packet built while another goroutine used the same signer instance is rejected by the matching validator: {got}"⟩] else []) }
  | ["hold"] =>
    match st.last with
    | none => { st := st, expected := some "skip" }
    | some mk => { st := { st with held := some mk }, expected := some "ok", cov := ["hold"] }
  | ["valheld"] =>
    match st.held with
    | none => { st := st, expected := some "skip" }
    | some mk =>
      let (v, cov) := modelVerdict mk (newBufferReader mk.w)
      let c := match mk.handedCov with | none => "na" | some h => if h == cov then "eq" else "ne"
      let expected := if v == 'e' then "e same" else s!"{v} cov={c} same"
      let hasVal := (validatorType mk.signer).isSome ∧ mk.signed
      { st := st, expected := some expected, cov := ["valheld"],
        spec :=
          (if (got.splitOn " ").getLast? == some "changed" then
            [⟨"stable", String.singleton mk.kind ++ "-" ++ sigBase mk.signer,
              "the bytes of a packet changed after the same signer instance built another packet"⟩] else []) ++
          (if hasVal ∧ !got.startsWith "a" ∧ !isCrash got then
            [⟨"accepts", "held-" ++ String.singleton mk.kind ++ "-" ++ sigBase mk.signer,
              s!"a packet is no longer accepted by the matching validator after the same signer instance built another packet: {tk got 40}"⟩] else []) }
  | ["cmp"] =>
    match st.mkExpected with
    | none => { st := st, expected := some "skip" }
    | some e => { st := st, expected := some e }
  | ["val", cuts] =>
    match st.last with
    | none => { st := st, expected := some "skip" }
    | some mk =>
      match readerOf mk.w cuts mk.segLens with
      | none => { st := st, expected := some "bad-op" }
      | some r =>
        let (v, cov) := modelVerdict mk r
        let expected :=
          if v == 'e' then "e"
          else
            let c := match mk.handedCov with
              | none => "na"
              | some h => if h == cov then "eq" else "ne:" ++ hexOrDash cov
            s!"{v} cov={c}"
        let hasVal := (validatorType mk.signer).isSome ∧ mk.signed
        let spec : List SpecFail :=
          (if isCrash got then [⟨"no-panic", "val", tk got 160⟩] else []) ++
          specAgree mk s!"untampered packet, reader {cuts}" got ++
          (if got == "e" then
            [⟨"decodes", String.singleton mk.kind ++ "-" ++ sigBase mk.signer,
              s!"a packet built through the API does not decode (reader {cuts})"⟩] else []) ++
          (if (got.splitOn " cov=ne").length > 1 then
            [⟨"covered", String.singleton mk.kind ++ "-" ++ sigBase mk.signer,
              s!"the signed portion reported by the parser (cuts {cuts}) differs from the bytes handed to the signer"⟩] else []) ++
          (if hasVal ∧ !got.startsWith "a" ∧ got != "e" ∧ !isCrash got then
            [⟨"accepts", String.singleton mk.kind ++ "-" ++ sigBase mk.signer,
              s!"the untampered packet is not accepted by the matching validator (cuts {cuts}): {tk got 40}"⟩] else []) ++
          (match mk.handedCov with
           | some h => if mk.signed ∧ h ≠ Spec.signedPortion mk.w then
               [⟨"covered-spec", String.singleton mk.kind ++ "-" ++ sigBase mk.signer,
                 "the signer was handed bytes other than the signed portion the packet format prescribes"⟩] else []
           | none => [])
        { st := st, expected := some expected, spec := spec,
          cov := [if cuts == "c" then "val-contiguous" else if cuts == "own" then "val-own" else "val-segmented"] ++ (if v == 'a' then ["val-accept"] else if v == 'n' then ["val-novalidator"] else []) }
  | "flip" :: b :: rest =>
    let cuts := rest.headD "c"
    match st.last, b.toNat? with
    | some mk, some bit =>
      if bit ≥ 8 * mk.w.length then { st := st, expected := some "skip" } else
      match readerOf (flipBit mk.w bit) cuts mk.segLens with
      | none => { st := st, expected := some "bad-op" }
      | some r =>
        let (v, _) := modelVerdict mk r
        let gv := got.toList.headD '?'
        { st := st, expected := if v == '?' then none else some (String.singleton v),
          spec := specFlip mk bit gv cuts ++ specAgree mk s!"bit {bit} flipped, reader {cuts}" got,
          cov := ["flip-" ++ String.singleton v] }
    | none, _ => { st := st, expected := some "skip" }
    | _, none => { st := st, expected := some "bad-op" }
  | "flipall" :: rest =>
    let cuts := rest.headD "c"
    match st.last with
    | none => { st := st, expected := some "skip" }
    | some mk =>
      let gparts := got.splitOn " "
      let gl := (gparts.getD 1 "").toList
      let pk := (kv gparts "pk").getD "-"
      let n := 8 * mk.w.length
      let model : List Char := (List.range n).map fun bit =>
        match readerOf (flipBit mk.w bit) cuts mk.segLens with
        | some r => (modelVerdict mk r).1
        | none => '?'
      -- positions the model does not decide ('?': LpPacket / AdditionalDescription) are not compared
      let merged := (List.range n).map fun i => let m := model.getD i '?'; if m == '?' then gl.getD i '?' else m
      let spec := (List.range n).flatMap fun bit => specFlip mk bit (gl.getD bit '?') cuts
      let tags := (model.eraseDups).map fun c => "flip-" ++ String.singleton c
      let regions := (if (Spec.signedRanges mk.w).isEmpty then [] else ["flip-signed-region"]) ++
        (if (Spec.paramsRange mk.w).isSome then ["flip-params-region"] else []) ++
        (if (digestRange mk.w).isSome then ["flip-digest-region"] else []) ++
        (match Spec.paramsRange mk.w with | some (lo, hi) => if hi - lo ≤ 2 then ["flip-params-empty"] else [] | none => [])
      let agree : List SpecFail := if pk != "-" ∧ !isCrash got then
          [⟨"readers-agree", String.singleton mk.kind ++ "-" ++ sigBase mk.signer,
            s!"reader {cuts}: ReadPacket's verdict differs from Read{if mk.kind == 'D' then "Data" else "Interest"}'s for the packet with these bits flipped (bit:ReadPacket verdict): {tk pk 120}"⟩] else []
      { st := st, expected := some s!"{mk.w.length} {String.ofList merged} pk=-",
        spec := if isCrash got then [⟨"no-panic", "flipall", tk got 160⟩] else agree ++ spec.take 4,
        cov := (if cuts == "c" then "flipall" else if cuts == "own" then "flipall-own" else "flipall-cuts") :: tags ++ regions }
  | _ => { st := st, expected := some "bad-op" }

def main : IO Unit := Ndn.Driver.run ({} : St) stepC12
