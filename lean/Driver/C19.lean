import NdnVerif.C18.DriverLoop
import NdnVerif.C19.Model
import NdnVerif.C19.Spec
open Ndn Ndn.Driver Ndn.C19

namespace C19Drv

def numApp : Nat := 7

def validId (n id : Nat) : Bool := id < n || (100 ≤ id && id < 100 + numApp) || (1000 ≤ id && id < 10000)

/-! ### installer histories -/

structure FibSt where
  n : Nat
  keys : List Nat
  /-- the model: `RState` of Model.lean (tables, installer, its own replayed routes) -/
  rs : RState
  /-- spec side: replay of every command the implementation emitted in this history -/
  routes : Spec.Routes := []
  /-- per remote router (index): its advertisement number, the number this router remembers for it
      (`AdvertSeq`, only while the neighbour state lives), its current advertisement -/
  cnt : List (Nat × Nat) := []
  aseq : List (Nat × Nat) := []
  lastAdv : List (Nat × List C18.AdvEntry) := []

def idxOfKey (keys : List Nat) (k : Nat) : Option Nat :=
  let i := keys.idxOf k
  if i < keys.length then some i else none

def optStr : Option Nat → String
  | some i => toString i
  | none => "-"

def dashIfEmpty (s : String) : String := if s.isEmpty then "-" else s

def cmdKey : Cmd → Nat × Nat
  | .register n f _ => (n, f)
  | .unregister n f => (n, f)

def cmdText : Cmd → String
  | .register n f c => s!"R:{n}:{f}:{c}"
  | .unregister n f => s!"U:{n}:{f}"

def leKey (a b : Nat × Nat) : Bool := a.1 < b.1 || (a.1 == b.1 && a.2 ≤ b.2)

def dumpCmds (cmds : List Cmd) : String :=
  dashIfEmpty (",".intercalate ((cmds.mergeSort fun a b => leKey (cmdKey a) (cmdKey b)).map cmdText))

def dumpTables (s : FibSt) : String :=
  let rib := s.rs.t.rib.reachable.map fun e =>
    ((idxOfKey s.keys e.dest).getD 0,
      s!"{optStr (idxOfKey s.keys e.dest)}:{optStr (if e.best.low1 ≥ Spec.infinity then none else idxOfKey s.keys e.best.nh1)}:{e.best.low1}:{optStr (if e.best.low2 ≥ Spec.infinity then none else idxOfKey s.keys e.best.nh2)}:{e.best.low2}")
  let rib := (rib.mergeSort fun a b => a.1 ≤ b.1).map (·.2)
  let nbr := s.rs.t.nbrs.map fun (k, nb) => ((idxOfKey s.keys k).getD 0, s!"{optStr (idxOfKey s.keys k)}:{nb.face}")
  let nbr := (nbr.mergeSort fun a b => a.1 ≤ b.1).map (·.2)
  let pfx := (List.range s.n).filterMap fun x =>
    let ids := (pget s.rs.t.pfx (s.keys.getD x 0)).getD []
    if ids.isEmpty then none
    else some s!"{x}:{".".intercalate ((Spec.sortNat ids).map toString)}"
  s!"rib={dashIfEmpty (",".intercalate rib)} nbr={dashIfEmpty (",".intercalate nbr)} pfx={dashIfEmpty (",".intercalate pfx)}"

def dumpFib (cmds : List Cmd) (s : FibSt) : String := s!"cmds={dumpCmds cmds} {dumpTables s}"

def prefixOfKeys (keys : List Nat) (k : Nat) : Nat := (idxOfKey keys k).getD 999

def parseAdvItems (n : Nat) (keys : List Nat) (txt : String) : Option (List C18.AdvEntry) :=
  if txt == "-" then some [] else
  (txt.splitOn ";").foldlM (fun acc item =>
    match item.splitOn ":" with
    | [d, nh, c, o] => do
      let d ← d.toNat?; let nh ← nh.toNat?; let c ← c.toNat?; let o ← o.toNat?
      if d < n && nh < n then
        pure (acc ++ [{ dest := keys.getD d 0, nh := keys.getD nh 0, cost := c, other := o : C18.AdvEntry }])
      else pure acc
    | _ => none) []

def parseIds (n : Nat) (txt : String) : List Nat :=
  if txt == "-" then [] else (txt.splitOn ".").filterMap fun f =>
    match f.toNat? with
    | some id => if validId n id then some id else none
    | none => none

/-! spec side of the installer -/

structure TablesObs where
  cmds : List Cmd
  badCmds : List String
  rib : List Spec.RibObs
  nbr : List (Nat × Nat)
  pfx : List (Nat × List Nat)

def noneIdx : Nat := 1000000

def parseField (got : String) (name : String) : Option String :=
  (got.splitOn " ").findSome? fun f => if f.startsWith (name ++ "=") then some (f.drop (name.length + 1)).toString else none

def parseList (txt : String) (sep : String) : List String := if txt == "-" then [] else txt.splitOn sep

def natOr (s : String) (d : Nat) : Nat := s.toNat?.getD d

def parseObs (got : String) : Option TablesObs := do
  let cmdsT ← parseField got "cmds"
  let ribT ← parseField got "rib"
  let nbrT ← parseField got "nbr"
  let pfxT ← parseField got "pfx"
  let items := parseList cmdsT ","
  let cmds := items.filterMap fun it =>
    match it.splitOn ":" with
    | ["R", n, f, c] => do pure (Cmd.register (← n.toNat?) (← f.toNat?) (← c.toNat?))
    | ["U", n, f] => do pure (Cmd.unregister (← n.toNat?) (← f.toNat?))
    | _ => none
  let bad := items.filter fun it => !(it.startsWith "R:" || it.startsWith "U:")
  let rib ← (parseList ribT ",").mapM fun it =>
    match it.splitOn ":" with
    | [d, nh1, c1, nh2, c2] => do
      pure { dest := natOr d noneIdx, nh1 := natOr nh1 noneIdx, c1 := ← c1.toNat?, nh2 := natOr nh2 noneIdx, c2 := ← c2.toNat? : Spec.RibObs }
    | _ => none
  let nbr ← (parseList nbrT ",").mapM fun it =>
    match it.splitOn ":" with
    | [w, f] => do pure (natOr w noneIdx, ← f.toNat?)
    | _ => none
  let pfx ← (parseList pfxT ",").mapM fun it =>
    match it.splitOn ":" with
    | [x, ids] => do pure (← x.toNat?, (ids.splitOn ".").filterMap String.toNat?)
    | _ => none
  pure { cmds := cmds, badCmds := bad, rib := rib, nbr := nbr, pfx := pfx }

def lookupNat (l : List (Nat × Nat)) (k : Nat) : Option Nat := (l.find? (·.1 == k)).map (·.2)

def showRoutes (r : Spec.Routes) : String :=
  " ".intercalate (r.map fun ((n, f), c) => s!"{n}@{f}={c}")

/-- evaluate clause (A) on the implementation's output; returns the new replayed table and failures -/
def specFibOf (self : Nat) (routes : Spec.Routes) (got : String) : Spec.Routes × List SpecFail :=
  if isCrash got then (routes, [⟨"no-panic", "crash", got⟩]) else
  match parseObs got with
  | none => (routes, [⟨"routes-mirror-tables", "unparsable", s!"unparsable output {got}"⟩])
  | some o =>
    let routes' := Spec.replay routes o.cmds
    let cands := Spec.candidates self id (lookupNat o.nbr) (fun x => ((o.pfx.find? (·.1 == x)).map (·.2)).getD []) o.rib
    let want := Spec.prescribed cands
    let have_ := Spec.canon routes'
    let stale := have_.filter fun (k, _) => (Spec.rget want k).isNone
    let missing := want.filter fun (k, _) => (Spec.rget have_ k).isNone
    let wrong := want.filter fun (k, c) => match Spec.rget have_ k with | some c' => c' != c | none => false
    let fails :=
      (if stale.isEmpty then [] else
        [⟨"routes-mirror-tables", "stale-route", s!"registered but not prescribed (name@face=cost): {showRoutes stale}; registered={showRoutes have_}; prescribed={showRoutes want}"⟩]) ++
      (if missing.isEmpty then [] else
        [⟨"routes-mirror-tables", "missing-route", s!"prescribed but not registered: {showRoutes missing}; registered={showRoutes have_}; prescribed={showRoutes want}"⟩]) ++
      (if wrong.isEmpty then [] else
        [⟨"routes-mirror-tables", "wrong-cost", s!"registered at another cost than the lowest prescribed: {showRoutes wrong}; registered={showRoutes have_}"⟩]) ++
      (if o.cmds.any (fun c => (cmdKey c).2 == 0) then
        [⟨"routes-mirror-tables", "face-zero", s!"a command names face 0 (next hop without neighbour state): {got}"⟩] else []) ++
      (if o.badCmds.isEmpty then [] else
        [⟨"routes-mirror-tables", "foreign-command", s!"command outside the prescription domain: {o.badCmds}"⟩])
    (routes', fails)

def specFib (routes : Spec.Routes) (got : String) : Spec.Routes × List SpecFail := specFibOf 0 routes got

/-! ### wire histories: n started routers, the harness is the network -/

structure WireSt where
  n : Nat
  links : List (Nat × Nat) := []
  /-- application prefixes every router currently announces -/
  ann : List (Nat × List Nat) := []
  /-- replayed route table of every router's forwarder -/
  routes : List Spec.Routes := []

def wireConnected (w : WireSt) (u v : Nat) : Bool :=
  let rec go (fuel : Nat) (seen : List Nat) : List Nat :=
    match fuel with
    | 0 => seen
    | fuel + 1 =>
      let more := (List.range w.n).filter fun y => !seen.contains y && seen.any fun x => w.links.contains (x, y)
      if more.isEmpty then seen else go fuel (seen ++ more)
  (go w.n [u]).contains v

def annOf (w : WireSt) (x : Nat) : List Nat := ((w.ann.find? (·.1 == x)).map (·.2)).getD []

/-! ### prefix-log histories -/

structure LogSt where
  k : Nat
  pub : Pub
  peers : List Peer
  -- spec side (from the ops and the implementation's outputs only)
  sSeq : Nat
  sSet : List Nat := []
  hist : List (Nat × List Nat) := []
  /-- what each peer had outstanding at its previous output (to recognise a newly issued Interest) -/
  lastPend : List (Nat × String) := []
  /-- the last sequence number each peer was told (from the ops) and whether it has a path (from the ops) -/
  told : List (Nat × Nat) := []
  reachS : List Nat := []
  /-- peers whose fetch was answered with a Data no forwarder can carry: what they do next is not modelled -/
  stuck : List Nat := []

def idsText (l : List Nat) : String := dashIfEmpty (".".intercalate ((Spec.sortNat l).map toString))

def dumpPub (p : Pub) : String := s!"seq={p.seq.toNat} set={idsText p.set}"

def wantText : Option Want → String
  | none => "-"
  | some .snap => "snap"
  | some (.seq n) => s!"seq:{n.toNat}"

def dumpPeer (q : Peer) : String :=
  s!"known={q.known.toNat} latest={q.latest.toNat} fetching={if q.fetching then 1 else 0} set={idsText q.set} pend={wantText q.pend}"

def setPeer (l : List Peer) (i : Nat) (q : Peer) : List Peer := l.set i q

def toggleM (p : Pub) (id : Nat) : Pub := if p.set.contains id then p.withdraw id else p.announce id

def burstM : Nat → Nat → Pub → Pub
  | 0, _, p => p
  | m + 1, i, p => burstM m (i + 1) (toggleM p (100 + (i * 3) % numApp))

def bulkM : Nat → Nat → Pub → Pub
  | 0, _, p => p
  | m + 1, i, p => bulkM m (i + 1) (p.announce (1000 + i))

def drainM : Nat → Peer → Pub → Nat → Peer × Nat
  | 0, q, _, steps => (q, steps)
  | fuel + 1, q, p, steps =>
    match q.deliver p with
    | some (q', true) => drainM fuel q' p (steps + 1)
    | _ => (q, steps)

/-- `pairs b m`: m times two publisher operations whose two sync updates reach the peer back to back, then
    everything outstanding is delivered -/
def pairsM : Nat → Nat → Pub → Peer → Pub × Peer
  | 0, _, p, q => (p, q)
  | m + 1, j, p, q =>
    let p1 := toggleM p (100 + (2 * j * 3) % numApp)
    let p2 := toggleM p1 (100 + ((2 * j + 1) * 3) % numApp)
    let q1 := (q.svsReceive p1.seq).svsReceive p2.seq
    pairsM m (j + 1) p2 (drainM 300 q1 p2 0).1

/-- spec: the publisher's announced set by the ops -/
def specPubOp (s : LogSt) (op : Spec.PubOp) : LogSt :=
  let (set', changed) := Spec.announce s.sSet op
  if changed then { s with sSet := set', sSeq := s.sSeq + 1, hist := (s.sSeq + 1, Spec.sortNat set') :: s.hist }
  else s

def specBurst : Nat → Nat → LogSt → LogSt
  | 0, _, s => s
  | m + 1, i, s =>
    let id := 100 + (i * 3) % numApp
    specBurst m (i + 1) (specPubOp s (if s.sSet.contains id then .withdraw id else .announce id))

def specBulk : Nat → Nat → LogSt → LogSt
  | 0, _, s => s
  | m + 1, i, s => specBulk m (i + 1) (specPubOp s (.announce (1000 + i)))

def parseIdsDot (t : String) : List Nat := if t == "-" then [] else (t.splitOn ".").filterMap String.toNat?

def specPubCheck (s : LogSt) (got : String) : List SpecFail :=
  if isCrash got then [⟨"no-panic", "crash", got⟩] else
  match parseField got "seq", parseField got "set" with
  | some sq, some st =>
    (if sq.toNat? == some s.sSeq then [] else
      [⟨"log-sequence", "seq", s!"publisher is at sequence {sq}, {s.sSeq} expected after the published operations"⟩]) ++
    (if parseIdsDot st == Spec.sortNat s.sSet then [] else
      [⟨"log-replay", "publisher-set", s!"publisher holds {st}, announced set is {idsText s.sSet}"⟩])
  | _, _ => [⟨"log-replay", "unparsable", got⟩]

def specPeerCheck (s : LogSt) (b : Nat) (got : String) : List SpecFail :=
  if isCrash got then [⟨"no-panic", "crash", got⟩] else
  match parseField got "known", parseField got "latest", parseField got "fetching", parseField got "set", parseField got "pend" with
  | some kn, some la, some fe, some st, some pe =>
    let known := kn.toNat?.getD 0
    let set := parseIdsDot st
    let replayFail :=
      if known == 0 then (if set.isEmpty then [] else
        [⟨"log-replay", "peer-set", s!"peer {b} has applied nothing but holds {st}"⟩])
      else match s.hist.find? (·.1 == known) with
        | some (_, want) => if set == want then [] else
            [⟨"log-replay", "peer-set", s!"peer {b} at sequence {known} holds {st}, the publisher's set at that sequence was {idsText want}"⟩]
        | none => [⟨"log-replay", "peer-seq", s!"peer {b} is at sequence {known}, which the publisher never published"⟩]
    let completeFail :=
      match s.told.find? (·.1 == b) with
      | some (_, t) =>
        if s.reachS.contains b && pe == "-" && fe == "0" && known < t then
          [⟨"log-complete", "behind", s!"peer {b} was told sequence {t}, has a path to the publisher and nothing outstanding, but stays at {known}"⟩]
        else []
      | none => []
    -- a newly issued Interest follows the fetch rule: sequence gap > 100 forces a snapshot
    let latest := la.toNat?.getD 0
    let prev := ((s.lastPend.find? (·.1 == b)).map (·.2)).getD "-"
    let ruleFail :=
      if pe == prev || pe == "-" then []
      else if pe == "snap" then
        (if latest > known + 100 then [] else
          [⟨"log-snapshot-rule", "snapshot-too-early", s!"peer {b} fetches a snapshot although the gap {latest}-{known} is not above 100"⟩])
      else if pe == s!"seq:{known + 1}" then
        (if latest > known + 100 then
          [⟨"log-snapshot-rule", "no-snapshot", s!"peer {b} fetches operation {known + 1} although the gap {latest}-{known} is above 100"⟩] else [])
      else [⟨"log-snapshot-rule", "wrong-interest", s!"peer {b} at {known} (latest {latest}) asks for {pe}"⟩]
    -- told the publisher's CURRENT number, a path, nothing outstanding: the reconstructed set is the announced set
    let currentFail :=
      match s.told.find? (·.1 == b) with
      | some (_, t) =>
        if t == s.sSeq && s.reachS.contains b && pe == "-" && fe == "0" && set != Spec.sortNat s.sSet then
          [⟨"log-current", "set-differs", s!"peer {b} was told the publisher's current sequence {t}, has a path and nothing outstanding, but holds {st} while the announced set is {idsText s.sSet}"⟩]
        else []
      | none => []
    replayFail ++ completeFail ++ ruleFail ++ currentFail
  | _, _, _, _, _ => [⟨"log-replay", "unparsable", got⟩]

inductive St where
  | none
  | fib (s : FibSt)
  | log (s : LogSt)
  | wire (s : WireSt)

def stripNoReply (got : String) : String :=
  if got.startsWith "noreply " then (got.drop 8).toString else got

def notePend (s : LogSt) (b : Nat) (got : String) : LogSt :=
  if got == "skip" then s else
  match parseField (stripNoReply got) "pend" with
  | some pe => { s with lastPend := (b, pe) :: s.lastPend.filter (·.1 != b) }
  | none => s

def lookupN (l : List (Nat × Nat)) (k : Nat) (d : Nat) : Nat := ((l.find? (·.1 == k)).map (·.2)).getD d
def setN (l : List (Nat × Nat)) (k v : Nat) : List (Nat × Nat) := (k, v) :: l.filter (·.1 != k)

/-- a Sync Interest of remote router `w` announcing number `sv` arrives on `face`: `advertSyncOnInterest`
    (event ping); if the number is newer than the remembered one (or the neighbour state is new) the
    advertisement is fetched and — when the remote router has one — processed (`advertDataHandler` → event adv) -/
def syncW (s : FibSt) (w face : Nat) (act : Bool) (sv : Nat) : FibSt × List Cmd × List String :=
  let key := s.keys.getD w 0
  let prefixOf := prefixOfKeys s.keys
  let absent := (pget s.rs.t.nbrs key).isNone
  let started := absent || lookupN s.aseq w 0 < sv
  let dirty := (s.rs.t.stepDirty (.ping key face act)).2
  let (rs1, c1) := s.rs.stepCmds prefixOf (.ping key face act)
  let s1 := { s with rs := rs1, aseq := if started then setN s.aseq w sv else s.aseq }
  let tag := if dirty then (if started then "ping-face-change-newer" else "ping-face-change") else "ping-same-face"
  match started, s.lastAdv.find? (·.1 == w) with
  | true, some (_, adv) =>
    let d2 := (rs1.t.stepDirty (.adv key adv)).2
    let (rs2, c2) := rs1.stepCmds prefixOf (.adv key adv)
    ({ s1 with rs := rs2 }, c1 ++ c2, [tag, if d2 then "adv-dirty" else "adv-clean"])
  | _, _ => (s1, c1, [tag])

/-- the model of one installer op; none = the op does not apply (skip) -/
def runFibOp (s : FibSt) (f : List String) : Option (FibSt × List Cmd × List String) :=
  let keyOf (w : Nat) := s.keys.getD w 0
  let prefixOf := prefixOfKeys s.keys
  let event (s : FibSt) (ev : RouterEvent) (tagDirty tagClean : String) : FibSt × List Cmd × List String :=
    let dirty := (s.rs.t.stepDirty ev).2
    let (rs', cmds) := s.rs.stepCmds prefixOf ev
    ({ s with rs := rs' }, cmds, [if dirty then tagDirty else tagClean])
  match f with
  | [pingOp, w, face, act] =>
    if pingOp != "ping" && pingOp != "pingnew" then none else
    match w.toNat?, face.toNat? with
    | some w, some face =>
      if !(1 ≤ w && w < s.n) || face == 0 then none else
      let c := lookupN s.cnt w 1 + (if pingOp == "pingnew" then 1 else 0)
      some (syncW { s with cnt := setN s.cnt w c } w face (act == "1") c)
    | _, _ => none
  | [advOp, w, items] =>
    if advOp != "adv" && advOp != "advrace" then none else
    match w.toNat?, parseAdvItems s.n s.keys items with
    | some w, some adv =>
      if !(1 ≤ w && w < s.n) then none else
      match pget s.rs.t.nbrs (keyOf w) with
      | none => none
      | some nb =>
        if advOp == "adv" then
          -- the remote router announces a newer advertisement on the face it is known on
          let c := lookupN s.cnt w 1 + 1
          some (syncW { s with cnt := setN s.cnt w c, lastAdv := (w, adv) :: s.lastAdv.filter (·.1 != w) } w nb.face true c)
        else
          -- the neighbour dies before the pending ribUpdate runs: ns.Advert is nil and ribUpdate returns
          let (s', cmds, _) := event s (.dead (keyOf w)) "advrace" "advrace"
          some ({ s' with aseq := s'.aseq.filter (·.1 != w) }, cmds, ["advrace"])
    | _, _ => none
  | ["dead", w] =>
    match w.toNat? with
    | some w =>
      if !(1 ≤ w && w < s.n) then none else
      match pget s.rs.t.nbrs (keyOf w) with
      | none => none
      | some _ =>
        let (s', cmds, cov) := event s (.dead (keyOf w)) "dead-dirty" "dead-clean"
        some ({ s' with aseq := s'.aseq.filter (·.1 != w) }, cmds, cov)
    | none => none
  | ["sweep", wsT] =>
    match (wsT.splitOn ",").mapM String.toNat? with
    | some ws =>
      if !(ws.all fun w => 1 ≤ w && w < s.n) then none
      else if !(ws.any fun w => (pget s.rs.t.nbrs (keyOf w)).isSome) then none
      else
        let (s', cmds, cov) := event s (.sweep (ws.map keyOf)) "sweep-dirty" "sweep-clean"
        some ({ s' with aseq := s'.aseq.filter fun p => !ws.contains p.1 }, cmds, cov)
    | none => none
  | ["papply", x, reset, adds, rems] =>
    match x.toNat? with
    | some x =>
      if !(x < s.n) then none else
      some (event s (.papply (keyOf x) (reset == "1") (parseIds s.n adds) (parseIds s.n rems)) "papply-dirty" "papply-clean")
    | none => none
  | ["fib"] =>
    let (rs', cmds) := s.rs.fibUpdateCmds prefixOf
    some ({ s with rs := rs' }, cmds, ["fib"])
  | _ => none

def splitSlash (f : List String) : List (List String) :=
  f.foldr (fun t acc => if t == "/" then [] :: acc else match acc with
    | h :: r => (t :: h) :: r
    | [] => [[t]]) [[]]

def stepFib (s : FibSt) (f : List String) (got : String) : StepResult St :=
  -- spec side first (independent of the model)
  let (routes', fails) := if got == "skip" then (s.routes, []) else specFib s.routes got
  let s := { s with routes := routes' }
  let prefixOf := prefixOfKeys s.keys
  let finish (s' : FibSt) (cmds : List Cmd) (cov : List String) : StepResult St :=
    { st := .fib s', expected := some (dumpFib cmds s'), spec := fails,
      cov := cov ++ (if cmds.any (fun c => match c with | .register .. => true | _ => false) then ["cmd-register"] else []) ++
                    (if cmds.any (fun c => match c with | .unregister .. => true | _ => false) then ["cmd-unregister"] else []) ++
                    (if s'.rs.fib.prefixes.any (fun (_, es) => es.length ≥ 3) then ["three-faces"] else []) ++
                    (if (desired prefixOf s'.rs.t).any (fun (_, fes) => fes.length ≥ 4) then ["multi-homed"] else []),
      nontrivial := !s'.rs.fib.prefixes.isEmpty }
  match f with
  | ["flood", x, cnt] =>
    -- `cnt` prefixes announced at once while the forwarder is unresponsive: every queued command is
    -- delivered once it answers again (model: an ordinary prefix op list)
    match x.toNat?, cnt.toNat? with
    | some xi, some c =>
      if !(xi < s.n) || c < 1 || c > 4000 then { st := .fib s, expected := some "skip", spec := fails } else
      let ids := ".".intercalate ((List.range c).map fun i => toString (1000 + i))
      match runFibOp s ["papply", x, "0", ids, "-"] with
      | some (s', cmds, cov) => finish s' cmds (cov ++ ["flood"] ++ (if cmds.length > 4096 then ["flood-over-queue-capacity"] else []))
      | none => { st := .fib s, expected := some "skip", spec := fails }
    | _, _ => { st := .fib s, expected := some "skip", spec := fails }
  | "retry" :: rest =>
    -- a transient failure delays the first registration of the first op; the management thread retries it
    -- IN PLACE, so the commands still take effect in the order they were issued: the ops in sequence
    let (s', cmds, cov) := (splitSlash rest).foldl (fun (acc : FibSt × List Cmd × List String) o =>
      match o with
      | k :: _ =>
        if ["ping", "pingnew", "adv", "papply"].contains k then
          match runFibOp acc.1 o with
          | some (s2, c2, v2) => (s2, acc.2.1 ++ c2, acc.2.2 ++ v2)
          | none => acc
        else acc
      | [] => acc) (s, [], ["retry"])
    let sameKeyTwice := cmds.any fun c => (cmds.filter fun d => cmdKey d == cmdKey c).length ≥ 2
    finish s' cmds (cov ++ (if sameKeyTwice then ["retry-same-route-twice"] else []))
  | _ =>
    match runFibOp s f with
    | some (s', cmds, cov) => finish s' cmds cov
    | none => { st := .fib s, expected := some "skip", spec := fails }

def stepLogCore (s : LogSt) (f : List String) (got : String) : StepResult St :=
  let skip : StepResult St := { st := .log s, expected := some "skip" }
  let peerOf (b : String) : Option (Nat × Peer) :=
    match b.toNat? with
    | some b => if 1 ≤ b && b ≤ s.k then (s.peers[b - 1]?).map fun q => (b, q) else none
    | none => none
  match f with
  | [op, id] =>
    if op == "ann" || op == "wd" then
      match id.toNat? with
      | some id =>
        if !(100 ≤ id && id < 100 + numApp) then skip else
        let pub' := if op == "ann" then s.pub.announce id else s.pub.withdraw id
        let s1 := if got == "skip" then s else specPubOp s (if op == "ann" then .announce id else .withdraw id)
        let fails := if got == "skip" then [] else specPubCheck s1 got
        { st := .log { s1 with pub := pub' }, expected := some (dumpPub pub'), spec := fails,
          cov := [if pub'.seq == s.pub.seq then "pub-noop" else "pub-op"] ++ (if pub'.snapAt == pub'.seq && pub'.seq != s.pub.seq then ["pub-snapshot"] else []) }
      | none => skip
    else if op == "burst" then
      match id.toNat? with
      | some m =>
        if m > 1000 then skip else
        let pub' := burstM m 0 s.pub
        let s1 := if got == "skip" then s else specBurst m 0 s
        let fails := if got == "skip" then [] else specPubCheck s1 got
        { st := .log { s1 with pub := pub' }, expected := some (dumpPub pub'), spec := fails, cov := ["burst"] }
      | none => skip
    else if op == "bulk" then
      match id.toNat? with
      | some m =>
        if m < 1 || m > 2000 then skip else
        let pub' := bulkM m 0 s.pub
        let s1 := if got == "skip" then s else specBulk m 0 s
        let fails := if got == "skip" then [] else specPubCheck s1 got
        { st := .log { s1 with pub := pub' }, expected := some (dumpPub pub'), spec := fails,
          cov := ["bulk"] ++ (if pub'.snapSet.length ≥ 300 then ["snapshot-of-300-prefixes"] else []) }
      | none => skip
    else if op == "reach" || op == "unreach" then
      match peerOf id with
      | none => skip
      | some (b, q) =>
        let up := op == "reach"
        let s := if got == "skip" then s else
          { s with reachS := if up then (if s.reachS.contains b then s.reachS else b :: s.reachS) else s.reachS.filter (· != b) }
        let fails := if got == "skip" then [] else specPeerCheck s b got
        let s := notePend s b got
        if !up && !q.reach then { st := .log s, expected := some "skip", spec := fails }
        else
          let q' := if up then q.gainPath else q.losePath
          { st := .log { s with peers := setPeer s.peers (b - 1) q' }, expected := some (dumpPeer q'), spec := fails,
            cov := [if up then (if q.reach then "reach-again" else if q'.pend.isSome then "reach-starts-fetch" else "reach") else "unreach"] }
    else if op == "deliver" || op == "timeout" || op == "drain" then
      match peerOf id with
      | none => skip
      | some (b, q) =>
        let fails := if got == "skip" then [] else specPeerCheck s b (stripNoReply got)
        let s := notePend s b got
        if op == "deliver" then
          match q.deliver s.pub with
          | none => { skip with spec := fails }
          | some (q', true) =>
            -- the publisher holds the packet the peer asks for (it published it and nothing removed it):
            -- a fetch that reaches the publisher must be answered
            let fails := fails ++ (if got.startsWith "noreply" then
              [⟨"log-served", "no-reply", s!"peer {b} fetched a packet of the publisher's prefix log that the publisher has published, and the publisher did not answer: {got.take 120}"⟩] else [])
            { st := .log { s with peers := setPeer s.peers (b - 1) q' }, expected := some (dumpPeer q'), spec := fails,
              cov := [match q.pend with | some .snap => "deliver-snapshot" | _ => "deliver-op"], nontrivial := true }
          | some (q', false) =>
            { st := .log s, expected := some ("noreply " ++ dumpPeer q'), spec := fails, cov := ["deliver-noreply"] }
        else if op == "timeout" then
          match q.timeout with
          | none => { skip with spec := fails }
          | some q' => { st := .log { s with peers := setPeer s.peers (b - 1) q' }, expected := some (dumpPeer q'), spec := fails, cov := ["timeout"] }
        else
          let (q', steps) := drainM 2000 q s.pub 0
          { st := .log { s with peers := setPeer s.peers (b - 1) q' }, expected := some s!"{dumpPeer q'} steps={steps}", spec := fails,
            cov := ["drain"] ++ (if steps ≥ 50 then ["drain-long"] else []), nontrivial := steps > 0 }
    else skip
  | ["rv", shape, modT, verbT, param] =>
    -- a readvertise command Interest of any shape through the real readvertiseOnInterest: six components
    -- or not, module, verb, parameters that carry a name or not
    match shape.toNat? with
    | none => skip
    | some comps =>
      let name : Option Nat := match param.toNat? with
        | some id => if 100 ≤ id && id < 100 + numApp then some id else none
        | none => none
      if param.toNat?.isSome && name.isNone then skip else
      let c : RvCmd := ⟨comps, modT, verbT, name⟩
      let (pub', st) := s.pub.readvertise c
      let wantOp : Option Spec.PubOp :=
        if comps == 6 && modT == "rib" then
          match name with
          | some n => if verbT == "register" then some (.announce n) else if verbT == "unregister" then some (.withdraw n) else none
          | none => none
        else none
      let s1 := if got == "skip" then s else match wantOp with | some op => specPubOp s op | none => s
      let gotStatus := if (got.splitOn " status=").length > 1 then "400" else "200"
      let fails := if got == "skip" then [] else
        specPubCheck s1 ((got.splitOn " status=").headD got) ++
        (if isCrash got then [] else
         if wantOp.isSome && gotStatus != "200" then
           [⟨"readvertise-status", "refused", s!"a well-formed readvertise command ({verbT} {param}) was not answered 200: {got}"⟩]
         else if wantOp.isNone && gotStatus == "200" then
           [⟨"readvertise-status", "accepted", s!"a readvertise command that is not well-formed ({comps} components, module {modT}, verb {verbT}, parameters {param}) was answered 200: {got}"⟩]
         else [])
      { st := .log { s1 with pub := pub' }, expected := some (dumpPub pub' ++ (if st == 200 then "" else " status=400")), spec := fails,
        cov := [if st == 200 then "rv-accepted" else if comps != 6 then "rv-wrong-length" else if modT != "rib" then "rv-wrong-module"
                else if name.isNone then "rv-no-name" else "rv-wrong-verb"] }
  | ["pairs", b, m] =>
    match peerOf b, m.toNat? with
    | some (b, q), some m =>
      if m < 1 || m > 200 then skip else
      let (pub', q') := pairsM m 0 s.pub q
      let s1 := if got == "skip" then s else
        let s2 := specBurst (2 * m) 0 s
        { s2 with told := (b, s2.sSeq) :: s2.told.filter (·.1 != b) }
      let fails := if got == "skip" then [] else specPeerCheck s1 b got
      let s1 := notePend s1 b got
      { st := .log { s1 with pub := pub', peers := setPeer s1.peers (b - 1) q' }, expected := some (dumpPeer q'), spec := fails,
        cov := ["pairs"], nontrivial := true }
    | _, _ => skip
  | ["prestart"] =>
    -- the publisher restarts: new numbering (taken from the implementation's clock), empty table, new log
    match got.splitOn " " with
    | ["ok", seq0] =>
      match seq0.toNat? with
      | some seq0 =>
        { st := .log { s with pub := Pub.init (UInt64.ofNat seq0), sSeq := seq0, sSet := [], hist := (seq0, []) :: s.hist, told := [] },
          expected := none, cov := ["publisher-restart"] }
      | none => { st := .log s, expected := some "ok <seq0>" }
    | _ => { st := .log s, expected := some "ok <seq0>" }
  | ["sync", b, off] =>
    match peerOf b, off.toNat? with
    | some (b, q), some off =>
      let high := if off < s.pub.seq.toNat then s.pub.seq - UInt64.ofNat off else s.pub.seq
      let q' := q.svsReceive high
      let s := if got == "skip" then s else
        let v := if off < s.sSeq then s.sSeq - off else s.sSeq
        let prev := ((s.told.find? (·.1 == b)).map (·.2)).getD 0
        { s with told := (b, max prev v) :: s.told.filter (·.1 != b) }
      let fails := if got == "skip" then [] else specPeerCheck s b got
      let s := notePend s b got
      { st := .log { s with peers := setPeer s.peers (b - 1) q' }, expected := some (dumpPeer q'), spec := fails,
        cov := [match q'.pend, q.pend with
                | some .snap, none => "sync-wants-snapshot"
                | some (.seq _), none => "sync-wants-op"
                | _, _ => "sync-no-fetch"] }
    | _, _ => skip
  | _ => skip

/-- a peer's fetch was answered with a Data larger than any NDN packet may be (`toobig=<bytes>`): no forwarder carries
    it, so the peer can never reconstruct the set from the log.  The property is violated at this point (clause
    `log-served`); what the peer does afterwards (it keeps asking) is not compared with the model. -/
def stepLog (s : LogSt) (f : List String) (got : String) : StepResult St :=
  let peerArg : Option Nat := match f with
    | [op, b] => if ["reach", "unreach", "deliver", "timeout", "drain"].contains op then b.toNat? else none
    | ["sync", b, _] => b.toNat?
    | ["pairs", b, _] => b.toNat?
    | _ => none
  match peerArg with
  | some b =>
    if s.stuck.contains b then { st := .log s, expected := none }
    else match parseField got "toobig" with
      | some n =>
        { st := .log { s with stuck := b :: s.stuck }, expected := none, cov := ["snapshot-exceeds-packet"],
          spec := [⟨"log-served", "snapshot-exceeds-packet", s!"peer {b} asked for a packet of the publisher's prefix log and the publisher answered with a Data of {n} bytes, more than any NDN packet may hold (8800): no forwarder carries it, so a peer that has to start from this snapshot never reconstructs the announced set ({s.sSet.length} prefixes)"⟩] }
      | none => stepLogCore s f got
  | none => stepLogCore s f got

/-- closed-loop histories: the routers run by themselves (real Router.Start); no step-by-step model — the SPEC is
    evaluated at quiescence on what every router reports: the routes its forwarder was told mirror its tables
    (`routes-mirror-tables`, per router), and every router holds, for every router it can reach, exactly the prefixes
    that router announces (`log-current`: prefix logs replicate across the network) -/
def stepWire (w : WireSt) (f : List String) (got : String) : StepResult St :=
  let crash : List SpecFail := if isCrash got then [⟨"no-panic", "crash", got⟩] else []
  match f with
  | [lk, a, b] =>
    if lk == "link" || lk == "unlink" then
      match a.toNat?, b.toNat? with
      | some a, some b =>
        let up := lk == "link"
        let valid := a < w.n && b < w.n && a != b && (w.links.contains (a, b) != up)
        let links' := if up then (a, b) :: (b, a) :: w.links else w.links.filter fun p => p != (a, b) && p != (b, a)
        { st := .wire (if valid then { w with links := links' } else w), expected := some (if valid then "ok" else "skip"),
          spec := crash, cov := [s!"wire-{lk}"] }
      | _, _ => { st := .wire w, expected := some "bad-op" }
    else if lk == "wann" || lk == "wwd" then
      match a.toNat?, b.toNat? with
      | some x, some id =>
        if !(x < w.n && id ≥ 100 && id < 107) then { st := .wire w, expected := some "skip" } else
        let cur := annOf w x
        let cur' := if lk == "wann" then (if cur.contains id then cur else id :: cur) else cur.filter (· != id)
        { st := .wire { w with ann := (x, cur') :: w.ann.filter (·.1 != x) }, expected := some "ok", spec := crash,
          cov := [s!"wire-{lk}"] }
      | _, _ => { st := .wire w, expected := some "bad-op" }
    else { st := .wire w, expected := some "skip" }
  | "wrun" :: _ => { st := .wire w, expected := some "ok", spec := crash, cov := ["wire-run"] }
  | ["wquiet", _] =>
    let (dumps, tail) := match got.splitOn " | " with
      | [d, t] => (d, t)
      | _ => (got, "")
    let parts := dumps.splitOn " ; "
    if isCrash got || parts.length != w.n then
      { st := .wire w, expected := none, spec := crash ++ (if isCrash got then [] else [⟨"routes-mirror-tables", "unparsable", s!"{got}"⟩]) }
    else
    let qFail : List SpecFail := if parseField tail "q" == some "1" then [] else
      [⟨"pending-work-drains", "never-quiet", s!"on a loss-free network the routers never come to rest: {tail}"⟩]
    -- per router: replay its commands, compare with the prescription of its own tables
    let res := ((List.range w.n).zip parts).map fun (i, p) =>
      let body := " ".intercalate ((p.splitOn " ").drop 1)
      let (r', fails) := specFibOf i ((w.routes[i]?).getD []) body
      (r', fails.map (fun (fl : SpecFail) => (⟨fl.clause, fl.key, s!"r{i}: {fl.msg}"⟩ : SpecFail)), parseObs body)
    let allFails : List SpecFail := res.flatMap fun r => r.2.1
    let mirror := if qFail.isEmpty then allFails else allFails.filter (·.clause == "no-panic")
    -- replication: what i holds for every router x it can reach is what x announces
    let repl : List SpecFail := if !qFail.isEmpty then [] else
      ((List.range w.n).zip res).flatMap fun (i, r) =>
        match r.2.2 with
        | none => []
        | some o =>
          (List.range w.n).flatMap fun x =>
            if x == i || !wireConnected w i x then [] else
            let have_ := Spec.sortNat (((o.pfx.find? (·.1 == x)).map (·.2)).getD [])
            let want := Spec.sortNat (annOf w x)
            if have_ == want then [] else
              [⟨"log-current", "wire", s!"at quiescence r{i} holds the prefixes {have_} for r{x}, which it can reach and which announces {want}"⟩]
    { st := .wire { w with routes := res.map fun r => r.1 }, expected := none, spec := crash ++ qFail ++ mirror ++ repl,
      cov := ["wire-quiet"] ++ (if w.ann.any (fun a => !a.2.isEmpty) then ["wire-quiet-with-prefixes"] else []),
      nontrivial := w.n ≥ 3 && w.ann.any (fun a => !a.2.isEmpty) }
  | _ => { st := .wire w, expected := some "skip" }

def step (st : St) (op : String) (got : String) : StepResult St :=
  let f := op.splitOn " "
  match f with
  | ["new", "wire", n, adv, dead] =>
    match n.toNat?, adv.toNat?, dead.toNat? with
    | some n, some adv, some dead =>
      if n < 2 || n > 6 then { st := .none, expected := some "bad-op" }
      else if C18.configValid adv dead then
        { st := .wire { n := n, routes := List.replicate n [] }, expected := some "ok", cov := ["wire-new"] }
      else { st := .none, expected := some "rejected" }
    | _, _, _ => { st := .none, expected := some "bad-op" }
  | ["new", "fib", n] =>
    match n.toNat?, got.splitOn " " with
    | some n, "ok" :: ks =>
      match ks.mapM String.toNat? with
      | some keys =>
        let okKeys := keys.length == n && keys.eraseDups.length == n && !keys.contains 0
        let self := keys.getD 0 0
        { st := .fib { n := n, keys := keys, rs := RState.start self },
          expected := none,
          spec := if okKeys then [] else [⟨"A-hash", "keys", s!"router keys not distinct / zero / wrong count: {got}"⟩] }
      | none => { st := .none, expected := some "ok <keys>" }
    | _, _ => { st := .none, expected := some "ok <keys>" }
  | ["new", "log", k] =>
    match k.toNat?, got.splitOn " " with
    | some k, ["ok", seq0] =>
      match seq0.toNat? with
      | some seq0 =>
        { st := .log { k := k, pub := Pub.init (UInt64.ofNat seq0), peers := List.replicate k Peer.init,
                       sSeq := seq0, hist := [(seq0, [])] }, expected := none }
      | none => { st := .none, expected := some "ok <seq0>" }
    | _, _ => { st := .none, expected := some "ok <seq0>" }
  | "new" :: _ => { st := .none, expected := some "bad-op" }
  | _ =>
    match st with
    | .none => { st := st, expected := some "skip" }
    | .fib s =>
      if ["ping", "pingnew", "retry", "flood", "adv", "advrace", "dead", "sweep", "papply", "fib"].contains (f.headD "") then stepFib s f got
      else
        -- keep the spec replay meaningful even on an op the model does not know
        { st := st, expected := some "skip" }
    | .wire s => stepWire s f got
    | .log s =>
      if ["ann", "wd", "rv", "burst", "bulk", "sync", "pairs", "prestart", "reach", "unreach", "deliver", "timeout", "drain"].contains (f.headD "") then stepLog s f got
      else { st := st, expected := some "skip" }

end C19Drv

def main : IO Unit := Ndn.Driver.runResilient C19Drv.St.none C19Drv.step
