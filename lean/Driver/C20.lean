import NdnVerif.Driver.Common
import NdnVerif.C20.Model
import NdnVerif.C20.Pinned
import NdnVerif.C20.Spec
open Ndn Ndn.Driver Ndn.C20

/-
  C20 driver.  Ops (every op but `new` ends with `@<t>`, the absolute virtual instant in µs since
  the start of the history; the harness sleeps until then, timers fire on the way):

    express <label> <finalName> <cbp 0|1> <life µs | ->        res: ok | err
    data <name> <digest hex> <variant>                          res: ok
    nack <name>                                                 res: ok
    attach <hid> <prefix>                                       res: ok | dup
    detach <prefix>                                             res: ok | err
    interest <rlabel> <name> <life ms | -> <token hex | ->      res: h<hid>:<deadline> | none
    reply <rlabel>                                              res: sent | late | skip
    tick | end                                                  res: ok

  output:  pre=<label@t,...|->  res=<...>  cb=<label:D:<name>|label:N|label:T,...|->
  (`pre` = timeouts delivered while the clock advanced to @t, `cb` = callbacks made by the op).
-/

structure SInt where
  label : String
  i : Spec.Int
  resolved : Bool := false
  must : Bool := true      -- Express reported success: the Interest must resolve (false: Express returned an error)

structure SpecSt where
  ints : List SInt := []
  fib : List (Name × Nat) := []
  rx : List (String × Nat) := []

structure DSt where
  pinned : Bool
  dummy : Bool := false                   -- the history runs on std/engine/dummy.Timer (test clock)
  m : St := {}
  labels : List (Nat × String) := []      -- model id -> harness label
  rxl : List (String × Nat) := []         -- harness rx label -> model rx index
  sp : SpecSt := {}

def stepM (pinned : Bool) (s : St) (op : Op) : St × Out := if pinned then stepPinned s op else step s op

/-- the armed timer with the least instant ≤ t (lowest index on ties) -/
def nextDue (ts : List Tmr) (t : Nat) : Option (Nat × Nat) :=
  (ts.zipIdx).foldl (fun best (tm, k) =>
    if tm.st = .armed ∧ tm.fire ≤ t then
      match best with
      | none => some (k, tm.fire)
      | some (_, f) => if tm.fire < f then some (k, tm.fire) else best
    else best) none

/-- let the clock run to `t`: due timers start and run one after the other, each at its instant -/
def advance (pinned : Bool) : Nat → St → Nat → List Cb → St × List Cb
  | 0, s, t, acc => ((stepM pinned s (.setTime t)).1, acc)
  | fuel + 1, s, t, acc =>
    match nextDue s.timers t with
    | none => ((stepM pinned s (.setTime t)).1, acc)
    | some (k, f) =>
      let s1 := (stepM pinned s (.setTime f)).1
      let s2 := (stepM pinned s1 (.timerStart k)).1
      let (s3, o) := stepM pinned s2 (.timerRun k)
      let cbs := match o with | .cbs l => l | _ => []
      advance pinned fuel s3 t (acc ++ cbs)

/-- the armed timer with the lowest index whose instant is strictly before `t` -/
def nextPast (ts : List Tmr) (t : Nat) : Option Nat :=
  (ts.zipIdx).foldl (fun best (tm, k) =>
    match best with
    | some _ => best
    | none => if tm.st = .armed ∧ tm.fire < t then some k else none) none

/-- std/engine/dummy.Timer.MoveForward: the clock jumps to `t`, then every event whose time is
    STRICTLY before `t` runs (all of them at the instant `t`); an event standing exactly at `t` waits -/
def advanceDummy (pinned : Bool) : Nat → St → Nat → List Cb → St × List Cb
  | 0, s, _, acc => (s, acc)
  | fuel + 1, s, t, acc =>
    match nextPast s.timers t with
    | none => (s, acc)
    | some k =>
      let s2 := (stepM pinned s (.timerStart k)).1
      let (s3, o) := stepM pinned s2 (.timerRun k)
      let cbs := match o with | .cbs l => l | _ => []
      advanceDummy pinned fuel s3 t (acc ++ cbs)

def labelOf (d : DSt) (id : Nat) : String :=
  match d.labels.find? (·.1 == id) with
  | some (_, l) => l
  | none => s!"?{id}"

def insertSorted (le : α → α → Bool) (x : α) : List α → List α
  | [] => [x]
  | y :: ys => if le x y then x :: y :: ys else y :: insertSorted le x ys
def sortBy (le : α → α → Bool) (l : List α) : List α := l.foldr (insertSorted le) []

def joinOrDash (l : List String) : String := if l.isEmpty then "-" else ",".intercalate l

def fmtPre (d : DSt) (cbs : List Cb) : String :=
  let l := sortBy (fun a b => a.t < b.t || (a.t == b.t && a.id ≤ b.id)) cbs
  joinOrDash (l.map fun c => s!"{labelOf d c.id}@{c.t}")

def fmtCb (d : DSt) (cbs : List Cb) : String :=
  let l := sortBy (fun a b => a.id ≤ b.id) cbs
  joinOrDash (l.map fun c =>
    match c.kind with
    | .data n _ => s!"{labelOf d c.id}:D:{Name.toText n}"
    | .nack => s!"{labelOf d c.id}:N"
    | .timeout => s!"{labelOf d c.id}:T")

/-- split "k=v k=v k=v" of the implementation's output -/
def field (got : String) (k : String) : String :=
  match (got.splitOn " ").find? (·.startsWith (k ++ "=")) with
  | some f => (f.drop (k.length + 1)).toString
  | none => ""

def listOf (s : String) : List String := if s == "-" || s == "" then [] else s.splitOn ","

def parseTime (tok : String) : Option Nat := if tok.startsWith "@" then (tok.drop 1).toString.toNat? else none

def optNat (s : String) : Option (Option Nat) := if s == "-" then some none else s.toNat?.map some

def nested (a b : Name) : Bool := Spec.isPre a b || Spec.isPre b a

/-- SPEC: the timeouts reported before the op (pre) -/
def specPre (sp : SpecSt) (pre : List String) : SpecSt × List SpecFail := Id.run do
  let mut sp := sp
  let mut fails : List SpecFail := []
  for e in pre do
    match e.splitOn "@" with
    | [l, ts] =>
      let t := ts.toNat?.getD 0
      match sp.ints.find? (·.label == l) with
      | none => fails := fails ++ [⟨"at-most-once", "unknown", s!"timeout callback for {l}, which is not pending"⟩]
      | some si =>
        if si.resolved then
          fails := fails ++ [⟨"at-most-once", "timeout-after-resolution", s!"{l} got a second callback (timeout at {t})"⟩]
        if !Spec.timeoutOk si.i t then
          fails := fails ++ [⟨"timeout-not-early", "early", s!"{l} expressed at {si.i.t} with lifetime {si.i.life} timed out at {t}"⟩]
        sp := { sp with ints := sp.ints.map fun x => if x.label == l then { x with resolved := true } else x }
    | _ => fails := fails ++ [⟨"protocol", "pre", s!"bad pre event {e}"⟩]
  return (sp, fails)

/-- SPEC: callbacks made by a data / nack op -/
def specCb (sp : SpecSt) (cb : List String) (isData : Option (Name × Bytes)) (isNack : Option Name) :
    SpecSt × List SpecFail := Id.run do
  let mut sp := sp
  let mut fails : List SpecFail := []
  for e in cb do
    match e.splitOn ":" with
    | l :: kind :: rest =>
      match sp.ints.find? (·.label == l) with
      | none => fails := fails ++ [⟨"at-most-once", "unknown", s!"callback for {l}, which was never expressed"⟩]
      | some si =>
        if si.resolved then
          fails := fails ++ [⟨"at-most-once", s!"second-{kind}", s!"{l} got a second callback ({kind})"⟩]
        if kind == "D" then
          let nmTxt := ":".intercalate rest
          match isData, Name.ofText nmTxt with
          | some (dn, dg), some cn =>
            if cn != dn then
              fails := fails ++ [⟨"data-satisfies", "other-data", s!"{l} was given Data {nmTxt} while Data {Name.toText dn} arrived"⟩]
            if !Spec.satisfies si.i cn dg then
              fails := fails ++ [⟨"data-satisfies", (if si.i.dig.isSome then "digest" else if si.i.cbp then "prefix" else "exact"),
                s!"{l} ({Name.toText si.i.final} cbp={si.i.cbp}) resolved with Data {nmTxt} that does not satisfy it"⟩]
          | _, _ => fails := fails ++ [⟨"data-satisfies", "no-data", s!"{l} resolved with Data but no Data arrived"⟩]
        else if kind == "N" then
          match isNack with
          | some nn =>
            if nn != si.i.final then
              fails := fails ++ [⟨"nack-name", "other-name", s!"{l} ({Name.toText si.i.final}) resolved by a Nack for {Name.toText nn}"⟩]
          | none => fails := fails ++ [⟨"nack-name", "no-nack", s!"{l} resolved with Nack but no Nack arrived"⟩]
        else
          fails := fails ++ [⟨"protocol", "cb", s!"unexpected callback kind {kind} in an op"⟩]
        sp := { sp with ints := sp.ints.map fun x => if x.label == l then { x with resolved := true } else x }
    | _ => fails := fails ++ [⟨"protocol", "cb", s!"bad cb event {e}"⟩]
  return (sp, fails)

def bad (d : DSt) : StepResult DSt := { st := d, expected := some "bad-op" }

def stepC20 (d : DSt) (op : String) (got : String) : StepResult DSt :=
  let toks := op.splitOn " "
  match toks with
  | ["new"] => { st := { pinned := d.pinned }, expected := some "ok", cov := ["history-real-timer"] }
  | ["new", "dummy"] => { st := { pinned := d.pinned, dummy := true }, expected := some "ok", cov := ["history-dummy-clock"] }
  | _ =>
    match toks.getLast? >>= parseTime with
    | none => bad d
    | some t =>
      let args := toks.dropLast
      let crash : List SpecFail := if isCrash got then [⟨"no-panic", "crash", s!"the engine crashed: {got}"⟩] else []
      -- 1. let the clock run (model)
      let (m1, preCbs) :=
        if d.dummy then
          if t > d.m.now then advanceDummy d.pinned (d.m.timers.length + 1) (stepM d.pinned d.m (.setTime t)).1 t []
          else (d.m, [])
        else advance d.pinned (d.m.timers.length + 1) d.m t []
      let preTxt := fmtPre d preCbs
      -- SPEC on the implementation's pre events
      let gotPre := listOf (field got "pre")
      let gotRes := field got "res"
      let gotCb := listOf (field got "cb")
      let (sp1, f1) := if isCrash got then (d.sp, []) else specPre d.sp gotPre
      let d1 := { d with m := m1, sp := sp1 }
      -- a goroutine blocks for ever inside a callback the engine runs under its PIT lock: no pending Interest can be
      -- resolved any more, no new one expressed
      let locked : List SpecFail :=
        if gotRes == "HANG-engine-locked" then
          [⟨"resolves-exactly-once", "engine-locked",
            s!"the engine is locked up for good: a callback it runs under the PIT lock blocks (result of a management command whose Interest could not be sent, nobody reads it); the {(sp1.ints.filter (!·.resolved)).length} pending Interest(s) can never be resolved"⟩]
        else []
      let mk (d2 : DSt) (res : String) (cbs : List Cb) (fails : List SpecFail) (cov : List String) (nt : Bool := false) :
          StepResult DSt :=
        { st := d2, expected := some s!"pre={preTxt} res={res} cb={fmtCb d2 cbs}",
          spec := crash ++ locked ++ f1 ++ fails,
          cov := cov ++ (if preCbs.isEmpty then [] else ["timeout"]), nontrivial := nt }
      -- Express of a given final name; `resOk` is what the harness prints on success
      let doExpress (label nameT cbpT lifeT resOk : String) (covx : List String) : StepResult DSt :=
        match Name.ofText nameT, optNat lifeT with
        | some final, some life =>
          -- tokens 2 / 3: MustBeFresh set as well; it plays no part in what satisfies a pending Interest
          let cbp := cbpT == "1" || cbpT == "3"
          let covx := covx ++ (if cbpT == "2" || cbpT == "3" then ["express-mustbefresh"] else [])
          let (m2, o) := stepM d.pinned m1 (.express final cbp life)
          match o with
          | .expressed id =>
            let (dig, node) := splitDigest final
            let spInts := if gotRes == resOk then
                sp1.ints ++ [{ label := label, i := ⟨node, final, cbp, dig, t, life.getD defaultLife⟩ }]
              else sp1.ints
            mk { d1 with m := m2, labels := d1.labels ++ [(id, label)], sp := { sp1 with ints := spInts } } resOk [] []
              (["express", if dig.isSome then "express-digest" else "express-plain", if cbp then "express-cbp" else "express-exact",
               if life.isNone then "express-default-life" else "express-life"] ++ covx)
          | _ => mk { d1 with m := m2 } "err" [] [] ["express-err"]
        | _, _ => bad d
      let doData (nameT digT resTxt : String) (covx : List String) : StepResult DSt :=
        match Name.ofText nameT, bytesOfHex digT with
        | some name, some dig =>
          let (m2, o) := stepM d.pinned m1 (.data name dig)
          let cbs := match o with | .cbs l => l | _ => []
          -- SPEC
          let (sp2, f2) := if isCrash got then (sp1, []) else specCb sp1 gotCb (some (name, dig)) none
          let missing := sp1.ints.filter fun si =>
            !si.resolved && Spec.satisfies si.i name dig && !(gotCb.any fun e => e.startsWith (si.label ++ ":"))
          let f3 : List SpecFail := if isCrash got then [] else missing.map fun si =>
            ⟨"resolves-all", (if si.i.node == name then "same-name" else "prefix"),
             s!"Data {nameT} satisfies pending {si.label} ({Name.toText si.i.final} cbp={si.i.cbp}) but its callback was not invoked"⟩
          let pend := sp1.ints.filter (!·.resolved)
          let nt := pend.any fun a => pend.any fun b => a.label != b.label && nested a.i.node b.i.node && nested a.i.node name
          mk { d1 with m := m2, sp := sp2 } resTxt cbs (f2 ++ f3)
            (["data", if cbs.isEmpty then "data-unsolicited" else if cbs.length ≥ 2 then "data-multi" else "data-one"] ++ covx) nt
        | _, _ => bad d
      let doNack (nameT resTxt : String) (covx : List String) : StepResult DSt :=
        match Name.ofText nameT with
        | some name =>
          let (m2, o) := stepM d.pinned m1 (.nack name)
          let cbs := match o with | .cbs l => l | _ => []
          let (sp2, f2) := if isCrash got then (sp1, []) else specCb sp1 gotCb none (some name)
          let pend := sp1.ints.filter (!·.resolved)
          let nt := pend.any fun a => pend.any fun b => a.label != b.label && nested a.i.node b.i.node && nested a.i.node name
          mk { d1 with m := m2, sp := sp2 } resTxt cbs f2 (["nack", if cbs.isEmpty then "nack-unknown" else "nack-hit"] ++ covx) nt
        | none => bad d
      -- the final name the model holds for an Interest expressed under this harness label
      let finalOf (label : String) : Option Name :=
        match d1.labels.find? (·.2 == label) with
        | some (id, _) => (m1.exprs[id]?).map (·.final)
        | none => none
      let wrapCov (w : String) : List String :=
        if w == "w1" then ["arrival-lp"] else if w == "w2" then ["arrival-lp-token"] else ["arrival-bare"]
      match args with
      | ["express", label, nameT, cbpT, lifeT] => doExpress label nameT cbpT lifeT "ok" []
      | ["data2", _na, _va, _nb, _vb, _w] =>
        -- one frame holding two Data packets is no arrival of either: nothing may be resolved by it
        let (sp2, f2) := if isCrash got then (sp1, []) else specCb sp1 gotCb none none
        mk { d1 with sp := sp2 } "ok" [] f2 ["data-two-in-one-frame"]
      | ["mgmtf", _nameT] =>
        -- Engine.RegisterRoute (ExecMgmtCmd) while the face cannot send: the call reports the error at once. The
        -- command Interest the engine expressed for itself stays pending for its lifetime and then times out inside
        -- the engine; it is no Interest of the application (no callback of the application, no output)
        mk d1 (if d.dummy then "skip" else "senderr") [] [] ["mgmt-send-fails"]
      | ["expressf", label, nameT, cbpT, lifeT] =>
        -- the face's Send fails: Express returns the error, the entry stays in the PIT and times out.
        -- SPEC: at most one callback (whether an Interest whose Express failed must be resolved at all is
        -- not something the property states, so `exactly-once` is not demanded of it)
        match Name.ofText nameT, optNat lifeT with
        | some final, some life =>
          let cbp := cbpT == "1"
          let (m2, o) := stepM d.pinned m1 (.express final cbp life)
          match o with
          | .expressed id =>
            let (dig, node) := splitDigest final
            let spInts := sp1.ints ++ [{ label := label, i := ⟨node, final, cbp, dig, t, life.getD defaultLife⟩, must := false }]
            mk { d1 with m := m2, labels := d1.labels ++ [(id, label)], sp := { sp1 with ints := spInts } } "senderr" [] []
              ["express", "express-send-fails"]
          | _ => mk { d1 with m := m2 } "err" [] [] ["express-err"]
        | _, _ => bad d
      | ["expressl", label, nameT, cbpT, lifeT, kind, anameT, digT, _v, w] =>
        -- the answer (Data / Nack) is delivered to the engine from WITHIN the face's Send of this Express
        match Name.ofText nameT, optNat lifeT, Name.ofText anameT with
        | some final, some life, some aname =>
          let cbp := cbpT == "1"
          let (m2, o) := stepM d.pinned m1 (.express final cbp life)
          match o with
          | .expressed id =>
            let (dig, node) := splitDigest final
            let spA : SpecSt := if gotRes == "ok" then
                { sp1 with ints := sp1.ints ++ [{ label := label, i := ⟨node, final, cbp, dig, t, life.getD defaultLife⟩ }] }
              else sp1
            let d2 := { d1 with labels := d1.labels ++ [(id, label)] }
            if kind == "N" then
              let (m3, o3) := stepM d.pinned m2 (.nack aname)
              let cbs := match o3 with | .cbs l => l | _ => []
              let (sp3, f2) := if isCrash got then (spA, []) else specCb spA gotCb none (some aname)
              mk { d2 with m := m3, sp := sp3 } "ok" cbs f2 (["express", "express-loop-nack"] ++ wrapCov w)
            else
              match bytesOfHex digT with
              | some adig =>
                let (m3, o3) := stepM d.pinned m2 (.data aname adig)
                let cbs := match o3 with | .cbs l => l | _ => []
                let (sp3, f2) := if isCrash got then (spA, []) else specCb spA gotCb (some (aname, adig)) none
                let missing := spA.ints.filter fun si =>
                  !si.resolved && Spec.satisfies si.i aname adig && !(gotCb.any fun e => e.startsWith (si.label ++ ":"))
                let f3 : List SpecFail := if isCrash got then [] else missing.map fun si =>
                  ⟨"resolves-all", (if si.label == label then "answer-within-send" else if si.i.node == aname then "same-name" else "prefix"),
                   s!"Data {anameT} (delivered from within the face's Send of Express {label}) satisfies pending {si.label} ({Name.toText si.i.final} cbp={si.i.cbp}) but its callback was not invoked"⟩
                mk { d2 with m := m3, sp := sp3 } "ok" cbs (f2 ++ f3)
                  (["express", "express-loop-data", if cbs.isEmpty then "loop-unsatisfied" else "loop-satisfied"] ++ wrapCov w)
              | none => bad d
          | _ => mk { d1 with m := m2 } "err" [] [] ["express-err"]
        | _, _, _ => bad d
      | ["expressp", label, baseT, cbpT, lifeT, _plen, signer] =>
        -- Interest with ApplicationParameters built by the real MakeInterest (signer none|sha|ecc|short): the
        -- harness reports the name that went out ON THE WIRE; it must be <base>/<ParametersSha256Digest>
        match Name.ofText baseT, (gotRes.drop 3).toString |> Name.ofText with
        | some base, some wname =>
          let okShape := gotRes.startsWith "ok:" && wname.length == base.length + 1 && wname.take base.length == base &&
            (match wname.getLast? with | some c => c.typ == 2 && c.val.length == 32 | none => false)
          if okShape then doExpress label (Name.toText wname) cbpT lifeT gotRes ["express-params", s!"express-params-{signer}"]
          else mk d1 s!"ok:{baseT}/2:<32 bytes>" [] [] ["express-params-bad"]
        | _, _ => mk d1 s!"ok:{baseT}/2:<32 bytes>" [] [] ["express-params-bad"]
      | ["data", nameT, digT, _variant] => doData nameT digT "ok" (wrapCov "w0")
      | ["data", nameT, digT, _variant, w] => doData nameT digT "ok" (wrapCov w)
      | ["datax", nameT, digT, _variant, w, label, xnameT, cbpT, lifeT] =>
        -- a Data arrival during which (inside the first callback it triggers) another goroutine
        -- expresses Interest `label`: the engine serialises the two, so the history is "Data, then
        -- Express" and the new Interest is pending afterwards — never lost, never resolved by this Data
        match Name.ofText nameT, bytesOfHex digT, Name.ofText xnameT, optNat lifeT with
        | some name, some dig, some final, some life =>
          let (m2, o) := stepM d.pinned m1 (.data name dig)
          let cbs := match o with | .cbs l => l | _ => []
          let (sp2, f2) := if isCrash got then (sp1, []) else specCb sp1 gotCb (some (name, dig)) none
          let missing := sp1.ints.filter fun si =>
            !si.resolved && Spec.satisfies si.i name dig && !(gotCb.any fun e => e.startsWith (si.label ++ ":"))
          let f3 : List SpecFail := if isCrash got then [] else missing.map fun si =>
            ⟨"resolves-all", (if si.i.node == name then "same-name" else "prefix"),
             s!"Data {nameT} satisfies pending {si.label} ({Name.toText si.i.final} cbp={si.i.cbp}) but its callback was not invoked"⟩
          let cbp := cbpT == "1" || cbpT == "3"
          let (m3, o3) := stepM d.pinned m2 (.express final cbp life)
          match o3 with
          | .expressed id =>
            let (xdig, node) := splitDigest final
            let spInts := if gotRes == "ok" then
                sp2.ints ++ [{ label := label, i := ⟨node, final, cbp, xdig, t, life.getD defaultLife⟩ }]
              else sp2.ints
            mk { d1 with m := m3, labels := d1.labels ++ [(id, label)], sp := { sp2 with ints := spInts } } "ok" cbs (f2 ++ f3)
              (["datax", if cbs.isEmpty then "datax-no-callback" else "datax-express-during-callback"] ++ wrapCov w) (!cbs.isEmpty)
          | _ => mk { d1 with m := m3, sp := sp2 } "err" cbs (f2 ++ f3) ["datax-express-err"]
        | _, _, _, _ => bad d
      | ["datafor", label, _variant, w] =>
        -- Data named exactly like the Interest `label` was named on the wire; name and digest come from the harness
        match finalOf label with
        | none => mk d1 "skip" [] [] ["datafor-skip"]
        | some fin =>
          match gotRes.splitOn ":" with
          | "ok" :: rest =>
            let digT := rest.getLast?.getD ""
            doData (Name.toText fin) digT s!"ok:{Name.toText fin}:{digT}" ("datafor" :: wrapCov w)
          | _ => mk d1 s!"ok:{Name.toText fin}:<digest>" [] [] ["datafor-bad"]
      | ["nack", nameT] => doNack nameT "ok" (wrapCov "w1")
      | ["nack", nameT, w] => doNack nameT "ok" (wrapCov w)
      | ["nack", nameT, w, h] => doNack nameT "ok" (wrapCov w ++ [s!"nack-hop-{h}"])
      | ["nackfor", label, w] =>
        match finalOf label with
        | none => mk d1 "skip" [] [] ["nackfor-skip"]
        | some fin => doNack (Name.toText fin) s!"ok:{Name.toText fin}" ("nackfor" :: wrapCov w)
      | ["attach", hidT, prefT] =>
        match Name.ofText prefT, hidT.toNat? with
        | some p, some hid =>
          let (m2, o) := stepM d.pinned m1 (.attach p hid)
          let res := match o with | .ok => "ok" | _ => "dup"
          let has := sp1.fib.any (·.1 == p)
          let f2 : List SpecFail := if gotRes == "dup" && !has then
              [⟨"handler-registration", "attach-refused", s!"AttachHandler({prefT}) refused although no handler is attached there"⟩] else []
          let fib2 := if gotRes == "ok" then (sp1.fib.filter (·.1 != p)) ++ [(p, hid)] else sp1.fib
          mk { d1 with m := m2, sp := { sp1 with fib := fib2 } } res [] f2 [if res == "ok" then "attach" else "attach-dup"]
        | _, _ => bad d
      | ["detach", prefT] =>
        match Name.ofText prefT with
        | some p =>
          let (m2, o) := stepM d.pinned m1 (.detach p)
          let res := match o with | .ok => "ok" | _ => "err"
          let has := sp1.fib.any (·.1 == p)
          let f2 : List SpecFail := if gotRes == "err" && has then
              [⟨"handler-registration", "detach-failed", s!"DetachHandler({prefT}) failed although a handler is attached there"⟩] else []
          let fib2 := if gotRes == "ok" then sp1.fib.filter (·.1 != p) else sp1.fib
          mk { d1 with m := m2, sp := { sp1 with fib := fib2 } } res [] f2 [if res == "ok" then "detach" else "detach-err"]
        | none => bad d
      | "interest" :: rlabel :: nameT :: lifeT :: _tok :: hopRest =>
        match Name.ofText nameT, optNat lifeT with
        | some name, some lifeMs =>
          let life := lifeMs.map (· * 1000)
          let (m2, o) := stepM d.pinned m1 (.interest name life)
          let (res, rxl2) := match o with
            | .handled (some hid) dl r => (s!"h{hid}:{dl}", d1.rxl ++ [(rlabel, r)])
            | _ => ("none", d1.rxl)
          -- SPEC: the handler must be the one at the longest attached prefix, with the right deadline
          let want := Spec.lpm sp1.fib name
          let dl := t + life.getD defaultLife
          let wantTxt := match want with | some (_, hid) => s!"h{hid}:{dl}" | none => "none"
          let f2 : List SpecFail := if isCrash got || gotRes == wantTxt then [] else
            [⟨"handler-lpm", (if gotRes == "none" then "no-handler" else if want.isNone then "spurious" else "wrong-handler"),
              s!"Interest {nameT}: handler/deadline {gotRes}, the longest attached prefix gives {wantTxt}"⟩]
          let rx2 := if gotRes != "none" then sp1.rx ++ [(rlabel, dl)] else sp1.rx
          mk { d1 with m := m2, rxl := rxl2, sp := { sp1 with rx := rx2 } } res [] f2
            ((hopRest.map fun h => s!"interest-hop-{h}") ++ [if res == "none" then "interest-nohandler" else "interest-handled",
             if lifeMs.isNone then "interest-default-life" else "interest-life"])
            (sp1.fib.length ≥ 2 && want.isSome)
        | _, _ => bad d
      | ["reply", rlabel] =>
        match d1.rxl.find? (·.1 == rlabel) with
        | none =>
          -- the model has no such Interest (never handled): the harness must say skip
          let f2 : List SpecFail := match sp1.rx.find? (·.1 == rlabel) with
            | some (_, dl) => if gotRes == "sent" && !Spec.replyOk dl t then
                [⟨"reply-deadline", "late", s!"reply for {rlabel} transmitted at {t}, after its deadline {dl}"⟩] else []
            | none => []
          mk d1 "skip" [] f2 ["reply-skip"]
        | some (_, r) =>
          let (m2, o) := stepM d.pinned m1 (.reply r)
          let res := match o with | .sent => "sent" | .late => "late" | _ => "skip"
          let f2 : List SpecFail := match sp1.rx.find? (·.1 == rlabel) with
            | some (_, dl) => if gotRes == "sent" && !Spec.replyOk dl t then
                [⟨"reply-deadline", "late", s!"reply for {rlabel} transmitted at {t}, after its deadline {dl}"⟩] else []
            | none => []
          mk { d1 with m := m2 } res [] f2 [if res == "sent" then "reply-sent" else "reply-late"]
      | ["tick"] => mk d1 "ok" [] [] ["tick"]
      | ["end"] =>
        -- SPEC: exactly once — every Interest whose lifetime ended more than a second ago is resolved
        let late := sp1.ints.filter fun si => si.must && !si.resolved && si.i.t + si.i.life + 1000000 ≤ t
        let f2 : List SpecFail := if isCrash got then [] else late.map fun si =>
          ⟨"exactly-once", "never-resolved", s!"{si.label} ({Name.toText si.i.final}) expressed at {si.i.t} lifetime {si.i.life}: no callback by {t}"⟩
        mk d1 "ok" [] f2 ["end"]
      | _ => bad d

def main : IO Unit := do
  let pinned := (← IO.getEnv "VERIF_C20_PINNED").isSome
  Ndn.Driver.run ({ pinned := pinned } : DSt) stepC20
