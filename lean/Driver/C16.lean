/-
  Driver/C16.lean — checks histories recorded from the REAL shared tables (RIB + FIB/strategy
  table, several goroutines, race detector on) for linearizability against the sequential
  specification NdnVerif/C16/Seq.lean.

  protocol (harness/c16):
    new <tree|hash:m> <default strategy>                => ok
    <op>                                                => <result>      sequential (setup / final observation)
    par <t0 ops> | <t1 ops> | …                         => <id>,<inv>,<ret>,<result> …
  op syntax (fields separated by ','; ops of one goroutine by ';'):
    reg,<name>,<face>,<origin>,<cost>,<flags>  unreg,<name>,<face>,<origin>  cleanup,<face>
    fins,<name>,<face>,<cost>  frem,<name>,<face>   (direct FIB commands, on prefixes below /f only)
    sets,<name>,<strategy>  unsets,<name>  nh,<name>  st,<name>  lf  lr  ls
    adv   (the real NLSR readvertiser: name=count;… reg=<register commands sent> unreg=<unregister commands sent>)
  id = 100*goroutine + position.  inv/ret are ticks of one global atomic counter.
-/
import NdnVerif.Driver.Common
import NdnVerif.C16.Seq
open Ndn Ndn.Driver Ndn.C05 Ndn.C06 Ndn.C16

structure D16 where
  cands : List SSt := []      -- sequential states the tables may be in (one, except after a `par`)

def parseOp (s : String) : Option SOp :=
  match s.splitOn "," with
  | ["reg", n, f, o, c, fl] => do
    let n ← Name.ofText n; let f ← f.toNat?; let o ← o.toNat?; let c ← c.toNat?; let fl ← fl.toNat?
    pure (.reg n ⟨f, o, c, fl⟩)
  | ["unreg", n, f, o] => do
    let n ← Name.ofText n; let f ← f.toNat?; let o ← o.toNat?
    pure (.unreg n f o)
  | ["cleanup", f] => do let f ← f.toNat?; pure (.cleanup f)
  | ["fins", n, f, c] => do
    let n ← Name.ofText n; let f ← f.toNat?; let c ← c.toNat?
    pure (.fins n f c)
  | ["frem", n, f] => do
    let n ← Name.ofText n; let f ← f.toNat?
    pure (.frem n f)
  | ["sets", n, x] => do let n ← Name.ofText n; let x ← Name.ofText x; pure (.sets n x)
  | ["unsets", n] => do let n ← Name.ofText n; pure (.unsets n)
  | ["nh", n] => do let n ← Name.ofText n; pure (.nh n)
  | ["st", n] => do let n ← Name.ofText n; pure (.st n)
  | ["lf"] => some .lf
  | ["lr"] => some .lr
  | ["ls"] => some .ls
  | ["adv"] => some .adv
  | _ => none

def isWrite : SOp → Bool
  | .reg .. | .unreg .. | .cleanup .. | .sets .. | .unsets .. | .fins .. | .frem .. => true
  | _ => false

def parseThreads (spec : String) : Option (List (Nat × SOp)) :=
  let threads := (spec.splitOn " | ")
  let rec goT (ts : List String) (ti : Nat) (acc : List (Nat × SOp)) : Option (List (Nat × SOp)) :=
    match ts with
    | [] => some acc.reverse
    | t :: rest =>
      let ops := (t.splitOn ";").filter (· != "")
      let rec goO (os : List String) (k : Nat) (acc : List (Nat × SOp)) : Option (List (Nat × SOp)) :=
        match os with
        | [] => some acc
        | o :: more => match parseOp o with
          | some op => goO more (k + 1) ((100 * ti + k, op) :: acc)
          | none => none
      match goO ops 0 acc with
      | some acc' => goT rest (ti + 1) acc'
      | none => none
  goT threads 0 []

def parseResults (got : String) : Option (List (Nat × Nat × Nat × String)) :=
  ((got.splitOn " ").filter (· != "")).mapM fun e =>
    match e.splitOn "," with
    | id :: inv :: ret :: res => do
      let id ← id.toNat?; let inv ← inv.toNat?; let ret ← ret.toNat?
      pure (id, inv, ret, ",".intercalate res)
    | _ => none

def crashSpec (got : String) : List SpecFail :=
  if isCrash got then
    let key := if (got.splitOn "DATA RACE").length > 1 then "data-race"
               else if (got.splitOn "concurrent map").length > 1 then "concurrent-map"
               else if (got.splitOn "TIMEOUT").length > 1 then "deadlock-or-timeout" else "crash"
    [⟨"no-race-no-crash", key, s!"the shared tables crashed / raced / hung under concurrent use: {got}"⟩]
  else []

def step16 (d : D16) (op : String) (got : String) : StepResult D16 :=
  if got == "skip" then { st := { cands := [] }, cov := ["skipped-after-deadlock"] }   -- the harness process is wedged (reported before)
  else if op.startsWith "new " then
    match op.splitOn " " with
    | ["new", _kind, dflt] | ["new", _kind, dflt, "mgmt"] =>
      match Name.ofText dflt with
      | some x => { st := { cands := [SSt.init x] }, expected := some "ok",
                    cov := if (op.splitOn " ").length == 4 then ["via-management"] else [] }
      | none => { st := d, expected := some "bad-op" }
    | _ => { st := d, expected := some "bad-op" }
  else if op.startsWith "latereg," then
    -- a `rib/register` of a face for itself that is handled after the face went down: in every sequential order of
    -- {register, teardown} the tables end without a route of that face (teardown last removes it; register last is
    -- refused, the face does not exist)
    if isCrash got then { st := d, spec := crashSpec got }
    else
      { st := d, expected := some "routes-left=0", cov := ["late-register"],
        spec := if got != "routes-left=0" then
          [⟨"sequential-outcome", "route-to-dead-face", s!"a rib/register handled after the teardown of its own face left a route / next hop of the dead face behind: {got} (no sequential order of the two operations ends like this, and nothing ever removes it)"⟩] else [] }
  else if op.startsWith "atomic," then
    -- one RIB operation that touches n prefixes is ONE step towards lookups: an observer between two FIB writes of
    -- the same operation never sees the operation's face at some of the prefixes and not at the others
    match ((op.drop 7).toString).toNat? with
    | none => { st := d, expected := some "bad-op" }
    | some n =>
      if isCrash got then { st := d, spec := crashSpec got }
      else
        let want := s!"n={n} torn=0"
        { st := d, expected := some want, cov := ["operation-atomic"] ++ (if n > 256 then ["operation-atomic-over-256"] else []),
          spec := if got != want then
            [⟨"operation-atomic", "torn", s!"one RIB operation over {n} prefixes was installed in several FIB writes and a lookup between two of them saw it at some prefixes only: {got} (each lookup returns a state lying BETWEEN the operations that overlap it)"⟩] else [] }
  else if op.startsWith "faces," then
    -- concurrent registrations in the face table: each face gets its own identifier and is found
    -- under it (and no longer after removal); sequential specification of `Table.Add/Get/Remove`
    match ((op.drop 6).toString).toNat? with
    | none => { st := d, expected := some "bad-op" }
    | some k =>
      if isCrash got then { st := d, spec := crashSpec got }
      else
        let want := s!"n={k} distinct=true consistent=true"
        { st := d, expected := some want, cov := ["face-table-round"],
          spec := if got != want then
            [⟨"face-table", "add", s!"{k} concurrent face registrations: {got} (every face must get its own identifier and be found under it)"⟩] else [] }
  else if op.startsWith "life," then
    -- the life of a real face (registered, optionally destroyed through the tables, late route, transport
    -- closes): once the link service has torn it down no route of the face is left, so the tables are as before
    if isCrash got then { st := d, spec := crashSpec got }
    else
      let want := "routes-left=0 registered=false"
      { st := d, expected := some want, cov := ["face-life"],
        spec := if got != want then
          [⟨"face-teardown", "life", s!"after the face's transport closed: {got} (the teardown must remove the face and every route through it)"⟩] else [] }
  else if op.startsWith "par " then
    let spec := (op.drop 4).toString
    match parseThreads spec with
    | none => { st := d, expected := some "bad-op" }
    | some ops =>
      if isCrash got then { st := d, spec := crashSpec got, cov := ["par-crash"] }
      else match parseResults got with
      | none => { st := d, expected := some "unparsable-results" }
      | some rs =>
        let hops : List HOp := ops.filterMap fun (id, o) =>
          match rs.find? (·.1 == id) with
          | some (_, inv, ret, res) => some ⟨id, inv, ret, o, res⟩
          | none => none
        if hops.length != ops.length then { st := d, expected := some "missing-results" }
        else
          let fuel := hops.length + 2
          let finals := d.cands.foldl (fun acc s =>
            let r := search fuel s hops [] {}
            r.finals.foldl (fun acc f =>
              -- re-validate every witness with the simple checker before trusting it
              match checkWitness s hops f.2.2 with
              | some _ => if acc.any (fun (x : String × SSt) => x.1 == f.1) then acc else (f.1, f.2.1) :: acc
              | none => acc) acc) []
          let overlapW := hops.any fun a => hops.any fun b =>
            a.id / 100 != b.id / 100 && isWrite a.op && isWrite b.op && a.inv < b.ret && b.inv < a.ret
          let overlapRW := hops.any fun a => hops.any fun b =>
            a.id / 100 != b.id / 100 && isWrite a.op && !isWrite b.op && a.inv < b.ret && b.inv < a.ret
          if finals.isEmpty then
            { st := { cands := [] }, cov := ["par-not-linearizable"], nontrivial := true,
              spec := [⟨"linearizable", "par", s!"no sequential order of the operations explains the results: {got}"⟩] }
          else
            { st := { cands := finals.map (·.2) },
              cov := ["par-linearizable"] ++ (if overlapW then ["overlapping-writers"] else []) ++
                     (if overlapRW then ["lookup-overlaps-writer"] else []) ++
                     (if finals.length > 1 then ["several-final-states"] else []),
              nontrivial := overlapW || overlapRW }
  else
    match parseOp op with
    | none => { st := d, expected := some "bad-op" }
    | some o =>
      if isCrash got then { st := d, spec := crashSpec got }
      else
        -- `adv`: "<counts> reg=R unreg=U | <commands in the order they were queued>"; the first part is compared
        -- with the model, the command sequence (not determined by the model under concurrency) is judged by the
        -- specification: NLSR's view after these commands = the prefixes with a positive advertised count
        let gotFull := got
        let got := match o with | .adv => (got.splitOn " | ").headD got | _ => got
        let viewFails : List SpecFail := match o with
          | .adv =>
            let seq := (((gotFull.splitOn " | ").getD 1 "").splitOn " ").filter (· != "")
            let log : List (Bool × Name) := seq.filterMap fun t =>
              match Name.ofText ((t.drop 2).toString) with
              | some n => some (t.startsWith "r:", n)
              | none => none
            let counts : List (Name × Int) := (((got.splitOn " ").headD "").splitOn ";").filterMap fun e =>
              match e.splitOn "=" with
              | [n, c] => match Name.ofText n, c.toInt? with
                | some n, some c => some (n, c)
                | _, _ => none
              | _ => none
            let names := (log.map (·.2) ++ counts.map (·.1)).eraseDups
            let bad := names.filter fun n => viewOf log n != decide (((counts.find? (·.1 == n)).map (·.2)).getD 0 > 0)
            if bad.isEmpty then [] else
              [⟨"nlsr-view", "adv", s!"after the commands the readvertiser sent, NLSR's view of {bad.map Name.toText} differs from the advertised counts: {gotFull}"⟩]
          | _ => []
        let results := d.cands.map fun s => s.apply o
        let ok := results.filter fun r => r.2 == got
        match results with
        | [] => { st := d, cov := ["after-failed-par"] }   -- the block before was not linearizable: nothing to compare with
        | [r] => { st := { cands := [r.1] }, expected := (match o with | .adv => none | _ => some r.2),
                   cov := ["seq-op"] ++ (match o with | .adv => ["readvertiser"] | _ => []),
                   spec := viewFails ++ if r.2 != got && !isWrite o then
                     [⟨"sequential-result", "seq", s!"{op}: tables return {got}, the registered routes prescribe {r.2}"⟩] else [] }
        | _ =>
          if ok.isEmpty then
            { st := d, cov := ["final-state-mismatch"],
              spec := viewFails ++ [⟨"final-state", "after-par", s!"{op} returned {got}: not the result in any state reachable by a sequential order of the concurrent operations"⟩] }
          else { st := { cands := ok.map (·.1) }, cov := ["final-state-filter"], spec := viewFails }

def main : IO Unit := Ndn.Driver.run ({} : D16) step16
