/-
  C07 model driver: replays the harness trace through the CS model (lock-step DIFF) and evaluates
  the C07 specification predicates on the IMPLEMENTATION's outputs (SPEC).

  ops:   new K | ins <name> <fresh-ms|-> <wirehex> | find <name> <cbp> <mbf> | cap K | adv <ms> | probe
  outs:  ok    | <CsSize>                          | none / <name> <wirehex>  | ok    | ok       | n1,n2,.. / -
-/
import NdnVerif.Driver.Common
import NdnVerif.C07.Spec
open Ndn Ndn.Driver Ndn.C07

structure DSt where
  m : St := {}
  -- specification state: built from the ops and the implementation's outputs only
  hist : List Ev := []
  now : Nat := 0
  cap0 : Nat := 0
  evicted : Bool := false

def msNs (ms : Nat) : Nat := ms * 1000000

def sortStrs (l : List String) : List String := l.mergeSort (fun a b => decide (a ≤ b))

def namesText (l : List Name) : String :=
  if l.isEmpty then "-" else ",".intercalate (sortStrs (l.map Name.toText))

def ansText : Ans → String
  | none => "none"
  | some (n, w) => s!"{n.toText} {hexOrDash w}"

def parseAns (got : String) : Option Ans :=
  if got == "none" then some none
  else match got.splitOn " " with
    | [n, w] => do
      let n ← Name.ofText n
      let w ← bytesOfHex w
      pure (some (n, w))
    | _ => none

def bad (s : DSt) : StepResult DSt := { st := s, expected := some "bad-op" }

def stepC07 (s : DSt) (op : String) (got : String) : StepResult DSt :=
  let crash : List SpecFail :=
    if isCrash got then [⟨"no-panic", (op.splitOn " ").headD "", s!"the Content Store crashed: {got}"⟩] else []
  match op.splitOn " " with
  | ["new", k] =>
    match k.toNat? with
    | some k => { st := { m := init k, cap0 := k }, expected := some "ok", spec := crash }
    | none => bad s
  | ["ins", n, f, w] =>
    match Name.ofText n, (if f == "-" then some 0 else f.toNat?), bytesOfHex w with
    | some n, some f, some w =>
      let fresh := msNs f
      let wasCached := s.m.cs.has n
      -- the decoder keeps a FreshnessPeriod in a time.Duration: a millisecond count beyond what it can hold is the
      -- largest one it can (F-07c); the SPECIFICATION below counts with the period that is on the wire
      let m' := insertData (fun _ => false) s.m n w (msNs (min f 9223372036854))
      -- spec side
      let r := refOf s.cap0 s.hist
      let isNew := !memb n r.order
      let hist' := Ev.ins n w fresh s.now :: s.hist
      -- " hs=0:<i>" after the size: the answer of an EARLIER hit of this history (kept uncopied by the
      -- harness, as a face's send queue keeps it) is no longer the packet that was found
      let gotParts := got.splitOn " "
      let sz := (gotParts.headD "").toNat?
      let hitFail : List SpecFail :=
        match gotParts.find? (·.startsWith "hs=0") with
        | some t => [⟨"find-sound", "answer-changed-later", s!"after inserting {n.toText} the answer of an earlier cache hit (no. {(t.drop 5).toString}) no longer holds the packet that was found (its bytes belong to the store and were reused)"⟩]
        | none => []
      let capFail : List SpecFail := hitFail ++
        match sz with
        | some z => if isNew && decide (z > r.cap) then
            [⟨"capacity", s!"cap={r.cap}", s!"after inserting the new name {n.toText} the store reports {z} entries, capacity is {r.cap}"⟩] else []
        | none => []
      let ev := m'.cs.length < s.m.cs.length + 1 && !wasCached
      { st := { s with m := m', hist := hist', evicted := s.evicted || ev },
        expected := some (toString m'.nCs), spec := crash ++ capFail,
        cov := [if wasCached then "ins-refresh" else if ev then "ins-evict" else "ins-new"] ++
               (if !wasCached && s.m.cap == 0 then ["ins-cap0"] else []),
        nontrivial := s.evicted || ev }
    | _, _, _ => bad s
  | ["find", n, c, mb] =>
    match Name.ofText n with
    | some n =>
      let cbp := c == "1"
      let mbf := mb == "1"
      let i : Interest := ⟨n, cbp, mbf⟩
      -- model
      let (m', ans) := findData id s.m n cbp mbf
      let allowed : List String :=
        if cbp then
          if nodeAt s.m n then
            let l := walkAll s.m mbf (fuel s.m) n
            if l.isEmpty then ["none"] else l.map (fun q => ansText (ansOf s.m (some q)))
          else ["none"]
        else [ansText ans]
      let expected := if allowed.contains got then got else "|".intercalate allowed
      -- spec on the implementation's answer
      let (hist', fails) : List Ev × List SpecFail :=
        match parseAns got with
        | some a =>
          let f1 : List SpecFail :=
            if csAnswerOk s.hist s.now i a then []
            else
              let key := match a with
                | some (q, b) =>
                  match lastInsert s.hist q with
                  | none => "never-inserted"
                  | some (w, f, t0) =>
                    if !nameMatches i q then "name"
                    else if w != b then "bytes"
                    else if mbf && !(decide (s.now < t0 + f)) then "stale" else "other"
                | none => "other"
              [⟨"find-sound", key, s!"lookup {n.toText} cbp={c} mbf={mb} at t={s.now} answered {got}"⟩]
          let r := refOf s.cap0 s.hist
          let f2 : List SpecFail :=
            match a with
            | none =>
              if !cbp && memb n r.order then
                match lastInsert s.hist n with
                | some (_, f, t0) =>
                  if !mbf || decide (s.now < t0 + f) then
                    [⟨"exact-complete", if mbf then "fresh" else "any", s!"{n.toText} is cached, unevicted and fresh at t={s.now} but the exact lookup (mbf={mb}) found nothing"⟩]
                  else []
                | none => []
              else []
            | some _ => []
          let h' := match a with
            | some (q, _) => if !cbp && q == n then Ev.hit n :: s.hist else s.hist
            | none => s.hist
          (h', f1 ++ f2)
        | none => (s.hist, if isCrash got then [] else [⟨"find-sound", "garbled", s!"unparsable answer {got}"⟩])
      { st := { s with m := m', hist := hist' }, expected := some expected, spec := crash ++ fails,
        cov := [if cbp then (if ans.isSome then "find-prefix-hit" else "find-prefix-miss")
                else (if ans.isSome then "find-exact-hit" else "find-exact-miss")] ++
               (if mbf && ans.isNone && (if cbp then false else s.m.cs.has n) then ["find-stale"] else []) ++
               (if cbp && allowed.length > 1 then ["find-prefix-choice"] else []) }
    | none => bad s
  | ["cap", k] =>
    match k.toNat? with
    | some k => { st := { s with m := setCap s.m k, hist := Ev.cap k :: s.hist }, expected := some "ok",
                  spec := crash, cov := [if k < s.m.cs.length then "cap-lower" else "cap-other"] }
    | none => bad s
  | ["mcap", k, fm] =>
    -- cs/config through the management module: fm = 0 no Flags/Mask, 1 both, 2 Flags only
    let cap := k.toNat?
    let r := csConfig s.m cap (fm != "0") (fm == "1")
    let echo := match r.2.2 with | some e => toString e | none => "-"
    -- spec side: the capacity management acknowledged (status 200 with the Capacity echoed)
    let hist' := match got.splitOn " " with
      | ["200", e] => match e.toNat? with | some e => Ev.cap e :: s.hist | none => s.hist
      | _ => s.hist
    { st := { s with m := r.1, hist := hist' }, expected := some s!"{r.2.1} {echo}", spec := crash,
      cov := [if fm == "2" then "mcap-409" else if cap.isNone then "mcap-nocap" else if fm == "1" then "mcap-flags" else "mcap-plain"] ++
             (match cap with | some c => if fm != "2" && c < s.m.cs.length then ["cap-lower"] else [] | none => []) }
  | ["adv", d] =>
    match d.toNat? with
    | some d => { st := { s with m := advance s.m (msNs d), now := s.now + msNs d }, expected := some "ok", spec := crash }
    | none => bad s
  | ["probe"] =>
    let r := refOf s.cap0 s.hist
    let want := namesText r.order
    let fails : List SpecFail :=
      if isCrash got then [] else
      if got == want then [] else
        [⟨"evicts-lru", s!"cap={r.cap}", s!"cached names are {got}; the least-recently-used rule over the history leaves {want}"⟩]
    { st := s, expected := some (namesText s.m.cs.keys), spec := crash ++ fails, cov := ["probe"] }
  | _ => bad s

def main : IO Unit := Ndn.Driver.run ({} : DSt) stepC07
