package c03

import (
	"strconv"
	"time"
	"strings"
	"testing"

	enc "github.com/named-data/ndnd/std/encoding"
	"verif/harness/common"
)

// C03 correspondence: one history = one packet shape:
//
//	new
//	mkd|mki ...            build through Spec{}.MakeData/MakeInterest with a real (recording) signer
//	rd c | rd w | rd 3,17  ReadData/ReadInterest on the bytes, contiguous / one segment / cut at offsets
//	rd own                 … over the buffers exactly as the encoder returned them (EncodedData.Wire read back)
//	rp <cuts>              ReadPacket
//	rdall                  every single cut (packets <= 600 B): first cut whose result differs
//	rdall2                 every pair of cuts (packets <= 200 B, thorough)
//	nb <name>  nfb <hex>  cb <comp>  cfb <hex>     standalone name / component codecs
//	rx D|I|P <hex> <cuts>  decode arbitrary bytes (corpus / replays)
//	mrd <bit> <cuts>       flip one bit of the packet, ReadPacket over the cut spec (malformed input)
//	mrdall <bit>           flip one bit, ReadPacket over every single cut
//	hold / rdheld          remember the packet just built (in the buffers it was returned in); after the next packet
//	                       was built with the same signer instance, decode the remembered one again
//	tz <seconds>           set the process' local time zone (time.Local) for the rest of the history
//	cmp                    repeats the output of the make op (compared with the model HERE)
func gen(g *common.Gen) {
	r := g.R
	for i := 0; i < g.N; i++ {
		sh := Shape{Big: r.Chance(1, 3), Huge: r.Chance(1, 60) || (common.Thorough() && r.Chance(1, 25))}
		g.Op("new")
		var mk string
		switch {
		case r.Chance(1, 6):
			// estimated length at a TL-length boundary (252..256, 65534..65538): a signature shorter
			// than its estimate narrows the outer header
			mk = Steered(r, g, r.Chance(1, 2))
		case r.Chance(1, 2):
			mk = GenMkd(r, sh, g, "")
		default:
			mk = GenMki(r, sh, g, "")
		}
		// certificate-style signers stamp a validity period with time.Now(): run them in a process
		// zone other than UTC (the instant must round-trip whatever the zone)
		if strings.Contains(mk, "cert") && r.Chance(3, 4) {
			g.Op("tz %d", common.Pick(r, []int{32400, -18000, 19800, 3600}))
			g.Stat("tz")
		}
		// an earlier packet of the SAME signer instance, kept in the buffers it was returned in and
		// decoded again after the main packet was built
		holdFirst := r.Chance(1, 3) && !strings.HasSuffix(mk, " none")
		if holdFirst {
			tok := strings.Fields(mk)
			first := GenMkd(r, Shape{}, g, tok[len(tok)-1])
			if tok[0] == "mki" {
				first = GenMki(r, Shape{}, g, tok[len(tok)-1])
			}
			g.Op("%s", first)
			g.Op("hold")
			g.Stat("hold")
		}
		g.Op("%s", mk)
		if holdFirst {
			g.Op("rdheld")
		}
		size := EstSize(mk)
		// packets of 64 KiB cost the model driver ~1.5 s per decode: in the quick tier they get a
		// reduced set of decodes (contiguous, own buffers, one cut set), the thorough tier all
		light := !common.Thorough() && (size > 20000 || strings.Contains(mk, " t:655"))
		g.Op("rd c")
		g.Op("rd own")
		nrd := r.Range(1, 4)
		if light {
			nrd = 1
			g.Stat("light-huge")
		} else {
			g.Op("rd w")
			g.Op("rp c")
			g.Op("rp own")
		}
		for k := nrd; k > 0; k-- {
			g.Op("rd %s", GenCuts(r, size))
		}
		g.Op("rp %s", GenCuts(r, size))
		if size <= 700 {
			g.Op("rdall")
			g.Stat("rdall")
		}
		if common.Thorough() && size <= 160 && r.Chance(1, 3) {
			g.Op("rdall2")
			g.Stat("rdall2")
		}
		// malformed input: the same bytes with one bit flipped, decoded contiguously, over random
		// cuts and (small packets) over every single cut — segmented decoding must agree with
		// contiguous decoding on ANY bytes
		nm := r.Range(1, 3)
		if light {
			nm = 0
		}
		for k := nm; k > 0; k-- {
			bit := r.Intn(8 * size)
			if r.Chance(1, 2) {
				bit = r.Intn(8 * min(size, 48))
			}
			g.Op("mrd %d c", bit)
			g.Op("mrd %d %s", bit, GenCuts(r, size))
			if size <= 300 {
				g.Op("mrdall %d", bit)
				g.Stat("mrdall")
			}
		}
		// standalone codecs on the same name
		name := strings.Fields(mk)[1]
		g.Op("nb %s", name)
		g.Op("nfb")
		if name != "/" {
			comps := strings.Split(name, "/")[1:]
			k := r.Intn(len(comps))
			g.Op("cb %d %s", k, comps[k])
			g.Op("cfb")
		}
		if sh.Big || sh.Huge {
			g.Stat("shape-big")
		}
		// model-vs-implementation comparison of the make op, placed last so that every SPEC
		// predicate of the history is evaluated before a DIFF stops it
		g.Op("cmp")
	}
}

var held *Built

var (
	last      *Built
	lastBlob  []byte
	lastMkOut string
)

func allCuts(kind byte, b []byte, two bool) string {
	ref := ReadAs(kind, b, "c")
	n := len(b)
	if !two {
		if n > 600 {
			return "skip-big"
		}
		for k := 1; k < n; k++ {
			if got := common.Guard(func() string { return ReadAs(kind, b, strconv.Itoa(k)) }); got != ref {
				return "cut=" + strconv.Itoa(k) + " " + got
			}
		}
		return "all " + ref
	}
	if n > 200 {
		return "skip-big"
	}
	for a := 1; a < n; a++ {
		for c := a + 1; c < n; c++ {
			cuts := strconv.Itoa(a) + "," + strconv.Itoa(c)
			if got := common.Guard(func() string { return ReadAs(kind, b, cuts) }); got != ref {
				return "cut=" + cuts + " " + got
			}
		}
	}
	return "all " + ref
}

func exec(op string) string {
	f := common.Fields(op)
	switch f[0] {
	case "new":
		last, lastBlob, lastMkOut, held = nil, nil, "", nil
		ResetSigners()
		time.Local = time.UTC
		return "ok"
	case "mkd":
		out, b := MakeData(f)
		last, lastMkOut = b, out
		if b != nil {
			OwnSegs = b.SegLens
		}
		return out
	case "mki":
		out, b := MakeInterest(f)
		last, lastMkOut = b, out
		if b != nil {
			OwnSegs = b.SegLens
		}
		return out
	case "hold":
		if last == nil {
			return "skip"
		}
		held = last
		return "ok"
	case "rdheld":
		if held == nil {
			return "skip"
		}
		now := append([]byte{}, held.Orig.Join()...)
		same := " same"
		if string(now) != string(held.Wire) {
			same = " changed"
		}
		return ReadAs(held.Kind, now, "c") + same
	case "tz":
		// the process' local zone (what TZ / /etc/localtime set): time.Now() values carry it
		time.Local = time.FixedZone("X", common.Atoi(f[1]))
		return "ok"
	case "cmp":
		if lastMkOut == "" {
			return "skip"
		}
		return lastMkOut
	case "rd":
		if last == nil {
			return "skip"
		}
		return ReadAs(last.Kind, last.Wire, f[1])
	case "rp":
		if last == nil {
			return "skip"
		}
		return ReadAs('P', last.Wire, f[1])
	case "rdall", "rdall2":
		if last == nil {
			return "skip"
		}
		return allCuts(last.Kind, last.Wire, f[0] == "rdall2")
	case "mrd", "mrdall":
		if last == nil {
			return "skip"
		}
		bit := common.Atoi(f[1])
		if bit >= 8*len(last.Wire) {
			return "skip"
		}
		w := append([]byte{}, last.Wire...)
		w[bit/8] ^= 1 << uint(7-bit%8)
		if f[0] == "mrdall" {
			return allCuts('P', w, false)
		}
		return ReadAs('P', w, f[2])
	case "rx":
		return ReadAs(f[1][0], common.UnHex(f[2]), f[3])
	case "nb":
		lastBlob = common.ParseNameText(f[1]).Bytes()
		return common.Hex(lastBlob)
	case "nfb":
		var b []byte
		if len(f) > 1 {
			b = common.UnHex(f[1])
		} else if lastBlob == nil {
			return "skip"
		} else {
			b = lastBlob
		}
		n, err := enc.NameFromBytes(b)
		if err != nil {
			return "err"
		}
		return common.NameText(n)
	case "cb":
		lastBlob = common.ParseCompText(f[2]).Bytes()
		return common.Hex(lastBlob)
	case "cfb":
		var b []byte
		if len(f) > 1 {
			b = common.UnHex(f[1])
		} else if lastBlob == nil {
			return "skip"
		} else {
			b = lastBlob
		}
		c, err := enc.ComponentFromBytes(b)
		if err != nil {
			return "err"
		}
		return common.CompText(c)
	}
	return "bad-op"
}

func TestVerif(t *testing.T) { common.Main(t, gen, exec) }
