// Package c03: shared plumbing of the C03 / C12 correspondence harnesses — building packets through
// the REAL spec_2022.Spec{}.MakeData/MakeInterest with the REAL shipped signers (wrapped only to
// record what the signer was asked and what it answered), decoding them with the real
// ReadData/ReadInterest/ReadPacket over contiguous or segmented input, and canonical text forms.
package c03

import (
	"bytes"
	"errors"
	"crypto/ecdsa"
	"crypto/elliptic"
	"crypto/rand"
	"crypto/rsa"
	"strconv"
	"strings"
	"time"

	enc "github.com/named-data/ndnd/std/encoding"
	"github.com/named-data/ndnd/std/ndn"
	spec "github.com/named-data/ndnd/std/ndn/spec_2022"
	sec "github.com/named-data/ndnd/std/security"
	"github.com/named-data/ndnd/std/utils"
	"verif/harness/common"
)

// ---------------------------------------------------------------- recording signer

// RecSigner wraps a real signer and records the SigConfig it announced, the bytes it was handed
// and the signature value it returned. It changes nothing.
type RecSigner struct {
	Inner   ndn.Signer
	Cfg     *ndn.SigConfig
	Covered []byte
	Handed  bool
	Value   []byte
}

func (r *RecSigner) SigInfo() (*ndn.SigConfig, error) {
	c, err := r.Inner.SigInfo()
	if c != nil {
		cc := *c
		r.Cfg = &cc
	}
	return c, err
}
func (r *RecSigner) EstimateSize() uint { return r.Inner.EstimateSize() }
// FailEntropy: while set, crypto/rand.Reader is replaced by a reader that always fails for the
// duration of the signer's ComputeSigValue call only (other users of crypto/rand, e.g. rand.Read in
// the nonce generator, abort the process on a failing reader and are left alone).
var FailEntropy bool

type failingReader struct{}

func (failingReader) Read([]byte) (int, error) { return 0, errors.New("entropy source unavailable") }

func (r *RecSigner) ComputeSigValue(w enc.Wire) ([]byte, error) {
	r.Covered = append([]byte{}, w.Join()...)
	r.Handed = true
	if FailEntropy {
		old := rand.Reader
		rand.Reader = failingReader{}
		defer func() { rand.Reader = old }()
	}
	v, err := r.Inner.ComputeSigValue(w)
	r.Value = append([]byte{}, v...)
	return v, err
}

// testSigner: NOT a shipped signer. A deterministic signer with a chosen estimate and a chosen
// actual length, used to tie the model's "every abstract signer with |sign m| <= est" to the code.
type testSigner struct {
	est, n int
}

func (t testSigner) SigInfo() (*ndn.SigConfig, error) {
	return &ndn.SigConfig{Type: ndn.SignatureEmptyTest, KeyName: enc.Name{enc.NewStringComponent(8, "k")}}, nil
}
func (t testSigner) EstimateSize() uint { return uint(t.est) }
func (t testSigner) ComputeSigValue(w enc.Wire) ([]byte, error) {
	out := make([]byte, t.n)
	j := w.Join()
	acc := byte(len(j))
	for i := range out {
		if len(j) > 0 {
			acc = acc*31 + j[i%len(j)]
		}
		out[i] = acc + byte(i)
	}
	return out, nil
}

var (
	eccKey  *ecdsa.PrivateKey
	rsaKey  *rsa.PrivateKey
	HmacKey = []byte("verif-hmac-key-0123456789")
	KeyName = enc.Name{enc.NewStringComponent(8, "k"), enc.NewStringComponent(8, "KEY"), enc.NewStringComponent(8, "1")}
)

func EccKey() *ecdsa.PrivateKey { return EccKeyFor("") }

var eccKeys = map[string]*ecdsa.PrivateKey{}

// EccKeyFor: one key per curve and process ("" / "256" = P-256, "224", "384", "521")
func EccKeyFor(curve string) *ecdsa.PrivateKey {
	if k, ok := eccKeys[curve]; ok {
		return k
	}
	c := elliptic.P256()
	switch curve {
	case "224":
		c = elliptic.P224()
	case "384":
		c = elliptic.P384()
	case "521":
		c = elliptic.P521()
	}
	k, err := ecdsa.GenerateKey(c, rand.Reader)
	if err != nil {
		panic(err)
	}
	eccKeys[curve] = k
	return k
}

// splitTok: "<base>[<curve>][~<hmac key length>][@<key name>]"
func splitTok(tok string) (base, curve string, hmacKey []byte, keyName enc.Name) {
	keyName = KeyName
	if i := strings.IndexByte(tok, '@'); i >= 0 {
		keyName = common.ParseNameText(tok[i+1:])
		tok = tok[:i]
	}
	hmacKey = HmacKey
	if i := strings.IndexByte(tok, '~'); i >= 0 {
		n := common.Atoi(tok[i+1:])
		hmacKey = make([]byte, n)
		for j := range hmacKey {
			hmacKey[j] = byte(j*7 + 3)
		}
		tok = tok[:i]
	}
	if strings.HasPrefix(tok, "ecc") {
		for _, c := range []string{"224", "384", "521"} {
			if strings.HasSuffix(tok, c) {
				return strings.TrimSuffix(tok, c), c, hmacKey, keyName
			}
		}
	}
	return tok, "", hmacKey, keyName
}

func RsaKey() *rsa.PrivateKey {
	if rsaKey == nil {
		k, err := rsa.GenerateKey(rand.Reader, 2048)
		if err != nil {
			panic(err)
		}
		rsaKey = k
	}
	return rsaKey
}

type fixedTimer struct{}

// one signer INSTANCE per token and history (a real application keeps its signer and signs many
// packets with it); reset on "new"
var signerCache = map[string]ndn.Signer{}

func ResetSigners() { signerCache = map[string]ndn.Signer{} }

// SigBase strips the "@keyname" and ":params" parts of a signer token.
func SigBase(tok string) string {
	if i := strings.IndexByte(tok, '@'); i >= 0 {
		tok = tok[:i]
	}
	if i := strings.IndexByte(tok, '~'); i >= 0 {
		tok = tok[:i]
	}
	return strings.SplitN(tok, ":", 2)[0]
}

// SignerFor returns the history's signer instance for a token (exported for concurrent shapes).
func SignerFor(tok string) ndn.Signer { return signerFor(tok) }

func signerFor(tok string) ndn.Signer {
	if tok == "none" {
		return nil
	}
	if s, ok := signerCache[tok]; ok {
		return s
	}
	s := NewSigner(tok)
	signerCache[tok] = s
	return s
}

// NewSigner maps a protocol token to a real shipped signer (nil for "none").
//
//	none sha shaint hmac hmaccert hmacint ecc ecccert eccint rsa rsacert rsaint empty t:<est>:<len>
func NewSigner(tok string) ndn.Signer {
	// "<signer>@<name>": the key locator name of the signer (default /k/KEY/1); "hmac~<n>": an HMAC key
	// of n bytes; "ecc521" etc.: the ECDSA signer on another curve
	if strings.HasPrefix(tok, "t:") {
		p := strings.Split(tok, ":")
		return testSigner{est: common.Atoi(p[1]), n: common.Atoi(p[2])}
	}
	tok, curve, HmacKey, KeyName := splitTok(tok)
	EccKey := func() *ecdsa.PrivateKey { return EccKeyFor(curve) }
	switch tok {
	case "none":
		return nil
	case "sha":
		return sec.NewSha256Signer()
	case "shaint":
		return sec.NewSha256IntSigner(engineTimer{})
	case "hmac":
		return sec.NewHmacSigner(KeyName, HmacKey, false, 0)
	case "hmaccert":
		return sec.NewHmacSigner(KeyName, HmacKey, true, time.Hour)
	case "hmacint":
		return sec.NewHmacIntSigner(HmacKey, engineTimer{})
	case "ecc":
		return sec.NewEccSigner(false, false, 0, EccKey(), KeyName)
	case "ecccert":
		return sec.NewEccSigner(true, false, time.Hour, EccKey(), KeyName)
	case "eccint":
		return sec.NewEccSigner(false, true, 0, EccKey(), KeyName)
	case "rsa":
		return sec.NewRsaSigner(false, false, 0, RsaKey(), KeyName)
	case "rsacert":
		return sec.NewRsaSigner(true, false, time.Hour, RsaKey(), KeyName)
	case "rsaint":
		return sec.NewRsaSigner(false, true, 0, RsaKey(), KeyName)
	case "empty":
		return sec.NewEmptySigner()
	}
	if strings.HasPrefix(tok, "t:") {
		p := strings.Split(tok, ":")
		return testSigner{est: common.Atoi(p[1]), n: common.Atoi(p[2])}
	}
	panic("harness: unknown signer " + tok)
}

// Validate runs the shipped validator that matches the signer token. ok=false: no validator.
func Validate(tok string, covered enc.Wire, sig ndn.Signature) (verdict bool, ok bool) {
	switch {
	case strings.HasPrefix(tok, "sha"):
		return sec.Sha256Validate(covered, sig), true
	case strings.HasPrefix(tok, "hmac"):
		_, _, key, _ := splitTok(tok)
		return sec.HmacValidate(covered, sig, key), true
	case strings.HasPrefix(tok, "ecc"):
		_, curve, _, _ := splitTok(tok)
		return sec.EcdsaValidate(covered, sig, &EccKeyFor(curve).PublicKey), true
	case strings.HasPrefix(tok, "rsa"):
		return sec.RsaValidate(covered, sig, &RsaKey().PublicKey), true
	}
	return false, false
}

// ---------------------------------------------------------------- text forms

func optU(s string) *uint64 {
	if s == "-" {
		return nil
	}
	return utils.IdPtr(common.Atou(s))
}

func optMs(s string) *time.Duration {
	if s == "-" {
		return nil
	}
	return utils.IdPtr(time.Duration(common.Atou(s)) * time.Millisecond)
}

// ParseBufs: "nil" | "[]" | comma-separated hex buffers ("-" = empty buffer)
func ParseBufs(s string) enc.Wire {
	if s == "nil" {
		return nil
	}
	if s == "[]" {
		return enc.Wire{}
	}
	var w enc.Wire
	for _, p := range strings.Split(s, ",") {
		w = append(w, common.UnHex(p))
	}
	return w
}

func ParseNames(s string) []enc.Name {
	if s == "-" {
		return nil
	}
	if s == "[]" {
		return []enc.Name{}
	}
	var out []enc.Name
	for _, p := range strings.Split(s, ",") {
		out = append(out, common.ParseNameText(p))
	}
	return out
}

func NamesText(ns []enc.Name) string {
	if len(ns) == 0 {
		return "-"
	}
	parts := make([]string, len(ns))
	for i, n := range ns {
		parts[i] = common.NameText(n)
	}
	return strings.Join(parts, ",")
}

func u(x uint64) string { return strconv.FormatUint(x, 10) }

func optUText(p *uint64) string {
	if p == nil {
		return "-"
	}
	return u(*p)
}

func optDurText(p *time.Duration) string {
	if p == nil {
		return "-"
	}
	return u(uint64(*p))
}

func hexOrNil(w enc.Wire) string {
	if w == nil {
		return "nil"
	}
	return common.Hex(w.Join())
}

func bytesOrDashNil(b []byte) string {
	if b == nil {
		return "nil"
	}
	return common.Hex(b)
}

func nameOrNil(n enc.Name) string {
	if n == nil {
		return "nil"
	}
	return common.NameText(n)
}

// SigInfoText: what the signer announced (recorded), in the form the model consumes:
// typ|keyname|nonce|timeMs|seq|notBefore|notAfter
func SigCfgText(c *ndn.SigConfig) string {
	if c == nil {
		return "-"
	}
	kn := "-"
	if c.KeyName != nil {
		kn = common.NameText(c.KeyName)
	}
	nonce := "nil"
	if c.Nonce != nil {
		nonce = common.Hex(c.Nonce)
	}
	tm := "-"
	if c.SigTime != nil {
		tm = u(uint64(c.SigTime.UnixMilli()))
	}
	nb, na := "nil", "nil"
	if c.NotBefore != nil {
		nb = common.Hex([]byte(c.NotBefore.UTC().Format(spec.TimeFmt)))
	}
	if c.NotAfter != nil {
		na = common.Hex([]byte(c.NotAfter.UTC().Format(spec.TimeFmt)))
	}
	return strconv.FormatInt(int64(c.Type), 10) + "|" + kn + "|" + nonce + "|" + tm + "|" + optUText(c.SeqNum) + "|" + nb + "|" + na
}

func sigInfoFields(si *spec.SignatureInfo) string {
	if si == nil {
		return "si=-"
	}
	kn := "-"
	if si.KeyLocator != nil {
		kn = nameOrNil(si.KeyLocator.Name)
		if si.KeyLocator.KeyDigest != nil {
			kn += "+kd" + common.Hex(si.KeyLocator.KeyDigest)
		}
	}
	vp := "-"
	if si.ValidityPeriod != nil {
		vp = common.Hex([]byte(si.ValidityPeriod.NotBefore)) + "," + common.Hex([]byte(si.ValidityPeriod.NotAfter))
	}
	ad := ""
	if si.AdditionalDescription != nil {
		ad = "+ad"
	}
	return "si=" + u(si.SignatureType) + "|" + kn + "|" + bytesOrDashNil(si.SignatureNonce) + "|" + optDurText(si.SignatureTime) + "|" +
		optUText(si.SignatureSeqNum) + "|" + vp + ad
}

// DataText: canonical text of a decoded Data (+ the signed portion reported by the parser).
// gettersData / gettersInterest: what an application sees of a decoded packet is the ndn.Data /
// ndn.Interest / ndn.Signature interface; every accessor must report the decoded field it stands for.
// "" when they all do, else " getter=<name>".
func gettersData(d *spec.Data) (out string) {
	defer func() {
		if recover() != nil {
			out = " getter=PANIC"
		}
	}()
	bad := func(f string) string { return " getter=" + f }
	var x ndn.Data = d
	if !x.Name().Equal(d.NameV) || (x.Name() == nil) != (d.NameV == nil) {
		return bad("Name")
	}
	ct, fr, fb := x.ContentType(), x.Freshness(), x.FinalBlockID()
	if d.MetaInfo == nil {
		if ct != nil || fr != nil || fb != nil {
			return bad("MetaInfo")
		}
	} else {
		if (ct == nil) != (d.MetaInfo.ContentType == nil) || (ct != nil && uint64(*ct) != *d.MetaInfo.ContentType) {
			return bad("ContentType")
		}
		if (fr == nil) != (d.MetaInfo.FreshnessPeriod == nil) || (fr != nil && *fr != *d.MetaInfo.FreshnessPeriod) {
			return bad("Freshness")
		}
		if d.MetaInfo.FinalBlockID == nil {
			if fb != nil {
				return bad("FinalBlockID")
			}
		} else if c, err := enc.ComponentFromBytes(d.MetaInfo.FinalBlockID); err == nil {
			if fb == nil || !fb.Equal(c) {
				return bad("FinalBlockID")
			}
		}
	}
	if !bytes.Equal(x.Content().Join(), d.ContentV.Join()) {
		return bad("Content")
	}
	sg := x.Signature()
	if d.SignatureInfo == nil {
		if sg.SigType() != ndn.SignatureNone || sg.KeyName() != nil {
			return bad("SigType")
		}
	} else {
		if uint64(sg.SigType()) != d.SignatureInfo.SignatureType {
			return bad("SigType")
		}
		if d.SignatureInfo.KeyLocator == nil {
			if sg.KeyName() != nil {
				return bad("KeyName")
			}
		} else if !sg.KeyName().Equal(d.SignatureInfo.KeyLocator.Name) {
			return bad("KeyName")
		}
		if vp := d.SignatureInfo.ValidityPeriod; vp != nil {
			nb, e1 := time.Parse(spec.TimeFmt, vp.NotBefore)
			na, e2 := time.Parse(spec.TimeFmt, vp.NotAfter)
			gb, ga := sg.Validity()
			if e1 == nil && e2 == nil && (gb == nil || ga == nil || !gb.Equal(nb) || !ga.Equal(na)) {
				return bad("Validity")
			}
		}
	}
	if !bytes.Equal(sg.SigValue(), d.SignatureValue.Join()) {
		return bad("SigValue")
	}
	return ""
}

func gettersInterest(i *spec.Interest) (out string) {
	defer func() {
		if recover() != nil {
			out = " getter=PANIC"
		}
	}()
	bad := func(f string) string { return " getter=" + f }
	var x ndn.Interest = i
	if !x.Name().Equal(i.NameV) {
		return bad("Name")
	}
	if x.CanBePrefix() != i.CanBePrefixV {
		return bad("CanBePrefix")
	}
	if x.MustBeFresh() != i.MustBeFreshV {
		return bad("MustBeFresh")
	}
	fh := x.ForwardingHint()
	if i.ForwardingHintV == nil {
		if fh != nil {
			return bad("ForwardingHint")
		}
	} else {
		if len(fh) != len(i.ForwardingHintV.Names) {
			return bad("ForwardingHint")
		}
		for k := range fh {
			if !fh[k].Equal(i.ForwardingHintV.Names[k]) {
				return bad("ForwardingHint")
			}
		}
	}
	if n := x.Nonce(); (n == nil) != (i.NonceV == nil) || (n != nil && *n != uint64(*i.NonceV)) {
		return bad("Nonce")
	}
	if l := x.Lifetime(); (l == nil) != (i.InterestLifetimeV == nil) || (l != nil && *l != *i.InterestLifetimeV) {
		return bad("Lifetime")
	}
	if h := x.HopLimit(); (h == nil) != (i.HopLimitV == nil) || (h != nil && uint64(*h) != uint64(*i.HopLimitV)) {
		return bad("HopLimit")
	}
	if !bytes.Equal(x.AppParam().Join(), i.ApplicationParameters.Join()) {
		return bad("AppParam")
	}
	sg := x.Signature()
	if si := i.SignatureInfo; si == nil {
		if sg.SigType() != ndn.SignatureNone || sg.KeyName() != nil || sg.SigNonce() != nil || sg.SigTime() != nil || sg.SigSeqNum() != nil {
			return bad("Signature")
		}
	} else {
		if uint64(sg.SigType()) != si.SignatureType {
			return bad("SigType")
		}
		if si.KeyLocator == nil {
			if sg.KeyName() != nil {
				return bad("KeyName")
			}
		} else if !sg.KeyName().Equal(si.KeyLocator.Name) {
			return bad("KeyName")
		}
		if !bytes.Equal(sg.SigNonce(), si.SignatureNonce) {
			return bad("SigNonce")
		}
		if t := sg.SigTime(); (t == nil) != (si.SignatureTime == nil) || (t != nil && t.UnixMilli() != si.SignatureTime.Milliseconds()) {
			return bad("SigTime")
		}
		if q := sg.SigSeqNum(); (q == nil) != (si.SignatureSeqNum == nil) || (q != nil && *q != *si.SignatureSeqNum) {
			return bad("SigSeqNum")
		}
	}
	if !bytes.Equal(sg.SigValue(), i.SignatureValue.Join()) {
		return bad("SigValue")
	}
	return ""
}

func DataText(d *spec.Data, cov enc.Wire) string {
	mi := "mi=-"
	if d.MetaInfo != nil {
		mi = "mi=" + optUText(d.MetaInfo.ContentType) + "|" + optDurText(d.MetaInfo.FreshnessPeriod) + "|" + bytesOrDashNil(d.MetaInfo.FinalBlockID)
	}
	return "D n=" + nameOrNil(d.NameV) + " " + mi + " c=" + hexOrNil(d.ContentV) + " " + sigInfoFields(d.SignatureInfo) +
		" sv=" + hexOrNil(d.SignatureValue) + " cov=" + common.Hex(cov.Join()) + gettersData(d)
}

func InterestText(i *spec.Interest, cov enc.Wire) string {
	fh := "nil"
	if i.ForwardingHintV != nil {
		fh = NamesText(i.ForwardingHintV.Names)
	}
	nonce, hl := "-", "-"
	if i.NonceV != nil {
		nonce = u(uint64(*i.NonceV))
	}
	if i.HopLimitV != nil {
		hl = u(uint64(*i.HopLimitV))
	}
	b := func(x bool) string {
		if x {
			return "1"
		}
		return "0"
	}
	return "I n=" + nameOrNil(i.NameV) + " cbp=" + b(i.CanBePrefixV) + " mbf=" + b(i.MustBeFreshV) + " fh=" + fh + " nonce=" + nonce +
		" lt=" + optDurText(i.InterestLifetimeV) + " hl=" + hl + " ap=" + hexOrNil(i.ApplicationParameters) + " " + sigInfoFields(i.SignatureInfo) +
		" sv=" + hexOrNil(i.SignatureValue) + " cov=" + common.Hex(cov.Join()) + gettersInterest(i)
}

// ---------------------------------------------------------------- make / read

// Built is the last packet made in a history.
type Built struct {
	Kind    byte // 'D' or 'I'
	Wire    []byte
	Orig    enc.Wire // the wire exactly as returned (NOT copied: aliases whatever the encoder/signer handed out)
	SegLens []int // lengths of the buffers of the wire exactly as the encoder returned it (may contain 0)
	Signer  string
	Rec     *RecSigner
}

func segLens(w enc.Wire) []int {
	out := make([]int, len(w))
	for i, b := range w {
		out[i] = len(b)
	}
	return out
}

func segsText(l []int) string {
	parts := make([]string, len(l))
	for i, n := range l {
		parts[i] = strconv.Itoa(n)
	}
	return strings.Join(parts, ",")
}

// MakeData runs "mkd <name> <ct> <fr> <fb> <content> <signer>" on the real code.
func MakeData(f []string) (string, *Built) {
	name := common.ParseNameText(f[1])
	cfg := &ndn.DataConfig{Freshness: optMs(f[3])}
	if f[2] != "-" {
		cfg.ContentType = utils.IdPtr(ndn.ContentType(common.Atou(f[2])))
	}
	if f[4] != "-" {
		c := common.ParseCompText(f[4])
		cfg.FinalBlockID = &c
	}
	content := ParseBufs(f[5])
	var rec *RecSigner
	var signer ndn.Signer
	if s := signerFor(f[6]); s != nil {
		rec = &RecSigner{Inner: s}
		signer = rec
	}
	ed, err := spec.Spec{}.MakeData(name, cfg, content, signer)
	if err != nil {
		return "err " + recErrText(rec), nil
	}
	w := append([]byte{}, ed.Wire.Join()...)
	sl := segLens(ed.Wire)
	return "ok w=" + common.Hex(w) + " " + recText(rec, ed.SigCovered) + " segs=" + segsText(sl), &Built{Kind: 'D', Wire: w, Orig: ed.Wire, SegLens: sl, Signer: f[6], Rec: rec}
}

func recErrText(rec *RecSigner) string {
	if rec == nil {
		return "est=0 sc=-"
	}
	return "est=" + u(uint64(rec.EstimateSize())) + " sc=" + SigCfgText(rec.Cfg)
}

func recText(rec *RecSigner, retCov enc.Wire) string {
	if rec == nil {
		return "est=0 sc=- sv=nil cov=nil rc=" + hexOrNil(retCov)
	}
	sv, cov := "nil", "nil"
	if rec.Handed {
		sv, cov = common.Hex(rec.Value), common.Hex(rec.Covered)
	}
	return "est=" + u(uint64(rec.EstimateSize())) + " sc=" + SigCfgText(rec.Cfg) + " sv=" + sv + " cov=" + cov + " rc=" + hexOrNil(retCov)
}

// MakeInterest runs "mki <name> <cbp> <mbf> <fh> <nonce> <lt> <hl> <ap> <signer>" on the real code.
func MakeInterest(f []string) (string, *Built) {
	name := common.ParseNameText(f[1])
	cfg := &ndn.InterestConfig{CanBePrefix: f[2] == "1", MustBeFresh: f[3] == "1", ForwardingHint: ParseNames(f[4]),
		Nonce: optU(f[5]), Lifetime: optMs(f[6])}
	if f[7] != "-" {
		cfg.HopLimit = utils.IdPtr(uint(common.Atou(f[7])))
	}
	ap := ParseBufs(f[8])
	// when a delegation of the forwarding hint extends the Interest name, the application holds ONE name:
	// the Interest name is a prefix slice of the delegation's own array (same field values as separately
	// built names - what MakeInterest does to its arguments' memory must not show in the packet)
	for _, h := range cfg.ForwardingHint {
		if len(h) > len(name) && name.IsPrefix(h) {
			name = h[:len(name)]
			break
		}
	}
	var rec *RecSigner
	var signer ndn.Signer
	if s := signerFor(f[9]); s != nil {
		rec = &RecSigner{Inner: s}
		signer = rec
	}
	ei, err := spec.Spec{}.MakeInterest(name, cfg, ap, signer)
	if err != nil {
		return "err " + recErrText(rec), nil
	}
	w := append([]byte{}, ei.Wire.Join()...)
	sl := segLens(ei.Wire)
	return "ok w=" + common.Hex(w) + " " + recText(rec, ei.SigCovered) + " fn=" + common.NameText(ei.FinalName) + " segs=" + segsText(sl),
		&Built{Kind: 'I', Wire: w, Orig: ei.Wire, SegLens: sl, Signer: f[9], Rec: rec}
}

// Segment cuts b at the given offsets ("c" = contiguous BufferReader; "w" = one-segment WireReader;
// "3,17" = WireReader over segments [0,3) [3,17) [17,len)). Offsets outside (0,len) or not
// increasing are dropped, so that every segment is non-empty.
// OwnSegs: segmentation used by the cut spec "own" = the buffers of the wire exactly as the encoder
// returned them (including empty buffers), i.e. reading EncodedData.Wire back directly.
var OwnSegs []int

// LastWire: the Wire (list of segments) most recently handed to enc.NewWireReader by Reader, and the
// segment lengths it had at that moment: constructing or using a reader must not rewrite the
// caller's Wire (WireIntact).
var LastWire enc.Wire
var lastWireLens []int

func keepWire(w enc.Wire) enc.ParseReader {
	LastWire = w
	lastWireLens = lastWireLens[:0]
	for _, s := range w {
		lastWireLens = append(lastWireLens, len(s))
	}
	return enc.NewWireReader(w)
}

// WireIntact reports whether the Wire handed to the last segmented reader still consists of the same
// segments and still joins to b.
func WireIntact(b []byte) bool {
	if LastWire == nil {
		return true
	}
	if len(LastWire) != len(lastWireLens) {
		return false
	}
	for i, s := range LastWire {
		if len(s) != lastWireLens[i] {
			return false
		}
	}
	return bytes.Equal(LastWire.Join(), b)
}

func Reader(b []byte, cuts string) enc.ParseReader {
	LastWire = nil
	if cuts == "c" {
		return enc.NewBufferReader(b)
	}
	if cuts == "own" {
		var w enc.Wire
		off := 0
		for _, n := range OwnSegs {
			if off+n > len(b) {
				break
			}
			w = append(w, b[off:off+n])
			off += n
		}
		if off < len(b) {
			w = append(w, b[off:])
		}
		return keepWire(w)
	}
	var w enc.Wire
	last := 0
	if cuts != "w" {
		for _, p := range strings.Split(cuts, ",") {
			o := common.Atoi(p)
			if o <= last || o >= len(b) {
				continue
			}
			w = append(w, b[last:o])
			last = o
		}
	}
	w = append(w, b[last:])
	return keepWire(w)
}

// ReadAs decodes b with ReadData ('D'), ReadInterest ('I') or ReadPacket ('P').
func ReadAs(kind byte, b []byte, cuts string) string {
	b = append([]byte{}, b...)
	r := Reader(b, cuts)
	out := readAs(kind, r)
	if !WireIntact(b) {
		// the reader rewrote the list of segments it was given: the packet's own wire is no longer
		// the packet (it is joined, sent or decoded again by its owner)
		return "wire-changed " + out
	}
	return out
}

func readAs(kind byte, r enc.ParseReader) string {
	switch kind {
	case 'D':
		d, cov, err := spec.Spec{}.ReadData(r)
		if err != nil {
			return "err"
		}
		return DataText(d.(*spec.Data), cov)
	case 'I':
		i, cov, err := spec.Spec{}.ReadInterest(r)
		if err != nil {
			return "err"
		}
		return InterestText(i.(*spec.Interest), cov)
	default:
		p, ctx, err := spec.ReadPacket(r)
		if err != nil {
			return "err"
		}
		switch {
		case p.Data != nil:
			return DataText(p.Data, ctx.Data_context.SigCovered())
		case p.Interest != nil:
			return InterestText(p.Interest, ctx.Interest_context.SigCovered())
		}
		return "lp"
	}
}

type engineTimer struct{}

func (engineTimer) Sleep(d time.Duration)                         {}
func (engineTimer) Schedule(d time.Duration, f func()) func() error { return func() error { return nil } }
func (engineTimer) Now() time.Time                                { return time.UnixMilli(1700000000123) }
func (engineTimer) Nonce() []byte                                 { return []byte{1, 2, 3, 4, 5, 6, 7, 8} }
