package c03

import (
	"strconv"
	"strings"

	"verif/harness/common"
)

// ---------------------------------------------------------------- generators shared by C03 / C12

var compTypes = []uint64{8, 8, 8, 8, 1, 2, 32, 50, 54, 0, 252, 253, 65535, 65536, 4294967296}
var smallVals = []string{"61", "62", "6162", "", "00", "ff", "08", "0702"}
var boundaryLens = []int{252, 253, 255, 256}
var hugeLens = []int{65535, 65536}
var natBoundaries = []uint64{0, 1, 255, 256, 65535, 65536, 4294967295, 4294967296, 18446744073709551615}
var msBoundaries = []uint64{0, 1, 255, 256, 65535, 65536, 4294967295, 4294967296, 9223372036854}

type Shape struct {
	Big  bool // allow >= 253-byte elements
	Huge bool // allow 65535/65536-byte elements
}

func hexOf(r *common.Rand, n int) string {
	return common.Hex(r.Bytes(n))
}

func GenComp(r *common.Rand, sh Shape, g *common.Gen) string {
	t := common.Pick(r, compTypes)
	var v string
	switch {
	case sh.Huge && r.Chance(1, 6):
		v = hexOf(r, common.Pick(r, hugeLens))
		g.Stat("comp-huge")
	case sh.Big && r.Chance(1, 4):
		v = hexOf(r, common.Pick(r, boundaryLens))
		g.Stat("comp-ge252")
	case r.Chance(1, 5):
		v = hexOf(r, r.Range(0, 12))
	default:
		v = common.Pick(r, smallVals)
	}
	if v == "-" {
		v = ""
	}
	if t != 8 {
		g.Stat("comp-nongeneric")
	}
	return strconv.FormatUint(t, 10) + ":" + v
}

// a name dominated by EMPTY components (2 bytes each on the wire): runs of 4..12 of them, optionally
// between ordinary components — the densest names there are (most components per byte)
func GenDenseName(r *common.Rand, g *common.Gen) string {
	var sb strings.Builder
	if r.Chance(1, 2) {
		sb.WriteString("/8:61")
	}
	for k := r.Range(4, 12); k > 0; k-- {
		if r.Chance(1, 8) {
			sb.WriteString("/" + strconv.FormatUint(common.Pick(r, []uint64{1, 32, 50, 54}), 10) + ":")
		} else {
			sb.WriteString("/8:")
		}
	}
	switch r.Intn(3) {
	case 0:
		sb.WriteString("/8:61")
	case 1:
		sb.WriteString("/50:07")
	}
	g.Stat("name-dense-empty")
	return sb.String()
}

func GenName(r *common.Rand, sh Shape, g *common.Gen) string {
	if r.Chance(1, 7) {
		return GenDenseName(r, g)
	}
	n := 0
	switch x := r.Intn(10); {
	case x == 0:
		n = 0
		g.Stat("name-0comp")
	case x < 7:
		n = r.Range(1, 3)
	default:
		n = r.Range(4, 9)
	}
	if n == 0 {
		return "/"
	}
	var sb strings.Builder
	for i := 0; i < n; i++ {
		sb.WriteByte('/')
		sb.WriteString(GenComp(r, sh, g))
	}
	return sb.String()
}

// a name whose inner encoding is exactly `inner` bytes long (generic components), for the
// name-length boundaries 252/253/65535/65536
func GenNameOfLen(r *common.Rand, inner int) string {
	// one component: 1 (T) + tl(len) + len = inner
	var l int
	switch {
	case inner <= 2+252:
		l = inner - 2
	case inner <= 4+65535:
		l = inner - 4
	default:
		l = inner - 6
	}
	if l < 0 {
		l = 0
	}
	if inner >= 6 && r.Chance(1, 2) {
		// two components: a 1-byte one in front
		return "/8:61" + GenNameOfLen(r, inner-3)
	}
	return "/8:" + hexOf(r, l)
}

func GenBufs(r *common.Rand, sh Shape, g *common.Gen, allowNil bool) string {
	x := r.Intn(12)
	if x == 0 && allowNil {
		g.Stat("bufs-nil")
		return "nil"
	}
	if x == 1 {
		g.Stat("bufs-zero")
		return "[]"
	}
	nb := 1
	if x >= 7 {
		nb = r.Range(2, 4)
		g.Stat("bufs-multi")
		if r.Chance(1, 8) {
			// many small buffers (a content / parameters assembled from records): more segments than
			// any fixed-size plan an encoder might keep
			nb = common.Pick(r, []int{16, 17, 20, 40})
			g.Stat("bufs-many")
		}
	}
	parts := make([]string, nb)
	for i := range parts {
		var n int
		switch {
		case sh.Huge && r.Chance(1, 5):
			n = common.Pick(r, hugeLens)
			g.Stat("buf-huge")
		case sh.Big && r.Chance(1, 4):
			n = common.Pick(r, boundaryLens) - r.Intn(2)*r.Intn(3)
			g.Stat("buf-ge250")
		case r.Chance(1, 6):
			n = 0
		default:
			n = r.Range(1, 20)
		}
		parts[i] = hexOf(r, n)
	}
	return strings.Join(parts, ",")
}

func optNat(r *common.Rand, tab []uint64, max uint64) string {
	switch x := r.Intn(8); {
	case x <= 1:
		return "-"
	case x == 2:
		// the two ends of the range: present and exactly 0, present and maximal
		if r.Chance(2, 3) {
			return "0"
		}
		return strconv.FormatUint(max, 10)
	case x <= 4:
		v := common.Pick(r, tab)
		if v > max {
			v = max
		}
		return strconv.FormatUint(v, 10)
	default:
		return strconv.FormatUint(r.U64()%1000, 10)
	}
}

var DataSigners = []string{"none", "none", "sha", "sha", "hmac", "hmac", "hmaccert", "ecc", "ecc", "ecccert", "rsa", "rsacert", "empty", "eccint", "ecc521", "ecc521", "ecc384", "ecc224", "ecccert521"}
var IntSigners = []string{"none", "none", "none", "shaint", "shaint", "hmacint", "hmacint", "eccint", "eccint", "rsaint", "sha", "hmac", "ecc", "eccint521", "eccint521", "eccint384", "eccint224", "ecc521"}

func testSignerTok(r *common.Rand) string {
	est := common.Pick(r, []int{1, 32, 72, 252, 253, 256, 300, 65535, 65536})
	n := est
	switch r.Intn(4) {
	case 0:
		n = est - r.Intn(min(est, 4)+1)
	case 1:
		n = r.Intn(est + 1)
	case 2:
		if est > 252 {
			n = common.Pick(r, []int{0, 1, 252, 253})
		}
	}
	if n > est {
		n = est
	}
	return "t:" + strconv.Itoa(est) + ":" + strconv.Itoa(n)
}

// WithKeyName gives signers that announce a KeyLocator name a generated one now and then
func WithKeyName(r *common.Rand, g *common.Gen, signer string) string {
	if strings.ContainsAny(signer, "@:~") {
		return signer
	}
	// HMAC keys of every length around the SHA-256 block size (64) and beyond
	if strings.HasPrefix(signer, "hmac") && r.Chance(2, 3) {
		signer += "~" + strconv.Itoa(common.Pick(r, []int{0, 1, 31, 32, 63, 64, 65, 66, 127, 128, 129, 200}))
		g.Stat("hmac-keylen")
		if strings.HasPrefix(signer, "hmacint") {
			return signer
		}
	}
	if !r.Chance(1, 4) {
		return signer
	}
	switch SigBase(signer) {
	case "hmac", "hmaccert", "ecc", "ecccert", "eccint", "rsa", "rsacert", "rsaint":
		g.Stat("keyname-generated")
		if r.Chance(1, 2) {
			return signer + "@" + GenDenseName(r, g)
		}
		return signer + "@" + GenName(r, Shape{}, g)
	}
	return signer
}

// GenMkd returns an "mkd ..." op line.
func GenMkd(r *common.Rand, sh Shape, g *common.Gen, signer string) string {
	var name string
	if sh.Big && r.Chance(1, 6) {
		name = GenNameOfLen(r, common.Pick(r, []int{252, 253, 254}))
		g.Stat("name-len-boundary")
	} else if sh.Huge && r.Chance(1, 4) {
		name = GenNameOfLen(r, common.Pick(r, hugeLens))
		g.Stat("name-len-huge")
	} else {
		name = GenName(r, sh, g)
	}
	fb := "-"
	if r.Chance(1, 3) {
		fb = GenComp(r, Shape{Big: sh.Big && r.Chance(1, 3)}, g)
		g.Stat("finalblock")
	}
	if signer == "" {
		if r.Chance(1, 8) {
			signer = testSignerTok(r)
			g.Stat("signer-test")
		} else {
			signer = WithKeyName(r, g, common.Pick(r, DataSigners))
		}
	}
	g.Stat("mkd-" + SigBase(signer))
	return "mkd " + name + " " + optNat(r, natBoundaries, ^uint64(0)) + " " + optNat(r, msBoundaries, 9223372036854) + " " + fb + " " +
		GenBufs(r, sh, g, true) + " " + signer
}

func GenMki(r *common.Rand, sh Shape, g *common.Gen, signer string) string {
	name := GenName(r, sh, g)
	if sh.Big && r.Chance(1, 8) {
		name = GenNameOfLen(r, common.Pick(r, []int{218, 219, 252, 253}))
		g.Stat("name-len-boundary")
	}
	fh := "-"
	switch r.Intn(6) {
	case 0:
		fh = "[]"
		g.Stat("fh-empty")
	case 1:
		fh = GenName(r, Shape{}, g)
		g.Stat("fh")
	case 2:
		fh = GenName(r, Shape{Big: sh.Big}, g) + "," + GenName(r, Shape{}, g)
		g.Stat("fh")
	case 3:
		// a delegation that extends the Interest's own name: the application may well hold ONE name and
		// pass a prefix slice of it as the Interest name and the whole of it as the hint (MakeInterest gets
		// two slices of one array - see harness MakeInterest)
		if name != "/" {
			fh = name + "/8:68696e74"
			if r.Chance(1, 2) {
				fh += "/8:78"
			}
			g.Stat("fh-extends-name")
		}
	}
	nonce := "-"
	if r.Chance(2, 3) {
		nonce = strconv.FormatUint(common.Pick(r, []uint64{0, 1, 255, 256, 65536, 4294967295, r.U64() % 4294967296}), 10)
	}
	hl := "-"
	if r.Chance(1, 2) {
		hl = strconv.Itoa(common.Pick(r, []int{0, 1, 64, 255, 255, 0, 1, 64, 256, 300, 65536}))
	}
	b := func() string {
		if r.Chance(1, 2) {
			return "1"
		}
		return "0"
	}
	if signer == "" {
		if r.Chance(1, 8) {
			signer = testSignerTok(r)
			g.Stat("signer-test")
		} else {
			signer = WithKeyName(r, g, common.Pick(r, IntSigners))
		}
	}
	ap := GenBufs(r, sh, g, true)
	if signer == "none" && r.Chance(1, 2) {
		ap = "nil"
	}
	if signer != "none" && ap == "nil" && r.Chance(3, 4) {
		ap = GenBufs(r, sh, g, false)
	}
	g.Stat("mki-" + SigBase(signer))
	if ap != "nil" {
		g.Stat("mki-params")
	}
	return "mki " + name + " " + b() + " " + b() + " " + fh + " " + nonce + " " + optNat(r, msBoundaries, 9223372036854) + " " + hl + " " + ap + " " + signer
}

// rough size of the packet an op line will produce (hex payload / 2), used to choose cut offsets
func EstSize(op string) int {
	n := 0
	for _, f := range strings.Fields(op)[1:] {
		for _, p := range strings.FieldsFunc(f, func(c rune) bool { return c == '/' || c == ',' }) {
			if i := strings.IndexByte(p, ':'); i >= 0 {
				p = p[i+1:]
			}
			n += len(p)/2 + 2
		}
	}
	return n + 40
}

func GenCuts(r *common.Rand, size int) string {
	k := r.Range(1, 5)
	seen := map[int]bool{}
	var cuts []int
	for i := 0; i < k; i++ {
		var o int
		if r.Chance(1, 2) {
			o = r.Range(1, min(size, 40))
		} else {
			o = r.Range(1, size)
		}
		if !seen[o] {
			seen[o] = true
			cuts = append(cuts, o)
		}
	}
	for i := range cuts {
		for j := i + 1; j < len(cuts); j++ {
			if cuts[j] < cuts[i] {
				cuts[i], cuts[j] = cuts[j], cuts[i]
			}
		}
	}
	parts := make([]string, len(cuts))
	for i, c := range cuts {
		parts[i] = strconv.Itoa(c)
	}
	return strings.Join(parts, ",")
}

func tl(n int) int {
	switch {
	case n <= 0xfc:
		return 1
	case n <= 0xffff:
		return 3
	}
	return 5
}

// overhead of SignatureInfo + SignatureValue (for the ESTIMATED size) per signer token, for the
// steering shapes below (approximate on purpose: the generator sweeps a window around the target)
var dataOverhead = map[string]int{"sha": 39, "hmac": 54, "ecc": 94, "rsa": 280, "t:72:60": 86, "t:300:200": 316, "t:253:252": 269}
var intOverhead = map[string]int{"shaint": 62, "hmacint": 93, "eccint": 117, "rsaint": 303, "ecc": 94, "t:72:60": 86}

// Steered: a Data / Interest whose ESTIMATED value length sits at a TL-length boundary
// (252..256, 65534..65538) so that a signature shorter than its estimate narrows the outer header
func Steered(r *common.Rand, g *common.Gen, interest bool) string {
	targets := []int{252, 253, 253, 254, 254, 255, 256}
	if (common.Thorough() && r.Chance(1, 12)) || r.Chance(1, 60) {
		targets = []int{65534, 65535, 65536, 65536, 65537, 65537, 65538}
	}
	t := common.Pick(r, targets) + r.Range(-1, 1)
	if !interest {
		signer := common.Pick(r, []string{"ecc", "ecc", "ecc", "ecc", "ecc", "sha", "hmac", "rsa", "t:72:60", "t:72:60", "t:300:200", "t:253:252"})
		switch signer {
		case "t:72:60": // 12 bytes shorter than estimated: the header narrows for estimates 253..264
			if t < 1000 {
				t = r.Range(253, 264)
			} else {
				t = r.Range(65536, 65547)
			}
		case "t:300:200": // 100 bytes (+2 of the length field) shorter
			if t < 1000 {
				t = r.Range(325, 354)
			} else {
				t = r.Range(65536, 65637)
			}
		}
		o := dataOverhead[signer]
		// name /8:61 (5) + MetaInfo (2) + content TL + n + overhead = t
		n := t - 7 - o
		n -= 1 + tl(n)
		if n < 0 {
			n = r.Range(0, 8)
		}
		g.Stat("steer-data")
		return "mkd /8:61 - - - " + common.Hex(r.Bytes(n)) + " " + signer
	}
	signer := common.Pick(r, []string{"eccint", "eccint", "eccint", "ecc", "ecc", "shaint", "hmacint", "rsaint", "t:72:60", "t:72:60"})
	if signer == "t:72:60" {
		if t < 1000 {
			t = r.Range(253, 264)
		} else {
			t = r.Range(65536, 65547)
		}
	}
	o := intOverhead[signer]
	// name /8:61 + digest (39) + parameters TL + n + overhead = t
	n := t - 39 - o
	n -= 1 + tl(n)
	if n < 0 {
		n = 0
	}
	g.Stat("steer-interest")
	return "mki /8:61 0 0 - - - - " + common.Hex(r.Bytes(n)) + " " + signer
}

