// Package c14: correspondence harness for property C14 (name order, equality, prefix, hash, URI).
package c14

import (
	"encoding/binary"
	"fmt"
	"os"
	"sort"
	"strconv"
	"strings"
	"sync"
	"sync/atomic"
	"testing"

	"github.com/named-data/ndnd/fw/core"
	"github.com/named-data/ndnd/fw/table"
	enc "github.com/named-data/ndnd/std/encoding"
	"github.com/named-data/ndnd/std/engine/basic"
	spec "github.com/named-data/ndnd/std/ndn/spec_2022"
	"github.com/named-data/ndnd/std/object"
	ndn_sync "github.com/named-data/ndnd/std/sync"
	"verif/harness/common"
)

func init() {
	// the forwarder's PIT-CS tree (one of the name-keyed tables) takes its settings from the core configuration
	cfg := core.DefaultConfig()
	cfg.Core.LogLevel = "FATAL"
	core.LoadConfig(cfg, "")
	core.InitializeLogger(os.DevNull)
	table.Configure()
}

var compTypes = []uint64{8, 8, 8, 8, 1, 2, 9, 32, 0x32, 0x34, 0x36, 0x38, 0x3a, 7, 252, 253, 255, 256, 65535, 65536, 1 << 32, 0,
	// the whole 64-bit range of type numbers the decoder accepts (differences that overflow int64)
	1<<62 + 8, 1<<63 - 1, 1 << 63, 1<<63 + 9, 1<<64 - 1}

var specials = []string{"", ".", "..", "...", "%", "=", "/", "\\", "a=b", "%41", "a/b", "~-_.", " ", "\x00", "\xff", "\x80\xfe", "é", "A", "z9"}

func genValue(r *common.Rand, g *common.Gen) []byte {
	switch k := r.Intn(20); {
	case k < 8:
		g.Stat("val-short")
		return []byte(common.Pick(r, []string{"a", "b", "ab", "aa", "ba", "abc"}))
	case k < 11:
		g.Stat("val-special")
		return []byte(common.Pick(r, specials))
	case k < 13:
		g.Stat("val-anybyte")
		return r.Bytes(r.Range(0, 4))
	case k < 15:
		g.Stat("val-number")
		// shortest big-endian encoding (1, 2, 4 or 8 bytes) computed here, NOT by the code under test
		v := common.Pick(r, []uint64{0, 1, 255, 256, 65535, 65536, 1<<32 - 1, 1 << 32, 1<<64 - 1, r.U64(), 1<<16 - 1, 1<<8 - 1, 1<<32 - 2, 1<<32 + 1})
		w := 8
		switch {
		case v <= 0xff:
			w = 1
		case v <= 0xffff:
			w = 2
		case v <= 0xffffffff:
			w = 4
		}
		b := make([]byte, w)
		for k := w - 1; k >= 0; k-- {
			b[k] = byte(v)
			v >>= 8
		}
		return b
	case k < 16:
		g.Stat("val-number-nonshortest")
		return common.Pick(r, [][]byte{{0, 1}, {0, 0, 1}, {0, 0, 0, 5}, {1, 2, 3}, {}, {0, 0, 0, 0, 0, 0, 0, 0, 7}, {1, 0, 0, 0, 0, 0, 0, 0, 0}})
	case k < 17:
		if r.Chance(1, 4) {
			g.Stat("val-boundary-len")
			return r.Bytes(common.Pick(r, []int{251, 252, 253, 254, 255, 256, 257, 300}))
		}
		fallthrough
	case k < 18:
		if r.Chance(1, 60) {
			g.Stat("val-huge-len")
			return r.Bytes(common.Pick(r, []int{65535, 65536, 65537}))
		}
		fallthrough
	default:
		g.Stat("val-all-bytes")
		b := make([]byte, 0, 8)
		start := r.Intn(256)
		for i := 0; i < 8; i++ {
			b = append(b, byte(start+i))
		}
		return b
	}
}

func genName(r *common.Rand, g *common.Gen) enc.Name {
	d := common.Pick(r, []int{0, 1, 1, 2, 2, 2, 3, 3, 4, 6})
	n := make(enc.Name, 0, d)
	for i := 0; i < d; i++ {
		n = append(n, enc.Component{Typ: enc.TLNum(common.Pick(r, compTypes)), Val: genValue(r, g)})
	}
	return n
}

// close variant of a name: differs in one byte / one length / one type / is a prefix / extension / equal
func variant(r *common.Rand, g *common.Gen, a enc.Name) enc.Name {
	b := a.Clone()
	switch r.Intn(9) {
	case 8:
		// two short values (at most 8 bytes) of DIFFERENT length where the longer one is the smaller
		// big-endian number (leading zero bytes): canonical order is by length first, never by number
		var cand []int
		for i := range b {
			if n := len(b[i].Val); n >= 1 && n <= 7 && b[i].Val[0] != 0 {
				cand = append(cand, i)
			}
		}
		if len(cand) == 0 {
			g.Stat("pair-independent")
			return genName(r, g)
		}
		g.Stat("pair-short-longer-is-smaller-number")
		i := common.Pick(r, cand)
		n := r.Range(len(b[i].Val)+1, 8)
		v := make([]byte, n)
		copy(v[1:], r.Bytes(n-1))
		if r.Chance(1, 2) { // same digits behind the zero
			copy(v[n-len(b[i].Val):], b[i].Val)
		}
		b[i].Val = v
		return b
	case 0:
		g.Stat("pair-equal")
		return b
	case 1:
		g.Stat("pair-prefix")
		return b[:r.Intn(len(b)+1)]
	case 2:
		g.Stat("pair-extension")
		return append(b, enc.Component{Typ: enc.TLNum(common.Pick(r, compTypes)), Val: genValue(r, g)})
	case 3:
		if len(b) > 0 {
			g.Stat("pair-one-type")
			i := r.Intn(len(b))
			b[i].Typ = enc.TLNum(common.Pick(r, compTypes))
		}
		return b
	case 4:
		if len(b) > 0 {
			i := r.Intn(len(b))
			if len(b[i].Val) > 0 {
				g.Stat("pair-one-byte")
				j := r.Intn(len(b[i].Val))
				b[i].Val[j] ^= byte(1 << r.Intn(8))
			}
		}
		return b
	case 5:
		if len(b) > 0 {
			g.Stat("pair-one-length")
			i := r.Intn(len(b))
			if r.Chance(1, 2) || len(b[i].Val) == 0 {
				b[i].Val = append(b[i].Val, byte(r.Intn(256)))
			} else {
				b[i].Val = b[i].Val[:len(b[i].Val)-1]
			}
		}
		return b
	case 6:
		// split / merge components (same bytes, different structure)
		if len(b) > 0 {
			i := r.Intn(len(b))
			if len(b[i].Val) >= 2 {
				g.Stat("pair-split-component")
				k := r.Range(1, len(b[i].Val)-1)
				c1 := enc.Component{Typ: b[i].Typ, Val: b[i].Val[:k]}
				c2 := enc.Component{Typ: b[i].Typ, Val: b[i].Val[k:]}
				out := append(enc.Name{}, b[:i]...)
				out = append(out, c1, c2)
				return append(out, b[i+1:]...)
			}
		}
		return b
	default:
		g.Stat("pair-independent")
		return genName(r, g)
	}
}

// uriTwin returns a name that is NOT Equal to a but as close to it as a string-keyed table could
// confuse: one component replaced by (a) another encoding of the same number (1-, 2-, 4-, 8-, 9-byte,
// non-shortest), (b) a generic component whose value spells the URI form of the typed component, or the
// typed component a generic value spells, (c) the same value under a neighbouring type.
func uriTwin(r *common.Rand, g *common.Gen, a enc.Name) enc.Name {
	b := a.Clone()
	if len(b) == 0 {
		return append(b, enc.Component{Typ: 8, Val: []byte{}})
	}
	i := r.Intn(len(b))
	c := b[i]
	switch r.Intn(6) {
	case 4:
		g.Stat("twin-generic-spells-tlv")
		// a generic component whose value is the TLV encoding of the typed one, or the typed component
		// a generic value encodes
		if c.Typ == 8 {
			if t, err := safeComponentFromBytes(c.Val); err == nil && len(t.Bytes()) == len(c.Val) {
				b[i] = t.Clone()
			} else if len(c.Val) < 200 {
				b[i] = enc.Component{Typ: 8, Val: c.Bytes()}
			}
		} else if len(c.Val) < 200 {
			b[i] = enc.Component{Typ: 8, Val: c.Bytes()}
		}
	case 5:
		g.Stat("twin-same-value-other-type")
		if c.Typ == 8 {
			b[i].Typ = enc.TLNum(common.Pick(r, []uint64{1, 2, 9, 32, 0x32, 0x36, 253, 65536}))
		} else {
			b[i].Typ = 8
		}
	case 0:
		g.Stat("twin-number-width")
		v := uint64(0)
		for _, x := range c.Val {
			v = v<<8 | uint64(x)
		}
		w := common.Pick(r, []int{0, 1, 2, 3, 4, 8, 9})
		nv := make([]byte, w)
		for k := w - 1; k >= 0; k-- {
			nv[k] = byte(v)
			v >>= 8
		}
		if c.Typ < 0x32 || c.Typ > 0x3a || c.Typ%2 != 0 {
			b[i].Typ = enc.TLNum(common.Pick(r, []uint64{0x32, 0x34, 0x36, 0x38, 0x3a}))
		}
		b[i].Val = nv
	case 1:
		g.Stat("twin-generic-spells-typed")
		if c.Typ == 8 {
			// make the typed component the generic value spells, when it spells one
			if t, err := safeComponentFromStr(string(c.Val)); err == nil && len(c.Val) < 200 {
				b[i] = t
			} else {
				b[i] = enc.Component{Typ: 8, Val: []byte("32=" + string(c.Val))}
			}
		} else if len(c.Val) < 200 {
			b[i] = enc.Component{Typ: 8, Val: []byte(c.String())}
		}
	case 2:
		g.Stat("twin-neighbour-type")
		b[i].Typ = c.Typ ^ 1
	default:
		g.Stat("twin-escaped-form")
		// the percent-escaped text of the value as a value
		if len(c.Val) < 200 {
			b[i].Val = []byte(enc.Component{Typ: 8, Val: c.Val}.String())
		}
	}
	return b
}

// safeComponentFromBytes: the generator must not die on what the decoder does with arbitrary bytes
// safeComponentFromStr: the generator must survive a parser that panics (the exec side reports it)
func safeComponentFromStr(s string) (c enc.Component, err error) {
	defer func() {
		if recover() != nil {
			err = fmt.Errorf("panic")
		}
	}()
	return enc.ComponentFromStr(s)
}

func safeComponentFromBytes(b []byte) (c enc.Component, err error) {
	defer func() {
		if recover() != nil {
			err = fmt.Errorf("panic")
		}
	}()
	return enc.ComponentFromBytes(b)
}

var uriSeeds = []string{
	"", "/", "//", "///", "a", "/a", "/a/", "/a//", "//a", "/a/b", "=abc", "/=abc", "=", "/=", "==", "a==b", "a=b=c",
	"8=abc", "9=abc", "0=a", "65535=a", "65536=a", "18446744073709551615=a", "18446744073709551616=a", "-1=a", "+1=a", "1_0=a",
	"seg=1", "seg=", "seg=1x", "seg=01", "seg=18446744073709551615", "seg=18446744073709551616", "seg=-1", "v=0", "t=5", "off=256", "seq=65536",
	"sha256digest=00ff", "sha256digest=0", "sha256digest=zz", "sha256digest=", "params-sha256=AbCd", "foo=bar", "Seg=1", "v1=2",
	"%", "%4", "%41", "%zz", "a%", "a%4", "a%41b", "%00", "%fF", "%%41", "a\\b", "\\", "a b", "\xff\xfe", "é", "a%C3%A9", ".", "..", "...", "/./../...",
	// spelled-out words in label position (none of them is a label: all are unknown component types)
	"keyword=DV", "/localhop/keyword=DV", "segment=1", "version=1", "timestamp=5", "sequence=7", "offset=9", "sha256=00ff", "params=AbCd",
	"generic=a", "name=a", "digest=00", "metadata=1", "KEYWORD=x", "keyword=", "/a/keyword=b/c",
	"/a/b/", "/a//b", "a/=b", "/8=a/32=b/seg=3", "/localhost/nfd", "32=", "/32=/", "/8=/", "8=", "/1=abc", "1=abcd", "2=00", "50=7", "54=7",
}

// craftedCollision returns two different 48..63-byte generic components with the same XXH64 hash: XXH64 folds
// 32-byte stripes into four independent lanes with invertible arithmetic, so a change of one 8-byte word is
// cancelled by a computed change of the word 32 bytes further on (same lane, next stripe). The component hash
// input is 16 header bytes followed by the value, which only shifts the lane. Computed here, not by the code
// under test.
func craftedCollision(r *common.Rand) (enc.Component, enc.Component) {
	const p1, p2 uint64 = 11400714785074694791, 14029467366897019727
	rol := func(x uint64, k uint) uint64 { return x<<k | x>>(64-k) }
	round := func(acc, in uint64) uint64 { return rol(acc+in*p2, 31) * p1 }
	inv := p2
	for i := 0; i < 6; i++ {
		inv *= 2 - p2*inv
	}
	n := 48 + r.Intn(16)
	v1 := r.Bytes(n)
	v2 := append([]byte(nil), v1...)
	off := 8 * r.Intn(2) // word 0 or word 1 of the value (lanes 2 and 3 of the first stripe)
	v2[off+r.Intn(8)] ^= byte(1 << r.Intn(8))
	// lane seeds (seed 0): v3 = 0, v4 = -p1 for the lanes the value's first two words fall into
	seed := uint64(0)
	if off == 8 {
		seed = ^uint64(p1) + 1 // -p1 mod 2^64
	}
	s1 := round(seed, binary.LittleEndian.Uint64(v1[off:]))
	s1x := round(seed, binary.LittleEndian.Uint64(v2[off:]))
	w2 := binary.LittleEndian.Uint64(v1[off+32:])
	binary.LittleEndian.PutUint64(v2[off+32:], w2+(s1-s1x)*inv)
	return enc.Component{Typ: 8, Val: v1}, enc.Component{Typ: 8, Val: v2}
}

var patSeeds = []string{"", "/", "<", ">", "<>", "<a>", "<=a>", "<a=>", "<a=b=c>", "<v=ver>", "<seg=n>", "<8=x>", "<0=x>", "<70000=x>",
	"<18446744073709551616=x>", "/a/<b>", "/a/<v=x>/", "<a", "a>", "<<a>>", "</>", "<a/b>", "32=metadata/<v=versionNumber>/seg=0",
	"<=>", "<==>", "< >", "<\x00>", "/<>/<>", "<params-sha256=d>", "<Seg=1>", "<keyword=t>", "/a/<keyword=t>", "<segment=n>", "<version=v>", "<sha256=d>"}

func genString(r *common.Rand, g *common.Gen) string {
	switch r.Intn(4) {
	case 0:
		g.Stat("str-seed")
		return common.Pick(r, uriSeeds)
	case 1:
		g.Stat("str-rendered-mutated")
		s := genName(r, g).String()
		if len(s) > 2000 {
			s = s[:2000]
		}
		b := []byte(s)
		for k := r.Range(1, 3); k > 0; k-- {
			ins := common.Pick(r, []string{"=", "%", "/", "\\", "%4", "%G1", "//", "seg=", "8=", "=", "\x80", "0"})
			i := r.Intn(len(b) + 1)
			if r.Chance(1, 3) && len(b) > 0 {
				i = r.Intn(len(b))
				b = append(b[:i:i], b[i+1:]...) // delete one byte
			} else {
				b = append(b[:i:i], append([]byte(ins), b[i:]...)...)
			}
		}
		return string(b)
	case 2:
		g.Stat("str-seed-joined")
		return common.Pick(r, uriSeeds) + "/" + common.Pick(r, uriSeeds)
	default:
		g.Stat("str-random-ascii")
		alphabet := "ab=/%\\.019sevgtq-_~AF"
		n := r.Range(0, 12)
		var sb strings.Builder
		for i := 0; i < n; i++ {
			sb.WriteByte(alphabet[r.Intn(len(alphabet))])
		}
		return sb.String()
	}
}

func gen(g *common.Gen) {
	r := g.R
	for i := 0; i < g.N; i++ {
		g.Op("new")
		for k := 0; k < 4; k++ {
			a := genName(r, g)
			b := variant(r, g, a)
			c := variant(r, g, b)
			at, bt, ct := common.NameText(a), common.NameText(b), common.NameText(c)
			for _, p := range [][2]string{{at, bt}, {bt, at}, {bt, ct}, {at, ct}, {at, at}} {
				g.Op("cmp %s %s", p[0], p[1])
			}
			g.Op("eq %s %s", at, bt)
			g.Op("eq %s %s", bt, ct)
			g.Op("pfx %s %s", at, bt)
			g.Op("pfx %s %s", bt, at)
			g.Op("pfx %s %s", bt, ct)
			g.Op("rt %s", at)
			g.Op("rt %s", bt)
			g.Op("rt %s", ct)
			g.Op("h %s", at)
			g.Op("h %s", bt)
			g.Op("h %s", common.NameText(a.Clone()))
			if a.EncodingLength() < 5000 {
				// a close non-equal name (other type / other width / spelled form) must not share a's hash
				g.Op("h %s", common.NameText(uriTwin(r, g, a)))
			}
			g.Op("ph %s", ct)
			if a.EncodingLength() < 5000 {
				g.Op("cln %s", bt) // a clone must not share storage with the buffer the name was decoded from
			}
			if k == 0 {
				// hashing is used from every face goroutine: the hash of a name must not depend on
				// what other goroutines hash at the same time
				g.Op("hc %s %s %s", at, bt, ct)
			}
			// Component.String builds its result by repeated string concatenation (quadratic): keep
			// the 64 KiB values out of the URI operations so the quick tier stays quick
			if a.EncodingLength() < 5000 && b.EncodingLength() < 5000 {
				g.Op("str %s", at)
				g.Op("urt %s", at)
				g.Op("urt %s", bt)
			}
			if len(a) > 0 && a.EncodingLength() < 5000 {
				g.Op("crt %s", common.CompText(a[r.Intn(len(a))]))
				g.Op("canon %s", common.CompText(a[r.Intn(len(a))]))
			}
			// decoders on well-formed encodings of other values (byte-level robustness of the decoders
			// against malformed input is property C04's subject, not C14's)
			g.Op("dec %s", common.Hex(b.Bytes()))
			if len(b) > 0 {
				g.Op("cdec %s", common.Hex(b[0].Bytes()))
			}
			if a.EncodingLength() < 5000 && b.EncodingLength() < 5000 && c.EncodingLength() < 5000 {
				// tables keyed on names must tell apart exactly the names that are not Equal
				names := []enc.Name{a, b, c, uriTwin(r, g, a), uriTwin(r, g, b), a.Clone()}
				for x := len(names) - 1; x > 0; x-- {
					y := r.Intn(x + 1)
					names[x], names[y] = names[y], names[x]
				}
				txt := make([]string, len(names))
				for x, n := range names {
					txt[x] = common.NameText(n)
				}
				q := common.NameText(uriTwin(r, g, variant(r, g, c)))
				g.Op("tab trie %s %s", q, strings.Join(txt, " "))
				g.Op("tab mem %s %s", q, strings.Join(txt, " "))
				g.Op("tab svs %s %s", q, strings.Join(txt, " "))
				// the same tables under insertions, removals and lookups; the pool adds names sharing components
				// across levels (P/x next to P/y/x: pruning one branch must not unfile a sibling)
				pool := append([]enc.Name{}, names...)
				if len(a) > 0 && len(b) > 0 {
					k := r.Intn(len(a))
					x, y := a[len(a)-1], b[r.Intn(len(b))]
					pre := a[:k].Clone()
					pool = append(pool, append(pre.Clone(), x), append(pre.Clone(), y, x), append(pre.Clone(), x, y), append(pre.Clone(), y))
				}
				{
					// prefix queries: newest version under a prefix in the memory store; Data matching in the PIT by
					// name (equal, or extending a CanBePrefix Interest) and by token
					perm := make([]int, len(pool))
					for x := range perm {
						perm[x] = x + 1
					}
					for x := len(perm) - 1; x > 0; x-- {
						y := r.Intn(x + 1)
						perm[x], perm[y] = perm[y], perm[x]
					}
					mt := make([]string, 0, 2*len(pool))
					pt := make([]string, 0, 3*len(pool))
					for x, n := range pool {
						if r.Chance(3, 4) {
							mt = append(mt, fmt.Sprintf("P:%s:%d", common.NameText(n), perm[x]))
						}
						if r.Chance(2, 3) {
							pt = append(pt, fmt.Sprintf("I:%s:%d", common.NameText(n), r.Intn(2)))
						}
					}
					ni := len(pt)
					for _, n := range pool {
						mt = append(mt, "Q:"+common.NameText(n))
						if len(n) > 0 {
							mt = append(mt, "Q:"+common.NameText(n[:r.Intn(len(n))]))
						}
						tok := "-"
						if ni > 0 && r.Chance(1, 3) {
							tok = strconv.Itoa(r.Intn(ni))
						}
						pt = append(pt, fmt.Sprintf("D:%s:%s", common.NameText(n), tok))
					}
					g.Op("memp %s", strings.Join(mt, " "))
					g.Op("pitm %s", strings.Join(pt, " "))
				}
				for _, kind := range []string{"trie", "mem", "pit"} {
					toks := make([]string, 0, 24)
					for n := r.Range(8, 16); n > 0; n-- {
						sign := common.Pick(r, []string{"+", "+", "+", "-", "-", "?"})
						toks = append(toks, sign+common.NameText(common.Pick(r, pool)))
					}
					for _, n := range pool {
						toks = append(toks, "?"+common.NameText(n))
					}
					g.Op("tabr %s %s", kind, strings.Join(toks, " "))
				}
			}
			g.Stat("name-triples")
		}
		if r.Chance(1, 3) {
			// two different names that XXH64 cannot tell apart, and what a hash-keyed table does with them
			cx, cy := craftedCollision(r)
			x, y := common.NameText(enc.Name{cx}), common.NameText(enc.Name{cy})
			g.Op("hx %s %s", x, y)
			for _, kind := range []string{"pit", "trie", "mem"} {
				g.Op("tabx %s +%s ?%s ?%s", kind, x, y, x)
			}
			g.Stat("crafted-collision-pairs")
		}
		for k := 0; k < 6; k++ {
			s := genString(r, g)
			g.Op("parse %s", common.Hex([]byte(s)))
			// the same strings, and pattern-shaped ones, through the name PATTERN parser
			ps := s
			if r.Chance(1, 2) {
				ps = common.Pick(r, patSeeds)
				if r.Chance(1, 3) {
					ps = ps + "/" + s
				}
			}
			g.Op("pparse %s", common.Hex([]byte(ps)))
			if !strings.Contains(s, "/") {
				g.Op("cparse %s", common.Hex([]byte(s)))
			}
		}
	}
}

// execTabr: one of the real name-keyed tables under insert (+), remove (-) and lookup (?) of names;
// one observation character per operation: n(ew)/e(xisting), r(emoved)/m(issing), 1/0.
func execTabr(kind string, toks []string) string {
	var ins func(n enc.Name) bool // true = was new
	var rem func(n enc.Name) bool // true = was present
	var has func(n enc.Name) bool
	switch kind {
	case "trie":
		t := basic.NewNameTrie[int]()
		has = func(n enc.Name) bool { nd := t.ExactMatch(n); return nd != nil && nd.Value() != 0 }
		ins = func(n enc.Name) bool {
			if has(n) {
				return false
			}
			t.MatchAlways(n).SetValue(1)
			return true
		}
		rem = func(n enc.Name) bool {
			if !has(n) {
				return false
			}
			nd := t.ExactMatch(n)
			nd.SetValue(0)
			nd.DeleteIf(func(v int) bool { return v == 0 })
			return true
		}
	case "mem":
		st := object.NewMemoryStore()
		has = func(n enc.Name) bool { w, _ := st.Get(n, false); return w != nil }
		ins = func(n enc.Name) bool {
			if has(n) {
				return false
			}
			st.Put(n, 0, []byte{1})
			return true
		}
		rem = func(n enc.Name) bool {
			if !has(n) {
				return false
			}
			st.Remove(n, false)
			return true
		}
	case "pit":
		pit := table.NewPitCS(func(table.PitEntry) {})
		nonce := uint32(7)
		mk := func(n enc.Name) *spec.Interest { return &spec.Interest{NameV: n, NonceV: &nonce} }
		has = func(n enc.Name) bool { return pit.FindInterestExactMatchEnc(mk(n)) != nil }
		ins = func(n enc.Name) bool {
			if has(n) {
				return false
			}
			pit.InsertInterest(mk(n), nil, 1)
			return true
		}
		rem = func(n enc.Name) bool {
			e := pit.FindInterestExactMatchEnc(mk(n))
			if e == nil {
				return false
			}
			pit.RemoveInterest(e)
			return true
		}
	default:
		return "bad-op"
	}
	out := make([]byte, len(toks))
	for i, t := range toks {
		n := common.ParseNameText(t[1:])
		switch t[0] {
		case '+':
			out[i] = map[bool]byte{true: 'n', false: 'e'}[ins(n)]
		case '-':
			out[i] = map[bool]byte{true: 'r', false: 'm'}[rem(n)]
		default:
			out[i] = map[bool]byte{true: '1', false: '0'}[has(n)]
		}
	}
	return string(out)
}

func hexNoDash(b []byte) string {
	h := common.Hex(b)
	if h == "-" {
		return ""
	}
	return h
}

func hashList(hs []uint64) string {
	parts := make([]string, len(hs))
	for i, h := range hs {
		parts[i] = strconv.FormatUint(h, 16)
	}
	return strings.Join(parts, ",")
}

// aliased returns (a', b') with the same values as (a, b) but sharing one backing array when one
// name is, by value, a prefix of the other (as `n[:i]` and `n` do in the forwarder's tables);
// ok=false when neither is a prefix of the other.  The result of a relation must not depend on
// whether its operands share memory.
func aliased(a, b enc.Name) (enc.Name, enc.Name, bool) {
	long, short, swap := a, b, false
	if len(b) > len(a) {
		long, short, swap = b, a, true
	}
	for i := range short {
		if short[i].Typ != long[i].Typ || string(short[i].Val) != string(long[i].Val) {
			return nil, nil, false
		}
	}
	if swap {
		return long[:len(short)], long, true
	}
	return long, long[:len(short)], true
}

func exec(op string) string {
	f := common.Fields(op)
	switch f[0] {
	case "new":
		return "ok"
	case "cmp":
		a, b := common.ParseNameText(f[1]), common.ParseNameText(f[2])
		r := strconv.Itoa(a.Compare(b))
		if x, y, ok := aliased(a, b); ok {
			if r2 := strconv.Itoa(x.Compare(y)); r2 != r {
				return r + "|on-slices-of-one-array:" + r2
			}
		}
		return r
	case "eq":
		a, b := common.ParseNameText(f[1]), common.ParseNameText(f[2])
		r := strconv.FormatBool(a.Equal(b))
		if x, y, ok := aliased(a, b); ok {
			if r2 := strconv.FormatBool(x.Equal(y)); r2 != r {
				return r + "|on-slices-of-one-array:" + r2
			}
		}
		return r
	case "pfx":
		a, b := common.ParseNameText(f[1]), common.ParseNameText(f[2])
		r := strconv.FormatBool(a.IsPrefix(b))
		if x, y, ok := aliased(a, b); ok {
			if r2 := strconv.FormatBool(x.IsPrefix(y)); r2 != r {
				return r + "|on-slices-of-one-array:" + r2
			}
		}
		return r
	case "rt":
		a := common.ParseNameText(f[1])
		e := a.Bytes()
		n, err := enc.NameFromBytes(e)
		if err != nil {
			return common.Hex(e) + " err"
		}
		return common.Hex(e) + " " + common.NameText(n)
	case "crt":
		c := common.ParseCompText(f[1])
		e := c.Bytes()
		d, err := enc.ComponentFromBytes(e)
		if err != nil {
			return common.Hex(e) + " err"
		}
		return common.Hex(e) + " " + common.CompText(d)
	case "dec":
		n, err := enc.NameFromBytes(common.UnHex(f[1]))
		if err != nil {
			return "err"
		}
		return common.NameText(n)
	case "cdec":
		c, err := enc.ComponentFromBytes(common.UnHex(f[1]))
		if err != nil {
			return "err"
		}
		return common.CompText(c)
	case "str":
		return common.Hex([]byte(common.ParseNameText(f[1]).String()))
	case "canon":
		return common.Hex([]byte(common.ParseCompText(f[1]).CanonicalString()))
	case "urt":
		s := common.ParseNameText(f[1]).String()
		n, err := enc.NameFromStr(s)
		if err != nil {
			return common.Hex([]byte(s)) + " err"
		}
		return common.Hex([]byte(s)) + " " + common.NameText(n)
	case "parse":
		n, err := enc.NameFromStr(string(common.UnHex(f[1])))
		if err != nil {
			return "err"
		}
		return common.NameText(n)
	case "cparse":
		c, err := enc.ComponentFromStr(string(common.UnHex(f[1])))
		if err != nil {
			return "err"
		}
		return common.CompText(c)
	case "tab":
		q := common.ParseNameText(f[2])
		names := make([]enc.Name, 0, len(f)-3)
		for _, t := range f[3:] {
			names = append(names, common.ParseNameText(t))
		}
		cls := make([]string, len(names))
		switch f[1] {
		case "trie":
			t := basic.NewNameTrie[int]()
			for i, n := range names {
				if node := t.ExactMatch(n); node != nil && node.Value() != 0 {
					cls[i] = strconv.Itoa(node.Value() - 1)
				} else {
					t.MatchAlways(n).SetValue(i + 1)
					cls[i] = strconv.Itoa(i)
				}
			}
			return fmt.Sprintf("c=%s d=%d", strings.Join(cls, ","), t.PrefixMatch(q).Depth())
		case "mem":
			st := object.NewMemoryStore()
			for i, n := range names {
				if w, _ := st.Get(n, false); w != nil {
					cls[i] = strconv.Itoa(int(w[0]))
				} else {
					st.Put(n, 0, []byte{byte(i)})
					cls[i] = strconv.Itoa(i)
				}
			}
			return "c=" + strings.Join(cls, ",")
		case "svs":
			// the state-vector table of SvSync (node name -> sequence number); never started, no engine
			sv := ndn_sync.NewSvSync(nil, enc.Name{enc.NewStringComponent(enc.TypeGenericNameComponent, "g")}, nil)
			for i, n := range names {
				if q := sv.GetSeqNo(n); q != 0 {
					cls[i] = strconv.FormatUint(q-1, 10)
				} else {
					sv.SetSeqNo(n, uint64(i+1))
					cls[i] = strconv.Itoa(i)
				}
			}
			return "c=" + strings.Join(cls, ",")
		}
		return "bad-op"
	case "memp":
		st := object.NewMemoryStore()
		idx := 0
		var out []string
		for _, t := range f[1:] {
			switch {
			case strings.HasPrefix(t, "P:"):
				k := strings.LastIndexByte(t, ':')
				st.Put(common.ParseNameText(t[2:k]), common.Atou(t[k+1:]), []byte{byte(idx)})
				idx++
			case strings.HasPrefix(t, "Q:"):
				w, _ := st.Get(common.ParseNameText(t[2:]), true)
				if w == nil {
					out = append(out, "-")
				} else {
					out = append(out, strconv.Itoa(int(w[0])))
				}
			}
		}
		return strings.Join(out, " ")
	case "pitm":
		pit := table.NewPitCS(func(table.PitEntry) {})
		nonce := uint32(7)
		var entries []table.PitEntry
		first := map[table.PitEntry]int{}
		var out []string
		for _, t := range f[1:] {
			k := strings.LastIndexByte(t, ':')
			switch {
			case strings.HasPrefix(t, "I:"):
				e, _ := pit.InsertInterest(&spec.Interest{NameV: common.ParseNameText(t[2:k]), NonceV: &nonce, CanBePrefixV: t[k+1:] == "1"}, nil, 1)
				if _, ok := first[e]; !ok {
					first[e] = len(entries)
				}
				entries = append(entries, e)
			case strings.HasPrefix(t, "D:"):
				var tok *uint32
				if t[k+1:] != "-" {
					v := entries[common.Atoi(t[k+1:])].Token()
					tok = &v
				}
				ms := pit.FindInterestPrefixMatchByDataEnc(&spec.Data{NameV: common.ParseNameText(t[2:k])}, tok)
				ids := make([]int, 0, len(ms))
				for _, m := range ms {
					ids = append(ids, first[m])
				}
				sort.Ints(ids)
				if len(ids) == 0 {
					out = append(out, "-")
				} else {
					ss := make([]string, len(ids))
					for i, v := range ids {
						ss[i] = strconv.Itoa(v)
					}
					out = append(out, strings.Join(ss, ","))
				}
			}
		}
		return strings.Join(out, " ")
	case "pparse":
		pat, err := enc.NamePatternFromStr(string(common.UnHex(f[1])))
		if err != nil {
			return "err"
		}
		if len(pat) == 0 {
			return "-"
		}
		parts := make([]string, len(pat))
		for i, cp := range pat {
			switch x := cp.(type) {
			case enc.Component:
				parts[i] = "c" + common.CompText(x)
			case *enc.Component:
				parts[i] = "c" + common.CompText(*x)
			case enc.Pattern:
				parts[i] = fmt.Sprintf("p%d:%s", uint64(x.Typ), hexNoDash([]byte(x.Tag)))
			case *enc.Pattern:
				parts[i] = fmt.Sprintf("p%d:%s", uint64(x.Typ), hexNoDash([]byte(x.Tag)))
			default:
				parts[i] = "?"
			}
		}
		return strings.Join(parts, "/")
	case "cln":
		// decode in place from a buffer, clone, then reuse the buffer (as a face does with its receive
		// buffer): the clone must still be the name
		buf := common.ParseNameText(f[1]).Bytes()
		dec, err := enc.NameFromBytes(buf)
		if err != nil {
			return "err"
		}
		cl := dec.Clone()
		last := enc.Component{}
		if len(dec) > 0 {
			last = dec[len(dec)-1].Clone()
		}
		for i := range buf {
			buf[i] ^= 0xa5
		}
		return common.NameText(cl) + " " + common.CompText(last)
	case "tabr", "tabx":
		return execTabr(f[1], f[2:])
	case "hx":
		return fmt.Sprintf("%x %x", common.ParseNameText(f[1]).Hash(), common.ParseNameText(f[2]).Hash())
	case "h":
		return fmt.Sprintf("%x", common.ParseNameText(f[1]).Hash())
	case "hc":
		names := []enc.Name{common.ParseNameText(f[1]), common.ParseNameText(f[2]), common.ParseNameText(f[3])}
		want := make([]uint64, len(names))
		wantP := make([]string, len(names))
		for i, n := range names {
			want[i] = n.Hash()
			wantP[i] = hashList(n.PrefixHash())
		}
		var bad atomic.Int64
		var wg sync.WaitGroup
		for g := 0; g < 6; g++ {
			wg.Add(1)
			go func(g int) {
				defer wg.Done()
				n := names[g%len(names)].Clone() // private copy: only the hashing code is shared
				for k := 0; k < 300; k++ {
					if n.Hash() != want[g%len(names)] || hashList(n.PrefixHash()) != wantP[g%len(names)] {
						bad.Add(1)
					}
				}
			}(g)
		}
		wg.Wait()
		if bad.Load() > 0 {
			return "unstable:" + strconv.FormatInt(bad.Load(), 10)
		}
		return "stable"
	case "ph":
		n := common.ParseNameText(f[1])
		ph := n.PrefixHash()
		hs := make([]uint64, len(n)+1)
		for i := 0; i <= len(n); i++ {
			hs[i] = n[:i].Hash()
		}
		return hashList(ph) + " " + hashList(hs)
	}
	return "bad-op"
}

func TestVerif(t *testing.T) { common.Main(t, gen, exec) }
