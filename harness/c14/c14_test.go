package c14

import (
	"strconv"
	"testing"

	enc "github.com/named-data/ndnd/std/encoding"
	"verif/harness/common"
)

func gen(g *common.Gen) {
	u := common.NameUniverse{Alphabet: []string{"a", "b", "ab"}, MaxDepth: 3}
	for i := 0; i < g.N; i++ {
		g.Op("new")
		for k := 0; k < 8; k++ {
			a, b := u.Draw(g.R), u.Draw(g.R)
			g.Op("cmp %s %s", common.NameText(a), common.NameText(b))
			g.Stat("cmp")
		}
	}
}

func exec(op string) string {
	f := common.Fields(op)
	switch f[0] {
	case "new":
		return "ok"
	case "cmp":
		a, b := common.ParseNameText(f[1]), common.ParseNameText(f[2])
		return strconv.Itoa(a.Compare(b))
	}
	_ = enc.Name{}
	return "bad-op"
}

func TestVerif(t *testing.T) { common.Main(t, gen, exec) }
