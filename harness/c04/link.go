package c04

// link.go — frame sequences through the REAL NDNLPLinkService receive path, readTlvStream and the
// PIT-token dispatch (hooks: fw/face/verif_hooks_c04.go, build tag verif).

import (
	"encoding/binary"
	"errors"
	"fmt"
	"io"
	"strconv"
	"strings"
	"time"

	"github.com/named-data/ndnd/fw/defn"
	"github.com/named-data/ndnd/fw/dispatch"
	"github.com/named-data/ndnd/fw/face"
	"github.com/named-data/ndnd/fw/fw"
	enc "github.com/named-data/ndnd/std/encoding"
	ndnlog "github.com/named-data/ndnd/std/log"
	spec "github.com/named-data/ndnd/std/ndn/spec_2022"
	"verif/harness/c13"
	"verif/harness/common"
)

// ---------------------------------------------------------------- fake forwarding threads

type fakeThread struct {
	id        int
	interests int
	data      int
}

func (t *fakeThread) String() string               { return "fake-" + strconv.Itoa(t.id) }
func (t *fakeThread) QueueData(p *defn.Pkt)        { t.data++; keep(p) }
func (t *fakeThread) QueueInterest(p *defn.Pkt)    { t.interests++; keep(p) }
func (t *fakeThread) GetNumPitEntries() int        { return 0 }
func (t *fakeThread) GetNumCsEntries() int         { return 0 }

var threads []*fakeThread
var ls *face.NDNLPLinkService

// the packets queued to the forwarding threads stay in their queues, uncopied, while later frames
// arrive on the face (in the transport's reusable receive buffer): what a queued packet says (name of
// the decoded packet, bytes, token) is rendered when it is queued and again after every later frame
type keptPkt struct {
	p    *defn.Pkt
	text string
}

var kept []keptPkt
var rbuf []byte

func renderPkt(p *defn.Pkt) string {
	name := "-"
	if p.L3 != nil {
		if p.L3.Interest != nil {
			name = common.Hex(p.L3.Interest.NameV.Bytes())
			if p.L3.Interest.HopLimitV != nil {
				name += "h" + strconv.Itoa(int(*p.L3.Interest.HopLimitV))
			}
		} else if p.L3.Data != nil {
			name = common.Hex(p.L3.Data.NameV.Bytes())
		}
	}
	return name + "/" + common.Hex(p.Raw) + "/" + common.Hex(p.PitToken)
}

func keep(p *defn.Pkt) {
	if len(kept) < 48 {
		kept = append(kept, keptPkt{p, safeRender(p)})
	}
}

func safeRender(p *defn.Pkt) (s string) {
	defer func() {
		if recover() != nil {
			s = "unrenderable"
		}
	}()
	return renderPkt(p)
}

// queuedStable: "1" iff every packet queued so far in this history still says what it said when queued
func queuedStable() string {
	for i, k := range kept {
		if safeRender(k.p) != k.text {
			return "0:" + strconv.Itoa(i)
		}
	}
	return "1"
}

func setThreads(n int) {
	threads = make([]*fakeThread, n)
	fts := make([]dispatch.FWThread, n)
	for i := range threads {
		threads[i] = &fakeThread{id: i}
		fts[i] = threads[i]
	}
	dispatch.InitializeFWThreads(fts)
	fw.Threads = make([]*fw.Thread, n) // only len(fw.Threads) is used by the name-hash dispatch
}

func newLink(nThreads int, reasm bool) string {
	ndnlog.SetLevel(ndnlog.FatalLevel)
	setThreads(nThreads)
	opt := face.MakeNDNLPLinkServiceOptions()
	opt.IsReassemblyEnabled = reasm
	ls = face.MakeNDNLPLinkService(face.MakeNullTransport(), opt)
	ls.SetFaceID(7)
	kept = nil
	return "ok"
}

func linkFrame(frame []byte) string {
	if ls == nil {
		return "skip"
	}
	for _, t := range threads {
		t.interests, t.data = 0, 0
	}
	// the real decoder's own verdict on the frame (independent call, no state)
	dec := 0
	if _, _, err := spec.ReadPacket(enc.NewBufferReader(append([]byte{}, frame...))); err == nil {
		dec = 1
	}
	// the frame arrives in the face's reusable receive buffer, overwritten by the next read
	if len(rbuf) < len(frame) {
		rbuf = make([]byte, len(frame)+defn.MaxNDNPacketSize)
	}
	n := copy(rbuf, frame)
	out := guarded(len(frame)+400*24, func() string {
		face.VerifC04HandleFrame(ls, rbuf[:n])
		return ""
	})
	for i := range rbuf[:n] {
		rbuf[i] = 0xAA
	}
	if out != "" {
		return out
	}
	ni, nd := 0, 0
	var where []string
	for _, t := range threads {
		ni += t.interests
		nd += t.data
		for k := 0; k < t.data; k++ {
			where = append(where, strconv.Itoa(t.id))
		}
	}
	e, s, b := face.VerifC04StoreStats(ls)
	return fmt.Sprintf("dec=%d i=%d d=%d:%s store=%d/%d/%d cnt=%d/%d qs=%s", dec, ni, nd, strings.Join(where, "+"), e, s, b, ls.NInInterests(), ls.NInData(), queuedStable())
}

// linkSoak: for <ms> of real time the face keeps receiving first fragments of 4096 two-fragment messages
// whose second fragment never comes (a lossy peer), round and round: nothing that runs in the background
// of the link service (timers, clean-up) may collide with the receive path.  The store ends up holding the
// 4096 incomplete messages whatever the number of rounds (a repeated fragment changes nothing).
func linkSoak(ms int) string {
	if ls == nil {
		return "skip"
	}
	for _, t := range threads {
		t.interests, t.data = 0, 0
	}
	one := uint64(0)
	two := uint64(2)
	frag := simpleData("s", []byte("soak"))[:8]
	out := common.Guard(func() string {
		deadline := time.Now().Add(time.Duration(ms) * time.Millisecond)
		for round := 0; round == 0 || time.Now().Before(deadline); round++ {
			for i := 0; i < 4096; i++ {
				seq := uint64(1<<40) + uint64(2*i)
				f := lpFrame(&seq, &one, &two, nil, frag)
				if len(rbuf) < len(f) {
					rbuf = make([]byte, len(f)+defn.MaxNDNPacketSize)
				}
				n := copy(rbuf, f)
				face.VerifC04HandleFrame(ls, rbuf[:n])
			}
		}
		return ""
	})
	if out != "" {
		return out
	}
	e, sl, b := face.VerifC04StoreStats(ls)
	return fmt.Sprintf("store=%d/%d/%d cnt=%d/%d qs=%s", e, sl, b, ls.NInInterests(), ls.NInData(), queuedStable())
}

// ---------------------------------------------------------------- stream framing

type scripted struct {
	chunks [][]byte
	reads  int
	zero   int
}

var errSpin = errors.New("spin")

func (s *scripted) Read(p []byte) (int, error) {
	s.reads++
	if len(p) == 0 {
		// a zero-length destination: a net.Conn returns (0, nil) immediately; the framing loop makes no
		// progress from here on. Report it instead of spinning forever.
		s.zero++
		if s.zero > 3 {
			return 0, errSpin
		}
		return 0, nil
	}
	if len(s.chunks) == 0 {
		return 0, io.EOF
	}
	n := copy(p, s.chunks[0])
	if n == len(s.chunks[0]) {
		s.chunks = s.chunks[1:]
	} else {
		s.chunks[0] = s.chunks[0][n:]
	}
	return n, nil
}

// chunk text: comma separated items; an item is hex, or  z<count>  (count zero bytes), or
// r<count>x<hex> (hex repeated count times)
func parseChunks(s string) [][]byte {
	var out [][]byte
	for _, it := range strings.Split(s, ",") {
		var b []byte
		for _, part := range strings.Split(it, ".") {
			switch {
			case part == "" || part == "-":
			case part[0] == 'z':
				b = append(b, make([]byte, common.Atoi(part[1:]))...)
			default:
				b = append(b, common.UnHex(part)...)
			}
		}
		out = append(out, b)
	}
	return out
}

func runStream(chunkText string) string {
	ndnlog.SetLevel(ndnlog.FatalLevel)
	chunks := parseChunks(chunkText)
	total := 0
	for _, c := range chunks {
		total += len(c)
	}
	src := &scripted{chunks: chunks}
	var lens []string
	out := guarded(total+defn.MaxNDNPacketSize*33, func() string {
		err := face.VerifC04ReadTlvStream(src, func(f []byte) { lens = append(lens, strconv.Itoa(len(f))) })
		switch {
		case err == nil:
			return "eof"
		case errors.Is(err, errSpin):
			return "SPIN"
		default:
			return "err"
		}
	})
	if strings.HasPrefix(out, "PANIC") || strings.HasPrefix(out, "ALLOC") || out == "TIMEOUT" {
		return out
	}
	return fmt.Sprintf("frames=%s %s", strings.Join(lens, "+"), out)
}

// pendingStream builds the chunk text of a stream of type-6 blocks (3-byte length form) whose reads keep
// exactly pend bytes of an incomplete block pending, sized so that pend + sum(blocks) == capacity, followed
// by two more one-byte reads.
func pendingStream(pend, capacity int) string {
	n := (capacity - pend) / (pend + 1)
	sizes := make([]int, n)
	sum := 0
	for i := range sizes {
		sizes[i] = (capacity - pend) / n
		sum += sizes[i]
	}
	for i := 0; sum < capacity-pend; i++ {
		sizes[i%n]++
		sum++
	}
	type piece struct {
		hex string
		z   int
	}
	var stream []piece
	for _, sz := range append(append([]int{}, sizes...), sizes[0]+7) {
		stream = append(stream, piece{common.Hex(append([]byte{6}, c13.EncTL(uint64(sz-4))...)), 0}, piece{"", sz - 4})
	}
	cutSizes := append(append([]int{pend}, sizes...), 1, 1)
	var all []string
	pi, used := 0, 0
	for _, want := range cutSizes {
		var parts []string
		for want > 0 && pi < len(stream) {
			pc := stream[pi]
			plen := pc.z
			if pc.hex != "" {
				plen = len(pc.hex) / 2
			}
			take := plen - used
			if take > want {
				take = want
			}
			if pc.hex != "" {
				parts = append(parts, pc.hex[2*used:2*(used+take)])
			} else if take > 0 {
				parts = append(parts, "z"+strconv.Itoa(take))
			}
			used += take
			want -= take
			if used == plen {
				pi++
				used = 0
			}
		}
		all = append(all, strings.Join(parts, "."))
	}
	return strings.Join(all, ",")
}

// ---------------------------------------------------------------- PIT-token dispatch

func newDisp(n int) string {
	setThreads(n)
	return "ok"
}

func dispToken(tok []byte) string {
	if len(tok) != 6 {
		return "skip"
	}
	return common.Guard(func() string {
		id := int(binary.BigEndian.Uint16(tok))
		t := dispatch.GetFWThread(id)
		if t == nil {
			return "drop"
		}
		return "thread=" + strconv.Itoa(t.(*fakeThread).id)
	})
}

// ---------------------------------------------------------------- generator of the link part

func u64p(x uint64) *c13.V { return &c13.V{K: c13.VNat, N: x} }

func lpFrame(seq, idx, cnt *uint64, token []byte, fragment []byte) []byte {
	var b []byte
	if seq != nil {
		b = append(b, c13.TLV(0x51, binary.BigEndian.AppendUint64(nil, *seq))...)
	}
	nat := func(x uint64) []byte {
		switch {
		case x <= 0xff:
			return []byte{byte(x)}
		case x <= 0xffff:
			return binary.BigEndian.AppendUint16(nil, uint16(x))
		case x <= 0xffffffff:
			return binary.BigEndian.AppendUint32(nil, uint32(x))
		}
		return binary.BigEndian.AppendUint64(nil, x)
	}
	if idx != nil {
		b = append(b, c13.TLV(0x52, nat(*idx))...)
	}
	if cnt != nil {
		b = append(b, c13.TLV(0x53, nat(*cnt))...)
	}
	if token != nil {
		b = append(b, c13.TLV(0x62, token)...)
	}
	if fragment != nil {
		b = append(b, c13.TLV(0x50, fragment)...)
	}
	return c13.TLV(0x64, b)
}

func simpleInterest(name string) []byte {
	n := c13.TLV(7, c13.TLV(8, []byte(name)))
	return c13.TLV(5, append(n, c13.TLV(0x0a, []byte{1, 2, 3, 4})...))
}

// namedInterest / namedData: packets whose name is the given sequence of generic components
func nameOf(comps []string) []byte {
	var inner []byte
	for _, c := range comps {
		inner = append(inner, c13.TLV(8, []byte(c))...)
	}
	return c13.TLV(7, inner)
}

func namedInterest(comps []string) []byte {
	return c13.TLV(5, append(nameOf(comps), c13.TLV(0x0a, []byte{1, 2, 3, 4})...))
}

func namedData(comps []string) []byte {
	body := append(nameOf(comps), c13.TLV(0x15, []byte("x"))...)
	body = append(body, c13.TLV(0x16, c13.TLV(0x1b, []byte{0}))...)
	body = append(body, c13.TLV(0x17, []byte{})...)
	return c13.TLV(6, body)
}

// specialNames: the names the dispatch to forwarding threads looks INTO (scope prefixes, management): every
// sequence of 0..3 components over this alphabet, the short ones first (a name that IS a scope prefix and nothing
// else, the empty name, an empty component)
var specialAlphabet = []string{"localhost", "localhop", "nfd", "a", ""}

func specialNames() [][]string {
	out := [][]string{{}}
	for _, a := range specialAlphabet {
		out = append(out, []string{a})
	}
	for _, a := range specialAlphabet {
		for _, b := range specialAlphabet {
			out = append(out, []string{a, b})
		}
	}
	for _, a := range specialAlphabet {
		for _, b := range specialAlphabet {
			for _, c := range specialAlphabet {
				out = append(out, []string{a, b, c})
			}
		}
	}
	return out
}

func simpleData(name string, content []byte) []byte {
	n := c13.TLV(7, c13.TLV(8, []byte(name)))
	body := append(n, c13.TLV(0x15, content)...)
	body = append(body, c13.TLV(0x16, c13.TLV(0x1b, []byte{0}))...)
	body = append(body, c13.TLV(0x17, []byte{})...)
	return c13.TLV(6, body)
}

// genLinkCut feeds consistently truncated packets to the link service, bare and as the fragment of an LpPacket.
func genLinkCut(g *common.Gen, cut [][]byte) {
	if len(cut) == 0 {
		return
	}
	per := 40
	for i := 0; i < len(cut); i += per {
		g.Op("new link 2 1")
		g.Stat("link-history")
		for j := i; j < i+per && j < len(cut); j++ {
			if len(cut[j]) == 0 || (cut[j][0] != 5 && cut[j][0] != 6) {
				continue
			}
			g.Op("frame %s", common.Hex(cut[j]))
			g.Op("frame %s", common.Hex(lpFrame(nil, nil, nil, nil, cut[j])))
			g.Stat("frame-cut-repair")
		}
	}
}

func genLink(g *common.Gen, packets [][]byte) {
	thorough := common.Thorough()
	kt := knownTypes()
	nHist := 6 * g.N
	if nHist < 12 {
		nHist = 12
	}
	p := func(x uint64) *uint64 { return &x }
	for h := 0; h < nHist; h++ {
		r := g.R.Fork()
		nThreads := common.Pick(r, []int{1, 2, 4, 8})
		reasm := r.Chance(5, 6)
		g.Op("new link %d %d", nThreads, map[bool]int{false: 0, true: 1}[reasm])
		g.Stat("link-history")
		inner := [][]byte{simpleInterest("a"), simpleInterest("ndn"), simpleData("a", []byte("hello")), simpleData("b", r.Bytes(40))}
		// names the dispatch looks into: all 31 names of at most two components over the special alphabet in a
		// rotating window of 8 per history, plus 4 random three-component ones (Interest and token-less Data)
		sn := specialNames()
		for j := 0; j < 8; j++ {
			nm := sn[(h*8+j)%31]
			inner = append(inner, namedInterest(nm), namedData(nm))
			g.Op("frame %s", common.Hex(namedInterest(nm)))
			g.Op("frame %s", common.Hex(lpFrame(nil, nil, nil, nil, namedData(nm))))
			g.Stat("link-special-name")
		}
		for j := 0; j < 4; j++ {
			nm := sn[31+r.Intn(len(sn)-31)]
			inner = append(inner, namedInterest(nm), namedData(nm))
		}
		// a rotating window over the minimal / generated packets (Interest or Data at the top level)
		var cand [][]byte
		for _, pk := range packets {
			if len(pk) > 1 && (pk[0] == 5 || pk[0] == 6) {
				cand = append(cand, pk)
			}
		}
		for j := 0; j < 12 && len(cand) > 0; j++ {
			inner = append(inner, cand[(h*12+j)%len(cand)])
		}
		// type confusion of the PAYLOAD: any well-formed top-level TLV that is neither an Interest nor a Data —
		// an LpPacket (with / without Fragment, nested once or twice), a Name, a MetaInfo, other element types —
		// carried bare, as the Fragment of an LpPacket, and as the concatenation of reassembled fragments
		confusion := [][]byte{
			lpFrame(nil, nil, nil, nil, []byte{}),                                // 64 02 50 00
			lpFrame(nil, nil, nil, nil, lpFrame(nil, nil, nil, nil, []byte{})),   // LpPacket in LpPacket
			lpFrame(nil, nil, nil, nil, simpleInterest("a")),                     // LP-wrapped Interest as payload
			lpFrame(nil, nil, nil, nil, nil),                                     // LpPacket without Fragment (idle)
			lpFrame(p(1), p(0), p(1), nil, simpleData("a", []byte("x"))),
			c13.TLV(7, c13.TLV(8, []byte("a"))),                                  // a Name
			c13.TLV(0x14, c13.TLV(0x19, []byte{1})),                              // a MetaInfo
			c13.TLV(0x50, simpleInterest("a")),                                   // a bare Fragment element
			c13.TLV(uint64(common.Pick(r, kt)), r.Bytes(r.Intn(6))),
			c13.TLV(5, c13.TLV(5, simpleInterest("a")[2:])),                      // an Interest nested one level deeper
			c13.TLV(6, simpleData("a", []byte("x"))),                             // a Data nested one level deeper
		}
		for _, cp := range confusion {
			g.Op("frame %s", common.Hex(cp))
			g.Op("frame %s", common.Hex(lpFrame(nil, nil, nil, nil, cp)))
			g.Op("frame %s", common.Hex(lpFrame(nil, nil, nil, nil, lpFrame(nil, nil, nil, nil, cp))))
			// two fragments whose concatenation is the payload
			if len(cp) >= 2 {
				base := uint64(1000 + 10*len(cp))
				cut := len(cp) / 2
				g.Op("frame %s", common.Hex(lpFrame(p(base), p(0), p(2), nil, cp[:cut])))
				g.Op("frame %s", common.Hex(lpFrame(p(base+1), p(1), p(2), nil, cp[cut:])))
			}
			g.Stat("frame-payload-confusion")
		}
		// deep names: thousands of empty / one-byte components in a frame close to the packet size limit,
		// token-less Data (dispatched by the hashes of all name prefixes) and Interests, bare and LP-wrapped;
		// the whole handleIncomingFrame -> dispatch path runs under the allocation budget and the watchdog
		if h%3 == 0 {
			for _, shape := range [][2]int{{4000, 0}, {2800, 1}, {1000, 0}, {300, 20}} {
				var comps []byte
				for i := 0; i < shape[0]; i++ {
					comps = append(comps, c13.TLV(8, r.Bytes(shape[1]))...)
				}
				name := c13.TLV(7, comps)
				data := c13.TLV(6, append(append(append([]byte{}, name...), c13.TLV(0x16, c13.TLV(0x1b, []byte{0}))...), c13.TLV(0x17, []byte{})...))
				interest := c13.TLV(5, append(append([]byte{}, name...), c13.TLV(0x0a, []byte{1, 2, 3, 4})...))
				g.Op("frame %s", common.Hex(data))
				g.Op("frame %s", common.Hex(interest))
				g.Op("frame %s", common.Hex(lpFrame(nil, nil, nil, nil, data)))
				g.Stat("frame-deep-name")
			}
		}
		// name components with large TLV-TYPE numbers (3-, 5- and 9-byte forms) and values around the
		// 1-/3-byte length boundary: Interest and token-less Data (dispatched by component / prefix hashes)
		if h%3 == 1 {
			for _, typ := range []uint64{253, 65535, 65536, 1<<32 - 1, 1 << 32, 1 << 63, 1<<64 - 1} {
				for _, vl := range []int{0, 1, 252, 253, 300} {
					if r.Chance(1, 2) {
						continue
					}
					name := c13.TLV(7, append(c13.TLV(8, []byte("a")), c13.TLV(typ, r.Bytes(vl))...))
					data := c13.TLV(6, append(append(append([]byte{}, name...), c13.TLV(0x16, c13.TLV(0x1b, []byte{0}))...), c13.TLV(0x17, []byte{})...))
					interest := c13.TLV(5, append(append([]byte{}, name...), c13.TLV(0x0a, []byte{1, 2, 3, 4})...))
					g.Op("frame %s", common.Hex(interest))
					g.Op("frame %s", common.Hex(lpFrame(nil, nil, nil, nil, data)))
					if r.Chance(1, 3) {
						g.Op("frame %s", common.Hex(data))
					}
					g.Stat("frame-big-component-type")
				}
			}
		}
		// every component value length 0..300 once (boundaries of fixed-size scratch buffers on the way to the
		// forwarding threads: the name hashes that pick the thread), Interest and token-less Data
		if h%6 == 3 {
			for vl := 0; vl <= 300; vl++ {
				name := c13.TLV(7, append(c13.TLV(8, []byte("a")), c13.TLV(8, r.Bytes(vl))...))
				interest := c13.TLV(5, append(append([]byte{}, name...), c13.TLV(0x0a, []byte{1, 2, 3, 4})...))
				g.Op("frame %s", common.Hex(interest))
				if vl%3 == 0 {
					data := c13.TLV(6, append(append(append([]byte{}, name...), c13.TLV(0x16, c13.TLV(0x1b, []byte{0}))...), c13.TLV(0x17, []byte{})...))
					g.Op("frame %s", common.Hex(lpFrame(nil, nil, nil, nil, data)))
				}
			}
			g.Stat("frame-component-length-sweep")
		}
		// many incomplete messages at once (each lost a fragment), then the peer restarts its sequence
		// numbers: a fragment whose base sequence is LOWER than every stored one, then its completion
		if h%6 == 2 && reasm {
			pk := simpleData("m", r.Bytes(30))
			n := common.Pick(r, []int{63, 64, 65, 70, 130})
			for i := 0; i < n; i++ {
				g.Op("frame %s", common.Hex(lpFrame(p(uint64(5000+10*i)), p(0), p(2), nil, pk[:10])))
			}
			low := uint64(r.Intn(3))
			g.Op("frame %s", common.Hex(lpFrame(p(low), p(0), p(2), nil, pk[:10])))
			g.Op("frame %s", common.Hex(lpFrame(p(low+1), p(1), p(2), nil, pk[10:])))
			g.Op("frame %s", common.Hex(lpFrame(p(5000+1), p(1), p(2), nil, pk[10:])))
			g.Stat("frame-many-incomplete")
		}
		if h == 4 && reasm {
			g.Op("soak 650") // once per run: longer than any reassembly timer a link service might arm
			g.Stat("link-soak")
		}
		nOps := r.Range(8, 30)
		for k := 0; k < nOps; k++ {
			pkt := common.Pick(r, inner)
			token := []byte(nil)
			switch r.Intn(5) {
			case 0:
				token = binary.BigEndian.AppendUint32(binary.BigEndian.AppendUint16(nil, uint16(r.Intn(nThreads))), uint32(r.U64()))
			case 1: // thread id == thread count / beyond
				token = binary.BigEndian.AppendUint32(binary.BigEndian.AppendUint16(nil, uint16(nThreads+r.Intn(2)*r.Intn(70000))), 7)
			case 2:
				token = r.Bytes(common.Pick(r, []int{0, 1, 5, 7, 8}))
			}
			switch r.Intn(10) {
			case 0: // bare packet
				g.Op("frame %s", common.Hex(pkt))
				g.Stat("frame-bare")
			case 1: // LpPacket, no sequence
				g.Op("frame %s", common.Hex(lpFrame(nil, nil, nil, token, pkt)))
				g.Stat("frame-lp-noseq")
			case 2, 3: // properly fragmented message, fragments in random order, maybe incomplete / duplicated
				cnt := r.Range(2, 4)
				base := common.Pick(r, []uint64{0, 1, 100, 1<<32 - 1, 1<<64 - 2, uint64(r.Intn(1000))})
				order := []int{}
				for i := 0; i < cnt; i++ {
					order = append(order, i)
				}
				for i := range order {
					j := r.Intn(i + 1)
					order[i], order[j] = order[j], order[i]
				}
				if r.Chance(1, 4) {
					order = order[:len(order)-1]
				}
				if r.Chance(1, 4) {
					order = append(order, order[0])
				}
				sz := (len(pkt) + cnt - 1) / cnt
				for _, i := range order {
					lo, hi := i*sz, (i+1)*sz
					if hi > len(pkt) {
						hi = len(pkt)
					}
					if lo > hi {
						lo = hi
					}
					g.Op("frame %s", common.Hex(lpFrame(p(base+uint64(i)), p(uint64(i)), p(uint64(cnt)), token, pkt[lo:hi])))
				}
				g.Stat("frame-fragmented-message")
			case 4, 5, 6: // FragIndex / FragCount / Sequence combinations
				bv := []uint64{0, 1, 2, 3, 5, 399, 400, 401, 1000, 8800, 8801, 65535, 65536, 1 << 20, 1 << 32, 1 << 40, 1<<63 - 1, 1 << 63, 1<<64 - 1}
				if !thorough {
					// 2^40 slots of 24 bytes cannot be allocated: with the unrepaired code the process dies
					bv = []uint64{0, 1, 2, 3, 5, 399, 400, 401, 1000, 8800, 8801, 65535, 65536, 1 << 20, 1<<63 - 1, 1 << 63, 1<<64 - 1}
				}
				var idx, cnt *uint64
				if r.Chance(4, 5) {
					idx = p(common.Pick(r, bv))
				}
				if r.Chance(4, 5) {
					cnt = p(common.Pick(r, bv))
				}
				var seq *uint64
				if r.Chance(5, 6) {
					seq = p(common.Pick(r, []uint64{0, 1, 2, 5, 100, 1<<64 - 1}))
				}
				g.Op("frame %s", common.Hex(lpFrame(seq, idx, cnt, token, pkt[:r.Intn(len(pkt)+1)])))
				g.Stat("frame-fragfields")
			case 7: // idle / empty fragment
				g.Op("frame %s", common.Hex(lpFrame(p(uint64(k)), nil, nil, token, common.Pick(r, [][]byte{nil, {}}))))
				g.Stat("frame-idle")
			default: // structure-aware mutation of a frame
				f := lpFrame(p(uint64(r.Intn(4))), p(uint64(r.Intn(3))), p(uint64(r.Range(1, 3))), token, pkt)
				if r.Chance(1, 2) {
					f = pkt
				}
				ms := mutations(r, f, kt, false)
				for j := 0; j < 4; j++ {
					g.Op("frame %s", common.Hex(common.Pick(r, ms).b))
				}
				g.Stat("frame-mutated")
			}
		}
	}
	// ---- stream framing
	big := func(t byte, n int) string { // a TLV of type t with n zero bytes of value, as chunk text
		return common.Hex(append([]byte{t}, c13.EncTL(uint64(n))...)) + ".z" + strconv.Itoa(n)
	}
	fixed := []string{
		"06ff8000000000000000",                 // F-04b: int(len) negative
		"06ff7fffffffffffffff",                 // tlvSize overflows
		"06ffffffffffffffffff0000",             // len = 2^64-1
		"06fe7fffffff",                         // 2 GiB claimed
		"0500,0600",                            // two empty TLVs in two reads
		"05,00",                                // header split over reads
		"fd",                                   // incomplete type
		big(6, 8800) + "," + big(6, 100),
		big(6, 9000),                           // larger than a packet but complete in one read
	}
	// boundary-driven family: keep exactly `pend` unread bytes of an incomplete block pending after every
	// read (blocks of pend+1.. bytes, each read ends `pend` bytes into the next block) until the sum of
	// what was read equals the buffer capacity; correct code must either compact (pend <= packet size)
	// or reject (pend > packet size) - never reach a zero-length read. Total length hits the capacity exactly.
	for _, pend := range []int{8798, 8799, 8800, 8801, 8802, 8825, 8849, 8850, 8851, 8860, 9000} {
		fixed = append(fixed, pendingStream(pend, defn.MaxNDNPacketSize*32))
	}
	// blocks around the packet size arriving whole, one per read and several per read
	for _, sz := range []int{8798, 8799, 8800, 8801, 8802, 8850, 8860} {
		fixed = append(fixed, big(6, sz-4)+","+big(6, sz-4)+","+big(5, 10))
		fixed = append(fixed, big(6, sz-4)+"."+big(6, sz-4)+"."+big(5, 10))
	}
	// lengths at which (bytes of T and L on the wire) + L wraps around 2^64: a size computed in unsigned 64-bit
	// arithmetic comes out as 0 (or a few bytes) — an empty frame handed up for ever; T in every form, L in the
	// 9-byte form, whole and one byte per read
	for _, tf := range []int{1, 3, 5, 9} {
		for _, d := range []int{-1, 0, 1} {
			l := uint64(0) - uint64(tf+9) + uint64(int64(d))
			blk := append(append(encTLForm(6, tf), encTLForm(l, 9)...), 1, 2, 3, 4)
			fixed = append(fixed, common.Hex(blk))
			var bytewise []string
			for _, b := range blk {
				bytewise = append(bytewise, common.Hex([]byte{b}))
			}
			fixed = append(fixed, strings.Join(bytewise, ","))
		}
	}
	for _, s := range fixed {
		g.Op("new stream")
		g.Op("st %s", s)
		g.Stat("stream-fixed")
	}
	for h := 0; h < 4*g.N+8; h++ {
		r := g.R.Fork()
		g.Op("new stream")
		// a sequence of blocks, some with boundary/huge lengths, cut into random reads
		var bs []byte
		nb := r.Range(1, 6)
		for i := 0; i < nb; i++ {
			switch r.Intn(6) {
			case 0:
				l := common.Pick(r, []uint64{1 << 63, 1<<64 - 1, 1<<63 - 1, 1 << 32, 8801, 281600, 281601, 1<<64 - 9})
				bs = append(bs, append(append([]byte{6}, c13.EncTL(l)...), r.Bytes(r.Intn(20))...)...)
			default:
				bs = append(bs, c13.TLV(uint64(common.Pick(r, []int{5, 6, 100, 253, 65536})), r.Bytes(common.Pick(r, []int{0, 1, 10, 252, 253, 300, 2000})))...)
			}
		}
		var parts []string
		for len(bs) > 0 {
			n := r.Range(1, len(bs))
			if r.Chance(1, 3) {
				n = r.Range(1, min(len(bs), 3))
			}
			parts = append(parts, common.Hex(bs[:n]))
			bs = bs[n:]
		}
		g.Op("st %s", strings.Join(parts, ","))
		g.Stat("stream-random")
	}
	// ---- token dispatch
	for _, n := range []int{1, 2, 8, 32} {
		g.Op("new disp %d", n)
		for _, id := range []int{0, 1, n - 1, n, n + 1, 255, 256, 65535} {
			g.Op("tok %s", common.Hex(binary.BigEndian.AppendUint32(binary.BigEndian.AppendUint16(nil, uint16(id)), 0)))
			g.Stat("token")
		}
	}
}
