package c04

// mutate.go — structure-aware mutations of valid encodings.

import (
	"verif/harness/c13"
	"verif/harness/common"
)

// lenField is the position of one L field inside an encoding.
type lenField struct {
	off, size int    // offset and size of the L encoding
	val       uint64 // current value
	remaining int    // bytes after the L field up to the end of the buffer
	depth     int
	valOff    int
}

// findLengths discovers every length field: top-level TLVs and, recursively, the TLVs inside any
// value that itself splits exactly into TLVs (nested structures, names).
func findLengths(b []byte, base, depth int, out *[]lenField, typs *[][2]int) {
	pos := 0
	for pos < len(b) {
		t, p1, ok := readTL(b, pos)
		if !ok {
			return
		}
		l, p2, ok := readTL(b, p1)
		if !ok || l > uint64(len(b)-p2) {
			return
		}
		_ = t
		*typs = append(*typs, [2]int{base + pos, p1 - pos})
		*out = append(*out, lenField{off: base + p1, size: p2 - p1, val: l, remaining: len(b) - p2, depth: depth, valOff: base + p2})
		val := b[p2 : p2+int(l)]
		if depth < 6 && len(val) >= 2 && splitsExactly(val) {
			findLengths(val, base+p2, depth+1, out, typs)
		}
		pos = p2 + int(l)
	}
}

func splitsExactly(b []byte) bool {
	pos := 0
	for pos < len(b) {
		_, p1, ok := readTL(b, pos)
		if !ok {
			return false
		}
		l, p2, ok := readTL(b, p1)
		if !ok || l > uint64(len(b)-p2) {
			return false
		}
		pos = p2 + int(l)
	}
	return true
}

func readTL(b []byte, pos int) (uint64, int, bool) {
	if pos >= len(b) {
		return 0, 0, false
	}
	switch x := b[pos]; {
	case x <= 0xfc:
		return uint64(x), pos + 1, true
	case x == 0xfd:
		if pos+3 > len(b) {
			return 0, 0, false
		}
		return uint64(b[pos+1])<<8 | uint64(b[pos+2]), pos + 3, true
	case x == 0xfe:
		if pos+5 > len(b) {
			return 0, 0, false
		}
		v := uint64(0)
		for i := 1; i <= 4; i++ {
			v = v<<8 | uint64(b[pos+i])
		}
		return v, pos + 5, true
	default:
		if pos+9 > len(b) {
			return 0, 0, false
		}
		v := uint64(0)
		for i := 1; i <= 8; i++ {
			v = v<<8 | uint64(b[pos+i])
		}
		return v, pos + 9, true
	}
}

func splice(b []byte, off, size int, repl []byte) []byte {
	out := make([]byte, 0, len(b)+len(repl))
	out = append(out, b[:off]...)
	out = append(out, repl...)
	return append(out, b[off+size:]...)
}

// nonMinimal encodes x in a given (possibly over-long) TL form: 1, 3, 5 or 9 bytes.
func encTLForm(x uint64, form int) []byte {
	switch form {
	case 1:
		return []byte{byte(x)}
	case 3:
		return []byte{0xfd, byte(x >> 8), byte(x)}
	case 5:
		return []byte{0xfe, byte(x >> 24), byte(x >> 16), byte(x >> 8), byte(x)}
	default:
		return []byte{0xff, byte(x >> 56), byte(x >> 48), byte(x >> 40), byte(x >> 32), byte(x >> 24), byte(x >> 16), byte(x >> 8), byte(x)}
	}
}

// lengthValues: boundary and huge values for a length field.
func lengthValues(lf lenField, thorough bool) []uint64 {
	rem := uint64(lf.remaining)
	max := ^uint64(0)
	vs := []uint64{0, 1, lf.val - 1, lf.val + 1, rem, rem + 1, rem - 1, 0xfc, 0xfd, 0xff, 0x100, 0xffff, 0x10000,
		1 << 20, 0xffffffff, 0x100000000, 1<<63 - 1, 1 << 63, 1<<63 + 1, max, max - 1, max - uint64(lf.size),
		max - uint64(lf.valOff) + 1, max - uint64(lf.valOff) + 2, 1<<63 - uint64(lf.valOff), 1<<63 - uint64(lf.valOff) - 1}
	if thorough {
		vs = append(vs, 1<<31, 1<<40, 1<<47, 1<<48, 1<<62)
	}
	return vs
}

// consistentTruncations cuts b after the T, after the TL, and inside the V of EVERY (nested) element and
// repairs all enclosing length fields, so that every outer TLV stays self-consistent and only the
// last element is short by itself.
func consistentTruncations(b []byte) [][]byte {
	var lfs []lenField
	var typs [][2]int
	findLengths(b, 0, 0, &lfs, &typs)
	seen := map[string]bool{}
	var out [][]byte
	for _, lf := range lfs {
		cuts := []int{lf.off, lf.valOff}
		if lf.val >= 1 {
			cuts = append(cuts, lf.valOff+int(lf.val)-1)
		}
		if lf.val >= 4 {
			cuts = append(cuts, lf.valOff+int(lf.val)/2)
		}
		for _, c := range cuts {
			nb := cutRepair(b, c)
			if nb != nil && !seen[string(nb)] {
				seen[string(nb)] = true
				out = append(out, nb)
			}
		}
	}
	return out
}

// cutRepair keeps b[:cut] and rewrites the length of every TLV that encloses the cut position.
func cutRepair(b []byte, cut int) []byte {
	pos := 0
	for pos < len(b) {
		_, p1, ok := readTL(b, pos)
		if !ok {
			return nil
		}
		l, p2, ok := readTL(b, p1)
		if !ok || l > uint64(len(b)-p2) {
			return nil
		}
		end := p2 + int(l)
		if cut >= end {
			pos = end
			continue
		}
		// the cut falls into this element
		out := append([]byte{}, b[:pos]...)
		if cut <= p2 {
			return append(out, b[pos:cut]...) // short by itself: only (part of) its header is left
		}
		val := b[p2:end]
		if len(val) >= 2 && splitsExactly(val) {
			inner := cutRepair(val, cut-p2)
			if inner == nil {
				return nil
			}
			out = append(out, b[pos:p1]...)
			out = append(out, c13.EncTL(uint64(len(inner)))...)
			return append(out, inner...)
		}
		return append(out, b[pos:cut]...) // leaf element: short by itself
	}
	return append([]byte{}, b[:cut]...)
}

type mutation struct {
	kind string
	b    []byte
}

// mutations produces the structure-aware mutation set of one valid encoding.
func mutations(r *common.Rand, b []byte, knownTypes []uint64, thorough bool) []mutation {
	var out []mutation
	add := func(kind string, nb []byte) { out = append(out, mutation{kind, nb}) }
	add("valid", b)
	var lfs []lenField
	var typs [][2]int
	findLengths(b, 0, 0, &lfs, &typs)
	// every length field <- boundary / huge values (cap the number of fields for big inputs)
	stepL := 1
	maxL := 12
	if thorough {
		maxL = 64
	}
	if len(lfs) > maxL {
		stepL = (len(lfs) + maxL - 1) / maxL
	}
	for i := r.Intn(stepL); i < len(lfs); i += stepL {
		lf := lfs[i]
		for _, v := range lengthValues(lf, thorough) {
			add("length", splice(b, lf.off, lf.size, c13.EncTL(v)))
		}
		// over-long forms of the same value
		for _, form := range []int{3, 5, 9} {
			if form > lf.size {
				add("length-form", splice(b, lf.off, lf.size, encTLForm(lf.val, form)))
			}
		}
		// nested-length disagreement: inner length grows, outer stays (and the reverse)
		if lf.depth > 0 {
			add("nested-len", splice(b, lf.off, lf.size, c13.EncTL(lf.val+uint64(1+r.Intn(4)))))
		} else if lf.val > 0 {
			add("nested-len", splice(b, lf.off, lf.size, c13.EncTL(lf.val-uint64(1+r.Intn(int(min(lf.val, 4)))))))
		}
	}
	// truncation at every offset (capped)
	stepT := 1
	maxT := 48
	if thorough {
		maxT = 400
	}
	if len(b) > maxT {
		stepT = (len(b) + maxT - 1) / maxT
	}
	for n := r.Intn(stepT); n < len(b); n += stepT {
		add("trunc", append([]byte{}, b[:n]...))
	}
	// type confusion: replace a T by another type of the same or of any model / by boundary types
	for i := 0; i < len(typs) && i < 24; i++ {
		t := typs[(i*7+r.Intn(7))%len(typs)]
		var nt uint64
		switch r.Intn(4) {
		case 0:
			nt = common.Pick(r, []uint64{0, 1, 2, 7, 8, 31, 32, 0xfc, 0xfd, 0xffff, 0x10000, 1<<32 - 1, 1 << 32, ^uint64(0)})
		default:
			nt = common.Pick(r, knownTypes)
		}
		add("type", splice(b, t[0], t[1], c13.EncTL(nt)))
	}
	// backward skip: an unknown non-critical element whose length is the negative of its own header size
	// (Skip(int(l)) would land on the element again), and neighbours of that value
	for i := 0; i < len(lfs) && i < 6; i++ {
		lf := lfs[(i*5+r.Intn(5))%len(lfs)]
		t := typs[0]
		for _, tt := range typs {
			if tt[0]+tt[1] == lf.off {
				t = tt
			}
		}
		for _, back := range []uint64{10, 9, 11, uint64(10 + t[0]), 1, 2, 20} {
			nb := splice(b, lf.off, lf.size, c13.EncTL(^uint64(0)-back+1))
			nb = splice(nb, t[0], t[1], []byte{0xf0})
			add("skipback", nb)
		}
	}
	// byte-level noise
	for i := 0; i < 6 && len(b) > 0; i++ {
		nb := append([]byte{}, b...)
		nb[r.Intn(len(nb))] ^= 1 << uint(r.Intn(8))
		add("bitflip", nb)
	}
	for i := 0; i < 3; i++ {
		add("random", r.Bytes(r.Intn(24)))
	}
	// duplication / concatenation
	add("double", append(append([]byte{}, b...), b...))
	return out
}
