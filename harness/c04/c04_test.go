package c04

// C04 correspondence harness: no byte sequence crashes or exhausts a decoder or the receive path.
//
//   new dec <pkg.Model>          p <ic> <hex> <cuts|->      => ok | err | PANIC … | ALLOC <bytes> | TIMEOUT
//   new pkt                      rp <hex> <cuts|->          => ok | err | PANIC … | ALLOC … | TIMEOUT   (spec_2022.ReadPacket)
//   new link <threads> <reasm>   frame <hex>                => i=<n> d=<n>:<threads> store=<entries>/<slots>/<bytes> cnt=<nInInterests>/<nInData>
//   new stream                   st <chunk,chunk,…>         => frames=<len,len,…> <nil|err|eof> reads=<n>
//   new disp <threads>           tok <hex>                  => thread=<i> | drop
//
// <cuts> = ascending absolute offsets; equal neighbours give an EMPTY segment (WireReader).

import (
	"errors"
	"fmt"
	"io"
	"os"
	"runtime"
	"sort"
	"strconv"
	"strings"
	"testing"
	"time"

	"github.com/named-data/ndnd/fw/core"
	"github.com/named-data/ndnd/fw/defn"
	"github.com/named-data/ndnd/fw/dispatch"
	"github.com/named-data/ndnd/fw/face"
	"github.com/named-data/ndnd/fw/fw"
	enc "github.com/named-data/ndnd/std/encoding"
	spec "github.com/named-data/ndnd/std/ndn/spec_2022"
	"verif/harness/c13"
	"verif/harness/common"
)

// ---------------------------------------------------------------- guarded execution

const allocSlack = 64*1024 + 8192

// guarded runs f under recover, an allocation budget (runtime.MemStats.TotalAlloc delta, linear
// in the input size) and a watchdog.
func guarded(inputLen int, f func() string) string {
	done := make(chan string, 1)
	go func() {
		defer func() {
			if r := recover(); r != nil {
				done <- "PANIC " + strings.SplitN(fmt.Sprint(r), "\n", 2)[0]
			}
		}()
		var m0, m1 runtime.MemStats
		runtime.ReadMemStats(&m0)
		out := f()
		runtime.ReadMemStats(&m1)
		if d := m1.TotalAlloc - m0.TotalAlloc; d > uint64(64*inputLen+allocSlack) {
			out = fmt.Sprintf("ALLOC %d", d)
		}
		done <- out
	}()
	select {
	case out := <-done:
		return out
	case <-time.After(5 * time.Second):
		// the call is still running (a spin): it cannot be stopped, so the process ends here; the driver
		// records the pending operation as CRASH with this message
		fmt.Fprintln(os.Stderr, "fatal error: watchdog timeout (call did not return within 5s)")
		os.Exit(3)
		return "TIMEOUT"
	}
}

func splitCuts(b []byte, spec string) enc.Wire {
	var w enc.Wire
	prev := 0
	for _, c := range c13.ParseCuts(spec) {
		if c < prev {
			c = prev
		}
		if c > len(b) {
			c = len(b)
		}
		w = append(w, b[prev:c])
		prev = c
	}
	return append(w, b[prev:])
}

func reader(b []byte, cuts string) enc.ParseReader {
	if cuts == "-" {
		return enc.NewBufferReader(b)
	}
	return enc.NewWireReader(splitCuts(b, cuts))
}

// ---------------------------------------------------------------- generator

func knownTypes() []uint64 {
	var out []uint64
	for t := range c13.UsedTypes() {
		out = append(out, t)
	}
	sort.Slice(out, func(i, j int) bool { return out[i] < out[j] })
	return out
}

func safeEncode(m *c13.Model, v *c13.V) (b []byte) {
	defer func() {
		if recover() != nil {
			b = nil
		}
	}()
	p := m.Build(v)
	return m.Encode(m.NewEncoder(p), p).Join()
}

func cutsFor(r *common.Rand, n int) string {
	if n == 0 {
		return "0"
	}
	switch r.Intn(6) {
	case 0:
		return strconv.Itoa(r.Intn(n + 1))
	case 1: // an empty segment in the middle
		c := r.Intn(n + 1)
		return fmt.Sprintf("%d,%d", c, c)
	case 2: // one byte per segment at the start
		return "1,2,3"
	case 3: // dense: segments of 1..3 bytes over (the first part of) the input, sometimes with an empty one
		k := r.Range(1, 3)
		var cs []string
		for c := k; c < n && len(cs) < 48; c += k {
			cs = append(cs, strconv.Itoa(c))
			if len(cs) == 2 && r.Chance(1, 3) {
				cs = append(cs, strconv.Itoa(c))
			}
		}
		if len(cs) == 0 {
			return "0"
		}
		return strings.Join(cs, ",")
	default:
		a, b := r.Intn(n+1), r.Intn(n+1)
		if a > b {
			a, b = b, a
		}
		return fmt.Sprintf("%d,%d", a, b)
	}
}

func gen(g *common.Gen) {
	thorough := common.Thorough()
	kt := knownTypes()
	var packets [][]byte // valid Interest / Data / LpPacket encodings for the link part
	var minimalPackets [][]byte
	var cutPackets [][]byte // consistently truncated minimal packets
	// ---- part A: every generated decoder; g.N = values per model
	for _, m := range c13.Models {
		if !m.Exported {
			continue
		}
		for i := 0; i < g.N; i++ {
			r := g.R.Fork()
			v := m.GenValue(r, 0)
			b := safeEncode(m, v)
			if b == nil {
				g.Stat("encode-failed")
				continue
			}
			if m.Key() == "spec_2022.Packet" && len(b) > 0 && len(b) < 2000 {
				packets = append(packets, b)
			}
			g.Op("new dec %s", m.Key())
			g.Stat("dec-history")
			for _, mu := range mutations(r, b, kt, thorough) {
				ic := r.Intn(2)
				h := common.Hex(mu.b)
				g.Op("p %d %s -", ic, h)
				g.Op("p %d %s %s", ic, h, cutsFor(r, len(mu.b)))
				g.Stat("mut-" + mu.kind)
				g.StatN("inputs", 2)
			}
		}
	}
	// ---- part A2: the systematic family of minimal well-formed values of every model: the valid
	// encoding through both readers, every truncation, and a sample of the mutations
	for _, m := range c13.Models {
		if !m.Exported {
			continue
		}
		r := g.R.Fork()
		g.Op("new dec %s", m.Key())
		g.Stat("dec-history")
		seenEnc := map[string]bool{}
		for _, v := range m.MinimalValues(0) {
			b := safeEncode(m, v)
			if b == nil {
				g.Stat("encode-failed")
				continue
			}
			g.Stat("minimal-value")
			if m.Key() == "spec_2022.Packet" && len(b) > 0 {
				minimalPackets = append(minimalPackets, b)
			}
			if !seenEnc[string(b)] {
				seenEnc[string(b)] = true
				// consistent truncation at every element boundary (deterministic, all of them)
				for _, nb := range consistentTruncations(b) {
					h := common.Hex(nb)
					g.Op("p %d %s -", r.Intn(2), h)
					if r.Chance(1, 2) {
						g.Op("p %d %s %s", r.Intn(2), h, cutsFor(r, len(nb)))
					}
					g.Stat("mut-cut-repair")
					g.StatN("inputs", 1)
					if m.Key() == "spec_2022.Packet" && len(nb) > 0 {
						cutPackets = append(cutPackets, nb)
					}
				}
			}
			ms := mutations(r, b, kt, thorough)
			keep := 10
			if thorough {
				keep = 40
			}
			if keep > len(ms) {
				keep = len(ms)
			}
			for j := 0; j < keep; j++ {
				mu := ms[j]
				if j > 0 && len(ms) > keep {
					mu = ms[1+r.Intn(len(ms)-1)]
				}
				h := common.Hex(mu.b)
				g.Op("p %d %s -", r.Intn(2), h)
				g.Op("p %d %s %s", r.Intn(2), h, cutsFor(r, len(mu.b)))
				g.StatN("inputs", 2)
			}
		}
	}
	packets = append(minimalPackets, packets...)
	// ---- part B: ReadPacket on mutated packets
	for i, b := range packets {
		r := g.R.Fork()
		g.Op("new pkt")
		// every packet as it is, through both readers; the full mutation set for a sample only
		h0 := common.Hex(b)
		g.Op("rp %s -", h0)
		g.Op("rp %s %s", h0, cutsFor(r, len(b)))
		g.StatN("inputs", 2)
		g.Stat("rp-packet")
		if i%16 != 0 && !thorough && i < len(minimalPackets) {
			continue
		}
		if i >= len(minimalPackets)+4*g.N+8 {
			continue
		}
		for _, mu := range mutations(r, b, kt, thorough) {
			h := common.Hex(mu.b)
			g.Op("rp %s -", h)
			g.Op("rp %s %s", h, cutsFor(r, len(mu.b)))
			g.StatN("inputs", 2)
			g.Stat("rp-" + mu.kind)
		}
	}
	// consistently truncated packets through ReadPacket (both readers)
	if len(cutPackets) > 0 {
		r := g.R.Fork()
		g.Op("new pkt")
		for _, b := range cutPackets {
			h := common.Hex(b)
			g.Op("rp %s -", h)
			g.Op("rp %s %s", h, cutsFor(r, len(b)))
			g.Stat("rp-cut-repair")
			g.StatN("inputs", 2)
		}
	}
	genLink(g, packets)
	genLinkCut(g, cutPackets)
	genUDP(g, packets)
}

// ---------------------------------------------------------------- exec

var cur *c13.Model
var mode string

func execOp(op string) string {
	f := common.Fields(op)
	if f[0] == "new" {
		mode, cur = f[1], nil
		switch f[1] {
		case "dec":
			cur = c13.Lookup(f[2])
			if cur == nil || !cur.Exported {
				mode = ""
				return "skip"
			}
			return "ok"
		case "pkt":
			return "ok"
		case "link":
			return newLink(common.Atoi(f[2]), f[3] == "1")
		case "stream":
			return "ok"
		case "disp":
			return newDisp(common.Atoi(f[2]))
		case "udp":
			return newUDP()
		case "udpl":
			return newUDPL()
		}
		return "bad-op"
	}
	switch {
	case f[0] == "p" && mode == "dec":
		b := common.UnHex(f[2])
		m := cur
		return guarded(len(b), func() string {
			v, err := m.Parse(reader(b, f[3]), f[1] == "1")
			if err != nil || v == nil {
				return "err"
			}
			if f[3] != "-" {
				// a segmented decode that succeeds must give the value the contiguous decode gives
				if v2, err2 := m.Parse(enc.NewBufferReader(b), f[1] == "1"); err2 == nil && v2 != nil && m.Read(v).Text() != m.Read(v2).Text() {
					return "MISMATCH"
				}
			}
			return "ok"
		})
	case f[0] == "rp" && mode == "pkt":
		b := common.UnHex(f[1])
		return guarded(len(b), func() string {
			_, _, err := spec.ReadPacket(reader(b, f[2]))
			if err != nil {
				return "err"
			}
			return "ok"
		})
	case f[0] == "frame" && mode == "link":
		return linkFrame(common.UnHex(f[1]))
	case f[0] == "soak" && mode == "link":
		return linkSoak(common.Atoi(f[1]))
	case f[0] == "st" && mode == "stream":
		return runStream(f[1])
	case f[0] == "tok" && mode == "disp":
		return dispToken(common.UnHex(f[1]))
	case f[0] == "persist" && mode == "udp":
		return udpPersist(common.Atoi(f[1]))
	case f[0] == "dgram" && mode == "udp":
		return udpDgram(common.UnHex(f[1]))
	case f[0] == "first" && mode == "udpl":
		return udplFirst(common.UnHex(f[1]))
	}
	return "skip"
}

func TestVerif(t *testing.T) {
	_ = core.LogError
	common.Main(t, gen, execOp)
}

var _ = errors.New
var _ = io.EOF
var _ = defn.MaxNDNPacketSize
var _ = dispatch.GetFWThread
var _ = face.MakeNullTransport
var _ = fw.MaxFwThreads
