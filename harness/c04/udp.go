package c04

// udp.go — the REAL UnicastUDPTransport receive loop (runReceive, its onFrame closure, readTlvStream and
// the link service behind it) over a loopback UDP socket pair; management-style updates of the face
// (SetPersistency / SetMTU) are applied between datagrams.
//
//   new udp                    => ok | skip
//   persist <0|1|2>            => ok          (faces/update FacePersistency: persistent / on-demand / permanent)
//   dgram <hex>                => in=<bytes the transport accounted for this datagram>

import (
	"fmt"
	"net"
	"time"

	"github.com/named-data/ndnd/fw/defn"
	"github.com/named-data/ndnd/fw/face"
	ndnlog "github.com/named-data/ndnd/std/log"
	"verif/harness/common"
)

var udpPeer *net.UDPConn
var udpLS *face.NDNLPLinkService
var udpTo *net.UDPAddr

func closeUDP() {
	if udpLS != nil {
		udpLS.Close()
		udpLS = nil
	}
	if udpPeer != nil {
		udpPeer.Close()
		udpPeer = nil
	}
}

func newUDP() string {
	ndnlog.SetLevel(ndnlog.FatalLevel)
	closeUDP()
	setThreads(2)
	peer, err := net.ListenUDP("udp4", &net.UDPAddr{IP: net.IPv4(127, 0, 0, 1), Port: 0})
	if err != nil {
		return "skip"
	}
	face.UDPUnicastPort = 0 // let the transport bind an ephemeral local port
	remote := defn.MakeUDPFaceURI(4, "127.0.0.1", uint16(peer.LocalAddr().(*net.UDPAddr).Port))
	tr, err := face.MakeUnicastUDPTransport(remote, nil, face.PersistencyPersistent)
	if err != nil {
		peer.Close()
		return "skip"
	}
	ls := face.MakeNDNLPLinkService(tr, face.MakeNDNLPLinkServiceOptions())
	ls.Run(nil) // starts the transport's own receive goroutine (a panic there ends the process)
	to, err := net.ResolveUDPAddr("udp4", fmt.Sprintf("127.0.0.1:%d", ls.LocalURI().Port()))
	if err != nil {
		return "skip"
	}
	udpPeer, udpLS, udpTo = peer, ls, to
	return "ok"
}

func udpPersist(p int) string {
	if udpLS == nil {
		return "skip"
	}
	udpLS.SetPersistency(face.Persistency(p))
	return "ok"
}

func udpDgram(b []byte) string {
	if udpLS == nil {
		return "skip"
	}
	before := udpLS.NInBytes()
	if _, err := udpPeer.WriteToUDP(b, udpTo); err != nil {
		return "skip"
	}
	deadline := time.Now().Add(time.Second)
	for time.Now().Before(deadline) {
		if udpLS.NInBytes()-before >= uint64(len(b)) {
			break
		}
		time.Sleep(200 * time.Microsecond)
	}
	return fmt.Sprintf("in=%d", udpLS.NInBytes()-before)
}

func genUDP(g *common.Gen, packets [][]byte) {
	pkts := [][]byte{simpleInterest("a"), simpleData("a", []byte("x"))}
	for i, p := range packets {
		if i%9 == 0 && len(p) > 1 && len(p) < 1400 && len(pkts) < 12 {
			pkts = append(pkts, p)
		}
	}
	// every persistency update (also "the same value"), before / between / after datagrams
	for _, seq := range [][]int{{-1}, {0}, {1}, {2}, {1, 0}, {0, 1}, {2, 1, 2}} {
		r := g.R.Fork()
		g.Op("new udp")
		g.Stat("udp-history")
		g.Op("dgram %s", common.Hex(common.Pick(r, pkts)))
		for _, p := range seq {
			if p >= 0 {
				g.Op("persist %d", p)
			}
			for k := 0; k < 2; k++ {
				g.Op("dgram %s", common.Hex(common.Pick(r, pkts)))
				g.Stat("udp-dgram")
			}
		}
	}
}
