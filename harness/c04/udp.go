package c04

// udp.go — the REAL UnicastUDPTransport receive loop (runReceive, its onFrame closure, readTlvStream and
// the link service behind it) over a loopback UDP socket pair; management-style updates of the face
// (SetPersistency / SetMTU) are applied between datagrams.
//
//   new udp                    => ok | skip
//   persist <0|1|2>            => ok          (faces/update FacePersistency: persistent / on-demand / permanent)
//   dgram <hex>                => in=<bytes the transport accounted for this datagram>

import (
	"fmt"
	"net"
	"time"

	"github.com/named-data/ndnd/fw/defn"
	"github.com/named-data/ndnd/fw/face"
	ndnlog "github.com/named-data/ndnd/std/log"
	"verif/harness/common"
)

var udpPeer *net.UDPConn
var udpLS *face.NDNLPLinkService
var udpTo *net.UDPAddr

// ---------------------------------------------------------------- the UDP listener
//
//   new udpl                   the REAL UDPListener on a loopback port                 => ok | skip
//   first <hex>                <hex> is the FIRST datagram of a new remote endpoint (a fresh socket of the
//                              harness): the listener makes an on-demand face for it and hands it the
//                              datagram as its initial frame                          => faces=+<n>

var udpListener *face.UDPListener
var udpListenAddr *net.UDPAddr
var udplFaces []face.LinkService

func closeUDPL() {
	if udpListener != nil {
		udpListener.Close()
		udpListener = nil
	}
	for _, f := range udplFaces {
		f.Close()
	}
	udplFaces = nil
}

func newUDPL() string {
	ndnlog.SetLevel(ndnlog.FatalLevel)
	closeUDP()
	closeUDPL()
	setThreads(2)
	probe, err := net.ListenUDP("udp4", &net.UDPAddr{IP: net.IPv4(127, 0, 0, 1), Port: 0})
	if err != nil {
		return "skip"
	}
	port := probe.LocalAddr().(*net.UDPAddr).Port
	probe.Close()
	face.UDPUnicastPort = uint16(port)
	l, err := face.MakeUDPListener(defn.MakeUDPFaceURI(4, "127.0.0.1", uint16(port)))
	if err != nil {
		return "skip"
	}
	go l.Run() // a panic in the accept loop ends the process
	udpListener, udpListenAddr = l, &net.UDPAddr{IP: net.IPv4(127, 0, 0, 1), Port: port}
	// wait until the listener has bound its socket: a plain bind of the same port must fail
	for i := 0; i < 4000; i++ {
		t, err := net.ListenUDP("udp4", udpListenAddr)
		if err != nil {
			break
		}
		t.Close()
		time.Sleep(500 * time.Microsecond)
	}
	return "ok"
}

func udplFirst(b []byte) string {
	if udpListener == nil {
		return "skip"
	}
	before := map[uint64]bool{}
	for _, f := range face.FaceTable.GetAll() {
		before[f.FaceID()] = true
	}
	c, err := net.DialUDP("udp4", nil, udpListenAddr)
	if err != nil {
		return "skip"
	}
	defer c.Close()
	if _, err := c.Write(b); err != nil {
		return "skip"
	}
	n := 0
	deadline := time.Now().Add(2 * time.Second)
	for n == 0 && time.Now().Before(deadline) {
		time.Sleep(500 * time.Microsecond)
		for _, f := range face.FaceTable.GetAll() {
			if !before[f.FaceID()] {
				before[f.FaceID()] = true
				udplFaces = append(udplFaces, f)
				n++
			}
		}
	}
	time.Sleep(2 * time.Millisecond) // the initial frame is handled on the listener's goroutine right after
	return fmt.Sprintf("faces=+%d", n)
}

func closeUDP() {
	if udpLS != nil {
		udpLS.Close()
		udpLS = nil
	}
	if udpPeer != nil {
		udpPeer.Close()
		udpPeer = nil
	}
}

func newUDP() string {
	ndnlog.SetLevel(ndnlog.FatalLevel)
	closeUDP()
	setThreads(2)
	peer, err := net.ListenUDP("udp4", &net.UDPAddr{IP: net.IPv4(127, 0, 0, 1), Port: 0})
	if err != nil {
		return "skip"
	}
	face.UDPUnicastPort = 0 // let the transport bind an ephemeral local port
	remote := defn.MakeUDPFaceURI(4, "127.0.0.1", uint16(peer.LocalAddr().(*net.UDPAddr).Port))
	tr, err := face.MakeUnicastUDPTransport(remote, nil, face.PersistencyPersistent)
	if err != nil {
		peer.Close()
		return "skip"
	}
	ls := face.MakeNDNLPLinkService(tr, face.MakeNDNLPLinkServiceOptions())
	ls.Run(nil) // starts the transport's own receive goroutine (a panic there ends the process)
	to, err := net.ResolveUDPAddr("udp4", fmt.Sprintf("127.0.0.1:%d", ls.LocalURI().Port()))
	if err != nil {
		return "skip"
	}
	udpPeer, udpLS, udpTo = peer, ls, to
	return "ok"
}

func udpPersist(p int) string {
	if udpLS == nil {
		return "skip"
	}
	udpLS.SetPersistency(face.Persistency(p))
	return "ok"
}

func udpDgram(b []byte) string {
	if udpLS == nil {
		return "skip"
	}
	before := udpLS.NInBytes()
	if _, err := udpPeer.WriteToUDP(b, udpTo); err != nil {
		return "skip"
	}
	deadline := time.Now().Add(time.Second)
	for time.Now().Before(deadline) {
		if udpLS.NInBytes()-before >= uint64(len(b)) {
			break
		}
		time.Sleep(200 * time.Microsecond)
	}
	return fmt.Sprintf("in=%d", udpLS.NInBytes()-before)
}

func genUDP(g *common.Gen, packets [][]byte) {
	pkts := [][]byte{simpleInterest("a"), simpleData("a", []byte("x"))}
	for i, p := range packets {
		if i%9 == 0 && len(p) > 1 && len(p) < 1400 && len(pkts) < 12 {
			pkts = append(pkts, p)
		}
	}
	// first datagrams of new endpoints at the real listener: empty, one octet, truncated, garbage, valid
	{
		r := g.R.Fork()
		g.Op("new udpl")
		g.Stat("udpl-history")
		firsts := [][]byte{{}, {0x05}, {0x64}, {0x00}, {0xff, 0xff}, simpleInterest("a")[:3], simpleInterest("a"), simpleData("a", []byte("x")),
			lpFrame(nil, nil, nil, nil, simpleInterest("b"))}
		for _, f := range firsts {
			g.Op("first %s", hexOrDash(f))
			g.Stat("udpl-first")
		}
		for k := 0; k < 4; k++ {
			g.Op("first %s", hexOrDash(common.Pick(r, pkts)))
			g.Stat("udpl-first")
		}
	}
	// every persistency update (also "the same value"), before / between / after datagrams
	for _, seq := range [][]int{{-1}, {0}, {1}, {2}, {1, 0}, {0, 1}, {2, 1, 2}} {
		r := g.R.Fork()
		g.Op("new udp")
		g.Stat("udp-history")
		g.Op("dgram %s", common.Hex(common.Pick(r, pkts)))
		for _, p := range seq {
			if p >= 0 {
				g.Op("persist %d", p)
			}
			for k := 0; k < 2; k++ {
				g.Op("dgram %s", common.Hex(common.Pick(r, pkts)))
				g.Stat("udp-dgram")
			}
		}
	}
}

func hexOrDash(b []byte) string {
	if len(b) == 0 {
		return "-"
	}
	return common.Hex(b)
}
