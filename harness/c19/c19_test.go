//go:build verif

// C19 correspondence harness. Two kinds of histories, both against REAL dv.Router tables around a
// harness ndn.Engine whose ExecMgmtCmd records what the nfdc thread drains from the command queue.
//
// (A) installer histories — one router (index 0) with n-1 remote router names:
//
//	new fib <n>                          => ok <hash0> ... <hash(n-1)>
//	ping <w> <face> <act>                neighbor w seen on face (act=1 active / 0 passive sync)
//	adv <w> <d:nh:c:o;...|->             advertisement of neighbor w is processed (ribUpdate)
//	advrace <w> <entries>                advertisement accepted, neighbor dies, then ribUpdate runs
//	dead <w>                             dead-neighbor check removes w
//	sweep <w1,w2,..>                     ONE dead-neighbor check finds all of them dead
//	papply <x> <reset> <adds|-> <rems|-> prefix op list of exit router x is applied
//	fib                                  fibUpdate
//	    => cmds=<R:name:face:cost|U:name:face,...> rib=<d:nh1:c1:nh2:c2,...> nbr=<w:face,...> pfx=<x:id.id,...>
//
// (B) prefix-log histories — publisher (index 0) and k peers:
//
//	new log <k>                          => ok <seq0>
//	ann <id> | wd <id> | burst <m>       publisher announces / withdraws / m toggles
//	    => seq=<latest> set=<ids>
//	reach <b> | unreach <b>              peer b's RIB gains (advertisement of the publisher processed) / loses
//	                                     (dead-neighbor check) its path to the publisher
//	sync <b> <off>                       a Sync Interest carrying sequence number latest-off reaches peer b's SvSync
//	pairs <b> <m>                        m times: two publisher operations, their two Sync Interests read back to back by peer b, drain
//	prestart                             the publisher restarts (real NewRouter)      => ok <seq0>
//	deliver <b> | timeout <b> | drain <b>  the peer's pending Interest is answered from the publisher's
//	                                     repo / times out / answered until nothing is pending
//	    => known=<n> latest=<n> fetching=<0|1> set=<ids> pend=<snap|seq:n|-> [steps=<n>]
//
// Names are written as ids: 0..n-1 = "<router i>/32=DV", 100.. = application prefixes (100 = "/").
package c19

import (
	fwdefn "github.com/named-data/ndnd/fw/defn"
	"fmt"
	"os"
	"sort"
	"strconv"
	"strings"
	"testing"
	"testing/synctest"
	"time"

	"github.com/named-data/ndnd/dv/config"
	"github.com/named-data/ndnd/dv/table"
	"github.com/named-data/ndnd/dv/tlv"
	enc "github.com/named-data/ndnd/std/encoding"
	"github.com/named-data/ndnd/std/ndn"
	mgmt "github.com/named-data/ndnd/std/ndn/mgmt_2022"
	spec "github.com/named-data/ndnd/std/ndn/spec_2022"
	"github.com/named-data/ndnd/std/security"
	"github.com/named-data/ndnd/std/utils"

	"verif/harness/c18/dvsim"
	"verif/harness/common"
)

// ---------------------------------------------------------------- name universe

const numApp = 7

func mustName(s string) enc.Name {
	n, err := enc.NameFromStr(s)
	if err != nil {
		panic("harness: bad name " + s)
	}
	return n
}

var appNames = []string{"/", "/app", "/app/a", "/app/b", "/app/a/x", "/other", "/verif"}

func routerName(i int) enc.Name { return mustName(dvsim.RouterName(i)) }

func pfxName(id int) enc.Name {
	if id < 100 {
		return append(routerName(id), enc.NewStringComponent(enc.TypeKeywordNameComponent, "DV"))
	}
	if id-100 < len(appNames) {
		if id == 100 {
			return enc.Name{}
		}
		return mustName(appNames[id-100])
	}
	if id >= 1000 && id < 10000 {
		return mustName(fmt.Sprintf("/big/%d", id)) // a site with thousands of prefixes
	}
	panic("harness: bad name id")
}

type universe struct {
	n      int
	rName  []enc.Name
	rHash  []uint64
	rIdx   map[uint64]int
	pfxIdx map[uint64]int
}

func newUniverse(n int) *universe {
	u := &universe{n: n, rIdx: map[uint64]int{}, pfxIdx: map[uint64]int{}}
	for i := 0; i < n; i++ {
		nm := routerName(i)
		u.rName = append(u.rName, nm)
		u.rHash = append(u.rHash, nm.Hash())
		u.rIdx[nm.Hash()] = i
		u.pfxIdx[pfxName(i).Hash()] = i
	}
	for j := 0; j < numApp; j++ {
		u.pfxIdx[pfxName(100+j).Hash()] = 100 + j
	}
	if len(u.rIdx) != n || len(u.pfxIdx) != n+numApp {
		panic("harness: name hash collision (A-hash)")
	}
	return u
}

func (u *universe) routerIdx(n enc.Name) int {
	if i, ok := u.rIdx[n.Hash()]; ok && u.rName[i].Equal(n) {
		return i
	}
	return -1
}

func (u *universe) routerIdxH(h uint64) int {
	if i, ok := u.rIdx[h]; ok {
		return i
	}
	return -1
}

func (u *universe) pfxId(n enc.Name) int {
	if i, ok := u.pfxIdx[n.Hash()]; ok && pfxName(i).Equal(n) {
		return i
	}
	if len(n) == 2 && n[0].Equal(bigComp) {
		if id, err := strconv.Atoi(string(n[1].Val)); err == nil && id >= 1000 && id < 10000 && pfxName(id).Equal(n) {
			return id
		}
	}
	return -1
}

var bigComp = enc.NewStringComponent(enc.TypeGenericNameComponent, "big")

func idxs(i int) string {
	if i < 0 {
		return "-"
	}
	return fmt.Sprint(i)
}

func dash(s string) string {
	if s == "" {
		return "-"
	}
	return s
}

// ---------------------------------------------------------------- generator

func genAdv(r *common.Rand, n int) string {
	k := r.Range(0, n)
	if r.Chance(1, 10) {
		return "-"
	}
	var items []string
	for i := 0; i < k; i++ {
		d := r.Intn(n)
		nh := r.Intn(n)
		c := r.Intn(6)
		if r.Chance(1, 6) {
			c = r.Range(13, 17)
		}
		o := c + r.Intn(4)
		if r.Chance(1, 3) {
			o = 16
		}
		if r.Chance(1, 8) {
			o = r.Range(13, 17)
		}
		items = append(items, fmt.Sprintf("%d:%d:%d:%d", d, nh, c, o))
	}
	return dash(strings.Join(items, ";"))
}

func genIds(r *common.Rand, n int, max int) string {
	k := r.Intn(max + 1)
	var ids []string
	for i := 0; i < k; i++ {
		switch {
		case r.Chance(1, 8):
			ids = append(ids, fmt.Sprint(r.Intn(n))) // collides with a router's own routing prefix
		case r.Chance(1, 2):
			ids = append(ids, fmt.Sprint(101+r.Intn(2))) // popular prefixes: multi-homed
		default:
			ids = append(ids, fmt.Sprint(100+r.Intn(numApp)))
		}
	}
	return dash(strings.Join(ids, "."))
}

func shuffledInts(r *common.Rand, n int) []int {
	p := make([]int, n)
	for i := range p {
		p[i] = i
	}
	for i := n - 1; i > 0; i-- {
		j := r.Intn(i + 1)
		p[i], p[j] = p[j], p[i]
	}
	return p
}

// a destination reachable through three neighbours on three faces, two of them tied for second best; then
// advertisements that change ONLY the neighbour holding / not holding the second-best slot (the lowest and
// second-lowest costs and the best next hop stay): the second-best face has to follow
func genSecondBestTie(g *common.Gen, r *common.Rand) {
	g.Stat("second-best-tie-episode")
	n := 5
	g.Op("new fib %d", n)
	d := 4
	c := r.Range(0, 3)
	g.Op("ping 1 1 1")
	g.Op("ping 2 2 1")
	g.Op("ping 3 3 1")
	if r.Chance(1, 2) {
		g.Op("papply %d 0 %d -", d, 100+r.Intn(numApp))
	}
	order := shuffledInts(r, 3)
	for _, i := range order {
		w := i + 1
		cost := c + 1
		if w == 1 {
			cost = c
		}
		g.Op("adv %d %d:%d:%d:16", w, d, d, cost)
	}
	// raise / restore the tied neighbours one at a time
	for round := 0; round < 2; round++ {
		for _, w := range []int{2, 3} {
			g.Op("adv %d %d:%d:%d:16", w, d, d, c+1+r.Range(1, 3))
			if r.Chance(1, 3) {
				g.Op("papply %d 0 %d -", d, 100+r.Intn(numApp))
			}
			g.Op("adv %d %d:%d:%d:16", w, d, d, c+1)
		}
	}
	g.Op("adv 2 -")
	g.Op("adv 3 %d:%d:%d:16", d, d, c+1)
	g.Op("adv 2 %d:%d:%d:16", d, d, c+1)
	g.Op("dead 3")
}

func genFib(g *common.Gen, r *common.Rand) {
	if r.Chance(1, 8) {
		genSecondBestTie(g, r)
		return
	}
	n := r.Range(2, 6)
	g.Op("new fib %d", n)
	g.Stat("fib-history")
	steps := r.Range(10, 60)
	faces := []int{1, 2, 3, 7}
	// bring a few neighbors up first so that most advertisements are accepted
	for w := 1; w < n; w++ {
		if r.Chance(3, 4) {
			g.Op("ping %d %d %d", w, common.Pick(r, faces), r.Intn(2))
			g.Stat("ping")
		}
	}
	for i := 0; i < steps; i++ {
		w := r.Range(1, n-1)
		switch x := r.Intn(100); {
		case x < 35:
			g.Op("adv %d %s", w, genAdv(r, n))
			g.Stat("adv")
		case x < 45:
			g.Op("ping %d %d %d", w, common.Pick(r, faces), r.Intn(2))
			g.Stat("ping")
		case x < 51:
			// the neighbour re-dials (possibly another face) and announces a newer advertisement in the same Sync Interest
			g.Op("pingnew %d %d %d", w, common.Pick(r, faces), r.Intn(2))
			g.Stat("pingnew")
		case x < 55:
			g.Op("dead %d", w)
			g.Stat("dead")
		case x < 58:
			k := r.Range(2, 3)
			var ws []string
			for _, i := range shuffledInts(r, n-1)[:min(k, n-1)] {
				ws = append(ws, fmt.Sprint(i+1))
			}
			g.Op("sweep %s", strings.Join(ws, ","))
			g.Stat("sweep")
		case x < 62:
			g.Op("advrace %d %s", w, genAdv(r, n))
			g.Stat("advrace")
		case x < 68:
			// a transient forwarder failure on the first registration of op 1, tables change again (op 2) before the retry
			var a, b string
			switch r.Intn(4) {
			case 0:
				a, b = fmt.Sprintf("adv %d %s", w, genAdv(r, n)), fmt.Sprintf("adv %d %s", w, genAdv(r, n))
			case 1:
				a, b = fmt.Sprintf("ping %d %d 1", w, common.Pick(r, faces)), fmt.Sprintf("ping %d %d 1", w, common.Pick(r, faces))
			case 2:
				xr, id := r.Range(1, n-1), 100+r.Intn(numApp)
				a, b = fmt.Sprintf("papply %d 0 %d -", xr, id), fmt.Sprintf("papply %d 0 - %d", xr, id)
			default:
				a, b = fmt.Sprintf("papply %d 0 %s -", r.Range(1, n-1), genIds(r, n, 2)), fmt.Sprintf("adv %d %s", w, genAdv(r, n))
			}
			g.Op("retry %s / %s", a, b)
			g.Stat("retry")
		case x < 92:
			reset := 0
			if r.Chance(1, 6) {
				reset = 1
			}
			xr := r.Intn(n)
			adds, rems := genIds(r, n, 2), "-"
			if r.Chance(1, 3) {
				adds, rems = "-", genIds(r, n, 2)
			}
			g.Op("papply %d %d %s %s", xr, reset, adds, rems)
			g.Stat("papply")
		default:
			g.Op("fib")
			g.Stat("fib")
		}
	}
}

func genLog(g *common.Gen, r *common.Rand) {
	k := r.Range(1, 3)
	g.Op("new log %d", k)
	g.Stat("log-history")
	for b := 1; b <= k; b++ {
		if r.Chance(2, 3) {
			g.Op("reach %d", b)
			g.Stat("reach")
		}
	}
	if r.Chance(1, 3) {
		// the publisher restarts soon after the peers learnt its first prefixes
		g.Stat("prestart-episode")
		for i := r.Range(2, 5); i > 0; i-- {
			g.Op("ann %d", 100+r.Intn(numApp))
		}
		for b := 1; b <= k; b++ {
			g.Op("reach %d", b)
			g.Op("sync %d 0", b)
			g.Op("drain %d", b)
		}
		g.Op("prestart")
		for i := r.Range(1, 3); i > 0; i-- {
			g.Op("ann %d", 100+r.Intn(numApp))
		}
		for b := 1; b <= k; b++ {
			g.Op("sync %d 0", b)
			g.Op("drain %d", b)
		}
	}
	steps := r.Range(8, 40)
	bursts := []int{3, 30, 99, 100, 101, 102, 130, 250}
	offs := []int{0, 0, 0, 0, 1, 2, 50, 100, 101, 150}
	for i := 0; i < steps; i++ {
		b := r.Range(1, k)
		switch x := r.Intn(100); {
		case x < 3:
			g.Op("prestart")
			g.Stat("prestart")
		case x < 8:
			g.Op("pairs %d %d", b, common.Pick(r, []int{5, 20, 40}))
			g.Stat("pairs")
		case x < 25:
			g.Op("ann %d", 100+r.Intn(numApp))
			g.Stat("ann")
		case x < 38:
			g.Op("wd %d", 100+r.Intn(numApp))
			g.Stat("wd")
		case x < 40:
			// commands that are not well-formed (and, for contrast, some that are)
			g.Op("rv %d %s %s %s", common.Pick(r, []int{6, 6, 6, 5, 7}), common.Pick(r, []string{"rib", "rib", "rib", "fib", "faces"}),
				common.Pick(r, []string{"register", "unregister", "announce", "list", "Register"}),
				common.Pick(r, []string{strconv.Itoa(100 + r.Intn(numApp)), strconv.Itoa(100 + r.Intn(numApp)), "x", "n"}))
			g.Stat("rv")
		case x < 48:
			g.Op("burst %d", common.Pick(r, bursts))
			g.Stat("burst")
		case x < 62:
			g.Op("sync %d %d", b, common.Pick(r, offs))
			g.Stat("sync")
		case x < 65:
			if r.Chance(1, 3) {
				g.Op("unreach %d", b)
				g.Stat("unreach")
			} else {
				g.Op("reach %d", b)
				g.Stat("reach")
			}
		case x < 85:
			g.Op("deliver %d", b)
			g.Stat("deliver")
		case x < 88:
			g.Op("timeout %d", b)
			g.Stat("timeout")
		case x < 91:
			// a run of lost fetches of one peer (several consecutive time-outs), then the network
			// is fine again and nothing else happens: the peer must still catch up
			g.Op("sync %d 0", b)
			for j := common.Pick(r, []int{3, 3, 4, 7}); j > 0; j-- {
				g.Op("timeout %d", b)
			}
			g.Op("drain %d", b)
			g.Stat("timeout-run")
		default:
			g.Op("drain %d", b)
			g.Stat("drain")
		}
	}
	for b := 1; b <= k; b++ {
		// the sync update may come before or after the path exists
		if r.Chance(1, 2) {
			g.Op("sync %d 0", b)
			g.Op("reach %d", b)
		} else {
			g.Op("reach %d", b)
			g.Op("sync %d 0", b)
		}
		g.Op("drain %d", b)
	}
}

// genWire: n started routers on a random connected topology; prefixes announced and withdrawn through the real
// readvertise handler, link changes and stretches of a lossy network in between; at `wquiet` every router's installed
// routes and prefix tables are examined.
func genWire(g *common.Gen, r *common.Rand) {
	n := r.Range(2, 5)
	adv := 1000 * r.Range(1, 2)
	g.Op("new wire %d %d %d", n, adv, adv*r.Range(2, 3))
	g.Stat("hist-wire")
	adj := make([][]bool, n)
	for i := range adj {
		adj[i] = make([]bool, n)
	}
	for i := 1; i < n; i++ { // a random tree, then a few extra links
		j := r.Intn(i)
		adj[i][j], adj[j][i] = true, true
		g.Op("link %d %d", j, i)
	}
	for k := r.Intn(n); k > 0; k-- {
		a, b := r.Intn(n), r.Intn(n)
		if a != b && !adj[a][b] {
			adj[a][b], adj[b][a] = true, true
			g.Op("link %d %d", a, b)
		}
	}
	run := func() {
		g.Op("wrun %d %d %d %d %d", r.Range(200, 3000), r.U64()%1000000, r.Pick3(0, 10, 30), r.Pick3(0, 10, 25), r.Pick3(0, 20, 300))
	}
	for phase := r.Range(1, 3); phase > 0; phase-- {
		for k := r.Range(1, 4); k > 0; k-- {
			switch r.Intn(6) {
			case 0, 1, 2:
				g.Op("wann %d %d", r.Intn(n), 100+r.Intn(numApp))
			case 3:
				g.Op("wwd %d %d", r.Intn(n), 100+r.Intn(numApp))
			case 4:
				a, b := r.Intn(n), r.Intn(n)
				if a != b {
					if adj[a][b] {
						g.Op("unlink %d %d", a, b)
					} else {
						g.Op("link %d %d", a, b)
					}
					adj[a][b], adj[b][a] = !adj[a][b], !adj[a][b]
				}
			}
			if r.Chance(2, 3) {
				run()
			}
		}
		g.Op("wquiet %d", r.U64()%1000000)
	}
}

func gen(g *common.Gen) {
	root := common.NewRand(dvsim.ScrambleSeed(common.Seed()))
	for i := 0; i < g.N; i++ {
		r := common.NewRand(dvsim.ScrambleSeed(root.U64()))
		if i%40 == 7 {
			genWire(g, r)
			continue
		}
		if i%60 == 14 {
			// a site with hundreds of prefixes and a peer that joins late (gap > 100: it starts from the snapshot)
			g.Op("new log 1")
			g.Stat("log-history")
			g.Stat("bulk-episode")
			g.Op("bulk %d", common.Pick(r, []int{40, 150, 400, 1200}))
			g.Op("burst %d", common.Pick(r, []int{0, 3, 101}))
			g.Op("reach 1")
			g.Op("sync 1 0")
			g.Op("drain 1")
			g.Op("ann %d", 100+r.Intn(numApp))
			g.Op("sync 1 0")
			g.Op("drain 1")
			continue
		}
		if i%3 == 2 {
			genLog(g, r)
		} else {
			genFib(g, r)
		}
	}
}

// ---------------------------------------------------------------- executor (real code)

var (
	sim  *dvsim.Sim
	kind string
	uni  *universe
	pend map[int][]dvsim.Pending // log histories: outstanding Interests per peer
	pfxSeq uint64                // installer histories: sequence numbers of delivered prefix Data
	advCnt map[int]uint64        // installer histories: advertisement number of every remote router
	advWire map[int][]byte       // ... and its current advertisement (what a fetch is answered with)
)

func parseAdv(s string) *tlv.Advertisement {
	adv := &tlv.Advertisement{}
	if s == "-" {
		return adv
	}
	for _, it := range strings.Split(s, ";") {
		f := strings.Split(it, ":")
		if len(f) != 4 {
			panic("harness: bad adv item " + it)
		}
		d, nh := common.Atoi(f[0]), common.Atoi(f[1])
		if d < 0 || d >= uni.n || nh < 0 || nh >= uni.n {
			continue
		}
		adv.Entries = append(adv.Entries, &tlv.AdvEntry{
			Destination: &tlv.Destination{Name: uni.rName[d]},
			NextHop:     &tlv.Destination{Name: uni.rName[nh]},
			Cost:        common.Atou(f[2]),
			OtherCost:   common.Atou(f[3]),
		})
	}
	return adv
}

func wireAdv(adv *tlv.Advertisement) *tlv.Advertisement {
	out, err := tlv.ParseAdvertisement(enc.NewBufferReader(adv.Encode().Join()), false)
	if err != nil {
		panic("harness: advertisement does not parse: " + err.Error())
	}
	return out
}

func parseIds(s string) []int {
	if s == "-" {
		return nil
	}
	var out []int
	for _, f := range strings.Split(s, ".") {
		id := common.Atoi(f)
		if (id >= 0 && id < uni.n) || (id >= 100 && id < 100+numApp) || (id >= 1000 && id < 10000) {
			out = append(out, id)
		}
	}
	return out
}

func isNeighborRoute(cfg *config.Config, n enc.Name) bool {
	if len(n) > 0 && n[0].Equal(config.Localhop[0]) {
		return true
	}
	return n.Equal(cfg.PrefixTableSyncPrefix())
}

func dumpFib() string { return dumpFibOf(0) }

// dumpFibOf: the commands router i's management thread has issued since the last dump, and its tables
func dumpFibOf(i int) string {
	nd := sim.Nodes[i]
	type c struct {
		id, face int
		s        string
	}
	var cs []c
	for _, m := range nd.Eng.TakeCmds() {
		if m.Module != "rib" || isNeighborRoute(nd.Cfg, m.Name) {
			continue
		}
		if sim.IsWire() && !m.HasFace {
			continue // Router.Start registers the router's own prefixes (no face: towards the application itself)
		}
		id := uni.pfxId(m.Name)
		switch {
		case id < 0:
			cs = append(cs, c{1 << 30, int(m.Face), "X:" + m.Cmd + ":" + m.Name.String()})
		case m.Cmd == "register" && m.HasFace && m.HasCost && m.Origin == config.NlsrOrigin:
			cs = append(cs, c{id, int(m.Face), fmt.Sprintf("R:%d:%d:%d", id, m.Face, m.Cost)})
		case m.Cmd == "unregister" && m.HasFace && m.Origin == config.NlsrOrigin:
			cs = append(cs, c{id, int(m.Face), fmt.Sprintf("U:%d:%d", id, m.Face)})
		default:
			cs = append(cs, c{id, int(m.Face), fmt.Sprintf("X:%s:%d", m.Cmd, id)})
		}
	}
	sort.SliceStable(cs, func(i, j int) bool {
		if cs[i].id != cs[j].id {
			return cs[i].id < cs[j].id
		}
		return cs[i].face < cs[j].face
	})
	cmds := make([]string, len(cs))
	for i := range cs {
		cmds[i] = cs[i].s
	}
	var rib []string
	for _, e := range nd.R.VerifRib().Entries() {
		nh1, c1, nh2, c2 := e.VerifSelection()
		i1, i2 := uni.routerIdxH(nh1), uni.routerIdxH(nh2)
		if c1 >= dvsim.SpecInfinity {
			i1 = -1 // which hop carries an infinite cost is not an observable
		}
		if c2 >= dvsim.SpecInfinity {
			i2 = -1
		}
		rib = append(rib, fmt.Sprintf("%s:%s:%d:%s:%d", idxs(uni.routerIdx(e.Name())), idxs(i1), c1, idxs(i2), c2))
	}
	sort.Strings(rib)
	var nbr []string
	for _, ns := range nd.R.VerifNeighbors().GetAll() {
		nbr = append(nbr, fmt.Sprintf("%s:%d", idxs(uni.routerIdx(ns.Name)), ns.VerifFaceId()))
	}
	sort.Strings(nbr)
	var pfx []string
	for x := 0; x < uni.n; x++ {
		ids := prefixIds(nd.R.VerifPfx().GetRouter(uni.rName[x]))
		if len(ids) > 0 {
			pfx = append(pfx, fmt.Sprintf("%d:%s", x, ids))
		}
	}
	return "cmds=" + dash(strings.Join(cmds, ",")) + " rib=" + dash(strings.Join(rib, ",")) +
		" nbr=" + dash(strings.Join(nbr, ",")) + " pfx=" + dash(strings.Join(pfx, ","))
}

func prefixIds(r *table.PrefixTableRouter) string {
	var ids []int
	for _, p := range r.Prefixes {
		ids = append(ids, uni.pfxId(p.Name))
	}
	sort.Ints(ids)
	s := make([]string, len(ids))
	for i, id := range ids {
		s[i] = idxs(id)
	}
	return strings.Join(s, ".")
}

func execFib(f []string) string {
	nd := sim.Nodes[0]
	switch f[0] {
	case "retry":
		// a transient failure of the forwarder hits the first route registration of the first op; the
		// second op changes the tables again before the management thread has retried it
		var ops [][]string
		cur := []string{}
		for _, t := range f[1:] {
			if t == "/" {
				ops = append(ops, cur)
				cur = []string{}
			} else {
				cur = append(cur, t)
			}
		}
		ops = append(ops, cur)
		nd.Eng.ArmFailOnce(func(c dvsim.Cmd) bool {
			return c.Module == "rib" && c.Cmd == "register" && !isNeighborRoute(nd.Cfg, c.Name)
		})
		for _, o := range ops {
			switch {
			case len(o) == 0:
			case o[0] == "ping" || o[0] == "pingnew" || o[0] == "adv" || o[0] == "papply":
				execFibInner(o)
			}
		}
		nd.Eng.ArmFailOnce(nil)
		sim.SettleIdle()
		return dumpFib()
	}
	if f[0] == "flood" {
		// exit router x announces `count` prefixes at once while the forwarder does not answer: thousands of
		// management commands pile up behind the stalled thread; none may be lost
		if len(f) != 3 {
			return "skip"
		}
		x, cnt := common.Atoi(f[1]), common.Atoi(f[2])
		if x < 0 || x >= uni.n || cnt < 1 || cnt > 4000 {
			return "skip"
		}
		ids := make([]string, cnt)
		for i := range ids {
			ids[i] = fmt.Sprint(1000 + i)
		}
		nd.Eng.Stall()
		execFibInner([]string{"papply", f[1], "0", strings.Join(ids, "."), "-"})
		nd.Eng.Release()
		sim.SettleIdle()
		return dumpFib()
	}
	if r := execFibInner(f); r == "skip" {
		return "skip"
	}
	sim.SettleIdle()
	return dumpFib()
}

// execFibInner performs one installer op without reporting; "skip" if it does not apply.
func execFibInner(f []string) string {
	nd := sim.Nodes[0]
	nt := nd.R.VerifNeighbors()
	wOf := func(s string) (int, bool) {
		w := common.Atoi(s)
		return w, w >= 1 && w < uni.n
	}
	syncW := func(w int, face uint64, act bool) {
		if advCnt[w] == 0 {
			advCnt[w] = 1
		}
		for _, p := range sim.SyncInterest(0, uni.rName[w], face, act, advCnt[w]) {
			if wire := advWire[w]; wire != nil {
				sim.ReplyAdvert(p, wire)
			}
		}
	}
	switch f[0] {
	case "ping", "pingnew":
		if len(f) != 4 {
			return "skip"
		}
		w, ok := wOf(f[1])
		face, act := common.Atou(f[2]), f[3] == "1"
		if !ok || face == 0 {
			return "skip"
		}
		if advCnt[w] == 0 {
			advCnt[w] = 1
		}
		if f[0] == "pingnew" {
			advCnt[w]++ // the neighbour announces a newer advertisement (and may have re-dialled)
		}
		syncW(w, face, act)
		return ""
	case "adv":
		if len(f) != 3 {
			return "skip"
		}
		w, ok := wOf(f[1])
		if !ok {
			return "skip"
		}
		ns := nt.Get(uni.rName[w])
		if ns == nil {
			return "skip"
		}
		if advCnt[w] == 0 {
			advCnt[w] = 1
		}
		advCnt[w]++
		advWire[w] = parseAdv(f[2]).Encode().Join()
		syncW(w, ns.VerifFaceId(), true) // announced on the face the neighbour is known on
		return ""
	case "advrace":
		w, ok := wOf(f[1])
		if !ok {
			return "skip"
		}
		ns := nt.Get(uni.rName[w])
		if ns == nil {
			return "skip"
		}
		ns.Advert = wireAdv(parseAdv(f[2])) // advertDataHandler stored it
		sim.Dead(0, uni.rName[w])           // the dead check wins the race for the router mutex
		nd.R.VerifRibUpdate(ns)             // the pending go dv.ribUpdate(ns)
		sim.Settle()
		return ""
	case "dead":
		w, ok := wOf(f[1])
		if !ok || !sim.Dead(0, uni.rName[w]) {
			return "skip"
		}
		return ""
	case "sweep":
		var names []enc.Name
		for _, ws := range strings.Split(f[1], ",") {
			w, ok := wOf(ws)
			if !ok {
				return "skip"
			}
			names = append(names, uni.rName[w])
		}
		if sim.DeadMany(0, names) == 0 {
			return "skip"
		}
		return ""
	case "papply":
		x := common.Atoi(f[1])
		if x < 0 || x >= uni.n {
			return "skip"
		}
		ops := &tlv.PrefixOpList{ExitRouter: &tlv.Destination{Name: uni.rName[x]}, PrefixOpReset: f[2] == "1"}
		for _, id := range parseIds(f[3]) {
			ops.PrefixOpAdds = append(ops.PrefixOpAdds, &tlv.PrefixOpAdd{Name: pfxName(id), Cost: 1})
		}
		for _, id := range parseIds(f[4]) {
			ops.PrefixOpRemoves = append(ops.PrefixOpRemoves, &tlv.PrefixOpRemove{Name: pfxName(id)})
		}
		// the op list arrives as prefix Data <x>/32=DV/32=PFX/seq=<n> and goes through the REAL processPrefixData
		pfxSeq++
		dname := append(uni.rName[x].Clone(),
			enc.NewStringComponent(enc.TypeKeywordNameComponent, "DV"),
			enc.NewStringComponent(enc.TypeKeywordNameComponent, "PFX"),
			enc.NewSequenceNumComponent(pfxSeq))
		sp := spec.Spec{}
		ed, err := sp.MakeData(dname, &ndn.DataConfig{ContentType: utils.IdPtr(ndn.ContentTypeBlob),
			Freshness: utils.IdPtr(time.Second)}, ops.Encode(), security.NewSha256Signer())
		if err != nil {
			panic("harness: MakeData: " + err.Error())
		}
		data, _, err := sp.ReadData(enc.NewWireReader(ed.Wire))
		if err != nil {
			panic("harness: ReadData: " + err.Error())
		}
		nd.R.VerifProcessPrefixData(data, nd.R.VerifPfx().GetRouter(uni.rName[x]))
		sim.Settle()
		return ""
	case "fib":
		nd.R.VerifFibUpdate()
		sim.Settle()
		return ""
	}
	return "bad-op"
}

// ---- prefix log

func pubRouter() *table.PrefixTableRouter {
	a := sim.Nodes[0]
	return a.R.VerifPfx().GetRouter(a.Name)
}

func dumpPub() string {
	r := pubRouter()
	return fmt.Sprintf("seq=%d set=%s", r.Latest, dash(prefixIds(r)))
}

func collect(b int) {
	pend[b] = append(pend[b], sim.Nodes[b].Eng.TakePending()...)
}

func pendText(b int) string {
	if len(pend[b]) == 0 {
		return "-"
	}
	var out []string
	for _, p := range pend[b] {
		last := p.Name[len(p.Name)-1]
		if last.Typ == enc.TypeSequenceNumNameComponent {
			out = append(out, fmt.Sprintf("seq:%d", last.NumberVal()))
		} else if last.Equal(enc.NewStringComponent(enc.TypeKeywordNameComponent, "SNAP")) && p.CanBePrefix {
			out = append(out, "snap")
		} else {
			out = append(out, "other:"+p.Name.String())
		}
	}
	return strings.Join(out, "+")
}

func dumpPeer(b int) string {
	r := sim.Nodes[b].R.VerifPfx().GetRouter(sim.Nodes[0].Name)
	fe := 0
	if r.Fetching {
		fe = 1
	}
	return fmt.Sprintf("known=%d latest=%d fetching=%d set=%s pend=%s", r.Known, r.Latest, fe, dash(prefixIds(r)), pendText(b))
}

// tooBig: size of the last Data the publisher answered with that cannot cross any face of a forwarder
// (fw/defn.MaxNDNPacketSize); 0 when the last answer fitted
var tooBig int

// answer the oldest pending Interest of peer b from the publisher's repo; false if no Data exists or the Data
// is larger than any NDN packet may be (the forwarder drops it: the Interest stays outstanding)
func deliverOne(b int) bool {
	tooBig = 0
	p := pend[b][0]
	sp := spec.Spec{}
	ei, err := sp.MakeInterest(p.Name, &ndn.InterestConfig{CanBePrefix: p.CanBePrefix, MustBeFresh: true,
		Lifetime: utils.IdPtr(4 * time.Second)}, nil, nil)
	if err != nil {
		panic("harness: MakeInterest: " + err.Error())
	}
	interest, _, err := sp.ReadInterest(enc.NewWireReader(ei.Wire))
	if err != nil {
		panic("harness: ReadInterest: " + err.Error())
	}
	var reply enc.Wire
	sim.Nodes[0].R.VerifPfx().OnDataInterest(ndn.InterestHandlerArgs{
		Interest: interest,
		Reply:    func(w enc.Wire) error { reply = w; return nil },
	})
	if reply == nil {
		return false
	}
	if n := len(reply.Join()); n > fwdefn.MaxNDNPacketSize {
		tooBig = n
		return false
	}
	data, _, err := sp.ReadData(enc.NewWireReader(reply))
	if err != nil {
		panic("harness: ReadData: " + err.Error())
	}
	pend[b] = pend[b][1:]
	p.Cb(ndn.ExpressCallbackArgs{Result: ndn.InterestResultData, Data: data, RawData: reply})
	sim.Settle()
	collect(b)
	return true
}

// readvertise hands the router the command Interest /localhost/nlsr/rib/<cmd>/<ControlParameters{Name}>/
// <params-sha256> the way the engine does for the readvertise prefix and reads the status of the
// ControlResponse it replies with; "" when the status is 200, else " status=<code>".
func readvertise(nd *dvsim.Node, cmd string, name enc.Name) string {
	params := &mgmt.ControlParameters{Val: &mgmt.ControlArgs{Name: name}}
	return readvertiseRaw(nd, 6, "rib", cmd, params.Encode().Join())
}

// readvertiseRaw: a command Interest of any shape - <comps> name components (5: no parameters digest,
// 7: one more component before the digest), module and verb as given, any bytes as the parameters
// component.
func readvertiseRaw(nd *dvsim.Node, comps int, module, cmd string, params []byte) string {
	iname := enc.Name{
		enc.NewStringComponent(enc.TypeGenericNameComponent, "localhost"),
		enc.NewStringComponent(enc.TypeGenericNameComponent, "nlsr"),
		enc.NewStringComponent(enc.TypeGenericNameComponent, module),
		enc.NewStringComponent(enc.TypeGenericNameComponent, cmd),
		enc.NewBytesComponent(enc.TypeGenericNameComponent, params),
	}
	if comps == 7 {
		iname = append(iname, enc.NewVersionComponent(1))
	}
	var app enc.Wire
	if comps != 5 {
		app = enc.Wire{} // empty ApplicationParameters: the name gets its params-sha256 component
	}
	sp := spec.Spec{}
	ei, err := sp.MakeInterest(iname, &ndn.InterestConfig{MustBeFresh: true, Lifetime: utils.IdPtr(time.Second)}, app, nil)
	if err != nil {
		panic("harness: MakeInterest: " + err.Error())
	}
	interest, _, err := sp.ReadInterest(enc.NewWireReader(ei.Wire))
	if err != nil {
		panic("harness: ReadInterest: " + err.Error())
	}
	if len(interest.Name()) != comps {
		panic("harness: readvertise command name has " + strconv.Itoa(len(interest.Name())) + " components")
	}
	var reply enc.Wire
	nd.R.VerifReadvertiseOnInterest(ndn.InterestHandlerArgs{Interest: interest, Reply: func(w enc.Wire) error {
		reply = w
		return nil
	}})
	if reply == nil {
		return " status=none"
	}
	data, _, err := sp.ReadData(enc.NewWireReader(reply))
	if err != nil {
		return " status=undecodable"
	}
	res, err := mgmt.ParseControlResponse(enc.NewWireReader(data.Content()), true)
	if err != nil || res.Val == nil {
		return " status=unparsable"
	}
	if res.Val.StatusCode != 200 {
		return " status=" + strconv.FormatUint(res.Val.StatusCode, 10)
	}
	return ""
}

func execLog(f []string) string {
	a := sim.Nodes[0]
	tooBig = 0
	bOf := func(s string) (int, bool) {
		b := common.Atoi(s)
		return b, b >= 1 && b < len(sim.Nodes)
	}
	toggle := func(id int) {
		name := pfxName(id)
		if _, ok := pubRouter().Prefixes[name.Hash()]; ok {
			a.R.VerifPfx().Withdraw(name)
		} else {
			a.R.VerifPfx().Announce(name)
		}
	}
	switch f[0] {
	case "ann", "wd":
		id := common.Atoi(f[1])
		if id < 100 || id >= 100+numApp {
			return "skip"
		}
		// through the REAL readvertiseOnInterest: the command Interest the forwarder's readvertiser sends
		st := ""
		if f[0] == "ann" {
			st = readvertise(a, "register", pfxName(id))
		} else {
			st = readvertise(a, "unregister", pfxName(id))
		}
		sim.Settle()
		return dumpPub() + st
	case "rv":
		// rv <comps> <module> <verb> <id|x|n>: any readvertise command through the real handler
		if len(f) != 5 {
			return "bad-op"
		}
		comps := common.Atoi(f[1])
		if comps != 5 && comps != 6 && comps != 7 {
			return "skip"
		}
		var params []byte
		switch f[4] {
		case "x":
			params = []byte{0xff, 0x00, 0x01}
		case "n":
			params = (&mgmt.ControlParameters{Val: &mgmt.ControlArgs{Cost: utils.IdPtr(uint64(1))}}).Encode().Join()
		default:
			id := common.Atoi(f[4])
			if id < 100 || id >= 100+numApp {
				return "skip"
			}
			params = (&mgmt.ControlParameters{Val: &mgmt.ControlArgs{Name: pfxName(id)}}).Encode().Join()
		}
		st := readvertiseRaw(a, comps, f[2], f[3], params)
		sim.Settle()
		if st != "" {
			st = " status=400"
		}
		return dumpPub() + st
	case "burst":
		m := common.Atoi(f[1])
		if m < 0 || m > 1000 {
			return "skip"
		}
		for i := 0; i < m; i++ {
			toggle(100 + (i*3)%numApp)
		}
		sim.Settle()
		return dumpPub()
	case "bulk":
		// a site announces m prefixes (/big/1000 …)
		m := common.Atoi(f[1])
		if m < 1 || m > 2000 {
			return "skip"
		}
		for i := 0; i < m; i++ {
			a.R.VerifPfx().Announce(pfxName(1000 + i))
		}
		sim.Settle()
		return dumpPub()
	case "reach", "unreach":
		b, ok := bOf(f[1])
		if !ok {
			return "skip"
		}
		if f[0] == "reach" {
			sim.Fetch(b, 0) // real advertSyncOnInterest + ribUpdate (dirty: prefixDataFetchAll)
		} else if !sim.Dead(b, a.Name) {
			return "skip"
		}
		collect(b)
		return dumpPeer(b)
	case "sync":
		b, ok := bOf(f[1])
		off := common.Atou(f[2])
		if !ok {
			return "skip"
		}
		high := pubRouter().Latest
		if off < high {
			high -= off
		}
		// the number reaches the peer in a Sync Interest of the prefix-table sync group: real SvSync ->
		// onPfxSyncUpdate -> prefixDataFetch
		sim.PrefixSyncInterest(b, a.Name, high)
		collect(b)
		return dumpPeer(b)
	case "pairs":
		// m times: the publisher performs two operations in quick succession and the two Sync Interests
		// announcing them are read back to back by the peer's SvSync; then everything outstanding is delivered
		b, ok := bOf(f[1])
		m := common.Atoi(f[2])
		if !ok || m < 1 || m > 200 {
			return "skip"
		}
		for j := 0; j < m; j++ {
			toggle(100 + (2*j*3)%numApp)
			n1 := pubRouter().Latest
			toggle(100 + ((2*j+1)*3)%numApp)
			n2 := pubRouter().Latest
			sim.PrefixSyncInterestNoSettle(b, a.Name, n1)
			sim.PrefixSyncInterestNoSettle(b, a.Name, n2)
			sim.Settle()
			collect(b)
			for steps := 0; len(pend[b]) > 0 && steps < 300; steps++ {
				if !deliverOne(b) {
					break
				}
			}
		}
		return dumpPeer(b)
	case "prestart":
		// the publisher crashes and boots again (takes a second): real NewRouter — new numbering from the
		// clock, empty prefix table, new log and repo; the peers keep what they know
		time.Sleep(time.Second)
		sim.Restart(0)
		return fmt.Sprintf("ok %d", pubRouter().Latest)
	case "deliver":
		b, ok := bOf(f[1])
		if !ok || len(pend[b]) == 0 {
			return "skip"
		}
		if !deliverOne(b) {
			if tooBig > 0 {
				return fmt.Sprintf("%s toobig=%d", dumpPeer(b), tooBig)
			}
			return "noreply " + dumpPeer(b)
		}
		return dumpPeer(b)
	case "timeout":
		b, ok := bOf(f[1])
		if !ok || len(pend[b]) == 0 {
			return "skip"
		}
		p := pend[b][0]
		pend[b] = pend[b][1:]
		p.Cb(ndn.ExpressCallbackArgs{Result: ndn.InterestResultTimeout})
		time.Sleep(150 * time.Millisecond)
		sim.Settle()
		collect(b)
		return dumpPeer(b)
	case "drain":
		b, ok := bOf(f[1])
		if !ok {
			return "skip"
		}
		steps := 0
		for len(pend[b]) > 0 && steps < 2000 {
			if !deliverOne(b) {
				break
			}
			steps++
		}
		if tooBig > 0 {
			return fmt.Sprintf("%s steps=%d toobig=%d", dumpPeer(b), steps, tooBig)
		}
		return fmt.Sprintf("%s steps=%d", dumpPeer(b), steps)
	}
	return "bad-op"
}

func exec(op string) string {
	f := common.Fields(op)
	if f[0] == "new" {
		sim.Close()
		sim, uni, pend = nil, nil, map[int][]dvsim.Pending{}
		advCnt, advWire = map[int]uint64{}, map[int][]byte{}
		if !(len(f) == 3 || (len(f) == 5 && f[1] == "wire")) {
			return "bad-op"
		}
		kind = f[1]
		switch kind {
		case "wire":
			// new wire <n> <adv ms> <dead ms>: n STARTED routers (real Router.Start), the harness is the network
			if len(f) != 5 {
				return "bad-op"
			}
			n := common.Atoi(f[2])
			if n < 2 || n > 6 {
				return "bad-op"
			}
			var err error
			if sim, err = dvsim.NewSimWire(n, common.Atou(f[3]), common.Atou(f[4])); err != nil {
				sim = nil
				return "rejected"
			}
			uni = newUniverse(n)
			wlink = make([][]bool, n)
			for i := range wlink {
				wlink[i] = make([]bool, n)
			}
			return "ok"
		case "fib":
			n := common.Atoi(f[2])
			if n < 2 || n > 9 {
				return "bad-op"
			}
			sim = dvsim.NewSim(1)
			uni = newUniverse(n)
			var sb strings.Builder
			sb.WriteString("ok")
			for _, h := range uni.rHash {
				fmt.Fprintf(&sb, " %d", h)
			}
			return sb.String()
		case "log":
			k := common.Atoi(f[2])
			if k < 1 || k > 8 {
				return "bad-op"
			}
			sim = dvsim.NewSim(1 + k)
			uni = newUniverse(1 + k)
			for b := 1; b <= k; b++ {
				sim.StartPrefixSync(b) // the peers' real prefix-table SvSync
			}
			return fmt.Sprintf("ok %d", pubRouter().Latest)
		}
		return "bad-op"
	}
	if sim == nil {
		return "skip"
	}
	if kind == "wire" {
		return execWire(f)
	}
	if kind == "fib" {
		switch f[0] {
		case "ping", "pingnew", "retry", "flood", "adv", "advrace", "dead", "sweep", "papply", "fib":
			return execFib(f)
		}
		return "skip"
	}
	switch f[0] {
	case "ann", "wd", "rv", "burst", "bulk", "sync", "pairs", "prestart", "reach", "unreach", "deliver", "timeout", "drain":
		return execLog(f)
	}
	return "skip"
}

// ---------------------------------------------------------------- wire histories (closed loop)

var wlink [][]bool

func wUp(u, w int) bool { return wlink[u][w] }

// execWire: link / unlink a b; wann / wwd x id (router x announces / withdraws application prefix id through the
// real readvertise handler); wrun ms seed loss dup delay; wquiet seed  => per router the commands issued since the
// last wquiet and its tables, " | q=<0|1>"
func execWire(f []string) string {
	n := len(sim.Nodes)
	idx := func(s string) int {
		v := common.Atoi(s)
		if v < 0 || v >= n {
			return -1
		}
		return v
	}
	switch f[0] {
	case "link", "unlink":
		if len(f) != 3 {
			return "bad-op"
		}
		a, b := idx(f[1]), idx(f[2])
		up := f[0] == "link"
		if a < 0 || b < 0 || a == b || wlink[a][b] == up {
			return "skip"
		}
		wlink[a][b], wlink[b][a] = up, up
		return "ok"
	case "wann", "wwd":
		if len(f) != 3 {
			return "bad-op"
		}
		x, id := idx(f[1]), common.Atoi(f[2])
		if x < 0 || id < 100 || id >= 100+numApp {
			return "skip"
		}
		cmd := "register"
		if f[0] == "wwd" {
			cmd = "unregister"
		}
		// at a moment when no handler goroutine of the routers is running (virtual time stands still during the op):
		// an announcement that OVERLAPS an incoming prefix-sync update runs into the Router.mutex / SvSync.mutex
		// order inversion reported in round 12 (design/_deviations.md, C19-a) - a race this harness cannot force
		// and must not hit by accident
		synctest.Wait()
		return "ok" + readvertise(sim.Nodes[x], cmd, pfxName(id))
	case "wrun":
		if len(f) != 6 {
			return "bad-op"
		}
		rr := common.NewRand(common.Atou(f[2]))
		sim.WireRun(time.Duration(common.Atoi(f[1]))*time.Millisecond, 5*time.Millisecond, wUp,
			dvsim.WireFaults{Loss: common.Atoi(f[3]), Dup: common.Atoi(f[4]), MaxDelay: time.Duration(common.Atoi(f[5])) * time.Millisecond, Rand: rr.Intn})
		return "ok"
	case "wquiet":
		if len(f) != 2 {
			return "bad-op"
		}
		rr := common.NewRand(common.Atou(f[1]))
		cfg := sim.Nodes[0].Cfg
		// long enough for every router's PERIODIC prefix-table Sync Interest (SvSync: every 30 s +- 10 %) to get through
		// once on the reliable network: an announcement whose own Sync Interests were all lost is learnt from it
		atLeast := 2*cfg.RouterDeadInterval() + 2*cfg.AdvertisementSyncInterval()
		if atLeast < 40*time.Second {
			atLeast = 40 * time.Second
		}
		q := sim.WireQuiet(atLeast, wUp, rr.Intn)
		sim.SettleIdle()
		parts := make([]string, n)
		for i := 0; i < n; i++ {
			parts[i] = fmt.Sprintf("r%d %s", i, dumpFibOf(i))
		}
		qs := "1"
		if !q {
			qs = "0"
		}
		return strings.Join(parts, " ; ") + " | q=" + qs
	}
	return "skip"
}

func TestVerif(t *testing.T) {
	if os.Getenv("VERIF_MODE") != "exec" {
		common.Main(t, gen, exec)
		return
	}
	synctest.Test(t, func(t *testing.T) {
		common.Main(t, gen, exec)
		sim.Close()
	})
}
