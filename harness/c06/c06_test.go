// Package c06: correspondence harness for property C06 (the FIB equals the flattening of the
// registered routes).  Drives two fresh instances of the real RIB (fw/table RibTable), one on top
// of a fresh name-tree FIB and one on top of a fresh hash-table FIB, with the same history of
// register / unregister / face clean-up operations, and prints the canonicalised observables:
// FindNextHopsEnc for every universe name, GetAllFIBEntries, Rib.GetAllEntries.
package c06

import (
	"fmt"
	"sort"
	"strconv"
	"strings"
	"testing"

	"github.com/named-data/ndnd/fw/face"
	"github.com/named-data/ndnd/fw/table"
	enc "github.com/named-data/ndnd/std/encoding"
	"verif/harness/common"
)

// ---------------------------------------------------------------- generator

var compPool = []enc.Component{
	enc.NewStringComponent(enc.TypeGenericNameComponent, "a"),
	enc.NewStringComponent(enc.TypeGenericNameComponent, "b"),
	enc.NewStringComponent(enc.TypeGenericNameComponent, "ab"),
	enc.NewStringComponent(enc.TypeGenericNameComponent, ""),
	{Typ: 32, Val: []byte("a")},
}

func genUniverse(r *common.Rand, size, maxDepth int) []enc.Name {
	u := []enc.Name{{}}
	seen := map[string]bool{"/": true}
	width := r.Range(2, len(compPool))
	pool := compPool
	if r.Chance(1, 4) {
		// a twin of the component "a" (slot 0) that differs in its TLV type only, by a multiple of 256 or
		// beyond 16 bits: a FIB keyed by a narrowed or packed type conflates the two prefixes while the RIB
		// (which compares components) keeps them apart
		pool = append([]enc.Component(nil), compPool...)
		typ := common.Pick(r, []uint64{264, 8 + 4096, 8 + 65280, 8 + 1<<32})
		pool[1+r.Intn(width-1)] = enc.Component{Typ: enc.TLNum(typ), Val: []byte("a")}
	}
	for tries := 0; len(u) < size && tries < size*20; tries++ {
		var base enc.Name
		if r.Chance(2, 3) {
			base = u[len(u)-1-r.Intn(min(len(u), 4))]
		} else {
			base = common.Pick(r, u)
		}
		if len(base) >= maxDepth {
			continue
		}
		n := append(base.Clone(), pool[r.Intn(width)])
		k := common.NameText(n)
		if seen[k] {
			continue
		}
		seen[k] = true
		u = append(u, n)
	}
	return u
}

var costs = []uint64{0, 1, 5, 10, 10, 77, 18446744073709551615}
var origins = []uint64{0, 65, 128, 255}

type rkey struct {
	name         string
	face, origin uint64
}

func gen(g *common.Gen) {
	// common.NewRand(seed+1) is common.NewRand(seed) advanced by one step, so the batches of the
	// thorough tier (consecutive seeds) would be shifted copies of each other; mix the seed in.
	root := common.NewRand(g.R.U64() ^ (common.Seed() * 0xD1B54A32D192ED03))
	for i := 0; i < g.N; i++ {
		r := root.Fork()
		u := genUniverse(r, r.Range(5, 22), 7)
		m := r.Range(1, 6)
		texts := make([]string, len(u))
		var targets []string
		for j, n := range u {
			texts[j] = common.NameText(n)
			if len(n) <= 6 {
				targets = append(targets, texts[j])
			}
		}
		g.Op("new %d %s", m, strings.Join(texts, ","))
		// hot names: a chain (nested prefixes, possibly with gaps) gets most of the registrations
		hot := make([]string, 0, 5)
		for k := 0; k < r.Range(2, 5); k++ {
			hot = append(hot, common.Pick(r, targets))
		}
		pick := func() string {
			if r.Chance(3, 5) {
				return common.Pick(r, hot)
			}
			return common.Pick(r, targets)
		}
		nfaces := r.Range(2, 4)
		var live []rkey // routes believed registered (to aim unregistrations)
		nops := r.Range(6, 30)
		for k := 0; k < nops; k++ {
			x := r.Intn(100)
			switch {
			case x < 55 || len(live) == 0:
				n := pick()
				var flags uint64
				switch y := r.Intn(10); {
				case y < 5:
					flags = 1 // child-inherit (the default of management)
				case y < 7:
					flags = 0
				case y < 9:
					flags = 2 // capture
				default:
					flags = 3
				}
				f, o := uint64(r.Range(1, nfaces)), common.Pick(r, origins)
				if r.Chance(1, 4) && len(live) > 0 { // re-register an existing route with new cost/flags
					l := common.Pick(r, live)
					n, f, o = l.name, l.face, l.origin
					g.Stat("op-rereg")
				}
				g.Op("reg %s %d %d %d %d", n, f, o, common.Pick(r, costs), flags)
				live = append(live, rkey{n, f, o})
				g.Stat("op-reg")
				g.Stat(fmt.Sprintf("flags=%d", flags))
				g.Stat(fmt.Sprintf("depth=%d", strings.Count(n, "/")-b2i(n == "/")))
			case x < 85:
				if r.Chance(4, 5) {
					j := r.Intn(len(live))
					l := live[j]
					live = append(live[:j], live[j+1:]...)
					g.Op("unreg %s %d %d", l.name, l.face, l.origin)
				} else {
					g.Op("unreg %s %d %d", pick(), r.Range(1, nfaces), common.Pick(r, origins))
				}
				g.Stat("op-unreg")
			default:
				f := uint64(r.Range(1, nfaces))
				g.Op("cleanup %d", f)
				kept := live[:0]
				for _, l := range live {
					if l.face != f {
						kept = append(kept, l)
					}
				}
				live = kept
				g.Stat("op-cleanup")
			}
			g.Op("qa")
			g.Op("lf")
			if r.Chance(1, 2) {
				g.Op("lr")
			}
		}
		g.Op("lr")
		g.Stat("histories")
	}
}

func b2i(b bool) int {
	if b {
		return 1
	}
	return 0
}

// ---------------------------------------------------------------- executor

type inst struct {
	fib table.FibStrategy
	rib *table.RibTable
}

var (
	insts []inst // [0] = RIB over tree FIB, [1] = RIB over hash-table FIB
	univ  []enc.Name
)

func hopsText(h []*table.FibNextHopEntry) string {
	if len(h) == 0 {
		return "-"
	}
	type fc struct{ f, c uint64 }
	v := make([]fc, len(h))
	for i, e := range h {
		v[i] = fc{e.Nexthop, e.Cost}
	}
	sort.Slice(v, func(i, j int) bool { return v[i].f < v[j].f || (v[i].f == v[j].f && v[i].c < v[j].c) })
	s := make([]string, len(v))
	for i, e := range v {
		s[i] = strconv.FormatUint(e.f, 10) + ":" + strconv.FormatUint(e.c, 10)
	}
	return strings.Join(s, ",")
}

func listing(kv [][2]string) string {
	if len(kv) == 0 {
		return "-"
	}
	sort.Slice(kv, func(i, j int) bool { return kv[i][0] < kv[j][0] || (kv[i][0] == kv[j][0] && kv[i][1] < kv[j][1]) })
	s := make([]string, len(kv))
	for i, e := range kv {
		s[i] = e[0] + "=" + e[1]
	}
	return strings.Join(s, ";")
}

func routesText(rs []*table.Route) string {
	v := make([]table.Route, len(rs))
	for i, r := range rs {
		v[i] = *r
	}
	sort.Slice(v, func(i, j int) bool {
		a, b := v[i], v[j]
		if a.FaceID != b.FaceID {
			return a.FaceID < b.FaceID
		}
		if a.Origin != b.Origin {
			return a.Origin < b.Origin
		}
		if a.Cost != b.Cost {
			return a.Cost < b.Cost
		}
		return a.Flags < b.Flags
	})
	s := make([]string, len(v))
	for i, r := range v {
		s[i] = fmt.Sprintf("%d/%d/%d/%d", r.FaceID, r.Origin, r.Cost, r.Flags)
	}
	return strings.Join(s, ",")
}

// with runs f on each instance with the process-global FIB pointing at that instance's FIB
// (rib.go writes to table.FibStrategyTable).
func with(f func(in inst) string) string {
	old := table.FibStrategyTable
	defer func() { table.FibStrategyTable = old }()
	var out [2]string
	for i, in := range insts {
		table.FibStrategyTable = in.fib
		out[i] = f(in)
	}
	return "T " + out[0] + " H " + out[1]
}

func each(f func(in inst)) string {
	with(func(in inst) string { f(in); return "" })
	return "ok"
}

func checkHashes(names []enc.Name) string {
	seen := map[uint64]string{}
	for _, n := range names {
		for k := 0; k <= len(n); k++ {
			p := n[:k]
			t := common.NameText(p)
			h := p.Hash()
			if o, ok := seen[h]; ok && o != t {
				return "hash-collision " + o + " " + t
			}
			seen[h] = t
		}
	}
	return ""
}

func exec(op string) string {
	f := common.Fields(op)
	if f[0] != "new" && insts == nil {
		return "skip"
	}
	switch f[0] {
	case "new":
		m := common.Atoi(f[1])
		univ = univ[:0]
		for _, s := range strings.Split(f[2], ",") {
			univ = append(univ, common.ParseNameText(s))
		}
		if c := checkHashes(univ); c != "" {
			insts = nil
			return c
		}
		// instance 0 is the process-global Rib (the table management and the face table use), so
		// that face clean-up can go through face.FaceTable.Remove; instance 1 is independent
		insts = []inst{
			{table.VerifNewFibTree(), table.VerifResetGlobalRib()},
			{table.VerifNewFibHashTable(uint16(m)), table.VerifNewRib()},
		}
		return "ok"
	case "reg":
		n := f[1]
		face, origin, cost, flags := common.Atou(f[2]), common.Atou(f[3]), common.Atou(f[4]), common.Atou(f[5])
		return each(func(in inst) {
			in.rib.AddEncRoute(common.ParseNameText(n), &table.Route{FaceID: face, Origin: origin, Cost: cost, Flags: flags})
		})
	case "unreg":
		n := f[1]
		face, origin := common.Atou(f[2]), common.Atou(f[3])
		return each(func(in inst) { in.rib.RemoveRouteEnc(common.ParseNameText(n), face, origin) })
	case "cleanup":
		faceID := common.Atou(f[1])
		return each(func(in inst) {
			if in.rib == &table.Rib {
				face.FaceTable.Remove(faceID) // fw/face/table.go: the production path of a face teardown
			} else {
				in.rib.CleanUpFace(faceID)
			}
		})
	case "qa":
		return with(func(in inst) string {
			s := make([]string, len(univ))
			for i, n := range univ {
				s[i] = hopsText(in.fib.FindNextHopsEnc(n.Clone()))
			}
			return strings.Join(s, "|")
		})
	case "lf":
		return with(func(in inst) string {
			var kv [][2]string
			for _, e := range in.fib.GetAllFIBEntries() {
				kv = append(kv, [2]string{common.NameText(e.Name()), hopsText(e.GetNextHops())})
			}
			return listing(kv)
		})
	case "lr":
		return with(func(in inst) string {
			var kv [][2]string
			for _, e := range in.rib.GetAllEntries() {
				kv = append(kv, [2]string{common.NameText(e.Name), routesText(e.GetRoutes())})
			}
			return listing(kv)
		})
	}
	return "bad-op"
}

func TestVerif(t *testing.T) { common.Main(t, gen, exec) }
