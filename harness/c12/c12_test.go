package c12

import (
	"strconv"
	"strings"
	"testing"

	enc "github.com/named-data/ndnd/std/encoding"
	"github.com/named-data/ndnd/std/ndn"
	spec "github.com/named-data/ndnd/std/ndn/spec_2022"
	"verif/harness/c03"
	"verif/harness/common"
)

// C12 correspondence: one history = one signed (or parameterised) packet of at most ~300 bytes:
//
//	new
//	mkd|mki ...     build with a REAL shipped signer (recorded: announced SigInfo, bytes handed, value)
//	val             decode the untampered bytes, compare the parser's signed portion with what the
//	                signer was handed, run the REAL matching validator
//	val <cuts>      the same over a segmented reader
//	flipall         for EVERY bit of the packet: flip, decode, validate -> one verdict letter per bit
//	                e = decode failed   r = validator rejected   a = validator accepted
//	                n = decoded, no validator applies (unsigned)   p = panic
//	flip <bit>      one position (replays)
func gen(g *common.Gen) {
	r := g.R
	dataSigners := []string{"sha", "hmac", "ecc", "rsa", "hmaccert", "ecccert", "rsacert", "sha", "hmac", "ecc", "rsa", "none"}
	intSigners := []string{"shaint", "hmacint", "eccint", "rsaint", "sha", "hmac", "ecc", "shaint", "hmacint", "eccint", "rsaint", "none"}
	for i := 0; i < g.N; i++ {
		g.Op("new")
		sh := c03.Shape{Big: r.Chance(1, 10)}
		var mk string
		for {
			if i%2 == 0 {
				mk = c03.GenMkd(r, sh, g, common.Pick(r, dataSigners))
			} else {
				mk = c03.GenMki(r, sh, g, common.Pick(r, intSigners))
			}
			// keep the packet small enough for exhaustive bit flipping (RSA adds 256 bytes)
			lim := 230
			if strings.Contains(mk, " rsa") {
				lim = 120
			}
			if c03.EstSize(mk) <= lim || r.Chance(1, 12) {
				break
			}
		}
		g.Op("%s", mk)
		size := c03.EstSize(mk)
		g.Op("val c")
		g.Op("val %s", c03.GenCuts(r, size))
		if size <= 560 {
			g.Op("flipall")
			g.Stat("flipall")
		} else {
			for k := 0; k < 64; k++ {
				g.Op("flip %d", r.Intn(size*8))
			}
			g.Stat("flip-sampled")
		}
		g.Op("cmp")
	}
}

var last *c03.Built
var lastMkOut string

func sigOf(p any) ndn.Signature {
	switch x := p.(type) {
	case ndn.Data:
		return x.Signature()
	case ndn.Interest:
		return x.Signature()
	}
	return nil
}

// decodeValidate: "e" / "r" / "a" / "n" plus the signed portion reported by the parser
func decodeValidate(b *c03.Built, wire []byte, cuts string) (string, []byte) {
	rd := c03.Reader(wire, cuts)
	var sig ndn.Signature
	var cov enc.Wire
	if b.Kind == 'D' {
		d, c, err := spec.Spec{}.ReadData(rd)
		if err != nil {
			return "e", nil
		}
		sig, cov = d.Signature(), c
	} else {
		i, c, err := spec.Spec{}.ReadInterest(rd)
		if err != nil {
			return "e", nil
		}
		sig, cov = i.Signature(), c
	}
	v, ok := c03.Validate(b.Signer, cov, sig)
	switch {
	case !ok:
		return "n", cov.Join()
	case v:
		return "a", cov.Join()
	}
	return "r", cov.Join()
}

func flipped(w []byte, bit int) []byte {
	out := append([]byte{}, w...)
	out[bit/8] ^= 1 << uint(7-bit%8)
	return out
}

func exec(op string) string {
	f := common.Fields(op)
	switch f[0] {
	case "new":
		last, lastMkOut = nil, ""
		return "ok"
	case "mkd":
		out, b := c03.MakeData(f)
		last, lastMkOut = b, out
		return out
	case "mki":
		out, b := c03.MakeInterest(f)
		last, lastMkOut = b, out
		return out
	case "cmp":
		if lastMkOut == "" {
			return "skip"
		}
		return lastMkOut
	case "val":
		if last == nil {
			return "skip"
		}
		v, cov := decodeValidate(last, append([]byte{}, last.Wire...), f[1])
		if v == "e" {
			return "e"
		}
		c := "na"
		if last.Rec != nil && last.Rec.Handed {
			if string(cov) == string(last.Rec.Covered) {
				c = "eq"
			} else {
				c = "ne:" + common.Hex(cov)
			}
		}
		return v + " cov=" + c
	case "flip":
		if last == nil {
			return "skip"
		}
		bit := common.Atoi(f[1])
		if bit >= 8*len(last.Wire) {
			return "skip"
		}
		v, _ := decodeValidate(last, flipped(last.Wire, bit), "c")
		return v
	case "flipall":
		if last == nil {
			return "skip"
		}
		var sb strings.Builder
		for bit := 0; bit < 8*len(last.Wire); bit++ {
			w := flipped(last.Wire, bit)
			v := common.Guard(func() string { v, _ := decodeValidate(last, w, "c"); return v })
			if strings.HasPrefix(v, "PANIC") {
				v = "p"
			}
			sb.WriteString(v)
		}
		return strconv.Itoa(len(last.Wire)) + " " + sb.String()
	}
	return "bad-op"
}

func TestVerif(t *testing.T) { common.Main(t, gen, exec) }
