//go:debug cryptocustomrand=1
package c12

import (
	"sync"
	"strconv"
	"strings"
	"testing"

	enc "github.com/named-data/ndnd/std/encoding"
	"github.com/named-data/ndnd/std/ndn"
	spec "github.com/named-data/ndnd/std/ndn/spec_2022"
	"verif/harness/c03"
	"verif/harness/common"
)

// C12 correspondence: one history = one signed (or parameterised) packet of at most ~300 bytes:
//
//	new
//	mkd|mki ...     build with a REAL shipped signer (recorded: announced SigInfo, bytes handed, value)
//	fmk <make op>   run a make op with a failing entropy source (crypto/rand.Reader errors) on the history's
//	                signer instance; the packets built afterwards must be unaffected
//	par <k> <make op>  k goroutines build packets with the history's one signer instance concurrently
//	hold / valheld  remember the packet just built (in the buffers it was returned in); after the NEXT packet
//	                was built with the same signer instance, decode and validate the remembered one
//	val             decode the untampered bytes, compare the parser's signed portion with what the
//	                signer was handed, run the REAL matching validator
//	val <cuts>      the same over a segmented reader
//	flipall <cuts>  (c | own | 3,17) for EVERY bit of the packet: flip, decode, validate -> one verdict letter per bit
//	                e = decode failed   r = validator rejected   a = validator accepted
//	                n = decoded, no validator applies (unsigned)   p = panic
//	flip <bit> <cuts>   one position (replays)
//	delap <cuts>        the Interest with its ApplicationParameters element removed
//	every tampered packet is decoded through ReadData/ReadInterest AND ReadPacket; a differing verdict is reported
func gen(g *common.Gen) {
	r := g.R
	dataSigners := []string{"sha", "hmac", "ecc", "rsa", "hmaccert", "ecccert", "rsacert", "sha", "hmac", "hmac", "ecc", "rsa", "none", "t:72:60", "ecc521", "ecc384", "ecc224"}
	intSigners := []string{"shaint", "hmacint", "eccint", "rsaint", "sha", "hmac", "ecc", "shaint", "hmacint", "hmacint", "eccint", "rsaint", "none", "t:72:60", "eccint521", "eccint384", "ecc521"}
	for i := 0; i < g.N; i++ {
		g.Op("new")
		sh := c03.Shape{Big: r.Chance(1, 10)}
		var mk string
		// two light histories per normal one: a packet steered to a TL-length boundary of its ESTIMATED
		// size, built, decoded (contiguous / own buffers / cuts) and validated — no bit flipping
		for k := 0; k < 2; k++ {
			smk := c03.Steered(r, g, (i+k)%2 == 1)
			g.Op("%s", smk)
			g.Op("val c")
			g.Op("val own")
			g.Op("val %s", c03.GenCuts(r, c03.EstSize(smk)))
			g.Op("cmp")
			g.Op("new")
		}
		// one light history per normal one: the HMAC signers (Data and Interest) with a key of every
		// length around the SHA-256 block size and beyond, cycling through the list
		{
			lens := []int{0, 1, 31, 32, 63, 64, 65, 66, 127, 128, 129, 200}
			l := lens[i%len(lens)]
			hk := "mkd /8:61 - - - " + common.Hex(r.Bytes(r.Range(0, 20))) + " hmac~" + strconv.Itoa(l)
			if (i/len(lens))%2 == 0 {
				hk = "mki /8:61 0 0 - - - - " + common.Hex(r.Bytes(r.Range(0, 20))) + " hmacint~" + strconv.Itoa(l)
			}
			g.Op("%s", hk)
			g.Op("val c")
			g.Op("val own")
			g.Op("cmp")
			g.Op("new")
			g.Stat("hmac-keylen-sweep")
		}
		// … one where a shipped signer (cycling through all of them) signs a LONG signed portion: just
		// above 8800 octets (the NDN packet size, a tempting scratch-buffer size) and well above it
		{
			all := []string{"sha", "hmac", "ecc", "rsa", "hmaccert", "ecccert", "rsacert", "shaint", "hmacint", "eccint", "rsaint", "ecc521", "eccint384", "hmacint~65"}
			sizes := []int{8795, 9000, 20000, 70000}
			tok := all[i%len(all)]
			k := (i / len(all)) % len(sizes)
			for _, n := range []int{sizes[k], sizes[(k+2)%len(sizes)]} {
				asInterest := strings.HasSuffix(c03.SigBase(tok), "int") || strings.HasPrefix(c03.SigBase(tok), "eccint") ||
					(k%2 == 1 && !strings.Contains(tok, "cert"))
				payload := common.Hex(r.Bytes(n))
				if r.Chance(1, 2) { // or as two buffers
					payload = common.Hex(r.Bytes(n/2)) + "," + common.Hex(r.Bytes(n-n/2))
				}
				bm := "mkd /8:61 - - - " + payload + " " + tok
				if asInterest {
					bm = "mki /8:61 0 0 - - - - " + payload + " " + tok
				}
				g.Op("%s", bm)
				g.Op("val c")
				g.Op("val own")
				g.Op("cmp")
				g.Op("new")
				g.Stat("long-signed-portion")
			}
		}
		// … and one where a shipped signer (cycling through all of them) is used by 4 goroutines at once
		{
			all := []string{"shaint", "hmacint", "eccint", "rsaint", "sha", "hmac", "ecc", "rsa", "hmaccert", "ecccert", "eccint521", "ecc384", "hmacint~65", "ecc224"}
			tok := all[i%len(all)]
			pm := "mkd /8:61 - - - " + common.Hex(r.Bytes(r.Range(1, 1200))) + " " + tok
			if strings.HasSuffix(c03.SigBase(tok), "int") || (i/len(all))%2 == 1 && !strings.Contains(tok, "cert") {
				pm = "mki /8:61 0 0 - - 4000 - " + common.Hex(r.Bytes(r.Range(1, 1200))) + " " + tok
			}
			g.Op("par 4 %s", pm)
			g.Op("new")
			g.Stat("par-sweep")
		}
		{
			for {
				if i%2 == 0 {
					mk = c03.GenMkd(r, sh, g, c03.WithKeyName(r, g, common.Pick(r, dataSigners)))
				} else {
					mk = c03.GenMki(r, sh, g, c03.WithKeyName(r, g, common.Pick(r, intSigners)))
					// the usual shape of a signed Interest: EMPTY ApplicationParameters
					if r.Chance(1, 3) {
						f := strings.Fields(mk)
						f[8] = common.Pick(r, []string{"[]", "-", "-,-"})
						if f[9] == "none" && r.Chance(1, 2) {
							f[9] = "shaint"
						}
						mk = strings.Join(f, " ")
						g.Stat("params-empty")
					}
				}
				// keep the packet small enough for exhaustive bit flipping (RSA adds 256 bytes)
				lim := 230
				if strings.Contains(mk, " rsa") {
					lim = 120
				}
				if c03.EstSize(mk) <= lim || r.Chance(1, 12) {
					break
				}
			}
		}
		// a second packet from the SAME signer instance must not disturb the first one
		holdFirst := r.Chance(1, 2)
		if holdFirst {
			tok := strings.Fields(mk)
			first := c03.GenMkd(r, c03.Shape{}, g, tok[len(tok)-1])
			if tok[0] == "mki" {
				first = c03.GenMki(r, c03.Shape{}, g, tok[len(tok)-1])
			}
			g.Op("%s", first)
			g.Op("hold")
			g.Stat("hold")
		}
		// a signing attempt that fails (no entropy) on the same signer instance, then the real packet
		if r.Chance(1, 3) {
			tok := strings.Fields(mk)
			failed := c03.GenMkd(r, c03.Shape{}, g, tok[len(tok)-1])
			if tok[0] == "mki" {
				failed = c03.GenMki(r, c03.Shape{}, g, tok[len(tok)-1])
			}
			g.Op("fmk %s", failed)
			g.Stat("fmk")
		}
		g.Op("%s", mk)
		if holdFirst {
			g.Op("valheld")
		}
		size := c03.EstSize(mk)
		g.Op("val c")
		g.Op("val own")
		g.Op("val %s", c03.GenCuts(r, size))
		// generic-curve ECDSA verification costs milliseconds: sample the positions for those keys
		slowKey := strings.Contains(mk, "521") || strings.Contains(mk, "384") || strings.Contains(mk, "224")
		if size <= 700 && !(slowKey && !common.Thorough()) {
			g.Op("flipall c")
			// tampered bytes through a SEGMENTED reader as well: the encoder's own buffers / cuts
			switch {
			case common.Thorough():
				g.Op("flipall own")
				g.Op("flipall %s", c03.GenCuts(r, size))
			case r.Chance(1, 2):
				g.Op("flipall own")
			default:
				g.Op("flipall %s", c03.GenCuts(r, size))
			}
			g.Stat("flipall")
		} else {
			for k := 0; k < 48; k++ {
				g.Op("flip %d %s", r.Intn(size*8), common.Pick(r, []string{"c", "own", c03.GenCuts(r, size)}))
			}
			g.Stat("flip-sampled")
		}
		if strings.HasPrefix(mk, "mki") {
			g.Op("delap c")
			g.Op("delap %s", c03.GenCuts(r, size))
		}
		// one signer INSTANCE used by several goroutines at the same moment (the engine shares its
		// command signer): every packet they build must decode and be accepted
		if tok := strings.Fields(mk); tok[len(tok)-1] != "none" && r.Chance(1, 2) {
			pm := c03.GenMkd(r, c03.Shape{}, g, tok[len(tok)-1])
			if tok[0] == "mki" {
				pm = c03.GenMki(r, c03.Shape{}, g, tok[len(tok)-1])
				f := strings.Fields(pm)
				f[8] = common.Hex(r.Bytes(r.Range(1, 1500)))
				pm = strings.Join(f, " ")
			}
			g.Op("par %d %s", r.Range(3, 6), pm)
			g.Stat("par")
		}
		g.Op("cmp")
	}
}

var last, held *c03.Built
var lastMkOut string

func sigOf(p any) ndn.Signature {
	switch x := p.(type) {
	case ndn.Data:
		return x.Signature()
	case ndn.Interest:
		return x.Signature()
	}
	return nil
}

// decodeValidate: "e" / "r" / "a" / "n" plus the signed portion reported by the parser
func decodeValidate(b *c03.Built, wire []byte, cuts string) (string, []byte) {
	rd := c03.Reader(wire, cuts)
	var sig ndn.Signature
	var cov enc.Wire
	if b.Kind == 'D' {
		d, c, err := spec.Spec{}.ReadData(rd)
		if err != nil {
			return "e", nil
		}
		sig, cov = d.Signature(), c
	} else {
		i, c, err := spec.Spec{}.ReadInterest(rd)
		if err != nil {
			return "e", nil
		}
		sig, cov = i.Signature(), c
	}
	v, ok := c03.Validate(b.Signer, cov, sig)
	switch {
	case !ok:
		return "n", cov.Join()
	case v:
		return "a", cov.Join()
	}
	return "r", cov.Join()
}

// decodeValidatePkt: the same through ReadPacket (the path the forwarder link service, management and
// the client engine use)
func decodeValidatePkt(b *c03.Built, wire []byte, cuts string) string {
	p, ctx, err := spec.ReadPacket(c03.Reader(wire, cuts))
	if err != nil {
		return "e"
	}
	var sig ndn.Signature
	var cov enc.Wire
	switch {
	case b.Kind == 'D' && p.Data != nil:
		sig, cov = p.Data.Signature(), ctx.Data_context.SigCovered()
	case b.Kind == 'I' && p.Interest != nil:
		sig, cov = p.Interest.Signature(), ctx.Interest_context.SigCovered()
	default:
		return "e"
	}
	v, ok := c03.Validate(b.Signer, cov, sig)
	switch {
	case !ok:
		return "n"
	case v:
		return "a"
	}
	return "r"
}

// both decoders on one input: the verdict of ReadData/ReadInterest, and "!<verdict>" appended when
// ReadPacket's differs
func bothVerdicts(b *c03.Built, wire []byte, cuts string) string {
	v := common.Guard(func() string { v, _ := decodeValidate(b, append([]byte{}, wire...), cuts); return v })
	if strings.HasPrefix(v, "PANIC") {
		v = "p"
	}
	pv := common.Guard(func() string { return decodeValidatePkt(b, append([]byte{}, wire...), cuts) })
	if strings.HasPrefix(pv, "PANIC") {
		pv = "p"
	}
	if pv != v {
		return v + "!" + pv
	}
	return v
}

func tlnum(b []byte) (val uint64, n int, ok bool) {
	if len(b) == 0 {
		return 0, 0, false
	}
	switch x := b[0]; {
	case x <= 0xfc:
		return uint64(x), 1, true
	case x == 0xfd && len(b) >= 3:
		return uint64(b[1])<<8 | uint64(b[2]), 3, true
	case x == 0xfe && len(b) >= 5:
		return uint64(b[1])<<24 | uint64(b[2])<<16 | uint64(b[3])<<8 | uint64(b[4]), 5, true
	}
	return 0, 0, false
}

func encTL(v int) []byte {
	switch {
	case v <= 0xfc:
		return []byte{byte(v)}
	case v <= 0xffff:
		return []byte{0xfd, byte(v >> 8), byte(v)}
	}
	return []byte{0xfe, byte(v >> 24), byte(v >> 16), byte(v >> 8), byte(v)}
}

// withoutElement removes the first top-level element of type typ from the packet's value and
// re-encodes the outer length (nil if there is none)
func withoutElement(w []byte, typ uint64) []byte {
	_, n1, ok := tlnum(w)
	if !ok {
		return nil
	}
	_, n2, ok := tlnum(w[n1:])
	if !ok {
		return nil
	}
	val := w[n1+n2:]
	for off := 0; off < len(val); {
		t, a, ok := tlnum(val[off:])
		if !ok {
			return nil
		}
		l, c, ok := tlnum(val[off+a:])
		if !ok || off+a+c+int(l) > len(val) {
			return nil
		}
		if t == typ {
			nv := append(append([]byte{}, val[:off]...), val[off+a+c+int(l):]...)
			return append(append(append([]byte{}, w[:n1]...), encTL(len(nv))...), nv...)
		}
		off += a + c + int(l)
	}
	return nil
}

func flipped(w []byte, bit int) []byte {
	out := append([]byte{}, w...)
	out[bit/8] ^= 1 << uint(7-bit%8)
	return out
}

func exec(op string) string {
	f := common.Fields(op)
	switch f[0] {
	case "new":
		last, lastMkOut, held = nil, "", nil
		c03.ResetSigners()
		return "ok"
	case "mkd":
		out, b := c03.MakeData(f)
		last, lastMkOut = b, out
		if b != nil {
			c03.OwnSegs = b.SegLens
		}
		return out
	case "mki":
		out, b := c03.MakeInterest(f)
		last, lastMkOut = b, out
		if b != nil {
			c03.OwnSegs = b.SegLens
		}
		return out
	case "cmp":
		if lastMkOut == "" {
			return "skip"
		}
		return lastMkOut
	case "fmk":
		// a make op whose signing runs with a FAILING entropy source (crypto/rand.Reader returns an
		// error): the attempt is reported to the caller as an error; what matters is that the signer
		// instance is used again afterwards
		var out string
		func() {
			c03.FailEntropy = true
			defer func() { c03.FailEntropy = false }()
			out = common.Guard(func() string {
				if f[1] == "mkd" {
					o, _ := c03.MakeData(f[1:])
					return o
				}
				o, _ := c03.MakeInterest(f[1:])
				return o
			})
		}()
		return strings.SplitN(out, " ", 2)[0]
	case "par":
		// f[1] goroutines build packets of the shape f[2:] (names made distinct) with the history's ONE
		// signer instance at the same time; verdict letter per goroutine: a/n all accepted / no validator,
		// else the first failure: x build error, e decode error, r rejected, c signed portion differs, p panic
		k := common.Atoi(f[1])
		tok := f[len(f)-1]
		c03.SignerFor(tok)
		rounds := 80
		if strings.HasPrefix(tok, "rsa") {
			rounds = 5
		}
		out := make([]byte, k)
		var wg sync.WaitGroup
		start := make(chan struct{})
		for w := 0; w < k; w++ {
			wg.Add(1)
			go func(w int) {
				defer wg.Done()
				res := byte('a')
				nov := false
				defer func() {
					if r := recover(); r != nil {
						res = 'p'
					}
					if res == 'a' && nov {
						res = 'n'
					}
					out[w] = res
				}()
				<-start
				for i := 0; i < rounds && res == 'a'; i++ {
					g := append([]string{}, f[2:]...)
					if g[1] == "/" {
						g[1] = ""
					}
					g[1] += "/8:" + common.Hex([]byte{byte(w), byte(i)})
					var b *c03.Built
					if g[0] == "mkd" {
						_, b = c03.MakeData(g)
					} else {
						_, b = c03.MakeInterest(g)
					}
					if b == nil {
						res = 'x'
						break
					}
					v, cov := decodeValidate(b, b.Wire, "c")
					switch {
					case v == "e" || v == "r":
						res = v[0]
					case b.Rec != nil && b.Rec.Handed && string(cov) != string(b.Rec.Covered):
						res = 'c'
					case v == "n":
						nov = true
					}
				}
			}(w)
		}
		close(start)
		wg.Wait()
		return string(out)
	case "hold":
		if last == nil {
			return "skip"
		}
		held = last
		return "ok"
	case "valheld":
		// the packet built BEFORE the last one, read from the buffers it was returned in, after the
		// same signer instance has built another packet
		if held == nil {
			return "skip"
		}
		now := append([]byte{}, held.Orig.Join()...)
		same := "same"
		if string(now) != string(held.Wire) {
			same = "changed"
		}
		v, cov := decodeValidate(held, now, "c")
		if v == "e" {
			return "e " + same
		}
		c := "na"
		if held.Rec != nil && held.Rec.Handed {
			if string(cov) == string(held.Rec.Covered) {
				c = "eq"
			} else {
				c = "ne"
			}
		}
		return v + " cov=" + c + " " + same
	case "val":
		if last == nil {
			return "skip"
		}
		v, cov := decodeValidate(last, append([]byte{}, last.Wire...), f[1])
		if pv := decodeValidatePkt(last, append([]byte{}, last.Wire...), f[1]); pv != v {
			return v + "!" + pv
		}
		if v == "e" {
			return "e"
		}
		c := "na"
		if last.Rec != nil && last.Rec.Handed {
			if string(cov) == string(last.Rec.Covered) {
				c = "eq"
			} else {
				c = "ne:" + common.Hex(cov)
			}
		}
		return v + " cov=" + c
	case "flip":
		if last == nil {
			return "skip"
		}
		bit := common.Atoi(f[1])
		if bit >= 8*len(last.Wire) {
			return "skip"
		}
		cuts := "c"
		if len(f) > 2 {
			cuts = f[2]
		}
		return bothVerdicts(last, flipped(last.Wire, bit), cuts)
	case "flipall":
		if last == nil {
			return "skip"
		}
		cuts := "c"
		if len(f) > 1 {
			cuts = f[1]
		}
		var sb strings.Builder
		var pk []string
		for bit := 0; bit < 8*len(last.Wire); bit++ {
			v := bothVerdicts(last, flipped(last.Wire, bit), cuts)
			sb.WriteByte(v[0])
			if len(v) > 1 {
				pk = append(pk, strconv.Itoa(bit)+":"+v[2:])
			}
		}
		pks := "-"
		if len(pk) > 0 {
			pks = strings.Join(pk, ",")
		}
		// pk: bit positions where ReadPacket's verdict differs from ReadData/ReadInterest's
		return strconv.Itoa(len(last.Wire)) + " " + sb.String() + " pk=" + pks
	case "delap":
		// the Interest with its ApplicationParameters element REMOVED (outer length re-encoded)
		if last == nil || last.Kind != 'I' {
			return "skip"
		}
		w := withoutElement(last.Wire, 36)
		if w == nil {
			return "skip"
		}
		cuts := "c"
		if len(f) > 1 {
			cuts = f[1]
		}
		return bothVerdicts(last, w, cuts)
	}
	return "bad-op"
}

func TestVerif(t *testing.T) { common.Main(t, gen, exec) }
