package common

import (
	"strconv"
	"strings"

	enc "github.com/named-data/ndnd/std/encoding"
)

// NameText renders a name in the harness wire text "/8:6162/32:" ("/" for the empty name).
func NameText(n enc.Name) string {
	if len(n) == 0 {
		return "/"
	}
	var sb strings.Builder
	for _, c := range n {
		sb.WriteByte('/')
		sb.WriteString(CompText(c))
	}
	return sb.String()
}

func CompText(c enc.Component) string {
	h := Hex(c.Val)
	if h == "-" {
		h = ""
	}
	return strconv.FormatUint(uint64(c.Typ), 10) + ":" + h
}

// ParseNameText is the inverse of NameText (panics on malformed text: harness bug).
func ParseNameText(s string) enc.Name {
	if s == "/" {
		return enc.Name{}
	}
	parts := strings.Split(s, "/")[1:]
	n := make(enc.Name, 0, len(parts))
	for _, p := range parts {
		n = append(n, ParseCompText(p))
	}
	return n
}

func ParseCompText(p string) enc.Component {
	i := strings.IndexByte(p, ':')
	t, err := strconv.ParseUint(p[:i], 10, 64)
	if err != nil {
		panic("harness: bad component " + p)
	}
	return enc.Component{Typ: enc.TLNum(t), Val: UnHex(p[i+1:])}
}

// NameUniverse draws names from a small shared-prefix universe so that equal names, prefixes and
// siblings are frequent. Components are generic (type 8) single letters drawn from `alphabet`.
type NameUniverse struct {
	Alphabet []string // component values (text)
	MaxDepth int
}

func (u NameUniverse) Draw(r *Rand) enc.Name {
	d := r.Range(0, u.MaxDepth)
	n := make(enc.Name, 0, d)
	for i := 0; i < d; i++ {
		n = append(n, enc.NewStringComponent(enc.TypeGenericNameComponent, Pick(r, u.Alphabet)))
	}
	return n
}

// All enumerates the whole universe up to MaxDepth (use only for small universes).
func (u NameUniverse) All() []enc.Name {
	out := []enc.Name{{}}
	level := []enc.Name{{}}
	for d := 0; d < u.MaxDepth; d++ {
		var next []enc.Name
		for _, p := range level {
			for _, a := range u.Alphabet {
				q := append(append(enc.Name{}, p...), enc.NewStringComponent(enc.TypeGenericNameComponent, a))
				next = append(next, q)
			}
		}
		out = append(out, next...)
		level = next
	}
	return out
}
