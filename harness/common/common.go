// Package common: shared plumbing of the correspondence harnesses.
//
// Every property harness is a Go *test* package (so that testing/synctest is available) with a
// single entry point TestMain-like function `TestVerif` that calls common.Main(t, gen, exec).
// Mode and files come from the environment (set by /verif/check):
//
//	VERIF_MODE = gen   : write an ops file (one operation per line, histories start with "new")
//	                     to VERIF_OUT, deterministically from VERIF_SEED, VERIF_N histories.
//	VERIF_MODE = exec  : read the ops file VERIF_IN, run every operation against the REAL code and
//	                     write "<op> => <canonical output>" lines to VERIF_OUT (flushed per line,
//	                     so a crash leaves the culprit identifiable).
//
// Lines starting with '#' are comments; "#stat <key> <n>" lines written by gen are collected
// into the evidence file as the input distribution.
package common

import (
	"bufio"
	"fmt"
	"os"
	"runtime/debug"
	"sort"
	"strconv"
	"strings"
	"testing"
)

// ---------------------------------------------------------------- PRNG (splitmix64)

type Rand struct{ s uint64 }

// NewRand scrambles the seed with the splitmix64 finaliser first: the generator advances its
// state by a constant per draw, so consecutive raw seeds would otherwise give the same stream
// shifted by one draw (and the batches of a thorough run would mostly repeat each other).
func NewRand(seed uint64) *Rand {
	z := seed + 0x9E3779B97F4A7C15
	z = (z ^ (z >> 30)) * 0xBF58476D1CE4E5B9
	z = (z ^ (z >> 27)) * 0x94D049BB133111EB
	return &Rand{s: z ^ (z >> 31)}
}

func (r *Rand) U64() uint64 {
	r.s += 0x9E3779B97F4A7C15
	z := r.s
	z = (z ^ (z >> 30)) * 0xBF58476D1CE4E5B9
	z = (z ^ (z >> 27)) * 0x94D049BB133111EB
	return z ^ (z >> 31)
}

// Intn returns a value in [0,n).
func (r *Rand) Intn(n int) int {
	if n <= 0 {
		return 0
	}
	return int(r.U64() % uint64(n))
}

// Range returns a value in [lo,hi].
func (r *Rand) Range(lo, hi int) int { return lo + r.Intn(hi-lo+1) }

// Chance returns true with probability num/den.
func (r *Rand) Chance(num, den int) bool { return r.Intn(den) < num }

func Pick[T any](r *Rand, xs []T) T { return xs[r.Intn(len(xs))] }

// Pick3 returns one of three values.
func (r *Rand) Pick3(a, b, c int) int { return [3]int{a, b, c}[r.Intn(3)] }

// Fork derives an independent stream (so that adding draws in one place does not shift others).
func (r *Rand) Fork() *Rand { return NewRand(r.U64()) }

func (r *Rand) Bytes(n int) []byte {
	b := make([]byte, n)
	for i := range b {
		b[i] = byte(r.U64())
	}
	return b
}

// ---------------------------------------------------------------- environment

func Env(key, def string) string {
	if v := os.Getenv(key); v != "" {
		return v
	}
	return def
}

func EnvInt(key string, def int) int {
	if v := os.Getenv(key); v != "" {
		if n, err := strconv.ParseInt(v, 10, 64); err == nil {
			return int(n)
		}
	}
	return def
}

func Seed() uint64 {
	if v := os.Getenv("VERIF_SEED"); v != "" {
		if n, err := strconv.ParseUint(v, 10, 64); err == nil {
			return n
		}
		if n, err := strconv.ParseInt(v, 10, 64); err == nil {
			return uint64(n)
		}
	}
	return 1
}

func Thorough() bool { return os.Getenv("VERIF_TIER") == "thorough" }

// ---------------------------------------------------------------- ops writer (gen)

type Gen struct {
	W     *bufio.Writer
	R     *Rand
	N     int // number of histories requested
	stats map[string]int
}

func (g *Gen) Op(format string, a ...any) {
	fmt.Fprintf(g.W, format, a...)
	g.W.WriteByte('\n')
}

// Stat counts a feature of the generated input (reported as the input distribution).
func (g *Gen) Stat(key string) { g.stats[key]++ }
func (g *Gen) StatN(key string, n int) { g.stats[key] += n }

// ---------------------------------------------------------------- trace writer (exec)

type Exec struct {
	w *bufio.Writer
}

// Out writes one trace line "<op> => <out>" and flushes.
func (e *Exec) Out(op string, out string) {
	out = strings.ReplaceAll(out, "\n", "\\n")
	e.w.WriteString(op)
	e.w.WriteString(" => ")
	e.w.WriteString(out)
	e.w.WriteByte('\n')
	e.w.Flush()
}

// Comment passes a comment line through to the trace.
func (e *Exec) Comment(s string) {
	e.w.WriteString("# " + s + "\n")
	e.w.Flush()
}

// Guard runs f and maps a Go panic to the canonical output "PANIC <first line of message>".
func Guard(f func() string) (out string) {
	defer func() {
		if r := recover(); r != nil {
			msg := strings.SplitN(fmt.Sprint(r), "\n", 2)[0]
			if os.Getenv("VERIF_PANIC_TRACE") != "" {
				fmt.Fprintf(os.Stderr, "panic: %v\n%s\n", r, debug.Stack())
			}
			out = "PANIC " + msg
		}
	}()
	return f()
}

// ---------------------------------------------------------------- entry point

// Main dispatches on VERIF_MODE. gen produces histories; exec is called once per operation line
// (already stripped of any " => ..." suffix) and returns the canonical output of the real code.
// execInit, if non-nil, is called once before the first op.
func Main(t *testing.T, gen func(g *Gen), exec func(op string) string) {
	mode := os.Getenv("VERIF_MODE")
	switch mode {
	case "gen":
		f, err := os.Create(Env("VERIF_OUT", "/dev/stdout"))
		if err != nil {
			t.Fatal(err)
		}
		defer f.Close()
		g := &Gen{W: bufio.NewWriterSize(f, 1<<20), R: NewRand(Seed()), N: EnvInt("VERIF_N", 100), stats: map[string]int{}}
		gen(g)
		keys := make([]string, 0, len(g.stats))
		for k := range g.stats {
			keys = append(keys, k)
		}
		sort.Strings(keys)
		for _, k := range keys {
			fmt.Fprintf(g.W, "#stat %s %d\n", k, g.stats[k])
		}
		g.W.Flush()
	case "exec":
		in, err := os.Open(Env("VERIF_IN", "/dev/stdin"))
		if err != nil {
			t.Fatal(err)
		}
		defer in.Close()
		f, err := os.Create(Env("VERIF_OUT", "/dev/stdout"))
		if err != nil {
			t.Fatal(err)
		}
		defer f.Close()
		e := &Exec{w: bufio.NewWriterSize(f, 1<<16)}
		sc := bufio.NewScanner(in)
		sc.Buffer(make([]byte, 1<<20), 1<<28)
		for sc.Scan() {
			line := sc.Text()
			if line == "" {
				continue
			}
			if strings.HasPrefix(line, "#") {
				continue
			}
			if i := strings.Index(line, " => "); i >= 0 {
				line = line[:i]
			}
			// announce the op before running it: if the process dies, the last "#run" line names it
			e.w.WriteString("#run " + line + "\n")
			e.w.Flush()
			out := Guard(func() string { return exec(line) })
			e.Out(line, out)
		}
		if err := sc.Err(); err != nil {
			t.Fatal(err)
		}
	default:
		t.Skip("VERIF_MODE not set (run through /verif/check)")
	}
}

// ---------------------------------------------------------------- small helpers

func Hex(b []byte) string {
	if len(b) == 0 {
		return "-"
	}
	const hexd = "0123456789abcdef"
	out := make([]byte, 2*len(b))
	for i, c := range b {
		out[2*i] = hexd[c>>4]
		out[2*i+1] = hexd[c&15]
	}
	return string(out)
}

func UnHex(s string) []byte {
	if s == "-" || s == "" {
		return []byte{}
	}
	out := make([]byte, len(s)/2)
	for i := range out {
		v, err := strconv.ParseUint(s[2*i:2*i+2], 16, 8)
		if err != nil {
			panic("harness: bad hex " + s)
		}
		out[i] = byte(v)
	}
	return out
}

// Fields splits an op line on single spaces.
func Fields(op string) []string { return strings.Split(op, " ") }

func Atoi(s string) int {
	n, err := strconv.ParseInt(s, 10, 64)
	if err != nil {
		panic("harness: bad int " + s)
	}
	return int(n)
}

func Atou(s string) uint64 {
	n, err := strconv.ParseUint(s, 10, 64)
	if err != nil {
		panic("harness: bad uint " + s)
	}
	return n
}
