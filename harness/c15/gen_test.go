package c15

import (
	"fmt"
	"strconv"
	"strings"

	enc "github.com/named-data/ndnd/std/encoding"
	"verif/harness/common"
)

// ------------------------------------------------------------------ generator
//
// One history = new serve=mem|bolt ; a few Produce calls (1..3 object names out of a nested universe,
// version patterns incl. 0, out-of-order, "now", equal versions) ; store probes (get exact/prefix) ;
// Consume calls under loss/reorder scripts ; removals followed by probes and consumes ; a direct store
// part (sput/get/remove on names whose byte order differs from their version order) ; rarely a
// 1000-key fill.  Everything is derived from g.R.

var objNames = []string{"/8:6f/8:61", "/8:6f/8:62", "/8:6f/8:61/8:78", "/8:6f", "/8:6f/8:61/8:79/8:7a", "/8:70"}

var boundarySizes = []int{1, 2, 7999, 8000, 8001, 15999, 16000, 16001, 23999, 24000, 24001, 100, 4000, 12345, 31999, 32001, 252, 253, 254, 8253, 16253}
var bigSizes = []int{79999, 80000, 80001, 87999, 88000, 88001, 96001, 160001}

var versionPatterns = [][]string{
	{"5"}, {"0"}, {"1", "2", "3"}, {"5", "3"}, {"3", "5"}, {"0", "1"}, {"1", "0"}, {"now"}, {"now", "now"}, {"7", "now"},
	{"255", "256"}, {"256", "255"}, {"65535", "65536", "4294967296"}, {"4294967296", "1"}, {"2", "2"}, {"0", "0"}, {"9", "4", "6"},
	{"18446744073709551615", "1"}, {"2", "9", "5"}, {"7", "3", "5", "1"}, {"300", "2", "70000"}, {"6", "1", "now"}, {"4", "8", "0", "2"},
}

func genSplit(r *common.Rand, g *common.Gen, size int) string {
	var parts []int
	switch k := r.Intn(10); {
	case k < 2:
		g.Stat("split-one-buffer")
		parts = []int{size}
	case k < 4:
		g.Stat("split-at-segment-boundaries")
		for rem := size; rem > 0; rem -= 8000 {
			parts = append(parts, min(8000, rem))
		}
	case k < 6:
		g.Stat("split-random-cuts")
		rem := size
		for rem > 0 {
			n := r.Range(1, min(rem, common.Pick(r, []int{1, 3, 100, 7999, 8000, 8001, 9000, 20000})))
			parts = append(parts, n)
			rem -= n
			if len(parts) > 40 {
				parts = append(parts, rem)
				rem = 0
			}
		}
	case k < 8:
		g.Stat("split-near-boundary")
		// cuts one byte before/after multiples of 8000
		rem, off := size, 0
		for rem > 0 {
			target := (off/8000+1)*8000 + common.Pick(r, []int{-1, 0, 1}) - off
			n := max(1, min(rem, target))
			parts = append(parts, n)
			rem -= n
			off += n
		}
	default:
		g.Stat("split-small-chunks")
		c := common.Pick(r, []int{1000, 1999, 2000, 4000, 7999})
		for rem := size; rem > 0; rem -= c {
			parts = append(parts, min(c, rem))
		}
	}
	// empty buffers in between
	if r.Chance(1, 4) {
		g.Stat("split-with-empty-buffers")
		var q []int
		for _, p := range parts {
			if r.Chance(1, 3) {
				q = append(q, 0)
			}
			q = append(q, p)
		}
		if r.Chance(1, 4) {
			g.Stat("split-trailing-empty-buffer")
			q = append(q, 0)
		}
		parts = q
	}
	s := make([]string, len(parts))
	for i, p := range parts {
		s[i] = strconv.Itoa(p)
	}
	return strings.Join(s, ",")
}

// genScript returns (script, kind). nseg = number of segments of the object expected to be fetched.
func genScript(r *common.Rand, g *common.Gen, nseg int) string {
	keys := []string{"m"}
	for i := 0; i < nseg; i++ {
		keys = append(keys, strconv.Itoa(i))
	}
	ent := map[string]string{}
	lossTok := func() string { return common.Pick(r, []string{"i", "x"}) }
	delays := r.Fork()
	delay := func() string { return "d" + strconv.Itoa(delays.Range(1, 900)) }
	kind := r.Intn(10)
	switch {
	case kind < 1:
		g.Stat("script-clean")
	case kind < 4:
		g.Stat("script-reorder")
		for _, k := range keys[1:] {
			if r.Chance(1, 2) {
				ent[k] = delay()
			}
		}
	case kind < 7:
		g.Stat("script-loss-within-budget")
		for _, k := range keys {
			if r.Chance(1, 3) {
				var a []string
				for j := r.Range(1, 3); j > 0; j-- {
					a = append(a, lossTok())
				}
				a = append(a, common.Pick(r, []string{"d", delay()}))
				ent[k] = strings.Join(a, ".")
			} else if r.Chance(1, 3) {
				ent[k] = delay()
			}
		}
	case kind < 9:
		g.Stat("script-loss-and-reorder-dense")
		for _, k := range keys {
			var a []string
			for j := r.Range(0, 3); j > 0; j-- {
				a = append(a, lossTok())
			}
			a = append(a, delay())
			ent[k] = strings.Join(a, ".")
		}
	default:
		g.Stat("script-loss-beyond-budget")
		k := common.Pick(r, keys)
		ent[k] = strings.Join([]string{lossTok(), lossTok(), lossTok(), lossTok(), "d"}, ".")
		for _, k2 := range keys {
			if k2 != k && r.Chance(1, 3) {
				ent[k2] = common.Pick(r, []string{lossTok() + ".d", delay()})
			}
		}
	}
	var parts []string
	for _, k := range keys {
		if v, ok := ent[k]; ok {
			parts = append(parts, k+":"+v)
		}
	}
	if len(parts) == 0 {
		return "-"
	}
	return strings.Join(parts, ";")
}

type pub struct {
	name string
	ver  string
	size int
}

func compText(c enc.Component) string { return common.CompText(c) }

func gen(g *common.Gen) {
	// decorrelate consecutive seeds (common.NewRand(s) and NewRand(s+1) are one stream shifted by a draw)
	r := common.NewRand(g.R.U64() ^ 0x5851F42D4C957F2D)
	seed := uint64(1)
	for h := 0; h < g.N; h++ {
		serve := common.Pick(r, []string{"mem", "bolt"})
		if r.Chance(1, 40) {
			g.Op("new serve=%s", serve)
			g.Stat("serve-" + serve)
			genFill(r, g)
			continue
		}
		// 1 in 4 histories: the producer side runs on the real basic.Engine (dummy face); 2 in 3 of those (and a
		// few on the harness engine) with further handlers of the producer application at sibling prefixes that
		// share leading components with the object names but cover none of the packets
		flavour := ""
		if r.Chance(1, 4) {
			flavour = " eng=basic"
			g.Stat("producer-real-engine")
		}
		if (flavour != "" && r.Chance(2, 3)) || (flavour == "" && r.Chance(1, 10)) {
			cand := []string{"/8:6f/8:7a7a", "/8:6f/8:61/8:7a7a", "/8:6f/8:61/8:78/8:7a7a", "/8:70/8:7a7a", "/8:7a7a", "/8:6f/8:62/8:7a7a/8:61", "/8:6f/8:61/8:79/8:7a7a", "/8:6f/8:61/8:79/8:7a/8:7a7a"}
			var sibs []string
			for _, x := range cand {
				if r.Chance(1, 3) {
					sibs = append(sibs, x)
				}
			}
			if len(sibs) == 0 {
				sibs = []string{common.Pick(r, cand[:4])}
			}
			flavour += " sib=" + strings.Join(sibs, ",")
			g.Stat("producer-sibling-handler")
		}
		// 1 in 5 histories: the CONSUMER side runs on the real basic.Engine, half on a harness-owned face whose
		// Send can be made to fail persistently (sendfail=), half on the real StreamFace over an in-memory pipe
		cfaceH, cfaceStream := false, false
		if r.Chance(1, 5) {
			g.Stat("consumer-real-engine")
			if r.Chance(1, 2) {
				flavour += " ceng=basic cface=h"
				cfaceH = true
			} else {
				flavour += " ceng=basic cface=stream"
				cfaceStream = true
				g.Stat("consumer-stream-face")
			}
		}
		g.Op("new serve=%s%s", serve, flavour)
		g.Stat("serve-" + serve)
		if cfaceStream && r.Chance(1, 2) {
			genTail(r, g, &seed)
			continue
		}
		if r.Chance(1, 8) {
			genQueued(r, g, &seed)
			genDirect(r, g)
			continue
		}
		var pubs []pub
		expiring := false
		nobj := common.Pick(r, []int{1, 1, 1, 2, 2, 3})
		names := []string{}
		for len(names) < nobj {
			names = append(names, common.Pick(r, objNames))
		}
		for _, nm := range names {
			pat := common.Pick(r, versionPatterns)
			if len(pat) >= 3 {
				g.Stat("object-with-3plus-versions")
			}
			for vi, v := range pat {
				size := common.Pick(r, boundarySizes)
				if r.Chance(1, 12) {
					size = common.Pick(r, bigSizes)
					g.Stat("size-more-than-one-window")
				} else if r.Chance(1, 6) {
					size = r.Range(1, 30000)
				}
				capx := common.Pick(r, []int{0, 0, 1, 2, 3, 4, 8})
				rm := ""
				if len(pubs) > 0 && r.Chance(1, 6) {
					// a Remove of already published packets arrives while this Produce holds its transaction open
					q := common.Pick(r, pubs)
					vc := ""
					if q.ver != "now" {
						vc = "/" + compText(enc.NewVersionComponent(common.Atou(q.ver)))
					}
					target, pf := q.name, 1
					switch r.Intn(4) {
					case 0:
						target += vc
					case 1:
						target += "/32:6d65746164617461" + vc
					case 2:
						if vc != "" {
							target, pf = q.name+vc+"/50:"+segHex(r.Intn((q.size-1)/8000+1)), 0
						}
					}
					rm = fmt.Sprintf(" rm=%s,%d,%d", target, pf, r.Range(1, (size-1)/8000+2))
					g.Stat("produce-with-remove-inside-transaction")
				}
				if vi+1 < len(pat) && rm == "" && r.Chance(1, 3) {
					// an OLDER version is published with an expiry that passes before the fetches
					rm = " exp=50"
					expiring = true
					g.Stat("produce-older-version-with-expiry")
				}
				g.Op("produce name=%s ver=%s size=%d seed=%d split=%s cap=%d%s", nm, v, size, seed, genSplit(r, g, size), capx, rm)
				seed++
				pubs = append(pubs, pub{nm, v, size})
				g.Stat("produce")
				if v == "0" {
					g.Stat("produce-version-0")
				}
				if capx >= 3 {
					g.Stat("produce-name-with-spare-capacity")
				}
				g.Stat(fmt.Sprintf("segments-%02d", min((size-1)/8000+1, 12)))
			}
		}
		if expiring {
			g.Op("wait ms=200")
		}
		verComp := func(p pub) string {
			if p.ver == "now" {
				return "" // unknown to the generator
			}
			return "/" + compText(enc.NewVersionComponent(common.Atou(p.ver)))
		}
		probe := func() {
			p := common.Pick(r, pubs)
			switch r.Intn(6) {
			case 0:
				g.Op("get name=%s pfx=1", p.name)
			case 1:
				g.Op("get name=%s/32:6d65746164617461 pfx=1", p.name)
			case 2:
				g.Op("get name=%s%s pfx=1", p.name, verComp(p))
			case 3:
				g.Op("get name=%s%s/50:%s pfx=%d", p.name, verComp(p), segHex(r.Intn((p.size-1)/8000+2)), r.Intn(2))
			case 4:
				g.Op("get name=%s/32:6d65746164617461%s/50:00 pfx=0", p.name, verComp(p))
			default:
				g.Op("get name=%s pfx=0", p.name)
			}
			g.Stat("get")
		}
		consume := func() {
			p := common.Pick(r, pubs)
			// the segment count of the newest version is what matters; use the max over this name's pubs
			nseg := 1
			for _, q := range pubs {
				if q.name == p.name {
					nseg = max(nseg, (q.size-1)/8000+1)
				}
			}
			nm := p.name
			if r.Chance(1, 8) && p.ver != "now" {
				nm += verComp(p)
				nseg = (p.size-1)/8000 + 1
				g.Stat("consume-versioned-name")
			}
			capx := common.Pick(r, []int{0, 0, 1, 4})
			sf := ""
			if cfaceH && r.Chance(1, 2) {
				// the consumer's connection breaks: the n-th and all later Sends of its face fail
				sf = fmt.Sprintf(" sendfail=%d", common.Pick(r, []int{0, 1, 2, 3, 4, 6, 12}))
				g.Stat("consumer-send-fails")
			}
			if r.Chance(1, 5) {
				// the CONSUMING node holds an older version of this object in its own store (it
				// published one itself earlier): the newest published version must still be fetched
				maxv := uint64(0)
				for _, q := range pubs {
					if q.name == p.name && q.ver != "now" {
						maxv = max(maxv, common.Atou(q.ver))
					}
				}
				if maxv >= 1 {
					g.Op("cput name=%s ver=%d size=%d seed=%d", p.name, uint64(r.Intn(int(min(maxv, 1<<30)))), common.Pick(r, []int{1, 100, 8000, 8001, 20000}), seed+100000)
					g.Stat("consumer-holds-older-version")
				}
			}
			g.Op("consume name=%s script=%s cap=%d%s", nm, genScript(r, g, nseg), capx, sf)
			g.Stat("consume")
			if capx > 0 {
				g.Stat("consume-name-with-spare-capacity")
			}
		}
		// two Consume calls running concurrently on one client (different object names)
		consume2 := func() {
			var others []pub
			p := common.Pick(r, pubs)
			for _, q := range pubs {
				if q.name != p.name {
					others = append(others, q)
				}
			}
			if len(others) == 0 {
				return
			}
			q := common.Pick(r, others)
			nsegOf := func(name string) int {
				n := 1
				for _, x := range pubs {
					if x.name == name {
						n = max(n, (x.size-1)/8000+1)
					}
				}
				return n
			}
			s1, s2 := genScript(r, g, nsegOf(p.name)), genScript(r, g, nsegOf(q.name))
			if r.Chance(1, 2) {
				// one stream fails on a segment while the other is still waiting for (late) segments
				g.Stat("consume-concurrent-one-fails")
				s1 = strconv.Itoa(r.Intn(nsegOf(p.name))) + ":" + common.Pick(r, []string{"i.i.i.i", "x.i.x.i", "x.x.x.x.d"})
				var parts []string
				for k := 0; k < nsegOf(q.name); k++ {
					parts = append(parts, strconv.Itoa(k)+":"+common.Pick(r, []string{"i.i.d", "i.i.i.d", "d", "x.d500", "i.i.i.d900", "x.x.d"}))
				}
				s2 = strings.Join(parts, ";")
			}
			g.Op("consume name=%s script=%s name2=%s script2=%s cap=%d", p.name, s1, q.name, s2, common.Pick(r, []int{0, 0, 2}))
			g.Stat("consume-concurrent")
		}
		for k := r.Range(1, 3); k > 0; k-- {
			probe()
		}
		for k := r.Range(1, 2); k > 0; k-- {
			consume()
		}
		if nobj > 1 && r.Chance(2, 3) {
			consume2()
		}
		if r.Chance(1, 2) {
			p := common.Pick(r, pubs)
			switch r.Intn(5) {
			case 0:
				g.Op("remove name=%s pfx=1", p.name)
				g.Stat("remove-object")
			case 1:
				g.Op("remove name=%s%s pfx=1", p.name, verComp(p))
				g.Stat("remove-version-segments")
			case 2:
				g.Op("remove name=%s/32:6d65746164617461%s pfx=1", p.name, verComp(p))
				g.Stat("remove-metadata")
			case 3:
				g.Op("remove name=%s%s/50:%s pfx=0", p.name, verComp(p), segHex(r.Intn((p.size-1)/8000+1)))
				g.Stat("remove-one-segment")
			default:
				g.Op("remove name=%s%s pfx=0", p.name, verComp(p))
				g.Stat("remove-exact-nonleaf")
			}
			for k := r.Range(1, 3); k > 0; k-- {
				probe()
			}
			consume()
			if r.Chance(1, 3) {
				p := common.Pick(r, pubs)
				g.Op("produce name=%s ver=%s size=%d seed=%d split=%d cap=0", p.name, p.ver, p.size, seed, p.size)
				seed++
				g.Stat("produce-again-after-remove")
				consume()
			}
		}
		genDirect(r, g)
	}
}

func segHex(n int) string {
	return common.Hex(enc.Nat(uint64(n)).Bytes())
}

// direct store histories: names under /8:73 whose byte order is unrelated to their versions
func genDirect(r *common.Rand, g *common.Gen) {
	if r.Chance(1, 3) {
		return
	}
	leaves := []string{"/8:73/8:61", "/8:73/8:62", "/8:73/8:63", "/8:73/8:61/8:78", "/8:73/8:62/8:79/8:7a", "/8:73/8:64/8:61", "/8:73/8:64/8:62", "/8:74/8:61"}
	prefixes := []string{"/8:73", "/", "/8:73/8:64", "/8:73/8:61", "/8:73/8:62", "/8:74", "/8:73/8:62/8:79"}
	if r.Chance(1, 3) {
		// twin names: different components that coincide under other keyings of a name-indexed store -
		// the same number in another encoding width, a generic component whose value is the TLV encoding /
		// the URI spelling of a typed one, the same value under another type; each also as an inner component
		g.Stat("store-part-twin-names")
		leaves = []string{
			"/8:74/50:01", "/8:74/50:0001", "/8:74/8:320101", "/8:74/8:7365673d31", "/8:74/54:05", "/8:74/54:0005", "/8:74/8:763d35",
			"/8:74/8:61", "/8:74/9:61", "/8:74/8:383d61", "/8:74/50:01/8:78", "/8:74/50:0001/8:78", "/8:74/8:7365673d31/8:78", "/8:74/9:61/8:78", "/8:74/8:61/8:78",
		}
		prefixes = []string{"/8:74", "/", "/8:74/50:01", "/8:74/50:0001", "/8:74/8:7365673d31", "/8:74/8:61", "/8:74/9:61", "/8:74/54:05", "/8:74/54:0005"}
	}
	c := 1
	vers := []uint64{0, 1, 2, 3, 5, 5, 7, 9, 256, 1 << 40}
	for k := r.Range(2, 6); k > 0; k-- {
		g.Op("sput name=%s ver=%d c=%02x", common.Pick(r, leaves), common.Pick(r, vers), c)
		c++
		g.Stat("sput")
	}
	for k := r.Range(2, 5); k > 0; k-- {
		switch r.Intn(6) {
		case 0:
			g.Op("remove name=%s pfx=0", common.Pick(r, leaves))
			g.Stat("sremove-exact")
		case 1:
			g.Op("remove name=%s pfx=1", common.Pick(r, append(prefixes[2:], leaves...)))
			g.Stat("sremove-prefix")
		case 2:
			g.Op("sput name=%s ver=%d c=%02x", common.Pick(r, leaves), common.Pick(r, vers), c)
			c++
			g.Stat("sput")
		case 3:
			// Begin, Puts and Removes in order, Commit: a Remove while a transaction is open
			var items []string
			for j := r.Range(2, 5); j > 0; j-- {
				if r.Chance(1, 2) {
					items = append(items, fmt.Sprintf("p,%s,%d,%02x", common.Pick(r, leaves), common.Pick(r, vers), c))
					c++
				} else if r.Chance(1, 2) {
					items = append(items, fmt.Sprintf("r,%s,0", common.Pick(r, leaves)))
				} else {
					items = append(items, fmt.Sprintf("r,%s,1", common.Pick(r, append(prefixes[2:], leaves...))))
				}
			}
			g.Op("stx ops=%s", strings.Join(items, ";"))
			g.Stat("stx")
		default:
		}
		g.Op("get name=%s pfx=1", common.Pick(r, prefixes))
		g.Op("get name=%s pfx=%d", common.Pick(r, leaves), r.Intn(2))
		g.StatN("sget", 2)
	}
}

// many keys under one prefix (bolt's prefix scan gives up after 999 keys)
func genFill(r *common.Rand, g *common.Gen) {
	n := common.Pick(r, []int{300, 998, 999, 1000, 1005})
	g.Op("sfill pfx=/8:66 n=%d ver=%d asc=%d", n, r.Range(0, 3), r.Intn(2))
	g.Stat("sfill")
	g.Op("get name=/8:66 pfx=1")
	g.Op("get name=/ pfx=1")
	g.Op("remove name=/8:66 pfx=1")
	g.Op("get name=/8:66 pfx=1")
	g.Op("get name=/8:66/8:%s pfx=0", common.Hex([]byte{0, byte(r.Intn(200))}))
	// >= 1000 segments of an older version sort before the newer version's keys
	g.Op("sfill pfx=/8:67/54:01 n=%d ver=1 asc=2", common.Pick(r, []int{997, 1000, 1003}))
	g.Op("sput name=/8:67/54:02/8:0000 ver=2 c=aa")
	g.Op("get name=/8:67 pfx=1")
	g.Op("get name=/8:67/54:02 pfx=1")
}

// two concurrent fetches: A (>= 11 segments) fills the 10-Interest window, B's metadata arrives while the
// window is full so B is queued with nothing sent; then A's pending Interests fail (lost 1+3 times).
// B must still be served and complete. Variants: one of A's window Interests is answered (control), A is
// fetched by versioned name, A already fails on segment 0, B's own segments are lossy/reordered.
func genQueued(r *common.Rand, g *common.Gen, seed *uint64) {
	a, b := "/8:6f/8:61", "/8:6f/8:62"
	if r.Chance(1, 3) {
		a, b = "/8:6f/8:61/8:78", "/8:6f/8:61"
	}
	sizeA := common.Pick(r, []int{80001, 88000, 88005, 96001, 100000, 160001})
	sizeB := common.Pick(r, []int{1, 8000, 8001, 16077, 24000})
	verA := common.Pick(r, []string{"1", "5", "0", "256"})
	g.Op("produce name=%s ver=%s size=%d seed=%d split=%d cap=0", a, verA, sizeA, *seed, sizeA)
	*seed++
	g.Op("produce name=%s ver=3 size=%d seed=%d split=%d cap=%d", b, sizeB, *seed, sizeB, common.Pick(r, []int{0, 3}))
	*seed++
	loss := func() string {
		return strings.Join([]string{common.Pick(r, []string{"i", "x"}), common.Pick(r, []string{"i", "x"}), common.Pick(r, []string{"i", "x"}), common.Pick(r, []string{"i", "x"})}, ".")
	}
	nameA := a
	var sa []string
	variant := r.Intn(8)
	answered := -1
	switch {
	case variant < 4:
		g.Stat("queued-behind-full-window-then-failure")
	case variant < 5:
		g.Stat("queued-behind-full-window-one-answered")
		answered = r.Range(1, 10)
	case variant < 7:
		g.Stat("queued-behind-full-window-versioned-name")
		nameA = a + "/" + compText(enc.NewVersionComponent(common.Atou(verA)))
	default:
		g.Stat("queued-first-segment-fails")
		sa = append(sa, "0:"+loss())
	}
	if variant < 7 {
		if r.Chance(1, 3) {
			sa = append(sa, "0:d"+strconv.Itoa(r.Range(1, 40)))
		}
		for k := 1; k <= 10; k++ {
			if k == answered {
				sa = append(sa, strconv.Itoa(k)+":"+common.Pick(r, []string{"d", "i.d", "d500"}))
			} else {
				sa = append(sa, strconv.Itoa(k)+":"+loss())
			}
		}
	}
	// B's metadata arrives after A's window is full (A: metadata 10 ms + segment 0 <= 40 ms)
	sb := []string{"m:" + common.Pick(r, []string{"d100", "d300", "d900", "x.d100", "i.i.d50"})}
	for k := 0; k < (sizeB-1)/8000+1; k++ {
		if r.Chance(1, 3) {
			sb = append(sb, strconv.Itoa(k)+":"+common.Pick(r, []string{"i.d", "d400", "x.x.d", "i.x.i.d20"}))
		}
	}
	capx := common.Pick(r, []int{0, 0, 2})
	if r.Chance(1, 2) {
		g.Op("consume name=%s script=%s name2=%s script2=%s cap=%d", nameA, strings.Join(sa, ";"), b, strings.Join(sb, ";"), capx)
	} else {
		g.Op("consume name=%s script=%s name2=%s script2=%s cap=%d", b, strings.Join(sb, ";"), nameA, strings.Join(sa, ";"), capx)
	}
	g.Stat("consume-concurrent")
	g.Op("get name=%s pfx=1", b)
	g.Op("consume name=%s script=- cap=0", b)
}

// short last segment arriving first (consumer on the real StreamFace): object A of k*8000+r bytes (r small: the
// last segment's Data is a small packet), its LAST segment is delivered before the earlier ones, and another
// small packet (metadata / segment of a small object B fetched concurrently) arrives in between.
func genTail(r *common.Rand, g *common.Gen, seed *uint64) {
	a, b := "/8:6f/8:61", "/8:6f/8:62"
	k := r.Range(2, 4)
	sizeA := k*8000 + common.Pick(r, []int{1, 2, 7, 100, 250, 400, 430})
	sizeB := common.Pick(r, []int{1, 50, 120, 300})
	g.Op("produce name=%s ver=%s size=%d seed=%d split=%d cap=0", a, common.Pick(r, []string{"1", "7", "300"}), sizeA, *seed, sizeA)
	*seed++
	g.Op("produce name=%s ver=2 size=%d seed=%d split=%d cap=0", b, sizeB, *seed, sizeB)
	*seed++
	g.Stat("tail-last-segment-first")
	var sa []string
	for j := 1; j < k; j++ {
		sa = append(sa, fmt.Sprintf("%d:d%d", j, r.Range(300, 800)))
	}
	sa = append(sa, fmt.Sprintf("%d:d", k)) // the last segment comes back at once
	if r.Chance(1, 3) {
		sa = append(sa, fmt.Sprintf("%d:%s", r.Range(1, k-1), common.Pick(r, []string{"i.d300", "x.d"})))
	}
	sb := fmt.Sprintf("m:d%d;0:d%d", r.Range(40, 120), r.Range(20, 150))
	if r.Chance(1, 2) {
		g.Op("consume name=%s script=%s name2=%s script2=%s cap=0", a, strings.Join(sa, ";"), b, sb)
	} else {
		g.Op("consume name=%s script=%s name2=%s script2=%s cap=0", b, sb, a, strings.Join(sa, ";"))
	}
	g.Stat("consume-concurrent")
	g.Op("consume name=%s script=%s cap=0", a, genScript(r, g, k+1))
	g.Op("get name=%s pfx=1", a)
}
