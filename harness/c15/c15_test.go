// Package c15: correspondence harness for property C15 (a published object is retrieved
// byte-for-byte, newest version, completing once; both stores; removed packets are not served).
//
// Real code under test: object.Client.Produce / Consume (segment fetcher, ExpressR), MemoryStore,
// BoltStore.  Harness-owned (property's observe_at): a pair of ndn.Engine implementations joined by
// a scripted "network" that relays Interest wires to the producer's handler and Data wires back and
// drops / delays them per (Interest, attempt); a recording ndn.Store wrapper that logs Put calls.
// Every history runs in its own testing/synctest bubble (virtual time); every timer the harness arms
// gets a unique virtual instant so that the order of events is a function of the op line alone.
package c15

import (
	"bufio"
	"errors"
	"io"
	"net"
	"fmt"
	"os"
	"sort"
	"strconv"
	"strings"
	"sync"
	"sync/atomic"
	"testing"
	"testing/synctest"
	"time"

	enc "github.com/named-data/ndnd/std/encoding"
	basic "github.com/named-data/ndnd/std/engine/basic"
	"github.com/named-data/ndnd/std/engine/dummy"
	appface "github.com/named-data/ndnd/std/engine/face"
	"github.com/named-data/ndnd/std/ndn"
	rdr "github.com/named-data/ndnd/std/ndn/rdr_2024"
	spec "github.com/named-data/ndnd/std/ndn/spec_2022"
	"github.com/named-data/ndnd/std/object"
	sec "github.com/named-data/ndnd/std/security"
	"verif/harness/common"
)

// ------------------------------------------------------------------ content and checksums

const hashP = 4294967291 // largest prime below 2^32

// content byte i of the object with seed s (recomputed by the Lean driver)
func contentByte(seed uint64, i int) byte {
	return byte((seed*31 + uint64(i)*7 + uint64(i)/251) % 256)
}

func makeContent(seed uint64, size int) []byte {
	b := make([]byte, size)
	for i := range b {
		b[i] = contentByte(seed, i)
	}
	return b
}

func hashBytes(b []byte) uint64 {
	h := uint64(0)
	for _, x := range b {
		h = (h*257 + uint64(x) + 1) % hashP
	}
	return h
}

func lenHash(b []byte) string {
	return strconv.Itoa(len(b)) + ":" + strconv.FormatUint(hashBytes(b), 10)
}

// ------------------------------------------------------------------ recording store wrapper

type putRec struct {
	name    enc.Name
	version uint64
	wire    []byte
}

type recStore struct {
	inner ndn.Store
	log   []putRec
}

func (s *recStore) Get(name enc.Name, prefix bool) ([]byte, error) { return s.inner.Get(name, prefix) }
func (s *recStore) Put(name enc.Name, version uint64, wire []byte) error {
	s.log = append(s.log, putRec{name.Clone(), version, append([]byte(nil), wire...)})
	return s.inner.Put(name, version, wire)
}
func (s *recStore) Remove(name enc.Name, prefix bool) error { return s.inner.Remove(name, prefix) }
func (s *recStore) Begin() error                            { return s.inner.Begin() }
func (s *recStore) Commit() error                           { return s.inner.Commit() }
func (s *recStore) Rollback() error                         { return s.inner.Rollback() }

// ------------------------------------------------------------------ harness timer (ndn.Timer)

type hTimer struct{ n *uint64 }

func (hTimer) Now() time.Time        { return time.Now() }
func (hTimer) Sleep(d time.Duration) { time.Sleep(d) }
func (hTimer) Schedule(d time.Duration, f func()) func() error {
	t := time.AfterFunc(d, f)
	return func() error { t.Stop(); return nil }
}
func (t hTimer) Nonce() []byte {
	v := atomic.AddUint64(t.n, 0x9E3779B97F4A7C15)
	b := make([]byte, 8)
	for i := range b {
		b[i] = byte(v >> (8 * i))
	}
	return b
}

// ------------------------------------------------------------------ scripted network + engine pair

type action struct {
	kind  byte // 'd' deliver, 'i' drop the Interest, 'x' drop the Data
	delay int  // ms, for 'd'
}

type network struct {
	mu       sync.Mutex
	objs     []enc.Name          // names given to the concurrent Consume calls of this op
	script   map[string][]action // "<consume index>:<key>" (key = "m" or segment number) -> per-attempt actions
	attempts map[string]int      // Interest name text -> number of Interests seen
	used     map[int64]bool      // virtual instants already taken by a harness timer
	events   []string
	inflight int // Data packets scheduled for delivery
	prod     *hEngine
	cons     *hEngine
	realFace *dummy.DummyFace // producer side on the REAL basic.Engine (histories with eng=basic)
	// consumer side on the REAL basic.Engine (histories with ceng=basic): Data wires go to the consumer's face
	consDeliver func(data []byte)
	lastSend    time.Time // last Send attempt of the consumer's face
	sends       int       // Send attempts of the consumer's face in the current consume op
	failFrom    int       // the failFrom-th and all later Sends fail (-1: never)
	sibCalls int              // calls of the harness's sibling handlers on the producer engine
}

const defaultDelayMs = 10

// uniqueAfter arms f at a virtual instant no other harness timer uses (>= now+d).
func (n *network) uniqueAfter(d time.Duration, f func()) *time.Timer {
	at := time.Now().Add(d).UnixNano()
	for n.used[at] {
		at += 1000
	}
	n.used[at] = true
	return time.AfterFunc(time.Duration(at-time.Now().UnixNano()), f)
}

func keyOfName(name enc.Name) string {
	for _, c := range name {
		if c.Typ == enc.TypeKeywordNameComponent && string(c.Val) == "metadata" {
			return "m"
		}
	}
	if len(name) > 0 && name[len(name)-1].Typ == enc.TypeSegmentNameComponent {
		return strconv.FormatUint(name[len(name)-1].NumberVal(), 10)
	}
	return "q"
}

// objOf: which Consume call an Interest/Data name belongs to (longest matching consume name)
func (n *network) objOf(name enc.Name) int {
	best, bestLen := 0, -1
	for i, o := range n.objs {
		if o.IsPrefix(name) && len(o) > bestLen {
			best, bestLen = i, len(o)
		}
	}
	return best
}

// tag renders an event: kind, consume index (only when several consumes run), key
func (n *network) tag(kind string, obj int, key string) string {
	if len(n.objs) > 1 {
		return string(rune('a'+obj)) + kind + key
	}
	return kind + key
}

type pend struct {
	obj         int
	name        enc.Name
	canBePrefix bool
	cb          ndn.ExpressCallbackFunc
	timer       *time.Timer
	done        bool
	key         string
}

type handlerEntry struct {
	prefix  enc.Name
	handler ndn.InterestHandler
}

// hookSpec is spec_2022 with a harness hook: before the k-th MakeData of the current Produce call the
// harness can act (a Remove while Produce holds its store transaction open) - no repository hook needed
type hookSpec struct{ e *hEngine }

func (h hookSpec) MakeData(name enc.Name, config *ndn.DataConfig, content enc.Wire, signer ndn.Signer) (*ndn.EncodedData, error) {
	if h.e.onMakeData != nil {
		h.e.makeDataN++
		h.e.onMakeData(h.e.makeDataN)
	}
	return spec.Spec{}.MakeData(name, config, content, signer)
}
func (h hookSpec) MakeInterest(name enc.Name, config *ndn.InterestConfig, appParam enc.Wire, signer ndn.Signer) (*ndn.EncodedInterest, error) {
	return spec.Spec{}.MakeInterest(name, config, appParam, signer)
}
func (h hookSpec) ReadData(reader enc.ParseReader) (ndn.Data, enc.Wire, error) {
	return spec.Spec{}.ReadData(reader)
}
func (h hookSpec) ReadInterest(reader enc.ParseReader) (ndn.Interest, enc.Wire, error) {
	return spec.Spec{}.ReadInterest(reader)
}

type hEngine struct {
	onMakeData func(n int)
	makeDataN  int
	net      *network
	running  bool
	handlers []handlerEntry
	pending  []*pend
	timer    hTimer
}

func (e *hEngine) EngineTrait() ndn.Engine { return e }
func (e *hEngine) Spec() ndn.Spec          { return hookSpec{e} }
func (e *hEngine) Timer() ndn.Timer        { return e.timer }
func (e *hEngine) Start() error            { e.running = true; return nil }
func (e *hEngine) Stop() error             { e.running = false; return nil }
func (e *hEngine) IsRunning() bool         { return e.running }
func (e *hEngine) AttachHandler(prefix enc.Name, h ndn.InterestHandler) error {
	e.net.mu.Lock()
	defer e.net.mu.Unlock()
	for _, x := range e.handlers {
		if x.prefix.Equal(prefix) {
			return fmt.Errorf("handler already attached")
		}
	}
	e.handlers = append(e.handlers, handlerEntry{prefix.Clone(), h})
	return nil
}
func (e *hEngine) DetachHandler(prefix enc.Name) error {
	e.net.mu.Lock()
	defer e.net.mu.Unlock()
	for i, x := range e.handlers {
		if x.prefix.Equal(prefix) {
			e.handlers = append(e.handlers[:i], e.handlers[i+1:]...)
			return nil
		}
	}
	return fmt.Errorf("no such handler")
}
func (e *hEngine) RegisterRoute(enc.Name) error           { return nil }
func (e *hEngine) UnregisterRoute(enc.Name) error         { return nil }
func (e *hEngine) ExecMgmtCmd(string, string, any) error  { return nil }

// longest-prefix match among the attached handlers
func (e *hEngine) lookup(name enc.Name) ndn.InterestHandler {
	var best ndn.InterestHandler
	bestLen := -1
	for _, x := range e.handlers {
		if x.prefix.IsPrefix(name) && len(x.prefix) > bestLen {
			best, bestLen = x.handler, len(x.prefix)
		}
	}
	return best
}

func (e *hEngine) Express(interest *ndn.EncodedInterest, cb ndn.ExpressCallbackFunc) error {
	n := e.net
	lifetime := 4 * time.Second
	if interest.Config.Lifetime != nil {
		lifetime = *interest.Config.Lifetime
	}
	p := &pend{name: interest.FinalName.Clone(), canBePrefix: interest.Config.CanBePrefix, cb: cb, key: keyOfName(interest.FinalName)}
	n.mu.Lock()
	p.obj = n.objOf(p.name)
	e.pending = append(e.pending, p)
	p.timer = n.uniqueAfter(lifetime, func() {
		n.mu.Lock()
		if p.done {
			n.mu.Unlock()
			return
		}
		p.done = true
		e.removePending(p)
		n.events = append(n.events, n.tag("t", p.obj, p.key))
		n.mu.Unlock()
		cb(ndn.ExpressCallbackArgs{Result: ndn.InterestResultTimeout})
	})
	n.mu.Unlock()
	n.relayInterest(interest.Wire.Join())
	return nil
}

func (e *hEngine) removePending(p *pend) {
	for i, x := range e.pending {
		if x == p {
			e.pending = append(e.pending[:i], e.pending[i+1:]...)
			return
		}
	}
}

// relayInterest: consumer -> (script) -> producer handler -> (script) -> consumer
func (n *network) relayInterest(wire []byte) {
	interest, sigCov, err := spec.Spec{}.ReadInterest(enc.NewBufferReader(wire))
	if err != nil {
		n.mu.Lock()
		n.events = append(n.events, "bad-interest")
		n.mu.Unlock()
		return
	}
	name := interest.Name()
	key := keyOfName(name)
	n.mu.Lock()
	txt := common.NameText(name)
	n.attempts[txt]++
	att := n.attempts[txt]
	act := action{'d', defaultDelayMs}
	obj := n.objOf(name)
	if as := n.script[strconv.Itoa(obj)+":"+key]; att <= len(as) {
		act = as[att-1]
	}
	n.events = append(n.events, n.tag("i", obj, key))
	h := n.prod.lookup(name)
	real := n.realFace
	n.mu.Unlock()
	if act.kind == 'i' {
		return
	}
	send := func(data []byte) {
		if act.kind == 'x' {
			return
		}
		n.mu.Lock()
		n.inflight++
		n.uniqueAfter(time.Duration(act.delay)*time.Millisecond, func() { n.deliverData(data) })
		n.mu.Unlock()
	}
	if real != nil {
		// the Interest wire goes through the real engine: onPacket -> onInterest (handler lookup) ->
		// Client.onInterest -> store.Get -> Reply -> face.Send; whatever the face sent comes back
		real.FeedPacket(wire)
		for {
			pkt, err := real.Consume()
			if err != nil {
				break
			}
			send(append([]byte(nil), pkt...))
		}
		return
	}
	if h == nil {
		return
	}
	replied := false
	h(ndn.InterestHandlerArgs{
		Interest:    interest,
		RawInterest: enc.Wire{wire},
		SigCovered:  sigCov,
		Deadline:    time.Now().Add(4 * time.Second),
		Reply: func(w enc.Wire) error {
			if replied {
				return fmt.Errorf("already replied")
			}
			replied = true
			send(w.Join())
			return nil
		},
	})
}

func (n *network) deliverData(wire []byte) {
	n.mu.Lock()
	cd := n.consDeliver
	n.mu.Unlock()
	if cd != nil {
		cd(wire) // the real engine matches it against its own PIT
		n.mu.Lock()
		n.inflight--
		n.mu.Unlock()
		return
	}
	data, sigCov, err := spec.Spec{}.ReadData(enc.NewBufferReader(wire))
	n.mu.Lock()
	n.inflight--
	if err != nil {
		n.events = append(n.events, "bad-data")
		n.mu.Unlock()
		return
	}
	name := data.Name()
	var hit []*pend
	for _, p := range n.cons.pending {
		if !p.done && (p.name.Equal(name) || (p.canBePrefix && p.name.IsPrefix(name))) {
			hit = append(hit, p)
		}
	}
	if len(hit) == 0 {
		n.events = append(n.events, n.tag("u", n.objOf(name), keyOfName(name)))
	}
	for _, p := range hit {
		p.done = true
		p.timer.Stop()
		n.cons.removePending(p)
		n.events = append(n.events, n.tag("d", p.obj, p.key))
	}
	n.mu.Unlock()
	for _, p := range hit {
		p.cb(ndn.ExpressCallbackArgs{Result: ndn.InterestResultData, Data: data, RawData: enc.Wire{wire}, SigCovered: sigCov})
	}
}

// ------------------------------------------------------------------ consumer faces for the real basic.Engine

// hFace: harness-owned face.Face of the consumer's real engine. Sent Interest wires go to the scripted
// network, Data wires come back through the engine's onPkt; from the failFrom-th Send of a consume op on,
// Send fails persistently (the connection to the forwarder is gone).
type hFace struct {
	n       *network
	running bool
	onPkt   func(r enc.ParseReader) error
	onError func(err error) error
}

func (f *hFace) Open() error     { f.running = true; return nil }
func (f *hFace) Close() error    { f.running = false; return nil }
func (f *hFace) IsRunning() bool { return f.running }
func (f *hFace) IsLocal() bool   { return true }
func (f *hFace) SetCallback(onPkt func(r enc.ParseReader) error, onError func(err error) error) {
	f.onPkt, f.onError = onPkt, onError
}
func (f *hFace) Send(pkt enc.Wire) error {
	n := f.n
	n.mu.Lock()
	n.sends++
	n.lastSend = time.Now()
	fail := n.failFrom >= 0 && n.sends >= n.failFrom
	n.mu.Unlock()
	if fail {
		return errors.New("harness: face send failed")
	}
	n.relayInterest(pkt.Join())
	return nil
}

// streamWrap lets Engine.Start() open a StreamFace that already sits on a connection (hook
// face.VerifNewStreamFaceOnConn): Open starts the real StreamFace.Run receive loop.
type streamWrap struct {
	sf     *appface.StreamFace
	n      *network
	opened bool
}

func (w *streamWrap) Open() error {
	w.opened = true
	go w.sf.Run()
	return nil
}
func (w *streamWrap) Close() error    { w.opened = false; return w.sf.Close() }
func (w *streamWrap) IsRunning() bool { return w.opened && w.sf.IsRunning() }
func (w *streamWrap) IsLocal() bool   { return true }
func (w *streamWrap) SetCallback(onPkt func(r enc.ParseReader) error, onError func(err error) error) {
	w.sf.SetCallback(onPkt, onError)
}
func (w *streamWrap) Send(pkt enc.Wire) error {
	w.n.mu.Lock()
	w.n.sends++
	w.n.lastSend = time.Now()
	w.n.mu.Unlock()
	return w.sf.Send(pkt)
}

// ------------------------------------------------------------------ per-history state

type hist struct {
	dir              string
	mem              *object.MemoryStore
	bolt             *object.BoltStore
	recMem, recBolt  *recStore
	serve            string
	net              *network
	prodEng, consEng *hEngine
	realEng          *basic.Engine
	consReal         *basic.Engine // consumer side on the real engine (ceng=basic)
	pipeEnd          net.Conn      // harness end of the consumer's stream face (cface=stream)
	srv              *object.Client // the client that answers Interests
	prodMem          *object.Client
	prodBolt         *object.Client
	cons             *object.Client
}

var H *hist
var nonceCtr uint64
var progress atomic.Int64 // watchdog heartbeat

func tmpRoot() string { return common.Env("VERIF_TMP", "/var/tmp") }

func newHist(serve, eng string, sibs []enc.Name, ceng, cface string) (*hist, error) {
	dir, err := os.MkdirTemp(tmpRoot(), "c15-")
	if err != nil {
		return nil, err
	}
	h := &hist{dir: dir, serve: serve}
	h.mem = object.NewMemoryStore()
	h.bolt, err = object.NewBoltStore(dir + "/store.db")
	if err != nil {
		os.RemoveAll(dir)
		return nil, err
	}
	h.recMem, h.recBolt = &recStore{inner: h.mem}, &recStore{inner: h.bolt}
	h.net = &network{script: map[string][]action{}, attempts: map[string]int{}, used: map[int64]bool{}}
	h.prodEng = &hEngine{net: h.net, running: true, timer: hTimer{&nonceCtr}}
	h.consEng = &hEngine{net: h.net, running: true, timer: hTimer{&nonceCtr}}
	h.net.prod, h.net.cons = h.prodEng, h.consEng
	// Produce only needs Spec() and the store: one producer client per store (on the harness engine, whose
	// Spec() carries the rm= hook); the client that answers Interests shares the store of the serving kind
	h.prodMem = object.NewClient(h.prodEng, h.recMem)
	h.prodBolt = object.NewClient(h.prodEng, h.recBolt)
	var srvStore ndn.Store = h.recMem
	h.srv = h.prodMem
	if serve == "bolt" {
		srvStore, h.srv = h.recBolt, h.prodBolt
	}
	var prodEngine ndn.Engine = h.prodEng
	if eng == "basic" {
		// producer side on the real engine: handler lookup, reply path and LpPacket handling are the code's
		h.net.realFace = dummy.NewDummyFace()
		timer := basic.NewTimer()
		passAll := func(enc.Name, enc.Wire, ndn.Signature) bool { return true }
		h.realEng = basic.NewEngine(h.net.realFace, timer, sec.NewSha256IntSigner(timer), passAll)
		if err := h.realEng.Start(); err != nil {
			return nil, err
		}
		prodEngine = h.realEng
		h.srv = object.NewClient(h.realEng, srvStore)
	}
	if err := h.srv.Start(); err != nil {
		return nil, err
	}
	// other handlers of the producer application under prefixes that cover none of the packets
	for _, sb := range sibs {
		if err := prodEngine.AttachHandler(sb, func(ndn.InterestHandlerArgs) {
			h.net.mu.Lock()
			h.net.sibCalls++
			h.net.mu.Unlock()
		}); err != nil {
			return nil, err
		}
	}
	h.net.failFrom = -1
	var consEngine ndn.Engine = h.consEng
	if ceng == "basic" {
		var cf appface.Face
		if cface == "stream" {
			// real StreamFace on one end of an in-memory pipe; the harness end frames the Interest stream by
			// TLV length and hands each wire to the network, Data wires are written back in script order
			c1, c2 := net.Pipe()
			h.pipeEnd = c2
			cf = &streamWrap{sf: appface.VerifNewStreamFaceOnConn(c1, true), n: h.net}
			var wmu sync.Mutex
			h.net.consDeliver = func(data []byte) {
				wmu.Lock()
				defer wmu.Unlock()
				c2.Write(data)
			}
			go func() {
				r := bufio.NewReader(c2)
				for {
					t, err := enc.ReadTLNum(r)
					if err != nil {
						return
					}
					l, err := enc.ReadTLNum(r)
					if err != nil {
						return
					}
					l0, l1 := t.EncodingLength(), l.EncodingLength()
					buf := make([]byte, l0+l1+int(l))
					t.EncodeInto(buf)
					l.EncodeInto(buf[l0:])
					if _, err := io.ReadFull(r, buf[l0+l1:]); err != nil {
						return
					}
					h.net.relayInterest(buf)
				}
			}()
		} else {
			hf := &hFace{n: h.net}
			cf = hf
			h.net.consDeliver = func(data []byte) { hf.onPkt(enc.NewBufferReader(data)) }
		}
		timer := basic.NewTimer()
		passAll := func(enc.Name, enc.Wire, ndn.Signature) bool { return true }
		h.consReal = basic.NewEngine(cf, timer, sec.NewSha256IntSigner(timer), passAll)
		if err := h.consReal.Start(); err != nil {
			return nil, err
		}
		consEngine = h.consReal
	}
	h.cons = object.NewClient(consEngine, object.NewMemoryStore())
	if err := h.cons.Start(); err != nil {
		return nil, err
	}
	return h, nil
}

func (h *hist) close() {
	if h == nil {
		return
	}
	h.cons.Stop()
	if h.consReal != nil {
		h.consReal.Stop()
	}
	if h.pipeEnd != nil {
		h.pipeEnd.Close()
	}
	h.srv.Stop()
	if h.realEng != nil {
		h.realEng.Stop()
	}
	h.bolt.Close()
	os.RemoveAll(h.dir)
}

// ------------------------------------------------------------------ op helpers

func kv(f []string) map[string]string {
	m := map[string]string{}
	for _, x := range f[1:] {
		if i := strings.IndexByte(x, '='); i > 0 {
			m[x[:i]] = x[i+1:]
		}
	}
	return m
}

func errStr(err error) string {
	if err != nil {
		return "err"
	}
	return "ok"
}

// one record per Put call: <name>,<version>,<w>,<fb>,<kind>
//
//	w    '=' if the name inside the wire equals the Put name, else '!'
//	fb   FinalBlockId component text or '-'
//	kind c<len>:<hash> (content)   or   m<MetaData.Name>;<FinalBlockID hex>  for names carrying 32=metadata
func describePut(p putRec) string {
	d, _, err := spec.Spec{}.ReadData(enc.NewBufferReader(p.wire))
	head := common.NameText(p.name) + "," + strconv.FormatUint(p.version, 10) + ","
	if err != nil {
		return head + "bad"
	}
	w := "="
	if !d.Name().Equal(p.name) {
		w = "!"
	}
	fb := "-"
	if c := d.FinalBlockID(); c != nil {
		fb = common.CompText(*c)
	}
	kind := "c" + lenHash(d.Content().Join())
	if keyOfName(p.name) == "m" {
		md, err := rdr.ParseMetaData(enc.NewWireReader(d.Content()), false)
		if err != nil {
			kind = "mbad"
		} else {
			kind = "m" + common.NameText(md.Name) + ";" + common.Hex(md.FinalBlockID)
		}
	}
	return head + w + "," + fb + "," + kind
}

func describePuts(log []putRec) string {
	if len(log) == 0 {
		return "-"
	}
	parts := make([]string, len(log))
	for i, p := range log {
		parts[i] = describePut(p)
	}
	return strings.Join(parts, "|")
}

func describeGet(wire []byte, err error) string {
	if err != nil {
		return "err"
	}
	if wire == nil {
		return "none"
	}
	d, _, err := spec.Spec{}.ReadData(enc.NewBufferReader(wire))
	if err != nil {
		return "bad"
	}
	return common.NameText(d.Name()) + "," + lenHash(d.Content().Join())
}

func splitWire(content []byte, split string) enc.Wire {
	w := enc.Wire{}
	off := 0
	for _, s := range strings.Split(split, ",") {
		n := common.Atoi(s)
		if off+n > len(content) {
			n = len(content) - off
		}
		w = append(w, content[off:off+n:off+n])
		off += n
	}
	if off < len(content) {
		w = append(w, content[off:])
	}
	return w
}

func parseScript(m map[string][]action, obj int, s string) {
	if s == "-" || s == "" {
		return
	}
	for _, ent := range strings.Split(s, ";") {
		i := strings.IndexByte(ent, ':')
		if i < 0 {
			continue
		}
		var as []action
		for _, a := range strings.Split(ent[i+1:], ".") {
			switch {
			case a == "i":
				as = append(as, action{'i', 0})
			case a == "x":
				as = append(as, action{'x', 0})
			case a == "d":
				as = append(as, action{'d', defaultDelayMs})
			case strings.HasPrefix(a, "d"):
				as = append(as, action{'d', common.Atoi(a[1:])})
			}
		}
		m[strconv.Itoa(obj)+":"+ent[:i]] = as
	}
}

// ------------------------------------------------------------------ exec

func exec(op string) string {
	f := common.Fields(op)
	a := kv(f)
	if f[0] == "new" {
		H.close()
		H = nil
		serve := a["serve"]
		if serve != "bolt" {
			serve = "mem"
		}
		var sibs []enc.Name
		if a["sib"] != "" && a["sib"] != "-" {
			for _, x := range strings.Split(a["sib"], ",") {
				sibs = append(sibs, common.ParseNameText(x))
			}
		}
		h, err := newHist(serve, a["eng"], sibs, a["ceng"], a["cface"])
		if err != nil {
			return "harness-error " + err.Error()
		}
		H = h
		return "ok"
	}
	if H == nil {
		return "skip"
	}
	h := H
	switch f[0] {
	case "produce":
		name := common.ParseNameText(a["name"])
		size := common.Atoi(a["size"])
		seed := common.Atou(a["seed"])
		extra := common.Atoi(a["cap"])
		content := makeContent(seed, size)
		var ver *uint64
		if a["ver"] != "now" {
			v := common.Atou(a["ver"])
			ver = &v
		}
		time.Sleep(time.Millisecond) // distinct clock readings for consecutive ver=now publications
		clock := time.Now().UnixNano()
		run := func(c *object.Client, rs *recStore) (string, string) {
			rs.log = nil
			n := make(enc.Name, len(name), len(name)+extra)
			copy(n, name)
			pa := object.ProduceArgs{Name: n, Content: splitWire(append([]byte(nil), content...), a["split"]), Version: ver}
			if a["exp"] != "" {
				// the publisher announces an expiry for THIS version; whatever is done with it, it says
				// nothing about other versions of the object or about objects named below it
				pa.Expiry = time.Now().Add(time.Duration(common.Atoi(a["exp"])) * time.Millisecond)
			}
			ret, err := c.Produce(pa)
			r := "err"
			if err == nil {
				r = common.NameText(ret)
			}
			return r, describePuts(rs.log)
		}
		// rm=<name>,<pfx>,<k>: Remove(name, pfx) issued while this Produce holds its transaction open, just
		// before its k-th MakeData (memory store). BoltStore.Remove is a db.Update and would wait for the open
		// write transaction (single-threaded: for ever), so on bolt the equivalent serial order is executed:
		// the Remove first, then the Produce.
		if rm := a["rm"]; rm != "" && size > 0 {
			parts := strings.Split(rm, ",")
			rmName := common.ParseNameText(parts[0])
			rmPfx := parts[1] == "1"
			k := min(max(common.Atoi(parts[2]), 1), (size-1)/8000+2)
			h.prodEng.makeDataN = 0
			h.prodEng.onMakeData = func(n int) {
				if n == k {
					h.mem.Remove(rmName, rmPfx)
				}
			}
			defer func() { h.prodEng.onMakeData = nil }()
			h.bolt.Remove(rmName, rmPfx)
		}
		r1, p1 := run(h.prodMem, h.recMem)
		h.prodEng.onMakeData = nil
		progress.Add(1)
		r2, p2 := run(h.prodBolt, h.recBolt)
		progress.Add(1)
		both := "same"
		if r1 != r2 || p1 != p2 {
			both = "differ:" + r2 + ":" + p2
		}
		return fmt.Sprintf("clock=%d ret=%s puts=%s both=%s", clock, r1, p1, both)
	case "sput":
		name := common.ParseNameText(a["name"])
		ver := common.Atou(a["ver"])
		ct := ndn.ContentTypeBlob
		d, err := spec.Spec{}.MakeData(name, &ndn.DataConfig{ContentType: &ct}, enc.Wire{common.UnHex(a["c"])}, sec.NewSha256Signer())
		if err != nil {
			return "harness-error"
		}
		w := d.Wire.Join()
		return "mem=" + errStr(h.recMem.Put(name, ver, w)) + " bolt=" + errStr(h.recBolt.Put(name, ver, w))
	case "stx":
		// ops=<item>;<item>... item = p,<name>,<ver>,<content hex> | r,<name>,<pfx>
		// memory store: Begin, the items in order (a Remove acts while the transaction is open), Commit.
		// bolt: BoltStore.Remove (db.Update) cannot run inside the open write transaction in one goroutine;
		// the equivalent serial history is executed: the Removes, then Begin, the Puts, Commit.
		ct := ndn.ContentTypeBlob
		type item struct {
			put  bool
			name enc.Name
			ver  uint64
			wire []byte
			pfx  bool
		}
		var items []item
		for _, it := range strings.Split(a["ops"], ";") {
			f := strings.Split(it, ",")
			switch {
			case f[0] == "p" && len(f) == 4:
				nm := common.ParseNameText(f[1])
				d, err := spec.Spec{}.MakeData(nm, &ndn.DataConfig{ContentType: &ct}, enc.Wire{common.UnHex(f[3])}, sec.NewSha256Signer())
				if err != nil {
					return "harness-error"
				}
				items = append(items, item{put: true, name: nm, ver: common.Atou(f[2]), wire: d.Wire.Join()})
			case f[0] == "r" && len(f) == 3:
				items = append(items, item{name: common.ParseNameText(f[1]), pfx: f[2] == "1"})
			default:
				return "bad-op"
			}
		}
		rm, rb := "ok", "ok"
		bad := func(r *string, err error) {
			if err != nil {
				*r = "err"
			}
		}
		bad(&rm, h.recMem.Begin())
		for _, it := range items {
			if it.put {
				bad(&rm, h.recMem.Put(it.name, it.ver, it.wire))
			} else {
				bad(&rm, h.mem.Remove(it.name, it.pfx))
			}
		}
		bad(&rm, h.recMem.Commit())
		for _, it := range items {
			if !it.put {
				bad(&rb, h.bolt.Remove(it.name, it.pfx))
			}
		}
		bad(&rb, h.recBolt.Begin())
		for _, it := range items {
			if it.put {
				bad(&rb, h.recBolt.Put(it.name, it.ver, it.wire))
			}
		}
		bad(&rb, h.recBolt.Commit())
		return "mem=" + rm + " bolt=" + rb
	case "sfill":
		// n tiny packets <pfx>/8:<i as 2 bytes> with version ver+i (asc=1), ver (asc=2) or ver+((i*37)%n), inside one transaction per store
		pfx := common.ParseNameText(a["pfx"])
		n := common.Atoi(a["n"])
		ver := common.Atou(a["ver"])
		ct := ndn.ContentTypeBlob
		res := []string{}
		for _, st := range []ndn.Store{h.recMem, h.recBolt} {
			r := "ok"
			if err := st.Begin(); err != nil {
				r = "err"
			}
			for i := 0; i < n; i++ {
				progress.Add(1)
				val := []byte{byte(i >> 8), byte(i)}
				nm := append(pfx.Clone(), enc.Component{Typ: enc.TypeGenericNameComponent, Val: val})
				d, err := spec.Spec{}.MakeData(nm, &ndn.DataConfig{ContentType: &ct}, enc.Wire{val}, sec.NewSha256Signer())
				if err != nil {
					return "harness-error"
				}
				v := ver + uint64((i*37)%n)
				if a["asc"] == "1" {
					v = ver + uint64(i)
				} else if a["asc"] == "2" {
					v = ver
				}
				if err := st.Put(nm, v, d.Wire.Join()); err != nil {
					r = "err"
				}
			}
			if err := st.Commit(); err != nil {
				r = "err"
			}
			res = append(res, r)
		}
		return "mem=" + res[0] + " bolt=" + res[1]
	case "get":
		name := common.ParseNameText(a["name"])
		pfx := a["pfx"] == "1"
		return "mem=" + describeGet(h.mem.Get(name, pfx)) + " bolt=" + describeGet(h.bolt.Get(name, pfx))
	case "remove":
		name := common.ParseNameText(a["name"])
		pfx := a["pfx"] == "1"
		return "mem=" + errStr(h.mem.Remove(name, pfx)) + " bolt=" + errStr(h.bolt.Remove(name, pfx))
	case "wait":
		time.Sleep(time.Duration(common.Atoi(a["ms"])) * time.Millisecond)
		return "ok"
	case "cput":
		// the consuming node publishes a version of the object itself: it lands in ITS OWN store
		name := common.ParseNameText(a["name"])
		ver := common.Atou(a["ver"])
		content := makeContent(common.Atou(a["seed"]), common.Atoi(a["size"]))
		if _, err := h.cons.Produce(object.ProduceArgs{Name: name.Clone(), Content: enc.Wire{content}, Version: &ver}); err != nil {
			return "err"
		}
		return "ok"
	case "consume":
		extra := 0
		if a["cap"] != "" {
			extra = common.Atoi(a["cap"])
		}
		var names []enc.Name
		scripts := []string{a["script"]}
		for _, k := range []string{"name", "name2"} {
			if a[k] == "" {
				continue
			}
			name := common.ParseNameText(a[k])
			n := make(enc.Name, len(name), len(name)+extra) // the caller's slice may have spare capacity
			copy(n, name)
			names = append(names, n)
		}
		if len(names) == 2 {
			if names[0].Equal(names[1]) {
				return "bad-op"
			}
			scripts = append(scripts, a["script2"])
		}
		h.net.mu.Lock()
		h.net.sends, h.net.failFrom = 0, -1
		if a["sendfail"] != "" && h.consReal != nil {
			h.net.failFrom = common.Atoi(a["sendfail"])
		}
		h.net.lastSend = time.Now()
		h.net.mu.Unlock()
		return h.consume(names, scripts)
	}
	return "bad-op"
}

type cbRec struct {
	n        int
	hash     uint64
	complete bool
	err      bool
}

// consume runs one Client.Consume to quiescence under the given loss/delay script.
// Output: ev=<network/engine events in order>  cb=<one record per callback invocation: len:hash:flags>
//
//	fin=<1 iff quiescent: no pending Interest, no Data in flight>
//
// events: i<k> Interest for k sent (k = m for metadata, else segment number), d<k> Data callback for the
// pending Interest k, t<k> timeout callback for k, u<k> Data that matched no pending Interest.
func (h *hist) consume(names []enc.Name, scripts []string) string {
	n := h.net
	n.mu.Lock()
	n.script = map[string][]action{}
	for i, sc := range scripts {
		parseScript(n.script, i, sc)
	}
	n.objs = names
	n.attempts = map[string]int{}
	n.events = nil
	n.mu.Unlock()
	var mu sync.Mutex
	recs := make([][]cbRec, len(names))
	// the application passes every name as a slice with spare capacity: a prefix of a longer name it keeps
	// (object /obj asked for with known[:k] of /obj/v=1, a name built in a reused buffer). What lies behind the slice is
	// the application's memory.
	sentinel := enc.NewStringComponent(enc.TypeGenericNameComponent, "caller-owned")
	held := make([]enc.Name, len(names))
	for i, name := range names {
		i := i
		buf := make(enc.Name, len(name), len(name)+2)
		copy(buf, name)
		buf[:len(name)+1][len(name)] = sentinel
		held[i] = buf
		name = buf
		h.cons.Consume(name, func(st *object.ConsumeState) bool {
			b := st.Content()
			mu.Lock()
			recs[i] = append(recs[i], cbRec{len(b), hashBytes(b), st.IsComplete(), st.Error() != nil})
			mu.Unlock()
			return true
		})
		// let the client's run goroutine finish the work of this call before the next Consume is
		// issued: otherwise the order of the first Interests of two calls (segfetch vs outpipe
		// channel, Go's select) would depend on the scheduler
		synctest.Wait()
	}
	fin := 0
	time.Sleep(137 * time.Nanosecond)
	for i := 0; i < 400; i++ {
		time.Sleep(500 * time.Millisecond)
		synctest.Wait()
		progress.Add(1)
		n.mu.Lock()
		quiet := len(h.consEng.pending) == 0 && n.inflight == 0
		if h.consReal != nil {
			// the real engine's PIT is not visible: every entry times out lifetime+10 ms after its Express
			// (<= 4.01 s), and a retry shows up as a new Send attempt
			quiet = n.inflight == 0 && time.Since(n.lastSend) > 4500*time.Millisecond
		}
		n.mu.Unlock()
		if quiet {
			fin = 1
			break
		}
	}
	n.mu.Lock()
	ev := strings.Join(n.events, ",")
	n.mu.Unlock()
	if ev == "" {
		ev = "-"
	}
	out := "ev=" + ev
	mu.Lock()
	for i := range names {
		parts := make([]string, len(recs[i]))
		for j, r := range recs[i] {
			fl := ""
			if r.complete {
				fl += "c"
			}
			if r.err {
				fl += "e"
			}
			if fl == "" {
				fl = "-"
			}
			parts[j] = fmt.Sprintf("%d:%d:%s", r.n, r.hash, fl)
		}
		cb := strings.Join(parts, ",")
		if cb == "" {
			cb = "-"
		}
		key := " cb="
		if i > 0 {
			key = " cb" + strconv.Itoa(i+1) + "="
		}
		out += key + cb
	}
	mu.Unlock()
	out += fmt.Sprintf(" fin=%d", fin)
	for i, b := range held {
		if !b[:len(b)+1][len(b)].Equal(sentinel) {
			out += fmt.Sprintf(" overwrote=%d", i+1) // Consume wrote into the application's memory behind the name
			break
		}
	}
	n.mu.Lock()
	if n.sibCalls > 0 {
		// a sibling handler must never see an Interest for a packet of the objects
		out += fmt.Sprintf(" sib=%d", n.sibCalls)
		n.sibCalls = 0
	}
	n.mu.Unlock()
	return out
}

// ------------------------------------------------------------------ entry point

func runExec(t *testing.T) {
	in, err := os.Open(common.Env("VERIF_IN", "/dev/stdin"))
	if err != nil {
		t.Fatal(err)
	}
	defer in.Close()
	out, err := os.Create(common.Env("VERIF_OUT", "/dev/stdout"))
	if err != nil {
		t.Fatal(err)
	}
	defer out.Close()
	w := bufio.NewWriterSize(out, 1<<16)
	defer w.Flush()
	var hs [][]string
	sc := bufio.NewScanner(in)
	sc.Buffer(make([]byte, 1<<20), 1<<28)
	for sc.Scan() {
		line := sc.Text()
		if line == "" || strings.HasPrefix(line, "#") {
			continue
		}
		if i := strings.Index(line, " => "); i >= 0 {
			line = line[:i]
		}
		if strings.HasPrefix(line, "new") || len(hs) == 0 {
			hs = append(hs, nil)
		}
		hs[len(hs)-1] = append(hs[len(hs)-1], line)
	}
	if err := sc.Err(); err != nil {
		t.Fatal(err)
	}
	// watchdog on REAL time (outside any bubble): a spinning client goroutine never lets the bubble idle
	limit := int64(common.EnvInt("VERIF_C15_WATCHDOG_S", 20))
	go func() {
		last, same := int64(-1), int64(0)
		for {
			time.Sleep(time.Second)
			if p := progress.Load(); p == last {
				same++
			} else {
				last, same = p, 0
			}
			if same >= limit {
				w.Flush()
				fmt.Fprintln(os.Stderr, "fatal error: c15 watchdog: no progress for", limit, "s of real time (a goroutine of the bubble is spinning or deadlocked)")
				os.Exit(3)
			}
		}
	}()
	for _, ops := range hs {
		ops := ops
		synctest.Test(t, func(t *testing.T) {
			H = nil
			for _, op := range ops {
				progress.Add(1)
				w.WriteString("#run " + op + "\n")
				w.Flush()
				res := common.Guard(func() string { return exec(op) })
				res = strings.ReplaceAll(res, "\n", "\\n")
				w.WriteString(op + " => " + res + "\n")
				w.Flush()
			}
			H.close()
			H = nil
		})
	}
}

func TestVerif(t *testing.T) {
	if os.Getenv("VERIF_MODE") == "exec" {
		runExec(t)
		return
	}
	common.Main(t, gen, func(string) string { return "bad-mode" })
}

var _ = sort.Strings
