package c13

// gen.go — schema-directed value generator, enumeration of insertion positions (value side) and
// insertion of an unknown TLV into a REAL encoding (byte side), shared by the C13 and C04 harnesses.

import (
	"encoding/binary"

	enc "github.com/named-data/ndnd/std/encoding"
	"verif/harness/common"
)

var natBoundaries = []uint64{0, 1, 0xfc, 0xfd, 0xff, 0x100, 0xffff, 0x10000, 0xffffffff, 0x100000000, 1<<63 - 1, 1 << 63, 1<<64 - 1}
var lenBoundaries = []int{0, 1, 2, 0xfc, 0xfd, 0xff, 0x100, 300}

func genBytes(r *common.Rand, ascii bool) []byte {
	var n int
	switch r.Intn(10) {
	case 0:
		n = 0
	case 1:
		n = common.Pick(r, lenBoundaries)
	case 2:
		if r.Chance(1, 20) {
			n = 0x10000 + r.Intn(3)
		} else {
			n = r.Range(250, 260)
		}
	default:
		n = r.Range(1, 12)
	}
	b := r.Bytes(n)
	if ascii {
		for i := range b {
			b[i] = 'a' + b[i]%26
		}
	}
	return b
}

var compAlphabet = []string{"a", "b", "ab", "ndn", "32=x"}

func genName(r *common.Rand, interest bool) enc.Name {
	d := r.Intn(5)
	n := make(enc.Name, 0, d)
	for i := 0; i < d; i++ {
		switch r.Intn(8) {
		case 0:
			n = append(n, enc.Component{Typ: 8, Val: []byte{}})
		case 1:
			n = append(n, enc.Component{Typ: enc.TLNum(common.Pick(r, []uint64{1, 2, 32, 50, 253, 65535, 65536, 1 << 32})), Val: r.Bytes(r.Intn(4))})
		case 2:
			n = append(n, enc.Component{Typ: 8, Val: r.Bytes(common.Pick(r, []int{252, 253, 255, 256}))})
		default:
			n = append(n, enc.Component{Typ: 8, Val: []byte(common.Pick(r, compAlphabet))})
		}
	}
	if interest && len(n) > 0 && n[len(n)-1].Typ == 2 {
		n[len(n)-1].Typ = 8
	}
	return n
}

func genNat(r *common.Rand, w uint64) uint64 {
	var x uint64
	switch r.Intn(3) {
	case 0:
		x = common.Pick(r, natBoundaries)
	case 1:
		x = uint64(r.Intn(300))
	default:
		x = r.U64() >> uint(r.Intn(64))
	}
	if w < 8 {
		x &= 1<<(8*w) - 1
	}
	return x
}

// GenValue draws a value of model m (always a struct value).
// SubMs: time fields get a sub-millisecond remainder (values for `enc` only)
var SubMs bool

func (m *Model) GenValue(r *common.Rand, depth int) *V {
	v := &V{K: VStruct}
	for i := range m.Fields {
		v.Elems = append(v.Elems, m.genKind(r, &m.Fields[i].K, depth, true))
	}
	return v
}

func (m *Model) genKind(r *common.Rand, k *Kind, depth int, mayAbsent bool) *V {
	optAbsent := mayAbsent && r.Chance(1, 3)
	switch k.Tag {
	case "natural":
		if k.Opt && optAbsent {
			return Absent()
		}
		return &V{K: VNat, N: genNat(r, 8)}
	case "fixedUint":
		if k.Opt && optAbsent {
			return Absent()
		}
		return &V{K: VNat, N: genNat(r, k.W)}
	case "time":
		if k.Opt && optAbsent {
			return Absent()
		}
		ms := common.Pick(r, []uint64{0, 1, 10, 1000, 4000, 0xff, 0x100, 0xffff, 0x10000, 1 << 32, 9223372036853})
		if r.Chance(1, 2) {
			ms = uint64(r.Intn(100000))
		}
		if SubMs {
			// durations that are not whole milliseconds (encode-only values: the wire carries
			// milliseconds): the length pass and the encode pass must agree on the same number, also
			// right at the width boundaries of the natural-number encoding
			if r.Chance(1, 2) {
				ms = common.Pick(r, []uint64{0, 0xff, 0xffff, 0xffffffff, 0xfe, 0xfffe})
			}
			return &V{K: VNat, N: ms*1000000 + common.Pick(r, []uint64{1, 499999, 500000, 500001, 999999, uint64(r.Intn(1000000))})}
		}
		return &V{K: VNat, N: ms * 1000000}
	case "bool":
		if r.Chance(1, 2) {
			return &V{K: VTrue}
		}
		return Absent()
	case "binary", "wire":
		if optAbsent {
			return Absent()
		}
		return &V{K: VBytes, B: genBytes(r, false)}
	case "string":
		if k.Opt && optAbsent {
			return Absent()
		}
		return &V{K: VBytes, B: genBytes(r, r.Chance(3, 4))}
	case "name", "interestName":
		if optAbsent {
			return Absent()
		}
		return &V{K: VName, Name: genName(r, k.Tag == "interestName")}
	case "struct":
		if optAbsent || depth > 6 {
			return Absent()
		}
		return m.Inner(k).GenValue(r, depth+1)
	case "seq":
		v := &V{K: VSeq}
		n := r.Intn(4)
		if depth > 3 {
			n = r.Intn(2)
		}
		if depth > 6 {
			n = 0
		}
		for i := 0; i < n; i++ {
			if e := m.genKind(r, k.Sub, depth+1, false); e.K != VAbsent {
				v.Elems = append(v.Elems, e)
			}
		}
		return v
	case "map":
		v := &V{K: VMap}
		n := r.Intn(4)
		if depth > 6 {
			n = 0
		}
		for i := 0; i < n; i++ {
			key := m.genKind(r, k.Key, depth+1, false)
			dup := false
			for _, o := range v.Keys {
				if o.Text() == key.Text() {
					dup = true
				}
			}
			if dup {
				continue
			}
			val := m.genKind(r, k.Val, depth+1, false)
			if val.K == VAbsent {
				continue
			}
			v.Keys = append(v.Keys, key)
			v.Elems = append(v.Elems, val)
		}
		return v
	}
	return Absent() // marker, signature
}

// NonTrivial: the value has a nested struct / non-empty sequence / map entry or a field of >= 253 bytes.
func (v *V) NonTrivial(top bool) bool {
	switch v.K {
	case VStruct:
		if !top {
			return true
		}
	case VSeq, VMap:
		if len(v.Elems) > 0 {
			return true
		}
	case VBytes:
		return len(v.B) >= 253
	case VName:
		for _, c := range v.Name {
			if len(c.Val) >= 253 {
				return true
			}
		}
	}
	for _, e := range v.Elems {
		if e.NonTrivial(false) {
			return true
		}
	}
	return false
}

// ---------------------------------------------------------------- items (value side)

type Item struct {
	K    *Kind
	V    *V
	Pair bool
}

func emits(k *Kind, v *V) bool {
	if v.K == VAbsent {
		return false
	}
	switch k.Tag {
	case "marker", "signature":
		return false
	}
	return true
}

// Items lists the TLV items the encoder emits at the top level of a struct value, in order
// (sequence elements one by one, a map entry = key TLV + value TLV = one item).
func (m *Model) Items(v *V) []Item {
	var out []Item
	for i := range m.Fields {
		k, e := &m.Fields[i].K, v.Elems[i]
		switch {
		case k.Tag == "seq" && e.K == VSeq:
			for _, x := range e.Elems {
				if emits(k.Sub, x) {
					out = append(out, Item{K: k.Sub, V: x})
				}
			}
		case k.Tag == "map" && e.K == VMap:
			for j := range e.Keys {
				out = append(out, Item{K: k, V: e.Elems[j], Pair: true})
			}
		case k.Tag == "seq" || k.Tag == "map":
		default:
			if emits(k, e) {
				out = append(out, Item{K: k, V: e})
			}
		}
	}
	return out
}

type Position struct {
	Sel []int
	K   int
}

// Positions enumerates every insertion position: every boundary between items at every nesting level.
func (m *Model) Positions(v *V, sel []int, out *[]Position) {
	its := m.Items(v)
	for k := 0; k <= len(its); k++ {
		*out = append(*out, Position{Sel: append([]int{}, sel...), K: k})
	}
	for i, it := range its {
		if !it.Pair && it.K.Tag == "struct" && it.V.K == VStruct {
			m.Inner(it.K).Positions(it.V, append(sel, i), out)
		}
	}
}

// ---------------------------------------------------------------- insertion (byte side)

type span struct {
	start, valStart, end int
	typ                  uint64
}

func readTL(b []byte, pos int) (uint64, int, bool) {
	if pos >= len(b) {
		return 0, 0, false
	}
	switch x := b[pos]; {
	case x <= 0xfc:
		return uint64(x), pos + 1, true
	case x == 0xfd:
		if pos+3 > len(b) {
			return 0, 0, false
		}
		return uint64(binary.BigEndian.Uint16(b[pos+1:])), pos + 3, true
	case x == 0xfe:
		if pos+5 > len(b) {
			return 0, 0, false
		}
		return uint64(binary.BigEndian.Uint32(b[pos+1:])), pos + 5, true
	default:
		if pos+9 > len(b) {
			return 0, 0, false
		}
		return binary.BigEndian.Uint64(b[pos+1:]), pos + 9, true
	}
}

// TLVs splits b into top-level TLV spans (false if b is not a TLV sequence).
func TLVs(b []byte) ([]span, bool) {
	var out []span
	pos := 0
	for pos < len(b) {
		t, p1, ok := readTL(b, pos)
		if !ok {
			return out, false
		}
		l, p2, ok := readTL(b, p1)
		if !ok || l > uint64(len(b)-p2) {
			return out, false
		}
		out = append(out, span{pos, p2, p2 + int(l), t})
		pos = p2 + int(l)
	}
	return out, true
}

func EncTL(x uint64) []byte {
	switch {
	case x <= 0xfc:
		return []byte{byte(x)}
	case x <= 0xffff:
		return []byte{0xfd, byte(x >> 8), byte(x)}
	case x <= 0xffffffff:
		return binary.BigEndian.AppendUint32([]byte{0xfe}, uint32(x))
	default:
		return binary.BigEndian.AppendUint64([]byte{0xff}, x)
	}
}

func TLV(t uint64, body []byte) []byte {
	return append(append(EncTL(t), EncTL(uint64(len(body)))...), body...)
}

func (m *Model) fieldByTyp(t uint64) *Field {
	for i := range m.Fields {
		if m.Fields[i].K.Tag != "marker" && m.Fields[i].Typ == t {
			return &m.Fields[i]
		}
	}
	return nil
}

// itemSpans groups the TLVs of a real encoding into items (a map entry takes two TLVs).
func (m *Model) itemSpans(b []byte) ([]span, bool) {
	tl, ok := TLVs(b)
	if !ok {
		return nil, false
	}
	var out []span
	for i := 0; i < len(tl); i++ {
		s := tl[i]
		if f := m.fieldByTyp(s.typ); f != nil && f.K.Tag == "map" {
			if i+1 >= len(tl) {
				return nil, false
			}
			s.end = tl[i+1].end
			i++
		}
		out = append(out, s)
	}
	return out, true
}

// InsertAt inserts junk into the real encoding b of a value of model m at position (sel, k),
// adjusting every enclosing length.
func (m *Model) InsertAt(b []byte, sel []int, k int, junk []byte) ([]byte, bool) {
	its, ok := m.itemSpans(b)
	if !ok {
		return nil, false
	}
	if len(sel) == 0 {
		if k > len(its) {
			return nil, false
		}
		pos := len(b)
		if k < len(its) {
			pos = its[k].start
		}
		out := append([]byte{}, b[:pos]...)
		out = append(out, junk...)
		return append(out, b[pos:]...), true
	}
	i := sel[0]
	if i >= len(its) {
		return nil, false
	}
	f := m.fieldByTyp(its[i].typ)
	if f == nil {
		return nil, false
	}
	k2 := &f.K
	if k2.Tag == "seq" {
		k2 = k2.Sub
	}
	if k2.Tag != "struct" {
		return nil, false
	}
	inner, ok := m.Inner(k2).InsertAt(b[its[i].valStart:its[i].end], sel[1:], k, junk)
	if !ok {
		return nil, false
	}
	out := append([]byte{}, b[:its[i].start]...)
	out = append(out, TLV(its[i].typ, inner)...)
	return append(out, b[its[i].end:]...), true
}

// UsedTypes is the set of every TLV type number of every field of every model.
func UsedTypes() map[uint64]bool {
	used := map[uint64]bool{}
	var add func(k *Kind)
	add = func(k *Kind) {
		if k.Sub != nil {
			add(k.Sub)
		}
		if k.Key != nil {
			add(k.Key)
			add(k.Val)
			used[k.ValTyp] = true
		}
	}
	for _, m := range Models {
		for i := range m.Fields {
			used[m.Fields[i].Typ] = true
			add(&m.Fields[i].K)
		}
	}
	return used
}

// TypeSet is the set of type numbers used by model m at any nesting depth.
func (m *Model) TypeSet() map[uint64]bool {
	used := map[uint64]bool{}
	var addK func(mm *Model, k *Kind)
	var addM func(mm *Model)
	seen := map[*Model]bool{}
	addK = func(mm *Model, k *Kind) {
		switch k.Tag {
		case "struct":
			addM(mm.Inner(k))
		case "seq":
			addK(mm, k.Sub)
		case "map":
			used[k.ValTyp] = true
			addK(mm, k.Key)
			addK(mm, k.Val)
		}
	}
	addM = func(mm *Model) {
		if seen[mm] {
			return
		}
		seen[mm] = true
		for i := range mm.Fields {
			used[mm.Fields[i].Typ] = true
			addK(mm, &mm.Fields[i].K)
		}
	}
	addM(m)
	return used
}

// JunkTypes returns type numbers model m does not use at any depth: non-critical ones (even, > 31)
// and critical ones (<= 31 or odd), boundary values of the critical-bit rule first.
func (m *Model) JunkTypes() (noncrit, crit []uint64) {
	used := m.TypeSet()
	for _, t := range []uint64{32, 34, 240, 250, 252, 1000, 65000, 65536, 1 << 32, 1<<33 + 2, 1<<63 + 4} {
		if !used[t] {
			noncrit = append(noncrit, t)
		}
	}
	for _, t := range []uint64{31, 33, 30, 3, 11, 241, 251, 1001, 65001, 65537, 1<<32 + 1} {
		if !used[t] {
			crit = append(crit, t)
		}
	}
	return
}

// ---------------------------------------------------------------- minimal well-formed values

func (k *Kind) requiredKind() bool {
	switch k.Tag {
	case "natural", "fixedUint", "time", "string":
		return !k.Opt
	}
	return false
}

// minKind is the smallest value of a field: present (empty bytes / empty name / 0 / empty struct /
// one-element sequence) or absent (nil, or the zero value for a required field).
func (m *Model) minKind(k *Kind, present bool, depth int) *V {
	if !present && !k.requiredKind() {
		switch k.Tag {
		case "seq":
			return &V{K: VSeq}
		case "map":
			return &V{K: VMap}
		}
		return Absent()
	}
	switch k.Tag {
	case "natural", "fixedUint", "time":
		return &V{K: VNat, N: 0}
	case "bool":
		return &V{K: VTrue}
	case "binary", "wire", "string":
		return &V{K: VBytes, B: []byte{}}
	case "name", "interestName":
		return &V{K: VName, Name: enc.Name{}}
	case "struct":
		return m.Inner(k).minStruct(depth < 2, depth+1)
	case "seq":
		return &V{K: VSeq, Elems: []*V{m.minKind(k.Sub, true, depth+1)}}
	case "map":
		return &V{K: VMap, Keys: []*V{m.minKind(k.Key, true, depth+1)}, Elems: []*V{m.minKind(k.Val, true, depth+1)}}
	}
	return Absent()
}

func (m *Model) minStruct(present bool, depth int) *V {
	v := &V{K: VStruct}
	for i := range m.Fields {
		v.Elems = append(v.Elems, m.minKind(&m.Fields[i].K, present, depth))
	}
	return v
}

func (v *V) with(i int, e *V) *V {
	c := &V{K: v.K, Elems: append([]*V{}, v.Elems...)}
	c.Elems[i] = e
	return c
}

// MinimalValues is the systematic family of degenerate-but-well-formed values of a model: nothing
// set, everything set to its smallest value, each field alone, each field missing, degenerate names,
// and (one level deep) every such variant of every nested model.
func (m *Model) MinimalValues(depth int) []*V {
	none, all := m.minStruct(false, depth), m.minStruct(true, depth)
	out := []*V{none, all}
	digest := enc.Component{Typ: 2, Val: make([]byte, 32)}
	a := enc.Component{Typ: 8, Val: []byte("a")}
	// names made of many zero-length / one-byte components (first, so that the quick tier's cap keeps them)
	empty := enc.Component{Typ: 8, Val: []byte{}}
	var manyNames []enc.Name
	for _, n := range []int{2, 3, 4, 5, 8, 12} {
		nm := make(enc.Name, n)
		for j := range nm {
			nm[j] = empty
		}
		manyNames = append(manyNames, nm)
	}
	manyNames = append(manyNames, enc.Name{empty, a, empty, empty, a, empty}, enc.Name{a, a, a, a, a, a, a}, enc.Name{a, empty, empty, empty, empty})
	for i := range m.Fields {
		k := &m.Fields[i].K
		switch {
		case k.Tag == "name" || k.Tag == "interestName":
			for _, nm := range manyNames {
				out = append(out, none.with(i, &V{K: VName, Name: nm}))
			}
		case k.Tag == "seq" && k.Sub.Tag == "name":
			out = append(out, none.with(i, &V{K: VSeq, Elems: []*V{{K: VName, Name: manyNames[2]}, {K: VName, Name: manyNames[6]}}}))
		}
	}
	for i := range m.Fields {
		k := &m.Fields[i].K
		if k.Tag == "marker" || k.Tag == "signature" {
			continue
		}
		out = append(out, none.with(i, m.minKind(k, true, depth)), all.with(i, m.minKind(k, false, depth)))
		switch k.Tag {
		case "name", "interestName":
			for _, n := range []enc.Name{{{Typ: 8, Val: []byte{}}}, {a}, {a, digest}, {digest, a}, {digest}} {
				if k.Tag == "interestName" && n[len(n)-1].Typ == 2 {
					// the plain Encode() strips a trailing digest component; keep the value valid for C13
					continue
				}
				out = append(out, all.with(i, &V{K: VName, Name: n}), none.with(i, &V{K: VName, Name: n}))
			}
		case "struct":
			if depth == 0 {
				for _, w := range m.Inner(k).MinimalValues(depth + 1) {
					out = append(out, none.with(i, w))
				}
			}
		case "seq":
			out = append(out, none.with(i, &V{K: VSeq, Elems: []*V{m.minKind(k.Sub, true, depth+1), m.minKind(k.Sub, true, depth+1)}}))
		}
	}
	if len(out) > 160 {
		out = out[:160]
	}
	return out
}

// HasKind reports whether the model, or a model nested in it, has a field of the given kind.
func (m *Model) HasKind(tag string) bool { return m.hasKind(tag, 0) }

func (m *Model) hasKind(tag string, depth int) bool {
	if depth > 6 {
		return false
	}
	for i := range m.Fields {
		k := &m.Fields[i].K
		if k.Tag == tag {
			return true
		}
		if k.Struct != "" {
			if in := m.Inner(k); in != nil && in.hasKind(tag, depth+1) {
				return true
			}
		}
	}
	return false
}
