// Package c13: correspondence harness for C13 (generated TLV models) — also imported by C04.
//
// registry.go declares the shape of the model table; zz_registry_gen.go (regenerated on every
// check run by harness/cmd/schemagen from the working tree) fills it.
package c13

import (
	enc "github.com/named-data/ndnd/std/encoding"
)

type Kind struct {
	Tag    string // natural fixedUint time bool binary string wire name struct seq map marker signature interestName
	Opt    bool
	W      uint64
	Struct string
	ValTyp uint64
	Sub    *Kind
	Key    *Kind
	Val    *Kind
}

type Field struct {
	Name string
	Typ  uint64
	K    Kind
}

type Model struct {
	Pkg, Name, Dir                     string
	Ordered, NoCopy, Private, Exported bool
	Fields                             []Field
	New                                func() any
	NewEncoder                         func(v any) any // Init already called
	Encode                             func(e any, v any) enc.Wire
	EncodeInto                         func(e any, v any, b []byte)
	EncodeIntoWire                     func(e any, v any, w enc.Wire)
	Parse                              func(r enc.ParseReader, ignoreCritical bool) (any, error)
}

func (m *Model) Key() string { return m.Pkg + "." + m.Name }

var byKey map[string]*Model

func Lookup(key string) *Model {
	if byKey == nil {
		byKey = map[string]*Model{}
		for _, m := range Models {
			byKey[m.Key()] = m
		}
	}
	return byKey[key]
}

// Inner returns the model a struct kind refers to (same package).
func (m *Model) Inner(k *Kind) *Model { return Lookup(m.Pkg + "." + k.Struct) }
