package c13

// C13 correspondence harness: every generated TLV model, type-directed values, through the REAL
// Encode / EncodeInto / Parse of the generated code.
//
// history:  new <pkg.Model>
//   enc <val>                       => <announced> <written|-> <hex>
//   rt <val> <cuts|-|n>             => ok <val'> | err        real Parse(real Encode(val)); cuts in
//                                      permille = WireReader segmentation, n = the encoder's own wire
//   ins <ic> <val> <sel> <k> <junk> => <hex> ok <val'> | <hex> err | skip
//   mut <ic> <val> <how> <a> <b>    => <hex> ok <val'> | <hex> err | skip   structural mutation of the real encoding
//   regen <dir>                     => same | differs | fail      (one history per definitions directory)

import (
	"bytes"
	"fmt"
	"os"
	"os/exec"
	"path/filepath"
	"strconv"
	"strings"
	"testing"

	enc "github.com/named-data/ndnd/std/encoding"
	"verif/harness/common"
)

func selText(sel []int) string {
	if len(sel) == 0 {
		return "-"
	}
	s := make([]string, len(sel))
	for i, x := range sel {
		s[i] = strconv.Itoa(x)
	}
	return strings.Join(s, ".")
}

func parseSel(s string) []int {
	if s == "-" {
		return nil
	}
	var out []int
	for _, x := range strings.Split(s, ".") {
		out = append(out, common.Atoi(x))
	}
	return out
}

func dirs() []string {
	seen := map[string]bool{}
	var out []string
	for _, m := range Models {
		if !seen[m.Dir] {
			seen[m.Dir] = true
			out = append(out, m.Dir)
		}
	}
	return out
}

func gen(g *common.Gen) {
	// regencheck: one history per definitions directory, every run
	for _, d := range dirs() {
		g.Op("new regen")
		g.Op("regen %s", d)
		g.Stat("regen-dir")
	}
	// g.N = number of values PER MODEL
	for _, m := range Models {
		if !m.Exported {
			g.Stat("model-not-exported")
			continue
		}
		g.Stat("model")
		noncrit, crit := m.JunkTypes()
		// the systematic family of degenerate-but-well-formed values (every field alone / missing, empty
		// names, empty nested structs, one-element sequences and maps)
		for j, v := range m.MinimalValues(0) {
			if !common.Thorough() && j >= 40 {
				break
			}
			r := g.R.Fork()
			txt := v.Text()
			g.Op("new %s", m.Key())
			g.Op("enc %s", txt)
			g.Op("rt %s -", txt)
			if m.NoCopy {
				g.Op("rt %s n", txt)
			}
			g.Stat("minimal-value")
			g.Op("rt %s %s", txt, common.Pick(r, []string{"s1", "s2", "s1z", "s3"}))
			var pos []Position
			m.Positions(v, nil, &pos)
			for k := 0; k < 2 && len(pos) > 0; k++ {
				p := pos[r.Intn(len(pos))]
				t, ic := common.Pick(r, noncrit), r.Intn(2)
				if k == 1 {
					t, ic = common.Pick(r, crit), 0
				}
				g.Op("ins %d %s %s %d %s", ic, txt, selText(p.Sel), p.K, common.Hex(TLV(t, r.Bytes(r.Intn(3)))))
			}
		}
		for i := 0; i < g.N; i++ {
			r := g.R.Fork()
			v := m.GenValue(r, 0)
			if i == 0 {
				// the all-absent / all-zero value first
				v = m.GenValue(common.NewRand(0), 99)
			}
			txt := v.Text()
			g.Op("new %s", m.Key())
			g.Op("enc %s", txt)
			g.Op("rt %s -", txt)
			if m.NoCopy {
				g.Op("rt %s n", txt)
			}
			// segmented decoding: segments of 1 / 2 / 3 / 7 bytes (every value of more than a few bytes spans
			// three or more segments), with and without an empty segment
			g.Op("rt %s s1", txt)
			g.Op("rt %s %s", txt, common.Pick(r, []string{"s2", "s3", "s7"}))
			g.Op("rt %s %s", txt, common.Pick(r, []string{"s1z", "s2z", "s3z"}))
			g.Stat("value")
			if m.HasKind("time") && r.Chance(1, 2) {
				SubMs = true
				v2 := m.GenValue(r.Fork(), 0)
				SubMs = false
				g.Op("new %s", m.Key())
				g.Op("enc %s", v2.Text())
				g.Op("new %s", m.Key())
				g.Stat("enc-submillisecond")
			}
			if v.NonTrivial(true) {
				g.Stat("value-nontrivial")
			}
			// unknown element at every position (capped per value in the quick tier)
			var pos []Position
			m.Positions(v, nil, &pos)
			g.StatN("positions", len(pos))
			limit := 12
			if common.Thorough() {
				limit = 200
			}
			step := 1
			if len(pos) > limit {
				step = (len(pos) + limit - 1) / limit
			}
			for j := r.Intn(step); j < len(pos); j += step {
				p := pos[j]
				var t uint64
				ic := 0
				switch r.Intn(4) {
				case 0:
					t = common.Pick(r, crit)
					g.Stat("ins-critical")
				case 1:
					t = common.Pick(r, crit)
					ic = 1
					g.Stat("ins-critical-ignored")
				default:
					t = common.Pick(r, noncrit)
					ic = r.Intn(2)
					g.Stat("ins-noncritical")
				}
				body := r.Bytes(r.Intn(5))
				if r.Chance(1, 30) {
					body = r.Bytes(253)
				}
				g.Op("ins %d %s %s %d %s", ic, txt, selText(p.Sel), p.K, common.Hex(TLV(t, body)))
				if len(p.Sel) > 0 {
					g.Stat("ins-nested")
				}
			}
			// signed form: models with a signature field (Interest, Data, T1, T2) — the plain Encode() never
			// writes the SignatureValue, so append it as the signing path does and insert the unknown element
			// at every top-level boundary of THAT encoding (incl. after the signature)
			if st := m.sigTyp(); st != 0 {
				nItems := len(m.Items(v)) + 1
				for k := 0; k <= nItems; k++ {
					t, ic := common.Pick(r, noncrit), r.Intn(2)
					if r.Chance(1, 4) {
						t, ic = common.Pick(r, crit), r.Intn(2)
					}
					g.Op("sigins %d %s %s %d %s", ic, txt, common.Hex(r.Bytes(r.Range(0, 40))), k, common.Hex(TLV(t, r.Bytes(r.Range(0, 4)))))
					g.Stat("sigins")
				}
			}
			// structural mutations: model-vs-code comparison on reordered / duplicated / dropped / truncated elements
			for j := 0; j < 3; j++ {
				how := common.Pick(r, []string{"swap", "dup", "drop", "trunc", "move", "width", "width"})
				g.Op("mut %d %s %s %d %d", r.Intn(2), txt, how, r.Intn(8), r.Intn(10))
				g.Stat("mut-" + how)
			}
		}
	}
}

var cur *Model

// denseWire cuts b into segments of k bytes (spec "s<k>"; a trailing "z" adds an EMPTY segment in the
// middle), so that every value longer than 2k bytes is spread over three or more segments.
func denseWire(b []byte, spec string) enc.Wire {
	empty := strings.HasSuffix(spec, "z")
	k := common.Atoi(strings.TrimSuffix(spec[1:], "z"))
	if len(b) > 4096 && k < len(b)/512 {
		k = len(b) / 512
	}
	var w enc.Wire
	for i := 0; i < len(b); i += k {
		j := i + k
		if j > len(b) {
			j = len(b)
		}
		w = append(w, b[i:j])
		if empty && len(w) == 2 {
			w = append(w, b[j:j])
		}
	}
	if len(w) == 0 {
		w = enc.Wire{b}
	}
	return w
}

func permilleCuts(spec string, n int) []int {
	var out []int
	for _, c := range ParseCuts(spec) {
		out = append(out, n*c/1000)
	}
	if len(out) == 2 && out[0] > out[1] {
		out[0], out[1] = out[1], out[0]
	}
	return out
}

func parseOut(m *Model, r enc.ParseReader, ic bool) string {
	p, err := m.Parse(r, ic)
	if err != nil || p == nil {
		return "err"
	}
	return "ok " + m.Read(p).Text()
}

func mutate(b []byte, how string, a, c int) ([]byte, bool) {
	tl, ok := TLVs(b)
	if !ok || len(tl) == 0 {
		return nil, false
	}
	piece := func(i int) []byte { return b[tl[i].start:tl[i].end] }
	i, j := a%len(tl), c%len(tl)
	var parts [][]byte
	for k := range tl {
		parts = append(parts, piece(k))
	}
	switch how {
	case "swap":
		parts[i], parts[j] = parts[j], parts[i]
	case "dup":
		parts = append(parts[:i+1], append([][]byte{piece(i)}, parts[i+1:]...)...)
	case "drop":
		parts = append(parts[:i], parts[i+1:]...)
	case "move":
		p := parts[i]
		parts = append(parts[:i], parts[i+1:]...)
		parts = append(parts, p)
	case "width":
		// element i gets a value of c bytes (0..9): its own value cut or left-padded with zeros —
		// a non-negative integer of 0, 3, 5, 6, 7 or 9 bytes is malformed (the NDN packet format knows
		// the widths 1, 2, 4, 8 only), other field kinds just change their value
		val := b[tl[i].valStart:tl[i].end]
		nv := make([]byte, c)
		if c <= len(val) {
			copy(nv, val[len(val)-c:])
		} else {
			copy(nv[c-len(val):], val)
		}
		np := TLV(tl[i].typ, nv)
		parts[i] = np
	case "trunc":
		n := (a*8 + c) % (len(b) + 1)
		return append([]byte{}, b[:n]...), true
	}
	return bytes.Join(parts, nil), true
}

// sigTyp returns the type number of the model's signature field when it is the LAST typed field
// (so that appending the SignatureValue TLV to the plain encoding is the signed encoding), else 0.
func (m *Model) sigTyp() uint64 {
	last := -1
	for i := range m.Fields {
		if m.Fields[i].K.Tag != "marker" {
			last = i
		}
	}
	if last >= 0 && m.Fields[last].K.Tag == "signature" {
		return m.Fields[last].Typ
	}
	return 0
}

func regen(dir string) string {
	repo := common.Env("VERIF_REPO", "/repo")
	scratch, err := os.MkdirTemp(common.Env("VERIF_TMP", "/var/tmp"), "regen-")
	if err != nil {
		return "fail mkdir"
	}
	defer os.RemoveAll(scratch)
	gobin := common.Env("VERIF_REPO_GO", "go")
	tool := filepath.Join(scratch, "gondn_tlv_gen")
	cmd := exec.Command(gobin, "build", "-o", tool, "./std/cmd/gondn_tlv_gen")
	cmd.Dir = repo
	if out, err := cmd.CombinedOutput(); err != nil {
		return "fail generator-build " + strings.ReplaceAll(string(out), "\n", " ")
	}
	// copy the definitions directory (without the generated file) and run the generator exactly as
	// its go:generate line does: no arguments, inside the directory
	work := filepath.Join(scratch, "pkg", filepath.Base(dir))
	os.MkdirAll(work, 0o755)
	defFiles := 0 // files of the directory that carry model definitions
	ents, _ := os.ReadDir(filepath.Join(repo, dir))
	for _, e := range ents {
		if e.IsDir() || !strings.HasSuffix(e.Name(), ".go") || e.Name() == "zz_generated.go" {
			continue
		}
		data, _ := os.ReadFile(filepath.Join(repo, dir, e.Name()))
		os.WriteFile(filepath.Join(work, e.Name()), data, 0o644)
		if !strings.HasSuffix(e.Name(), "_test.go") && (bytes.Contains(data, []byte("+field:")) || bytes.Contains(data, []byte("+tlv-model:"))) {
			defFiles++
		}
	}
	checked, err := os.ReadFile(filepath.Join(repo, dir, "zz_generated.go"))
	if err != nil {
		return "fail no-checked-in-file"
	}
	// The generator walks the package's files in Go map order: with model definitions in more than one
	// file its output may depend on the run. Then "is exactly what the generator produces" is decided
	// over many runs (all outputs must be identical and equal to the checked-in file), else one run.
	runs := 1
	if defFiles > 1 {
		runs = 64
	}
	var fresh []byte
	for i := 0; i < runs; i++ {
		os.Remove(filepath.Join(work, "zz_generated.go"))
		cmd = exec.Command(tool)
		cmd.Dir = work
		if out, err := cmd.CombinedOutput(); err != nil {
			return "fail generator-run " + strings.ReplaceAll(string(out), "\n", " ")
		}
		out, err := os.ReadFile(filepath.Join(work, "zz_generated.go"))
		if err != nil {
			return "fail no-output"
		}
		if i > 0 && !bytes.Equal(out, fresh) {
			return fmt.Sprintf("differs nondeterministic-generator run=%d definition-files=%d", i+1, defFiles)
		}
		fresh = out
		if !bytes.Equal(fresh, checked) {
			break
		}
	}
	if bytes.Equal(fresh, checked) {
		return "same"
	}
	// first differing line, as a hint
	fl, cl := strings.Split(string(fresh), "\n"), strings.Split(string(checked), "\n")
	for i := 0; i < len(fl) && i < len(cl); i++ {
		if fl[i] != cl[i] {
			return fmt.Sprintf("differs line=%d", i+1)
		}
	}
	return "differs length"
}

func execOp(op string) string {
	f := common.Fields(op)
	switch f[0] {
	case "new":
		if f[1] == "regen" {
			cur = nil
			return "ok"
		}
		cur = Lookup(f[1])
		if cur == nil || !cur.Exported {
			cur = nil
			return "skip"
		}
		return "ok"
	case "regen":
		return regen(f[1])
	}
	if cur == nil {
		return "skip"
	}
	m := cur
	switch f[0] {
	case "enc":
		v := m.Build(ParseText(f[1]))
		e := m.NewEncoder(v)
		ann := Announced(e)
		b := m.Encode(e, v).Join()
		w := "-"
		if !m.NoCopy {
			w = strconv.Itoa(m.Written(v, ann))
		}
		return fmt.Sprintf("%d %s %s", ann, w, common.Hex(b))
	case "rt":
		v := m.Build(ParseText(f[1]))
		wire := m.Encode(m.NewEncoder(v), v)
		b := wire.Join()
		switch f[2] {
		case "-":
			return parseOut(m, enc.NewBufferReader(b), false)
		case "n":
			return parseOut(m, enc.NewWireReader(wire), false)
		default:
			if f[2][0] == 's' {
				return parseOut(m, enc.NewWireReader(denseWire(b, f[2])), false)
			}
			return parseOut(m, enc.NewWireReader(SplitAt(b, permilleCuts(f[2], len(b)))), false)
		}
	case "ins":
		v := m.Build(ParseText(f[2]))
		b := m.Encode(m.NewEncoder(v), v).Join()
		nb, ok := m.InsertAt(b, parseSel(f[3]), common.Atoi(f[4]), common.UnHex(f[5]))
		if !ok {
			return "skip"
		}
		return common.Hex(nb) + " " + parseOut(m, enc.NewBufferReader(nb), f[1] == "1")
	case "sigins":
		st := m.sigTyp()
		if st == 0 {
			return "skip"
		}
		v := m.Build(ParseText(f[2]))
		b := m.Encode(m.NewEncoder(v), v).Join()
		b = append(b, TLV(st, common.UnHex(f[3]))...)
		nb, ok := m.InsertAt(b, nil, common.Atoi(f[4]), common.UnHex(f[5]))
		if !ok {
			return "skip"
		}
		return common.Hex(nb) + " " + parseOut(m, enc.NewBufferReader(nb), f[1] == "1")
	case "mut":
		v := m.Build(ParseText(f[2]))
		b := m.Encode(m.NewEncoder(v), v).Join()
		nb, ok := mutate(b, f[3], common.Atoi(f[4]), common.Atoi(f[5]))
		if !ok {
			return "skip"
		}
		return common.Hex(nb) + " " + parseOut(m, enc.NewBufferReader(nb), f[1] == "1")
	}
	return "bad-op"
}

func TestVerif(t *testing.T) { common.Main(t, gen, execOp) }
