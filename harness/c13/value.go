package c13

// value.go — harness-side value trees of generated models, their canonical text form (shared with
// the Lean driver, NdnVerif/C13/Text.lean) and the reflection bridge to the REAL generated structs.
//
//	_            absent (nil pointer / nil slice / false / marker)
//	T            bool true
//	123          natural / fixedUint / time (time = the 64 bits of the time.Duration, nanoseconds)
//	x0a0b        bytes (binary, string, wire joined, signature); "x" = empty but present
//	N/8:6162     name (components type:hex), "N/" = empty name
//	{v,v,…}      struct, one entry per schema field (markers are "_")
//	[v,v,…]      sequence ("[]" for nil or empty)
//	<k=v,k=v>    map, keys sorted in canonical output

import (
	"fmt"
	"reflect"
	"sort"
	"strconv"
	"strings"
	"time"

	enc "github.com/named-data/ndnd/std/encoding"
	"verif/harness/common"
)

type VK int

const (
	VAbsent VK = iota
	VNat
	VTrue
	VBytes
	VName
	VStruct
	VSeq
	VMap
)

type V struct {
	K     VK
	N     uint64
	B     []byte
	Name  enc.Name
	Elems []*V // struct fields / seq elements
	Keys  []*V // map keys (parallel to Elems)
}

func Absent() *V { return &V{K: VAbsent} }

func (v *V) Text() string {
	var sb strings.Builder
	v.write(&sb)
	return sb.String()
}

func keyLess(a, b *V) bool {
	if a.K == VNat && b.K == VNat {
		return a.N < b.N
	}
	return string(a.B) < string(b.B)
}

func (v *V) write(sb *strings.Builder) {
	switch v.K {
	case VAbsent:
		sb.WriteByte('_')
	case VTrue:
		sb.WriteByte('T')
	case VNat:
		sb.WriteString(strconv.FormatUint(v.N, 10))
	case VBytes:
		sb.WriteByte('x')
		if len(v.B) > 0 {
			sb.WriteString(common.Hex(v.B))
		}
	case VName:
		sb.WriteByte('N')
		sb.WriteString(common.NameText(v.Name))
	case VStruct, VSeq:
		o, c := byte('{'), byte('}')
		if v.K == VSeq {
			o, c = '[', ']'
		}
		sb.WriteByte(o)
		for i, e := range v.Elems {
			if i > 0 {
				sb.WriteByte(',')
			}
			e.write(sb)
		}
		sb.WriteByte(c)
	case VMap:
		idx := make([]int, len(v.Keys))
		for i := range idx {
			idx[i] = i
		}
		sort.SliceStable(idx, func(a, b int) bool { return keyLess(v.Keys[idx[a]], v.Keys[idx[b]]) })
		sb.WriteByte('<')
		for n, i := range idx {
			if n > 0 {
				sb.WriteByte(',')
			}
			v.Keys[i].write(sb)
			sb.WriteByte('=')
			v.Elems[i].write(sb)
		}
		sb.WriteByte('>')
	}
}

// ParseText parses the canonical text form.
func ParseText(s string) *V {
	p := &tparser{s: s}
	v := p.val()
	if p.i != len(s) {
		panic("harness: trailing text in value " + s)
	}
	return v
}

type tparser struct {
	s string
	i int
}

func (p *tparser) until(stop string) string {
	j := p.i
	for j < len(p.s) && !strings.ContainsRune(stop, rune(p.s[j])) {
		j++
	}
	r := p.s[p.i:j]
	p.i = j
	return r
}

func (p *tparser) val() *V {
	if p.i >= len(p.s) {
		panic("harness: empty value text")
	}
	switch c := p.s[p.i]; {
	case c == '_':
		p.i++
		return Absent()
	case c == 'T':
		p.i++
		return &V{K: VTrue}
	case c == 'x':
		p.i++
		return &V{K: VBytes, B: common.UnHex(p.until(",}]>="))}
	case c == 'N':
		p.i++
		return &V{K: VName, Name: common.ParseNameText(p.until(",}]>="))}
	case c >= '0' && c <= '9':
		return &V{K: VNat, N: common.Atou(p.until(",}]>="))}
	case c == '{' || c == '[':
		cl := byte('}')
		k := VStruct
		if c == '[' {
			cl, k = ']', VSeq
		}
		p.i++
		v := &V{K: k}
		for p.s[p.i] != cl {
			v.Elems = append(v.Elems, p.val())
			if p.s[p.i] == ',' {
				p.i++
			}
		}
		p.i++
		return v
	case c == '<':
		p.i++
		v := &V{K: VMap}
		for p.s[p.i] != '>' {
			v.Keys = append(v.Keys, p.val())
			if p.s[p.i] != '=' {
				panic("harness: bad map text")
			}
			p.i++
			v.Elems = append(v.Elems, p.val())
			if p.s[p.i] == ',' {
				p.i++
			}
		}
		p.i++
		return v
	}
	panic("harness: bad value text " + p.s[p.i:])
}

// ---------------------------------------------------------------- reflection: V -> real struct

var durationType = reflect.TypeOf(time.Duration(0))

// Build creates the real generated struct (pointer) for a struct value.
func (m *Model) Build(v *V) any {
	p := m.New()
	m.fill(reflect.ValueOf(p).Elem(), v)
	return p
}

func (m *Model) fill(st reflect.Value, v *V) {
	if v.K != VStruct || len(v.Elems) != len(m.Fields) {
		panic(fmt.Sprintf("harness: value does not fit model %s: %s", m.Key(), v.Text()))
	}
	for i, f := range m.Fields {
		fv := st.FieldByName(f.Name)
		if !fv.IsValid() {
			panic("harness: generated struct " + m.Key() + " has no field " + f.Name)
		}
		if !fv.CanSet() || f.K.Tag == "marker" {
			continue
		}
		m.set(fv, &f.K, v.Elems[i])
	}
}

func setScalar(fv reflect.Value, n uint64) {
	switch fv.Kind() {
	case reflect.Int64, reflect.Int:
		fv.SetInt(int64(n))
	default:
		fv.SetUint(n)
	}
}

func (m *Model) set(fv reflect.Value, k *Kind, v *V) {
	if v.K == VAbsent {
		fv.Set(reflect.Zero(fv.Type()))
		return
	}
	switch k.Tag {
	case "natural", "fixedUint", "time":
		if fv.Kind() == reflect.Ptr {
			p := reflect.New(fv.Type().Elem())
			setScalar(p.Elem(), v.N)
			fv.Set(p)
		} else {
			setScalar(fv, v.N)
		}
	case "bool":
		fv.SetBool(v.K == VTrue)
	case "binary":
		b := reflect.MakeSlice(fv.Type(), len(v.B), len(v.B))
		reflect.Copy(b, reflect.ValueOf(v.B))
		fv.Set(b)
	case "string":
		if fv.Kind() == reflect.Ptr {
			p := reflect.New(fv.Type().Elem())
			p.Elem().SetString(string(v.B))
			fv.Set(p)
		} else {
			fv.SetString(string(v.B))
		}
	case "wire", "signature":
		// split in two segments when possible so that multi-segment wires are exercised
		b := append([]byte{}, v.B...)
		var w enc.Wire
		if len(b) >= 2 {
			w = enc.Wire{b[:len(b)/2], b[len(b)/2:]}
		} else {
			w = enc.Wire{b}
		}
		fv.Set(reflect.ValueOf(w).Convert(fv.Type()))
	case "name", "interestName":
		n := make(enc.Name, len(v.Name))
		copy(n, v.Name)
		fv.Set(reflect.ValueOf(n).Convert(fv.Type()))
	case "struct":
		in := m.Inner(k)
		p := reflect.New(fv.Type().Elem())
		in.fill(p.Elem(), v)
		fv.Set(p)
	case "seq":
		s := reflect.MakeSlice(fv.Type(), len(v.Elems), len(v.Elems))
		for i, e := range v.Elems {
			m.set(s.Index(i), k.Sub, e)
		}
		fv.Set(s)
	case "map":
		mp := reflect.MakeMapWithSize(fv.Type(), len(v.Keys))
		for i := range v.Keys {
			kv := reflect.New(fv.Type().Key()).Elem()
			m.set(kv, k.Key, v.Keys[i])
			ev := reflect.New(fv.Type().Elem()).Elem()
			m.set(ev, k.Val, v.Elems[i])
			mp.SetMapIndex(kv, ev)
		}
		fv.Set(mp)
	default:
		panic("harness: cannot set kind " + k.Tag)
	}
}

// ---------------------------------------------------------------- reflection: real struct -> V

// Read converts the real struct (pointer) back into a value tree.
func (m *Model) Read(p any) *V {
	return m.read(reflect.ValueOf(p).Elem())
}

func (m *Model) read(st reflect.Value) *V {
	v := &V{K: VStruct}
	for i := range m.Fields {
		f := &m.Fields[i]
		fv := st.FieldByName(f.Name)
		if f.K.Tag == "marker" || !fv.IsValid() {
			v.Elems = append(v.Elems, Absent())
			continue
		}
		v.Elems = append(v.Elems, m.get(fv, &f.K))
	}
	return v
}

func scalar(fv reflect.Value) uint64 {
	switch fv.Kind() {
	case reflect.Int64, reflect.Int:
		return uint64(fv.Int())
	default:
		return fv.Uint()
	}
}

func (m *Model) get(fv reflect.Value, k *Kind) *V {
	switch fv.Kind() {
	case reflect.Ptr, reflect.Slice, reflect.Map:
		if fv.IsNil() {
			if k.Tag == "seq" {
				return &V{K: VSeq}
			}
			if k.Tag == "map" {
				return &V{K: VMap}
			}
			return Absent()
		}
	}
	switch k.Tag {
	case "natural", "fixedUint", "time":
		if fv.Kind() == reflect.Ptr {
			return &V{K: VNat, N: scalar(fv.Elem())}
		}
		return &V{K: VNat, N: scalar(fv)}
	case "bool":
		if fv.Bool() {
			return &V{K: VTrue}
		}
		return Absent()
	case "binary":
		return &V{K: VBytes, B: append([]byte{}, fv.Bytes()...)}
	case "string":
		if fv.Kind() == reflect.Ptr {
			return &V{K: VBytes, B: []byte(fv.Elem().String())}
		}
		return &V{K: VBytes, B: []byte(fv.String())}
	case "wire", "signature":
		var b []byte
		for i := 0; i < fv.Len(); i++ {
			b = append(b, fv.Index(i).Bytes()...)
		}
		return &V{K: VBytes, B: b}
	case "name", "interestName":
		n := make(enc.Name, fv.Len())
		for i := range n {
			c := fv.Index(i)
			n[i] = enc.Component{Typ: enc.TLNum(c.FieldByName("Typ").Uint()), Val: append([]byte{}, c.FieldByName("Val").Bytes()...)}
		}
		return &V{K: VName, Name: n}
	case "struct":
		return m.Inner(k).read(fv.Elem())
	case "seq":
		v := &V{K: VSeq}
		for i := 0; i < fv.Len(); i++ {
			v.Elems = append(v.Elems, m.get(fv.Index(i), k.Sub))
		}
		return v
	case "map":
		v := &V{K: VMap}
		it := fv.MapRange()
		for it.Next() {
			v.Keys = append(v.Keys, m.get(it.Key(), k.Key))
			v.Elems = append(v.Elems, m.get(it.Value(), k.Val))
		}
		return v
	}
	panic("harness: cannot read kind " + k.Tag)
}

// ---------------------------------------------------------------- running the real code

// Announced returns encoder.length (the size Init computed), read through reflection.
func Announced(e any) uint64 {
	f := reflect.ValueOf(e).Elem().FieldByName("length")
	if !f.IsValid() {
		panic("harness: generated encoder has no length field")
	}
	return f.Uint()
}

// Written measures how many bytes EncodeInto really writes (non-nocopy models): the value is
// encoded over a pseudo-random fill and over its complement; a position was written if it
// changed in either run (a written byte cannot equal both fills).
func (m *Model) Written(v any, announced uint64) int {
	if m.EncodeInto == nil {
		return -1
	}
	n := int(announced) + 16
	a, b := make([]byte, n), make([]byte, n)
	fill := func(i int) byte { return byte(i*151 + 13) }
	for i := range b {
		a[i], b[i] = fill(i), ^fill(i)
	}
	m.EncodeInto(m.NewEncoder(v), v, a)
	m.EncodeInto(m.NewEncoder(v), v, b)
	w := 0
	for i := 0; i < n; i++ {
		if a[i] != fill(i) || b[i] != ^fill(i) {
			w = i + 1
		}
	}
	return w
}

// SplitAt cuts b at the given ascending offsets into a Wire.
func SplitAt(b []byte, cuts []int) enc.Wire {
	var w enc.Wire
	prev := 0
	for _, c := range cuts {
		if c <= prev || c >= len(b) {
			continue
		}
		w = append(w, b[prev:c])
		prev = c
	}
	w = append(w, b[prev:])
	return w
}

func ParseCuts(s string) []int {
	if s == "-" || s == "" {
		return nil
	}
	var out []int
	for _, x := range strings.Split(s, ",") {
		out = append(out, common.Atoi(x))
	}
	return out
}
