module verif/harness

go 1.26

require github.com/named-data/ndnd v0.0.0

replace github.com/named-data/ndnd => /repo
