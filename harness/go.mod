module verif/harness

go 1.26

require (
	github.com/gorilla/websocket v1.5.3
	github.com/named-data/ndnd v0.0.0
)

require (
	github.com/cespare/xxhash v1.1.0 // indirect
	github.com/davecgh/go-spew v1.1.1 // indirect
	github.com/pkg/errors v0.9.1 // indirect
	github.com/pmezard/go-difflib v1.0.0 // indirect
	github.com/stretchr/testify v1.10.0 // indirect
	go.etcd.io/bbolt v1.3.11 // indirect
	golang.org/x/exp v0.0.0-20241217172543-b2144cdd0a67 // indirect
	golang.org/x/sys v0.28.0 // indirect
	gopkg.in/yaml.v3 v3.0.1 // indirect
)

replace github.com/named-data/ndnd => /repo
