// Package c20: correspondence harness for property C20 (std/engine/basic Engine).
//
// The REAL basic.Engine with the REAL basic.Timer runs inside a testing/synctest bubble (virtual
// time, one bubble per history) on the dummy face of std/engine/dummy. Every op carries its absolute
// virtual instant "@t" (µs since the start of the history): the harness sleeps until then, the
// engine's time.AfterFunc timers fire on the way. The generator makes sure that no two timers and
// no timer and op share an instant (so Go's scheduling of simultaneous timer goroutines never
// influences an output) and this stays true for every subsequence of a history (ddmin).
package c20

import (
	"bufio"
	"crypto/ecdsa"
	"crypto/elliptic"
	"crypto/rand"
	"crypto/sha256"
	"encoding/binary"
	"fmt"
	"os"
	"runtime"
	"sort"
	"strconv"
	"strings"
	"sync"
	"testing"
	"testing/synctest"
	"time"

	enc "github.com/named-data/ndnd/std/encoding"
	basic "github.com/named-data/ndnd/std/engine/basic"
	"github.com/named-data/ndnd/std/engine/dummy"
	"github.com/named-data/ndnd/std/log"
	"github.com/named-data/ndnd/std/ndn"
	spec "github.com/named-data/ndnd/std/ndn/spec_2022"
	sec "github.com/named-data/ndnd/std/security"
	"github.com/named-data/ndnd/std/utils"
	"verif/harness/common"
)

// the engine's constants, taken from the tree under test (the Lean model gets the same values
// through harness/cmd/c20facts), so that the generator's "no two timers at one instant" guarantee
// and its boundary cases follow the code
var marginUs = int64(basic.TimeoutMargin / time.Microsecond)
var defaultLifeUs = int64(basic.DefaultInterestLife / time.Microsecond)

// ---------------------------------------------------------------- packets

func dataWire(name enc.Name, variant int) []byte {
	d, err := spec.Spec{}.MakeData(name, &ndn.DataConfig{ContentType: utils.IdPtr(ndn.ContentTypeBlob)},
		enc.Wire{[]byte{byte(variant), 'v'}}, sec.NewSha256Signer())
	if err != nil {
		panic("harness: MakeData: " + err.Error())
	}
	return d.Wire.Join()
}

func digestOf(wire []byte) []byte {
	h := sha256.Sum256(wire)
	return h[:]
}

// lpWrap puts a packet into an NDNLPv2 LpPacket: mode 1 = Fragment only, 2 = PitToken + Fragment
// (nack adds the Nack header); mode 0 returns the bare packet.
func lpWrap(w []byte, mode int, nack bool) []byte {
	if mode == 0 && !nack {
		return w
	}
	lp := &spec.LpPacket{Fragment: enc.Wire{w}}
	if mode == 2 {
		lp.PitToken = []byte{0xca, 0xfe, 0x00, 0x01}
	}
	if nack {
		lp.Nack = &spec.NetworkNack{Reason: spec.NackReasonNoRoute}
	}
	pkt := &spec.Packet{LpPacket: lp}
	e := spec.PacketEncoder{}
	e.Init(pkt)
	return e.Encode(pkt).Join()
}

func wrapMode(tok string) int {
	switch tok {
	case "w1":
		return 1
	case "w2":
		return 2
	}
	return 0
}

// shortSigner reserves 34 bytes for the signature value and emits 32: a deterministic stand-in for
// signers whose signature is shorter than their estimate (the stock ECDSA signer: estimate 72,
// DER signature 70..72 bytes), which makes MakeInterest shrink the packet after signing.
type shortSigner struct{ keyName enc.Name }

func (s shortSigner) SigInfo() (*ndn.SigConfig, error) {
	return &ndn.SigConfig{Type: ndn.SignatureHmacWithSha256, KeyName: s.keyName}, nil
}
func (shortSigner) EstimateSize() uint { return 34 }
func (shortSigner) ComputeSigValue(covered enc.Wire) ([]byte, error) {
	h := sha256.New()
	for _, b := range covered {
		h.Write(b)
	}
	return h.Sum(nil), nil
}

var eccKey = func() *ecdsa.PrivateKey {
	k, err := ecdsa.GenerateKey(elliptic.P256(), rand.Reader)
	if err != nil {
		panic(err)
	}
	return k
}()

var keyName = enc.Name{comp("k"), comp("KEY"), comp("1")}

// interestSigner returns the signer named in an expressp op (nil = unsigned).
func interestSigner(kind string, timer ndn.Timer) ndn.Signer {
	switch kind {
	case "sha":
		return sec.NewSha256IntSigner(timer)
	case "ecc":
		return sec.NewEccSigner(false, true, 0, eccKey, keyName)
	case "short":
		return shortSigner{keyName}
	}
	return nil
}

// paramInterest builds an Interest with plen bytes of ApplicationParameters through the real MakeInterest.
func paramInterest(name enc.Name, cfg *ndn.InterestConfig, plen int, kind string, timer ndn.Timer) (*ndn.EncodedInterest, error) {
	return spec.Spec{}.MakeInterest(name, cfg, enc.Wire{make([]byte, plen)}, interestSigner(kind, timer))
}

// boundaryParamLen chooses a parameters length that puts the ESTIMATED Interest value length next to 253
// (where the Length field grows from 1 to 3 bytes and a shorter-than-estimated signature makes
// MakeInterest shrink it again), off by -3..+3.
func boundaryParamLen(r *common.Rand, name enc.Name, kind string) int {
	timer := basic.NewTimer()
	best := 0
	for try := 0; try < 6; try++ { // ECDSA signatures vary by up to 2 bytes: take the longest seen
		it, err := paramInterest(name, &ndn.InterestConfig{}, 100, kind, timer)
		if err != nil {
			return 100
		}
		w := it.Wire.Join()
		v := len(w) - 2 // value length at plen=100 (1-byte Length: all of these are < 253)
		if len(w) >= 256 {
			v = len(w) - 4
		}
		if v > best {
			best = v
		}
		if kind != "ecc" {
			break
		}
	}
	if kind == "short" {
		best += 2 // the estimate is 2 above what is finally written
	}
	plen := 100 + (253 - best) + r.Range(-3, 3)
	if plen < 1 {
		plen = 1
	}
	return plen
}

// craftedCollision returns two different 48..63-byte generic components with the same XXH64 hash (copied
// from harness/c14): XXH64 folds 32-byte stripes into four independent lanes with invertible arithmetic,
// so a change of one 8-byte word is cancelled by a computed change of the word 32 bytes further on. The
// component hash input is 16 header bytes followed by the value, which only shifts the lane. A trie
// that keyed its children by Component.Hash() would merge the two; the engine's trie is keyed by the
// TLV string and must not.
func craftedCollision(r *common.Rand) (enc.Component, enc.Component) {
	const p1, p2 uint64 = 11400714785074694791, 14029467366897019727
	rol := func(x uint64, k uint) uint64 { return x<<k | x>>(64-k) }
	round := func(acc, in uint64) uint64 { return rol(acc+in*p2, 31) * p1 }
	inv := p2
	for i := 0; i < 6; i++ {
		inv *= 2 - p2*inv
	}
	n := 48 + r.Intn(16)
	v1 := r.Bytes(n)
	v2 := append([]byte(nil), v1...)
	off := 8 * r.Intn(2)
	v2[off+r.Intn(8)] ^= byte(1 << r.Intn(8))
	seed := uint64(0)
	if off == 8 {
		seed = ^uint64(p1) + 1
	}
	s1 := round(seed, binary.LittleEndian.Uint64(v1[off:]))
	s1x := round(seed, binary.LittleEndian.Uint64(v2[off:]))
	w2 := binary.LittleEndian.Uint64(v1[off+32:])
	binary.LittleEndian.PutUint64(v2[off+32:], w2+(s1-s1x)*inv)
	return enc.Component{Typ: 8, Val: v1}, enc.Component{Typ: 8, Val: v2}
}

func comp(s string) enc.Component {
	return enc.NewStringComponent(enc.TypeGenericNameComponent, s)
}

func digestComp(d []byte) enc.Component {
	return enc.Component{Typ: enc.TypeImplicitSha256DigestComponent, Val: d}
}

// ---------------------------------------------------------------- generator

type gPend struct {
	label string
	final enc.Name
	node  enc.Name
	fire  int64
}

type gRx struct {
	label    string
	deadline int64
}

func clone(n enc.Name) enc.Name { return append(enc.Name{}, n...) }

func gen(g *common.Gen) {
	// common.NewRand(seed) and common.NewRand(seed+1) are the same splitmix64 stream shifted by one
	// draw (the state is seed*gamma+c), and the thorough tier uses consecutive seeds: re-seed from a
	// DRAW of the stream so that batches do not repeat each other's histories.
	root := common.NewRand(g.R.U64() ^ 0x5851F42D4C957F2D)
	for i := 0; i < g.N; i++ {
		genHistory(g, root.Fork())
	}
}

func genHistory(g *common.Gen, r *common.Rand) {
	alpha := []enc.Component{comp("a"), comp("b")}
	if r.Chance(1, 4) {
		alpha = []enc.Component{comp("a"), comp("b"), comp("c")}
	}
	// "twin" components: different components that a sloppy trie key would merge — the same number
	// in two encoding widths (seg=%01 / seg=%00%01 print alike), a generic component whose VALUE is
	// the TLV encoding of a typed one (0x32 0x01 0x01 = seg=%01), one that spells its URI form, and
	// the same value under two types.
	twins := false
	if r.Chance(1, 5) {
		twins = true
		alpha = []enc.Component{
			{Typ: enc.TypeSegmentNameComponent, Val: []byte{1}},
			{Typ: enc.TypeSegmentNameComponent, Val: []byte{0, 1}},
			{Typ: enc.TypeGenericNameComponent, Val: []byte{0x32, 0x01, 0x01}},
			comp("seg=1"),
			comp("a"),
			{Typ: 9, Val: []byte("a")},
		}
	}
	// one history in eight: two components crafted to have the same XXH64 hash (plus an ordinary one)
	if !twins && r.Chance(1, 8) {
		twins = true
		cx, cy := craftedCollision(r)
		if cx.Hash() != cy.Hash() || cx.Equal(cy) {
			panic("harness: craftedCollision did not produce a collision")
		}
		alpha = []enc.Component{cx, cy, comp("a")}
		g.Stat("history-hash-colliding-names")
	}
	// one history in ten: header-boundary twins — a component whose type is 253 (the first number that needs the
	// three-byte form) and the component its bytes WOULD spell if that type were written in one byte
	// (fd 04 01 02 61 62 = type 0x0401, length 2, "ab"): a trie keyed by a sloppy encoding merges the two
	if !twins && r.Chance(1, 10) {
		twins = true
		alpha = []enc.Component{
			{Typ: 253, Val: []byte{1, 2, 'a', 'b'}},
			{Typ: 0x0401, Val: []byte("ab")},
			{Typ: 255, Val: []byte{0, 0, 0, 0, 0, 0, 4, 1, 1, 'b'}},
			comp("a"),
		}
		g.Stat("history-header-boundary-twins")
	}
	// every fourth history runs on the engine's test clock (std/engine/dummy.Timer) instead of the
	// real timer: the clock moves only with the ops, so ops can stand EXACTLY on a timer instant
	dummyClock := r.Chance(1, 4)
	uni := func(minD, maxD int) enc.Name {
		d := r.Range(minD, maxD)
		n := enc.Name{}
		for k := 0; k < d; k++ {
			n = append(n, common.Pick(r, alpha))
		}
		return n
	}
	if dummyClock {
		g.Op("new dummy")
		g.Stat("history-dummy-clock")
	} else {
		g.Op("new")
		g.Stat("history-real-timer")
	}
	if twins {
		g.Stat("history-twin-names")
	}
	nops := r.Range(10, 40)
	var t int64
	fires := map[int64]bool{}
	var pend []gPend
	var attached []enc.Name
	var rxs []gRx
	var plabels []string
	var maxDeadline int64
	nExpr, nRx, nHid := 0, 0, 0

	step := func() {
		var dt int64
		switch x := r.Intn(100); {
		case x < 35:
			dt = int64(r.Range(0, 3000))
		case x < 80:
			dt = int64(r.Range(3000, 40000))
		case x < 95:
			dt = int64(r.Range(50000, 300000))
		default:
			dt = int64(r.Range(1000000, 5000000))
		}
		t += dt
		if dummyClock {
			// stand exactly on the instant of a pending timeout event / on a deadline (the test clock
			// runs an event only when its time is strictly past)
			if r.Chance(1, 3) {
				var c []int64
				for _, p := range pend {
					if p.fire >= t-dt {
						c = append(c, p.fire, p.fire-marginUs)
					}
				}
				if len(c) > 0 {
					if x := common.Pick(r, c); x >= t-dt {
						t = x
					}
				}
			}
			return
		}
		for fires[t] {
			t++
		}
	}
	relatedName := func() enc.Name {
		if len(pend) == 0 || r.Chance(1, 3) {
			return uni(1, 3)
		}
		p := common.Pick(r, pend).node
		switch r.Intn(4) {
		case 0:
			return clone(p)
		case 1:
			return append(clone(p), common.Pick(r, alpha))
		case 2:
			if len(p) > 1 {
				return clone(p[:len(p)-1])
			}
			return clone(p)
		default:
			return uni(1, 3)
		}
	}

	for k := 0; k < nops; k++ {
		step()
		// forget Interests that have timed out by now (keep a few, stale names are interesting too)
		live := pend[:0]
		for _, p := range pend {
			if p.fire > t || r.Chance(1, 8) {
				live = append(live, p)
			}
		}
		pend = live
		// Interests with ApplicationParameters (final name known only after the real MakeInterest has
		// run: later ops refer to them by label) and the Data / Nack that answer them
		if len(plabels) > 0 && r.Chance(1, 9) {
			l := common.Pick(r, plabels)
			if r.Chance(1, 5) {
				g.Op("nackfor %s w%d @%d", l, 1+r.Intn(2), t)
				g.Stat("op-nackfor")
			} else {
				g.Op("datafor %s %d w%d @%d", l, r.Intn(2), pickWrap(r), t)
				g.Stat("op-datafor")
			}
			continue
		}
		if r.Chance(1, 16) {
			// the answer arrives from within the face's Send (loopback), or the Send fails
			node := relatedName()
			if len(node) == 0 {
				node = uni(1, 2)
			}
			cbp := r.Chance(2, 5)
			life := int64(r.Range(20000, 300000))
			for !dummyClock && fires[t+life+marginUs] {
				life++
			}
			label := "i" + strconv.Itoa(nExpr)
			nExpr++
			fires[t+life+marginUs] = true
			if t+life > maxDeadline {
				maxDeadline = t + life
			}
			if r.Chance(1, 4) {
				g.Op("expressf %s %s %d %d @%d", label, common.NameText(node), b2i(cbp), life, t)
				g.Stat("op-expressf")
				pend = append(pend, gPend{label, node, node, t + life + marginUs})
				continue
			}
			final := node
			aname := clone(node)
			if cbp && r.Chance(1, 2) {
				aname = append(aname, common.Pick(r, alpha))
			}
			v := r.Intn(2)
			if r.Chance(1, 4) {
				dv := v
				if r.Chance(1, 4) {
					dv = 1 - v // a digest the looped Data does not have: stays pending
				}
				final = append(clone(node), digestComp(digestOf(dataWire(aname, dv))))
			}
			if r.Chance(1, 5) {
				g.Op("expressl %s %s %d %d N %s - 0 w%d @%d", label, common.NameText(final), b2i(cbp), life, common.NameText(final), 1+r.Intn(2), t)
			} else {
				g.Op("expressl %s %s %d %d D %s %s %d w%d @%d", label, common.NameText(final), b2i(cbp), life,
					common.NameText(aname), common.Hex(digestOf(dataWire(aname, v))), v, pickWrap(r), t)
			}
			g.Stat("op-expressl")
			continue
		}
		if r.Chance(1, 60) {
			// one frame holding two Data packets of names somebody may be waiting for
			g.Op("data2 %s %d %s %d w%d @%d", common.NameText(relatedName()), r.Intn(2), common.NameText(relatedName()), r.Intn(2), r.Intn(3), t)
			g.Stat("op-data2")
			continue
		}
		if !dummyClock && !fires[t+1000000+marginUs] && r.Chance(1, 45) {
			// the application registers a route while the face cannot send: the engine's own command Interest
			// (lifetime 1 s) stays pending inside the engine and times out there
			g.Op("mgmtf %s @%d", common.NameText(uni(1, 2)), t)
			g.Stat("op-mgmtf")
			fires[t+1000000+marginUs] = true
			if t+1000000 > maxDeadline {
				maxDeadline = t + 1000000
			}
			continue
		}
		if r.Chance(1, 14) {
			base := uni(1, 2)
			kind := common.Pick(r, []string{"none", "sha", "ecc", "ecc", "short", "short"})
			plen := r.Range(1, 60)
			if kind == "ecc" || kind == "short" || r.Chance(1, 2) {
				plen = boundaryParamLen(r, base, kind)
			}
			life := int64(r.Range(20000, 400000))
			for !dummyClock && fires[t+life+marginUs] {
				life++
			}
			label := "i" + strconv.Itoa(nExpr)
			nExpr++
			g.Op("expressp %s %s %d %d %d %s @%d", label, common.NameText(base), b2i(r.Chance(1, 4)), life, plen, kind, t)
			g.Stat("op-expressp")
			g.Stat("expressp-" + kind)
			fires[t+life+marginUs] = true
			plabels = append(plabels, label)
			if t+life > maxDeadline {
				maxDeadline = t + life
			}
			continue
		}
		switch x := r.Intn(100); {
		case x < 36: // express
			var final, node enc.Name
			kind := "plain"
			switch y := r.Intn(100); {
			case y < 2:
				final, node, kind = enc.Name{}, enc.Name{}, "empty"
			case y < 16:
				node = relatedName()
				if r.Chance(1, 12) {
					node = enc.Name{}
				}
				dn := node
				if r.Chance(1, 4) {
					dn = uni(1, 2) // digest of some other Data
				}
				final = append(clone(node), digestComp(digestOf(dataWire(dn, r.Intn(2)))))
				kind = "digest"
			default:
				node = relatedName()
				final = node
			}
			cbp := r.Chance(2, 5)
			var life int64 = -1
			switch y := r.Intn(100); {
			case y < 50:
				life = int64(r.Range(2000, 80000))
			case y < 65:
				life = int64(r.Range(100000, 400000))
			case y < 73:
				life = -1
			default:
				// boundary: deadline at (or one µs around) the instant another pending timer fires,
				// or a deadline within the margin of another entry of the same node
				var cands []int64
				for _, p := range pend {
					if p.fire > t+1 {
						cands = append(cands, p.fire-t+int64(r.Range(-1, 1)))
						cands = append(cands, p.fire-marginUs-t+int64(r.Range(1, int(marginUs)-1)))
					}
				}
				life = int64(r.Range(2000, 80000))
				if len(cands) > 0 {
					if c := common.Pick(r, cands); c > 0 {
						life = c
					}
				}
			}
			lifeUs := life
			if life < 0 {
				lifeUs = defaultLifeUs
			}
			// unique timer instant, distinct from every op instant so far (later ops avoid it)
			for !dummyClock && fires[t+lifeUs+marginUs] {
				if life < 0 {
					t++
				} else {
					life++
					lifeUs++
				}
			}
			label := "i" + strconv.Itoa(nExpr)
			nExpr++
			lt := "-"
			if life >= 0 {
				lt = strconv.FormatInt(life, 10)
			}
			cbpTok := b2i(cbp)
			if r.Chance(1, 4) {
				// MustBeFresh is set as well (tokens 2 / 3): it concerns caches on the way, never the
				// application engine - an arriving Data that matches satisfies the Interest all the same
				// (the Data of these histories carry no FreshnessPeriod)
				cbpTok += 2
				g.Stat("express-mustbefresh")
			}
			g.Op("express %s %s %d %s @%d", label, common.NameText(final), cbpTok, lt, t)
			g.Stat("op-express")
			g.Stat("express-" + kind)
			if kind != "empty" {
				fires[t+lifeUs+marginUs] = true
				pend = append(pend, gPend{label, final, node, t + lifeUs + marginUs})
				if t+lifeUs > maxDeadline {
					maxDeadline = t + lifeUs
				}
			}
		case x < 62: // data
			var name enc.Name
			kind := ""
			switch y := r.Intn(100); {
			case y < 45 && len(pend) > 0:
				name, kind = clone(common.Pick(r, pend).node), "pending-name"
			case y < 62 && len(pend) > 0:
				name, kind = append(clone(common.Pick(r, pend).node), common.Pick(r, alpha)), "longer"
			case y < 78 && len(pend) > 0:
				p := common.Pick(r, pend).node
				if len(p) > 0 {
					p = p[:r.Intn(len(p))]
				}
				name, kind = clone(p), "shorter"
			default:
				name, kind = uni(1, 3), "random"
			}
			if len(name) == 0 {
				name = uni(1, 1)
			}
			v := r.Intn(2)
			if kind == "pending-name" && !dummyClock && r.Chance(1, 4) {
				// while the Data is being delivered another goroutine asks for the same name again
				xcbp := b2i(r.Chance(2, 5))
				life := int64(r.Range(2000, 80000))
				for fires[t+life+marginUs] {
					life++
				}
				label := "i" + strconv.Itoa(nExpr)
				nExpr++
				g.Op("datax %s %s %d w%d %s %s %d %d @%d", common.NameText(name), common.Hex(digestOf(dataWire(name, v))), v, pickWrap(r),
					label, common.NameText(name), xcbp, life, t)
				g.Stat("op-datax")
				fires[t+life+marginUs] = true
				pend = append(pend, gPend{label, clone(name), clone(name), t + life + marginUs})
				if t+life > maxDeadline {
					maxDeadline = t + life
				}
				break
			}
			g.Op("data %s %s %d w%d @%d", common.NameText(name), common.Hex(digestOf(dataWire(name, v))), v, pickWrap(r), t)
			g.Stat("op-data")
			g.Stat("data-" + kind)
		case x < 70: // nack
			var name enc.Name
			switch y := r.Intn(100); {
			case y < 60 && len(pend) > 0:
				name = clone(common.Pick(r, pend).final)
			case y < 80 && len(pend) > 0:
				name = clone(common.Pick(r, pend).node)
			default:
				name = uni(1, 3)
			}
			if len(name) == 0 {
				name = uni(1, 1)
			}
			g.Op("nack %s w%d %s @%d", common.NameText(name), 1+r.Intn(2), pickHop(r), t)
			g.Stat("op-nack")
		case x < 78: // attach
			p := uni(0, 2)
			if r.Chance(1, 3) && len(attached) > 0 {
				q := common.Pick(r, attached)
				if r.Chance(1, 2) {
					p = append(clone(q), common.Pick(r, alpha))
				} else if len(q) > 0 {
					p = clone(q[:len(q)-1])
				}
			}
			g.Op("attach %d %s @%d", nHid, common.NameText(p), t)
			nHid++
			attached = append(attached, p)
			g.Stat("op-attach")
		case x < 82: // detach
			p := uni(0, 2)
			if len(attached) > 0 && r.Chance(4, 5) {
				p = common.Pick(r, attached)
			}
			g.Op("detach %s @%d", common.NameText(p), t)
			for i, a := range attached {
				if a.Equal(p) {
					attached = append(attached[:i:i], attached[i+1:]...)
					break
				}
			}
			g.Stat("op-detach")
		case x < 91: // incoming interest
			name := uni(1, 3)
			if len(attached) > 0 && r.Chance(1, 2) {
				name = append(clone(common.Pick(r, attached)), uni(0, 2)...)
				if len(name) == 0 {
					name = uni(1, 1)
				}
			}
			life := "-"
			lifeUs := defaultLifeUs
			if r.Chance(7, 10) {
				ms := r.Range(1, 50)
				life, lifeUs = strconv.Itoa(ms), int64(ms)*1000
			}
			tok := "-"
			if r.Chance(3, 10) {
				tok = common.Hex(r.Bytes(4))
			}
			label := "r" + strconv.Itoa(nRx)
			nRx++
			g.Op("interest %s %s %s %s %s @%d", label, common.NameText(name), life, tok, pickHop(r), t)
			for _, a := range attached {
				if a.IsPrefix(name) {
					rxs = append(rxs, gRx{label, t + lifeUs})
					break
				}
			}
			g.Stat("op-interest")
		case x < 97: // reply
			if len(rxs) == 0 {
				g.Op("tick @%d", t)
				g.Stat("op-tick")
				break
			}
			x := common.Pick(r, rxs)
			if r.Chance(1, 3) && x.deadline >= t {
				// boundary: exactly at the deadline, or one µs after it
				t2 := x.deadline + int64(r.Intn(2))
				if dummyClock || !fires[t2] {
					t = t2
				}
			}
			g.Op("reply %s @%d", x.label, t)
			g.Stat("op-reply")
		default:
			g.Op("tick @%d", t)
			g.Stat("op-tick")
		}
	}
	end := t
	if maxDeadline > end {
		end = maxDeadline
	}
	end += 2000000
	for !dummyClock && fires[end] {
		end++
	}
	g.Op("end @%d", end)
	g.StatN("ops", nops)
}

// pickWrap: bare packet (60 %), LpPacket with only a Fragment, LpPacket with PitToken + Fragment
func pickWrap(r *common.Rand) int {
	switch x := r.Intn(10); {
	case x < 6:
		return 0
	case x < 8:
		return 1
	}
	return 2
}

// pickHop: HopLimit of an incoming Interest / of the Interest returned inside a Nack: absent, 0 (what the
// application at the last permitted hop receives), 1, 255
func pickHop(r *common.Rand) string {
	return common.Pick(r, []string{"h-", "h-", "h0", "h0", "h1", "h255"})
}

// setHop applies an "h<n>" token to an Interest configuration.
func setHop(cfg *ndn.InterestConfig, tok string) {
	if len(tok) > 1 && tok[0] == 'h' && tok != "h-" {
		cfg.HopLimit = utils.IdPtr(uint(common.Atoi(tok[1:])))
	}
}

func b2i(b bool) int {
	if b {
		return 1
	}
	return 0
}

// ---------------------------------------------------------------- executor

type event struct {
	label string
	kind  string // D N T
	name  string
	at    int64
}

type sentRec struct {
	name enc.Name
	wire []byte
}

// hookFace is the dummy face of std/engine/dummy with two switches used by single ops: `fail` makes
// Send return an error (a face that cannot send), `answer` makes Send deliver that packet to the
// engine from WITHIN Send, after the Interest has been queued — what a loopback / very fast
// producer does (the dummy face alone can never answer before Express has returned).
type hookFace struct {
	*dummy.DummyFace
	onPkt  func(r enc.ParseReader) error
	fail   bool
	answer []byte
}

func (f *hookFace) SetCallback(onPkt func(r enc.ParseReader) error, onError func(err error) error) {
	f.onPkt = onPkt
	f.DummyFace.SetCallback(onPkt, onError)
}

func (f *hookFace) Send(pkt enc.Wire) error {
	if f.fail {
		return fmt.Errorf("harness: the face cannot send")
	}
	if err := f.DummyFace.Send(pkt); err != nil {
		return err
	}
	if a := f.answer; a != nil {
		f.answer = nil
		return f.onPkt(enc.NewBufferReader(a))
	}
	return nil
}

type rxRec struct {
	name  enc.Name
	reply ndn.WireReplyFunc
}

type hist struct {
	start  time.Time
	dt     *dummy.Timer // nil: real basic.Timer under synctest
	face   *hookFace
	eng    *basic.Engine
	mu     sync.Mutex
	events []event
	rx     map[string]rxRec
	sent   map[string]sentRec // Interests expressed with parameters: what went out on the wire
	timer  ndn.Timer
	// set by a handler during FeedPacket
	lastHid   int
	lastArgs  *ndn.InterestHandlerArgs
	handlerOf map[int]bool
	// datax: run once at the start of the next application callback (while the engine is in the middle
	// of delivering a packet)
	onCb func()
	// express: the application's reused name buffer
	nameBuf enc.Name
	digBuf  [32]byte
	// mgmtf: a management command was issued in this history (its Interest is pending inside the engine)
	mgmtUsed bool
	dead     bool
}

// exitAfterLine: the engine of the current history is locked up for good (a goroutine of the bubble blocks for ever
// while holding the engine's PIT lock): the bubble can never finish, so the process ends once the verdict is written
var exitAfterLine bool

// engineLocked: some goroutine is blocked sending the result of a management command (ExecMgmtCmd's callback) —
// that callback runs inside the timeout sweep / onData, i.e. under the engine's PIT lock, and nobody receives
func engineLocked() bool {
	buf := make([]byte, 1<<20)
	buf = buf[:runtime.Stack(buf, true)]
	for _, g := range strings.Split(string(buf), "\n\n") {
		if strings.Contains(g, "[chan send") && strings.Contains(g, "ExecMgmtCmd") {
			return true
		}
	}
	return false
}

func (h *hist) rel(t time.Time) int64 { return t.Sub(h.start).Microseconds() }

// now is the engine's clock, relative to the start of the history.
func (h *hist) now() int64 {
	if h.dt != nil {
		return h.rel(h.dt.Now())
	}
	return h.rel(time.Now())
}

func (h *hist) take() []event {
	h.mu.Lock()
	defer h.mu.Unlock()
	ev := h.events
	h.events = nil
	return ev
}

func (h *hist) drainFace() int {
	n := 0
	for {
		if _, err := h.face.Consume(); err != nil {
			return n
		}
		n++
	}
}

func newHist(dummyClock bool) *hist {
	h := &hist{start: time.Now(), rx: map[string]rxRec{}, sent: map[string]sentRec{}}
	h.face = &hookFace{DummyFace: dummy.NewDummyFace()}
	passAll := func(enc.Name, enc.Wire, ndn.Signature) bool { return true }
	var timer ndn.Timer = basic.NewTimer()
	if dummyClock {
		h.dt = dummy.NewTimer()
		h.start = h.dt.Now()
		timer = h.dt
	}
	h.timer = timer
	h.eng = basic.NewEngine(h.face, timer, sec.NewSha256IntSigner(timer), passAll)
	if err := h.eng.Start(); err != nil {
		panic("harness: engine start: " + err.Error())
	}
	return h
}

func fmtPre(ev []event) string {
	sort.SliceStable(ev, func(i, j int) bool {
		if ev[i].at != ev[j].at {
			return ev[i].at < ev[j].at
		}
		return labelNum(ev[i].label) < labelNum(ev[j].label)
	})
	var out []string
	for _, e := range ev {
		if e.kind != "T" {
			out = append(out, e.label+":"+e.kind+"@"+strconv.FormatInt(e.at, 10)) // not a timeout: shows up as a DIFF
		} else {
			out = append(out, e.label+"@"+strconv.FormatInt(e.at, 10))
		}
	}
	if len(out) == 0 {
		return "-"
	}
	return strings.Join(out, ",")
}

func fmtCb(ev []event) string {
	sort.SliceStable(ev, func(i, j int) bool { return labelNum(ev[i].label) < labelNum(ev[j].label) })
	var out []string
	for _, e := range ev {
		s := e.label + ":" + e.kind
		if e.kind == "D" {
			s += ":" + e.name
		}
		out = append(out, s)
	}
	if len(out) == 0 {
		return "-"
	}
	return strings.Join(out, ",")
}

func labelNum(l string) int {
	n, _ := strconv.Atoi(l[1:])
	return n
}

// callback records the result given to the Express callback of Interest `label`.
func (h *hist) callback(label string) ndn.ExpressCallbackFunc {
	return func(a ndn.ExpressCallbackArgs) {
		if f := h.onCb; f != nil {
			h.onCb = nil
			f()
		}
		e := event{label: label, at: h.now()}
		switch a.Result {
		case ndn.InterestResultData:
			e.kind = "D"
			e.name = common.NameText(a.Data.Name())
		case ndn.InterestResultNack:
			e.kind = "N"
		case ndn.InterestResultTimeout:
			e.kind = "T"
		default:
			e.kind = "X" + strconv.Itoa(int(a.Result))
		}
		h.mu.Lock()
		h.events = append(h.events, e)
		h.mu.Unlock()
	}
}

// execOp runs one op of a history inside the bubble.
func (h *hist) execOp(op string) string {
	f := common.Fields(op)
	last := f[len(f)-1]
	if !strings.HasPrefix(last, "@") {
		return "bad-op"
	}
	t := int64(common.Atoi(last[1:]))
	f = f[:len(f)-1]
	// 1. let the clock run to t
	if now := h.now(); t > now {
		if h.dt != nil {
			h.dt.MoveForward(time.Duration(t-now) * time.Microsecond)
		} else {
			time.Sleep(time.Duration(t-now) * time.Microsecond)
		}
	}
	synctest.Wait()
	if h.dead {
		return "dead"
	}
	if h.mgmtUsed && engineLocked() {
		h.dead, exitAfterLine = true, true
		return "pre=" + fmtPre(h.take()) + " res=HANG-engine-locked cb=-"
	}
	pre := fmtPre(h.take())
	h.drainFace()
	res := "bad-op"
	switch f[0] {
	case "mgmtf":
		// mgmtf <name>: the application registers a route (Engine.RegisterRoute -> ExecMgmtCmd) while the face cannot
		// send: the call fails at once; the command Interest stays pending inside the engine for its lifetime (1 s)
		if h.dt != nil {
			res = "skip" // the dummy clock runs timers inside MoveForward, on the harness's own goroutine
			break
		}
		h.face.fail = true
		err := h.eng.RegisterRoute(common.ParseNameText(f[1]))
		h.face.fail = false
		h.mgmtUsed = true
		res = "ok"
		if err != nil {
			res = "senderr"
		}
		h.drainFace()
	case "express", "expressl", "expressf":
		// expressl: the answer (Data or Nack) comes back from WITHIN the face's Send;
		// expressf: the face's Send fails
		if f[0] == "expressl" {
			aname := common.ParseNameText(f[6])
			if f[5] == "N" {
				nit, err := spec.Spec{}.MakeInterest(aname, &ndn.InterestConfig{Nonce: utils.IdPtr(uint64(7))}, nil, nil)
				if err != nil {
					return "pre=" + pre + " res=make-err cb=-"
				}
				m := wrapMode(f[9])
				if m == 0 {
					m = 1
				}
				h.face.answer = lpWrap(nit.Wire.Join(), m, true)
			} else {
				w := dataWire(aname, common.Atoi(f[8]))
				if common.Hex(digestOf(w)) != f[7] {
					return "pre=" + pre + " res=bad-digest cb=-"
				}
				h.face.answer = lpWrap(w, wrapMode(f[9]), false)
			}
		}
		h.face.fail = f[0] == "expressf"
		defer func() { h.face.fail, h.face.answer = false, nil }()
		label, name, cbp := f[1], common.ParseNameText(f[2]), f[3] == "1" || f[3] == "3"
		// the application builds every name in ONE reused buffer (as tools/pingclient and the sync
		// code do: overwrite the last component, append on a shared prefix): whatever the engine keeps
		// of an expressed Interest must not depend on the application's slice afterwards
		h.nameBuf = append(h.nameBuf[:0], name...)
		name = h.nameBuf
		// ... and keeps the implicit digest it asks for in ONE reused 32-byte array (a hash.Sum(buf[:0]) target):
		// the digest a pending Interest waits for must not change when the application computes the next one
		if k := len(name) - 1; k >= 0 && name[k].Typ == enc.TypeImplicitSha256DigestComponent && len(name[k].Val) == 32 {
			copy(h.digBuf[:], name[k].Val)
			name[k].Val = h.digBuf[:]
		}
		cfg := &ndn.InterestConfig{CanBePrefix: cbp, MustBeFresh: f[3] == "2" || f[3] == "3"}
		if f[4] != "-" {
			cfg.Lifetime = utils.IdPtr(time.Duration(common.Atoi(f[4])) * time.Microsecond)
		}
		var it *ndn.EncodedInterest
		if len(name) == 0 {
			// MakeInterest refuses an empty name; Express has its own check
			it = &ndn.EncodedInterest{Wire: enc.Wire{[]byte{0x05, 0x02, 0x07, 0x00}}, FinalName: name, Config: cfg}
		} else {
			var err error
			it, err = spec.Spec{}.MakeInterest(name, cfg, nil, nil)
			if err != nil {
				return "pre=" + pre + " res=make-err cb=-"
			}
		}
		err := h.eng.Express(it, h.callback(label))
		tx := h.drainFace()
		switch {
		case err == nil && tx == 1:
			res = "ok"
		case err == nil:
			res = "ok-tx" + strconv.Itoa(tx)
		case f[0] == "expressf" && tx == 0 && len(name) > 0:
			res = "senderr"
		default:
			res = "err"
		}
	case "data":
		name, v := common.ParseNameText(f[1]), common.Atoi(f[3])
		w := dataWire(name, v)
		if common.Hex(digestOf(w)) != f[2] {
			return "pre=" + pre + " res=bad-digest cb=-"
		}
		mode := 0
		if len(f) > 4 {
			mode = wrapMode(f[4])
		}
		if err := h.face.FeedPacket(lpWrap(w, mode, false)); err != nil {
			res = "feed-err"
		} else {
			res = "ok"
		}
	case "data2":
		// data2 <nameA> <vA> <nameB> <vB> <w>: ONE frame (bare, or the Fragment of one LpPacket) that holds TWO
		// complete Data packets one behind the other. A frame carries one packet: this one is garbage and resolves
		// nothing (the raw bytes the engine would hash for an implicit digest span both packets)
		if len(f) != 6 {
			return "pre=" + pre + " res=bad-op cb=-"
		}
		wa := dataWire(common.ParseNameText(f[1]), common.Atoi(f[2]))
		wb := dataWire(common.ParseNameText(f[3]), common.Atoi(f[4]))
		both := append(append([]byte{}, wa...), wb...)
		if err := h.face.FeedPacket(lpWrap(both, wrapMode(f[5]), false)); err != nil {
			res = "feed-err"
		} else {
			res = "ok"
		}
	case "datax":
		// datax <name> <digest> <variant> <w> <label> <xname> <cbp> <life>: a Data arrival; WHILE the
		// first callback it triggers is running, another goroutine expresses Interest <label> for
		// <xname> (an application thread that happens to ask at that moment).  The engine serialises
		// the two: the Express takes effect once the Data has been dealt with - it is never lost.  If
		// the Data triggers no callback the Interest is expressed right after it.
		if len(f) != 9 {
			return "pre=" + pre + " res=bad-op cb=-"
		}
		name, v := common.ParseNameText(f[1]), common.Atoi(f[3])
		w := dataWire(name, v)
		if common.Hex(digestOf(w)) != f[2] {
			return "pre=" + pre + " res=bad-digest cb=-"
		}
		label, xname := f[5], common.ParseNameText(f[6])
		cfg := &ndn.InterestConfig{CanBePrefix: f[7] == "1" || f[7] == "3", MustBeFresh: f[7] == "2" || f[7] == "3"}
		if f[8] != "-" {
			cfg.Lifetime = utils.IdPtr(time.Duration(common.Atoi(f[8])) * time.Microsecond)
		}
		it, err := spec.Spec{}.MakeInterest(xname, cfg, nil, nil)
		if err != nil {
			return "pre=" + pre + " res=make-err cb=-"
		}
		started := false
		done := make(chan error, 1)
		h.onCb = func() {
			started = true
			go func() { done <- h.eng.Express(it, h.callback(label)) }()
			// no clock can be waited on here (a goroutine blocked on the engine's mutex keeps the
			// bubble's clock still): yield until the other goroutine has run as far as it can
			for i := 0; i < 20000; i++ {
				runtime.Gosched()
			}
		}
		ferr := h.face.FeedPacket(lpWrap(w, wrapMode(f[4]), false))
		h.onCb = nil
		var xerr error
		if started {
			xerr = <-done
		} else {
			xerr = h.eng.Express(it, h.callback(label))
		}
		tx := h.drainFace()
		switch {
		case ferr != nil:
			res = "feed-err"
		case xerr == nil && tx == 1:
			res = "ok"
		case xerr == nil:
			res = "ok-tx" + strconv.Itoa(tx)
		default:
			res = "err"
		}
	case "expressp":
		// Interest with ApplicationParameters, built and signed by the real MakeInterest; reports the
		// name that is ON THE WIRE (decoded from what the face sent)
		label, name, cbp := f[1], common.ParseNameText(f[2]), f[3] == "1"
		cfg := &ndn.InterestConfig{CanBePrefix: cbp}
		if f[4] != "-" {
			cfg.Lifetime = utils.IdPtr(time.Duration(common.Atoi(f[4])) * time.Microsecond)
		}
		it, err := paramInterest(name, cfg, common.Atoi(f[5]), f[6], h.timer)
		if err != nil {
			return "pre=" + pre + " res=make-err cb=-"
		}
		err = h.eng.Express(it, h.callback(label))
		var sent []byte
		tx := 0
		for {
			b, e := h.face.Consume()
			if e != nil {
				break
			}
			sent = b
			tx++
		}
		if err != nil || tx != 1 {
			res = "err-tx" + strconv.Itoa(tx)
			break
		}
		pkt, _, perr := spec.ReadPacket(enc.NewBufferReader(sent))
		if perr != nil || pkt.Interest == nil {
			res = "sent-unparsable"
			break
		}
		wname := pkt.Interest.Name().Clone()
		h.sent[label] = sentRec{name: wname, wire: append([]byte{}, sent...)}
		res = "ok:" + common.NameText(wname)
	case "datafor":
		x, ok := h.sent[f[1]]
		if !ok {
			res = "skip"
			break
		}
		w := dataWire(x.name, common.Atoi(f[2]))
		if err := h.face.FeedPacket(lpWrap(w, wrapMode(f[3]), false)); err != nil {
			res = "feed-err"
		} else {
			res = "ok:" + common.NameText(x.name) + ":" + common.Hex(digestOf(w))
		}
	case "nackfor":
		x, ok := h.sent[f[1]]
		if !ok {
			res = "skip"
			break
		}
		mode := wrapMode(f[2])
		if mode == 0 {
			mode = 1
		}
		if err := h.face.FeedPacket(lpWrap(x.wire, mode, true)); err != nil {
			res = "feed-err"
		} else {
			res = "ok:" + common.NameText(x.name)
		}
	case "nack":
		name := common.ParseNameText(f[1])
		ncfg := &ndn.InterestConfig{Nonce: utils.IdPtr(uint64(7))}
		if len(f) > 3 {
			setHop(ncfg, f[3])
		}
		it, err := spec.Spec{}.MakeInterest(name, ncfg, nil, nil)
		if err != nil {
			return "pre=" + pre + " res=make-err cb=-"
		}
		mode := 1
		if len(f) > 2 {
			mode = wrapMode(f[2])
		}
		if err := h.face.FeedPacket(lpWrap(it.Wire.Join(), mode, true)); err != nil {
			res = "feed-err"
		} else {
			res = "ok"
		}
	case "attach":
		hid, p := common.Atoi(f[1]), common.ParseNameText(f[2])
		err := h.eng.AttachHandler(p, func(a ndn.InterestHandlerArgs) {
			h.lastHid = hid
			h.lastArgs = &a
		})
		if err == nil {
			res = "ok"
		} else {
			res = "dup"
		}
	case "detach":
		if err := h.eng.DetachHandler(common.ParseNameText(f[1])); err == nil {
			res = "ok"
		} else {
			res = "err"
		}
	case "interest":
		label, name := f[1], common.ParseNameText(f[2])
		cfg := &ndn.InterestConfig{Nonce: utils.IdPtr(uint64(9))}
		if len(f) > 5 {
			setHop(cfg, f[5])
		}
		if f[3] != "-" {
			cfg.Lifetime = utils.IdPtr(time.Duration(common.Atoi(f[3])) * time.Millisecond)
		}
		it, err := spec.Spec{}.MakeInterest(name, cfg, nil, nil)
		if err != nil {
			return "pre=" + pre + " res=make-err cb=-"
		}
		w := it.Wire.Join()
		if f[4] != "-" {
			pkt := &spec.Packet{LpPacket: &spec.LpPacket{PitToken: common.UnHex(f[4]), Fragment: it.Wire}}
			e := spec.PacketEncoder{}
			e.Init(pkt)
			w = e.Encode(pkt).Join()
		}
		h.lastArgs = nil
		if err := h.face.FeedPacket(w); err != nil {
			res = "feed-err"
		} else if h.lastArgs == nil {
			res = "none"
		} else {
			a := h.lastArgs
			res = "h" + strconv.Itoa(h.lastHid) + ":" + strconv.FormatInt(h.rel(a.Deadline), 10)
			if !a.Interest.Name().Equal(name) {
				res += ":wrong-interest"
			}
			h.rx[label] = rxRec{name: name, reply: a.Reply}
		}
	case "reply":
		x, ok := h.rx[f[1]]
		if !ok {
			res = "skip"
			break
		}
		w := dataWire(x.name, 0)
		err := x.reply(enc.Wire{w})
		tx := h.drainFace()
		switch {
		case err == nil && tx == 1:
			res = "sent"
		case err == ndn.ErrDeadlineExceed && tx == 0:
			res = "late"
		default:
			res = fmt.Sprintf("err-tx%d", tx)
		}
	case "tick", "end":
		res = "ok"
	}
	synctest.Wait()
	return "pre=" + pre + " res=" + res + " cb=" + fmtCb(h.take())
}

func execMain(t *testing.T) {
	log.SetHandler(log.HandlerFunc(func(*log.Entry) error { return nil }))
	in, err := os.Open(common.Env("VERIF_IN", "/dev/stdin"))
	if err != nil {
		t.Fatal(err)
	}
	defer in.Close()
	f, err := os.Create(common.Env("VERIF_OUT", "/dev/stdout"))
	if err != nil {
		t.Fatal(err)
	}
	defer f.Close()
	w := bufio.NewWriterSize(f, 1<<16)
	defer w.Flush()
	var hists [][]string
	sc := bufio.NewScanner(in)
	sc.Buffer(make([]byte, 1<<20), 1<<26)
	for sc.Scan() {
		line := sc.Text()
		if line == "" || strings.HasPrefix(line, "#") {
			continue
		}
		if i := strings.Index(line, " => "); i >= 0 {
			line = line[:i]
		}
		if strings.HasPrefix(line, "new") || len(hists) == 0 {
			hists = append(hists, nil)
		}
		hists[len(hists)-1] = append(hists[len(hists)-1], line)
	}
	for _, hl := range hists {
		synctest.Test(t, func(t *testing.T) {
			var h *hist
			for _, op := range hl {
				w.WriteString("#run " + op + "\n")
				w.Flush()
				var out string
				if strings.HasPrefix(op, "new") {
					h = newHist(op == "new dummy")
					out = "ok"
				} else if h == nil {
					out = "skip"
				} else {
					out = common.Guard(func() string { return h.execOp(op) })
				}
				w.WriteString(op + " => " + strings.ReplaceAll(out, "\n", "\\n") + "\n")
				w.Flush()
				if exitAfterLine {
					f.Close()
					os.Exit(0)
				}
			}
			// let every remaining timer fire so that no goroutine outlives the bubble
			time.Sleep(2 * time.Hour)
			synctest.Wait()
		})
	}
}

func TestVerif(t *testing.T) {
	if os.Getenv("VERIF_MODE") == "exec" {
		execMain(t)
		return
	}
	common.Main(t, gen, func(string) string { return "bad-op" })
}
