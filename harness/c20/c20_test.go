// Package c20: correspondence harness for property C20 (std/engine/basic Engine).
//
// The REAL basic.Engine with the REAL basic.Timer runs inside a testing/synctest bubble (virtual
// time, one bubble per history) on the dummy face of std/engine/dummy. Every op carries its absolute
// virtual instant "@t" (µs since the start of the history): the harness sleeps until then, the
// engine's time.AfterFunc timers fire on the way. The generator makes sure that no two timers and
// no timer and op share an instant (so Go's scheduling of simultaneous timer goroutines never
// influences an output) and this stays true for every subsequence of a history (ddmin).
package c20

import (
	"bufio"
	"crypto/sha256"
	"fmt"
	"os"
	"sort"
	"strconv"
	"strings"
	"sync"
	"testing"
	"testing/synctest"
	"time"

	enc "github.com/named-data/ndnd/std/encoding"
	basic "github.com/named-data/ndnd/std/engine/basic"
	"github.com/named-data/ndnd/std/engine/dummy"
	"github.com/named-data/ndnd/std/log"
	"github.com/named-data/ndnd/std/ndn"
	spec "github.com/named-data/ndnd/std/ndn/spec_2022"
	sec "github.com/named-data/ndnd/std/security"
	"github.com/named-data/ndnd/std/utils"
	"verif/harness/common"
)

// the engine's constants, taken from the tree under test (the Lean model gets the same values
// through harness/cmd/c20facts), so that the generator's "no two timers at one instant" guarantee
// and its boundary cases follow the code
var marginUs = int64(basic.TimeoutMargin / time.Microsecond)
var defaultLifeUs = int64(basic.DefaultInterestLife / time.Microsecond)

// ---------------------------------------------------------------- packets

func dataWire(name enc.Name, variant int) []byte {
	d, err := spec.Spec{}.MakeData(name, &ndn.DataConfig{ContentType: utils.IdPtr(ndn.ContentTypeBlob)},
		enc.Wire{[]byte{byte(variant), 'v'}}, sec.NewSha256Signer())
	if err != nil {
		panic("harness: MakeData: " + err.Error())
	}
	return d.Wire.Join()
}

func digestOf(wire []byte) []byte {
	h := sha256.Sum256(wire)
	return h[:]
}

func comp(s string) enc.Component {
	return enc.NewStringComponent(enc.TypeGenericNameComponent, s)
}

func digestComp(d []byte) enc.Component {
	return enc.Component{Typ: enc.TypeImplicitSha256DigestComponent, Val: d}
}

// ---------------------------------------------------------------- generator

type gPend struct {
	label string
	final enc.Name
	node  enc.Name
	fire  int64
}

type gRx struct {
	label    string
	deadline int64
}

func clone(n enc.Name) enc.Name { return append(enc.Name{}, n...) }

func gen(g *common.Gen) {
	// common.NewRand(seed) and common.NewRand(seed+1) are the same splitmix64 stream shifted by one
	// draw (the state is seed*gamma+c), and the thorough tier uses consecutive seeds: re-seed from a
	// DRAW of the stream so that batches do not repeat each other's histories.
	root := common.NewRand(g.R.U64() ^ 0x5851F42D4C957F2D)
	for i := 0; i < g.N; i++ {
		genHistory(g, root.Fork())
	}
}

func genHistory(g *common.Gen, r *common.Rand) {
	alpha := []enc.Component{comp("a"), comp("b")}
	if r.Chance(1, 4) {
		alpha = []enc.Component{comp("a"), comp("b"), comp("c")}
	}
	// "twin" components: different components that a sloppy trie key would merge — the same number
	// in two encoding widths (seg=%01 / seg=%00%01 print alike), a generic component whose VALUE is
	// the TLV encoding of a typed one (0x32 0x01 0x01 = seg=%01), one that spells its URI form, and
	// the same value under two types.
	twins := false
	if r.Chance(1, 5) {
		twins = true
		alpha = []enc.Component{
			{Typ: enc.TypeSegmentNameComponent, Val: []byte{1}},
			{Typ: enc.TypeSegmentNameComponent, Val: []byte{0, 1}},
			{Typ: enc.TypeGenericNameComponent, Val: []byte{0x32, 0x01, 0x01}},
			comp("seg=1"),
			comp("a"),
			{Typ: 9, Val: []byte("a")},
		}
	}
	// every fourth history runs on the engine's test clock (std/engine/dummy.Timer) instead of the
	// real timer: the clock moves only with the ops, so ops can stand EXACTLY on a timer instant
	dummyClock := r.Chance(1, 4)
	uni := func(minD, maxD int) enc.Name {
		d := r.Range(minD, maxD)
		n := enc.Name{}
		for k := 0; k < d; k++ {
			n = append(n, common.Pick(r, alpha))
		}
		return n
	}
	if dummyClock {
		g.Op("new dummy")
		g.Stat("history-dummy-clock")
	} else {
		g.Op("new")
		g.Stat("history-real-timer")
	}
	if twins {
		g.Stat("history-twin-names")
	}
	nops := r.Range(10, 40)
	var t int64
	fires := map[int64]bool{}
	var pend []gPend
	var attached []enc.Name
	var rxs []gRx
	var maxDeadline int64
	nExpr, nRx, nHid := 0, 0, 0

	step := func() {
		var dt int64
		switch x := r.Intn(100); {
		case x < 35:
			dt = int64(r.Range(0, 3000))
		case x < 80:
			dt = int64(r.Range(3000, 40000))
		case x < 95:
			dt = int64(r.Range(50000, 300000))
		default:
			dt = int64(r.Range(1000000, 5000000))
		}
		t += dt
		if dummyClock {
			// stand exactly on the instant of a pending timeout event / on a deadline (the test clock
			// runs an event only when its time is strictly past)
			if r.Chance(1, 3) {
				var c []int64
				for _, p := range pend {
					if p.fire >= t-dt {
						c = append(c, p.fire, p.fire-marginUs)
					}
				}
				if len(c) > 0 {
					if x := common.Pick(r, c); x >= t-dt {
						t = x
					}
				}
			}
			return
		}
		for fires[t] {
			t++
		}
	}
	relatedName := func() enc.Name {
		if len(pend) == 0 || r.Chance(1, 3) {
			return uni(1, 3)
		}
		p := common.Pick(r, pend).node
		switch r.Intn(4) {
		case 0:
			return clone(p)
		case 1:
			return append(clone(p), common.Pick(r, alpha))
		case 2:
			if len(p) > 1 {
				return clone(p[:len(p)-1])
			}
			return clone(p)
		default:
			return uni(1, 3)
		}
	}

	for k := 0; k < nops; k++ {
		step()
		// forget Interests that have timed out by now (keep a few, stale names are interesting too)
		live := pend[:0]
		for _, p := range pend {
			if p.fire > t || r.Chance(1, 8) {
				live = append(live, p)
			}
		}
		pend = live
		switch x := r.Intn(100); {
		case x < 36: // express
			var final, node enc.Name
			kind := "plain"
			switch y := r.Intn(100); {
			case y < 2:
				final, node, kind = enc.Name{}, enc.Name{}, "empty"
			case y < 16:
				node = relatedName()
				if r.Chance(1, 12) {
					node = enc.Name{}
				}
				dn := node
				if r.Chance(1, 4) {
					dn = uni(1, 2) // digest of some other Data
				}
				final = append(clone(node), digestComp(digestOf(dataWire(dn, r.Intn(2)))))
				kind = "digest"
			default:
				node = relatedName()
				final = node
			}
			cbp := r.Chance(2, 5)
			var life int64 = -1
			switch y := r.Intn(100); {
			case y < 50:
				life = int64(r.Range(2000, 80000))
			case y < 65:
				life = int64(r.Range(100000, 400000))
			case y < 73:
				life = -1
			default:
				// boundary: deadline at (or one µs around) the instant another pending timer fires,
				// or a deadline within the margin of another entry of the same node
				var cands []int64
				for _, p := range pend {
					if p.fire > t+1 {
						cands = append(cands, p.fire-t+int64(r.Range(-1, 1)))
						cands = append(cands, p.fire-marginUs-t+int64(r.Range(1, int(marginUs)-1)))
					}
				}
				life = int64(r.Range(2000, 80000))
				if len(cands) > 0 {
					if c := common.Pick(r, cands); c > 0 {
						life = c
					}
				}
			}
			lifeUs := life
			if life < 0 {
				lifeUs = defaultLifeUs
			}
			// unique timer instant, distinct from every op instant so far (later ops avoid it)
			for !dummyClock && fires[t+lifeUs+marginUs] {
				if life < 0 {
					t++
				} else {
					life++
					lifeUs++
				}
			}
			label := "i" + strconv.Itoa(nExpr)
			nExpr++
			lt := "-"
			if life >= 0 {
				lt = strconv.FormatInt(life, 10)
			}
			g.Op("express %s %s %d %s @%d", label, common.NameText(final), b2i(cbp), lt, t)
			g.Stat("op-express")
			g.Stat("express-" + kind)
			if kind != "empty" {
				fires[t+lifeUs+marginUs] = true
				pend = append(pend, gPend{label, final, node, t + lifeUs + marginUs})
				if t+lifeUs > maxDeadline {
					maxDeadline = t + lifeUs
				}
			}
		case x < 62: // data
			var name enc.Name
			kind := ""
			switch y := r.Intn(100); {
			case y < 45 && len(pend) > 0:
				name, kind = clone(common.Pick(r, pend).node), "pending-name"
			case y < 62 && len(pend) > 0:
				name, kind = append(clone(common.Pick(r, pend).node), common.Pick(r, alpha)), "longer"
			case y < 78 && len(pend) > 0:
				p := common.Pick(r, pend).node
				if len(p) > 0 {
					p = p[:r.Intn(len(p))]
				}
				name, kind = clone(p), "shorter"
			default:
				name, kind = uni(1, 3), "random"
			}
			if len(name) == 0 {
				name = uni(1, 1)
			}
			v := r.Intn(2)
			g.Op("data %s %s %d @%d", common.NameText(name), common.Hex(digestOf(dataWire(name, v))), v, t)
			g.Stat("op-data")
			g.Stat("data-" + kind)
		case x < 70: // nack
			var name enc.Name
			switch y := r.Intn(100); {
			case y < 60 && len(pend) > 0:
				name = clone(common.Pick(r, pend).final)
			case y < 80 && len(pend) > 0:
				name = clone(common.Pick(r, pend).node)
			default:
				name = uni(1, 3)
			}
			if len(name) == 0 {
				name = uni(1, 1)
			}
			g.Op("nack %s @%d", common.NameText(name), t)
			g.Stat("op-nack")
		case x < 78: // attach
			p := uni(0, 2)
			if r.Chance(1, 3) && len(attached) > 0 {
				q := common.Pick(r, attached)
				if r.Chance(1, 2) {
					p = append(clone(q), common.Pick(r, alpha))
				} else if len(q) > 0 {
					p = clone(q[:len(q)-1])
				}
			}
			g.Op("attach %d %s @%d", nHid, common.NameText(p), t)
			nHid++
			attached = append(attached, p)
			g.Stat("op-attach")
		case x < 82: // detach
			p := uni(0, 2)
			if len(attached) > 0 && r.Chance(4, 5) {
				p = common.Pick(r, attached)
			}
			g.Op("detach %s @%d", common.NameText(p), t)
			for i, a := range attached {
				if a.Equal(p) {
					attached = append(attached[:i:i], attached[i+1:]...)
					break
				}
			}
			g.Stat("op-detach")
		case x < 91: // incoming interest
			name := uni(1, 3)
			if len(attached) > 0 && r.Chance(1, 2) {
				name = append(clone(common.Pick(r, attached)), uni(0, 2)...)
				if len(name) == 0 {
					name = uni(1, 1)
				}
			}
			life := "-"
			lifeUs := defaultLifeUs
			if r.Chance(7, 10) {
				ms := r.Range(1, 50)
				life, lifeUs = strconv.Itoa(ms), int64(ms)*1000
			}
			tok := "-"
			if r.Chance(3, 10) {
				tok = common.Hex(r.Bytes(4))
			}
			label := "r" + strconv.Itoa(nRx)
			nRx++
			g.Op("interest %s %s %s %s @%d", label, common.NameText(name), life, tok, t)
			for _, a := range attached {
				if a.IsPrefix(name) {
					rxs = append(rxs, gRx{label, t + lifeUs})
					break
				}
			}
			g.Stat("op-interest")
		case x < 97: // reply
			if len(rxs) == 0 {
				g.Op("tick @%d", t)
				g.Stat("op-tick")
				break
			}
			x := common.Pick(r, rxs)
			if r.Chance(1, 3) && x.deadline >= t {
				// boundary: exactly at the deadline, or one µs after it
				t2 := x.deadline + int64(r.Intn(2))
				if dummyClock || !fires[t2] {
					t = t2
				}
			}
			g.Op("reply %s @%d", x.label, t)
			g.Stat("op-reply")
		default:
			g.Op("tick @%d", t)
			g.Stat("op-tick")
		}
	}
	end := t
	if maxDeadline > end {
		end = maxDeadline
	}
	end += 2000000
	for !dummyClock && fires[end] {
		end++
	}
	g.Op("end @%d", end)
	g.StatN("ops", nops)
}

func b2i(b bool) int {
	if b {
		return 1
	}
	return 0
}

// ---------------------------------------------------------------- executor

type event struct {
	label string
	kind  string // D N T
	name  string
	at    int64
}

type rxRec struct {
	name  enc.Name
	reply ndn.WireReplyFunc
}

type hist struct {
	start  time.Time
	dt     *dummy.Timer // nil: real basic.Timer under synctest
	face   *dummy.DummyFace
	eng    *basic.Engine
	mu     sync.Mutex
	events []event
	rx     map[string]rxRec
	// set by a handler during FeedPacket
	lastHid   int
	lastArgs  *ndn.InterestHandlerArgs
	handlerOf map[int]bool
}

func (h *hist) rel(t time.Time) int64 { return t.Sub(h.start).Microseconds() }

// now is the engine's clock, relative to the start of the history.
func (h *hist) now() int64 {
	if h.dt != nil {
		return h.rel(h.dt.Now())
	}
	return h.rel(time.Now())
}

func (h *hist) take() []event {
	h.mu.Lock()
	defer h.mu.Unlock()
	ev := h.events
	h.events = nil
	return ev
}

func (h *hist) drainFace() int {
	n := 0
	for {
		if _, err := h.face.Consume(); err != nil {
			return n
		}
		n++
	}
}

func newHist(dummyClock bool) *hist {
	h := &hist{start: time.Now(), rx: map[string]rxRec{}}
	h.face = dummy.NewDummyFace()
	passAll := func(enc.Name, enc.Wire, ndn.Signature) bool { return true }
	var timer ndn.Timer = basic.NewTimer()
	if dummyClock {
		h.dt = dummy.NewTimer()
		h.start = h.dt.Now()
		timer = h.dt
	}
	h.eng = basic.NewEngine(h.face, timer, sec.NewSha256IntSigner(timer), passAll)
	if err := h.eng.Start(); err != nil {
		panic("harness: engine start: " + err.Error())
	}
	return h
}

func fmtPre(ev []event) string {
	sort.SliceStable(ev, func(i, j int) bool {
		if ev[i].at != ev[j].at {
			return ev[i].at < ev[j].at
		}
		return labelNum(ev[i].label) < labelNum(ev[j].label)
	})
	var out []string
	for _, e := range ev {
		if e.kind != "T" {
			out = append(out, e.label+":"+e.kind+"@"+strconv.FormatInt(e.at, 10)) // not a timeout: shows up as a DIFF
		} else {
			out = append(out, e.label+"@"+strconv.FormatInt(e.at, 10))
		}
	}
	if len(out) == 0 {
		return "-"
	}
	return strings.Join(out, ",")
}

func fmtCb(ev []event) string {
	sort.SliceStable(ev, func(i, j int) bool { return labelNum(ev[i].label) < labelNum(ev[j].label) })
	var out []string
	for _, e := range ev {
		s := e.label + ":" + e.kind
		if e.kind == "D" {
			s += ":" + e.name
		}
		out = append(out, s)
	}
	if len(out) == 0 {
		return "-"
	}
	return strings.Join(out, ",")
}

func labelNum(l string) int {
	n, _ := strconv.Atoi(l[1:])
	return n
}

// execOp runs one op of a history inside the bubble.
func (h *hist) execOp(op string) string {
	f := common.Fields(op)
	last := f[len(f)-1]
	if !strings.HasPrefix(last, "@") {
		return "bad-op"
	}
	t := int64(common.Atoi(last[1:]))
	f = f[:len(f)-1]
	// 1. let the clock run to t
	if now := h.now(); t > now {
		if h.dt != nil {
			h.dt.MoveForward(time.Duration(t-now) * time.Microsecond)
		} else {
			time.Sleep(time.Duration(t-now) * time.Microsecond)
		}
	}
	synctest.Wait()
	pre := fmtPre(h.take())
	h.drainFace()
	res := "bad-op"
	switch f[0] {
	case "express":
		label, name, cbp := f[1], common.ParseNameText(f[2]), f[3] == "1"
		cfg := &ndn.InterestConfig{CanBePrefix: cbp}
		if f[4] != "-" {
			cfg.Lifetime = utils.IdPtr(time.Duration(common.Atoi(f[4])) * time.Microsecond)
		}
		var it *ndn.EncodedInterest
		if len(name) == 0 {
			// MakeInterest refuses an empty name; Express has its own check
			it = &ndn.EncodedInterest{Wire: enc.Wire{[]byte{0x05, 0x02, 0x07, 0x00}}, FinalName: name, Config: cfg}
		} else {
			var err error
			it, err = spec.Spec{}.MakeInterest(name, cfg, nil, nil)
			if err != nil {
				return "pre=" + pre + " res=make-err cb=-"
			}
		}
		err := h.eng.Express(it, func(a ndn.ExpressCallbackArgs) {
			e := event{label: label, at: h.now()}
			switch a.Result {
			case ndn.InterestResultData:
				e.kind = "D"
				e.name = common.NameText(a.Data.Name())
			case ndn.InterestResultNack:
				e.kind = "N"
			case ndn.InterestResultTimeout:
				e.kind = "T"
			default:
				e.kind = "X" + strconv.Itoa(int(a.Result))
			}
			h.mu.Lock()
			h.events = append(h.events, e)
			h.mu.Unlock()
		})
		tx := h.drainFace()
		switch {
		case err == nil && tx == 1:
			res = "ok"
		case err == nil:
			res = "ok-tx" + strconv.Itoa(tx)
		default:
			res = "err"
		}
	case "data":
		name, v := common.ParseNameText(f[1]), common.Atoi(f[3])
		w := dataWire(name, v)
		if common.Hex(digestOf(w)) != f[2] {
			return "pre=" + pre + " res=bad-digest cb=-"
		}
		if err := h.face.FeedPacket(w); err != nil {
			res = "feed-err"
		} else {
			res = "ok"
		}
	case "nack":
		name := common.ParseNameText(f[1])
		it, err := spec.Spec{}.MakeInterest(name, &ndn.InterestConfig{Nonce: utils.IdPtr(uint64(7))}, nil, nil)
		if err != nil {
			return "pre=" + pre + " res=make-err cb=-"
		}
		pkt := &spec.Packet{LpPacket: &spec.LpPacket{Nack: &spec.NetworkNack{Reason: spec.NackReasonNoRoute}, Fragment: it.Wire}}
		e := spec.PacketEncoder{}
		e.Init(pkt)
		if err := h.face.FeedPacket(e.Encode(pkt).Join()); err != nil {
			res = "feed-err"
		} else {
			res = "ok"
		}
	case "attach":
		hid, p := common.Atoi(f[1]), common.ParseNameText(f[2])
		err := h.eng.AttachHandler(p, func(a ndn.InterestHandlerArgs) {
			h.lastHid = hid
			h.lastArgs = &a
		})
		if err == nil {
			res = "ok"
		} else {
			res = "dup"
		}
	case "detach":
		if err := h.eng.DetachHandler(common.ParseNameText(f[1])); err == nil {
			res = "ok"
		} else {
			res = "err"
		}
	case "interest":
		label, name := f[1], common.ParseNameText(f[2])
		cfg := &ndn.InterestConfig{Nonce: utils.IdPtr(uint64(9))}
		if f[3] != "-" {
			cfg.Lifetime = utils.IdPtr(time.Duration(common.Atoi(f[3])) * time.Millisecond)
		}
		it, err := spec.Spec{}.MakeInterest(name, cfg, nil, nil)
		if err != nil {
			return "pre=" + pre + " res=make-err cb=-"
		}
		w := it.Wire.Join()
		if f[4] != "-" {
			pkt := &spec.Packet{LpPacket: &spec.LpPacket{PitToken: common.UnHex(f[4]), Fragment: it.Wire}}
			e := spec.PacketEncoder{}
			e.Init(pkt)
			w = e.Encode(pkt).Join()
		}
		h.lastArgs = nil
		if err := h.face.FeedPacket(w); err != nil {
			res = "feed-err"
		} else if h.lastArgs == nil {
			res = "none"
		} else {
			a := h.lastArgs
			res = "h" + strconv.Itoa(h.lastHid) + ":" + strconv.FormatInt(h.rel(a.Deadline), 10)
			if !a.Interest.Name().Equal(name) {
				res += ":wrong-interest"
			}
			h.rx[label] = rxRec{name: name, reply: a.Reply}
		}
	case "reply":
		x, ok := h.rx[f[1]]
		if !ok {
			res = "skip"
			break
		}
		w := dataWire(x.name, 0)
		err := x.reply(enc.Wire{w})
		tx := h.drainFace()
		switch {
		case err == nil && tx == 1:
			res = "sent"
		case err == ndn.ErrDeadlineExceed && tx == 0:
			res = "late"
		default:
			res = fmt.Sprintf("err-tx%d", tx)
		}
	case "tick", "end":
		res = "ok"
	}
	synctest.Wait()
	return "pre=" + pre + " res=" + res + " cb=" + fmtCb(h.take())
}

func execMain(t *testing.T) {
	log.SetHandler(log.HandlerFunc(func(*log.Entry) error { return nil }))
	in, err := os.Open(common.Env("VERIF_IN", "/dev/stdin"))
	if err != nil {
		t.Fatal(err)
	}
	defer in.Close()
	f, err := os.Create(common.Env("VERIF_OUT", "/dev/stdout"))
	if err != nil {
		t.Fatal(err)
	}
	defer f.Close()
	w := bufio.NewWriterSize(f, 1<<16)
	defer w.Flush()
	var hists [][]string
	sc := bufio.NewScanner(in)
	sc.Buffer(make([]byte, 1<<20), 1<<26)
	for sc.Scan() {
		line := sc.Text()
		if line == "" || strings.HasPrefix(line, "#") {
			continue
		}
		if i := strings.Index(line, " => "); i >= 0 {
			line = line[:i]
		}
		if strings.HasPrefix(line, "new") || len(hists) == 0 {
			hists = append(hists, nil)
		}
		hists[len(hists)-1] = append(hists[len(hists)-1], line)
	}
	for _, hl := range hists {
		synctest.Test(t, func(t *testing.T) {
			var h *hist
			for _, op := range hl {
				w.WriteString("#run " + op + "\n")
				w.Flush()
				var out string
				if strings.HasPrefix(op, "new") {
					h = newHist(op == "new dummy")
					out = "ok"
				} else if h == nil {
					out = "skip"
				} else {
					out = common.Guard(func() string { return h.execOp(op) })
				}
				w.WriteString(op + " => " + strings.ReplaceAll(out, "\n", "\\n") + "\n")
				w.Flush()
			}
			// let every remaining timer fire so that no goroutine outlives the bubble
			time.Sleep(2 * time.Hour)
			synctest.Wait()
		})
	}
}

func TestVerif(t *testing.T) {
	if os.Getenv("VERIF_MODE") == "exec" {
		execMain(t)
		return
	}
	common.Main(t, gen, func(string) string { return "bad-op" })
}
