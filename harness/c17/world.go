// Package c17: correspondence harness for property C17 (management commands).
//
// world.go stands up, per history, the REAL forwarder pieces involved in management:
//   - one real fw.Thread (incoming-Interest pipeline incl. the /localhost scope check, PIT, strategy),
//   - the real mgmt.Thread behind the real internal transport + NDNLPv2 link service,
//   - the real global tables (table.Rib, table.FibStrategyTable, face.FaceTable, CS capacity),
//   - client faces: the real NDNLPv2 link service over the in-memory hook transport
//     (fw/face/verif_hooks_c17.go) with selectable scope.
//
// No sockets, no virtual time: every operation is made deterministic by barriers (a marker Interest
// that follows the operation through the same FIFO queues, and a sentinel packet through the send
// queue of the face whose output is read).
package c17

import (
	"encoding/binary"
	"fmt"
	"net"
	"os"
	"sort"
	"strings"
	"sync"
	"time"

	"github.com/named-data/ndnd/fw/core"
	"github.com/named-data/ndnd/fw/defn"
	"github.com/named-data/ndnd/fw/dispatch"
	"github.com/named-data/ndnd/fw/face"
	"github.com/named-data/ndnd/fw/fw"
	"github.com/named-data/ndnd/fw/mgmt"
	"github.com/named-data/ndnd/fw/table"
	enc "github.com/named-data/ndnd/std/encoding"
	"github.com/named-data/ndnd/std/ndn"
	mg "github.com/named-data/ndnd/std/ndn/mgmt_2022"
	spec "github.com/named-data/ndnd/std/ndn/spec_2022"
	"verif/harness/common"
)

// logical face ids (real id = base + logical - 1)
const (
	fM  = 1 // management (internal transport, created by mgmt.Thread.Run)
	fA  = 2 // local app face, local fields (NextHopFaceId) enabled
	fB  = 3 // local app face
	fH0 = 4 // non-local face
	fH1 = 5 // non-local face with local fields enabled
	fZ  = 6 // local face used only for barriers (never a command target)
	fN  = 7 // the null face (NullLinkService, as yanfd creates at start-up)
)

type hookFace struct {
	ls *face.NDNLPLinkService
	tr *face.VerifC17Transport
}

type world struct {
	fwt    *fw.Thread
	mgDone chan struct{}
	mface  face.LinkService
	base   uint64
	hooks  map[int]*hookFace // logical id -> face
	extra  []face.LinkService // faces created through faces/create
	known  map[uint64]bool
	closed map[int]bool // logical ids closed by a `close` op
	null   *face.NullLinkService
	lis    []net.Listener // loopback TCP listeners for tcp4 faces: {T1}, {T2} in URIs
	conns  []net.Conn
	connMu sync.Mutex
	seq    uint64
	up     bool
}

var w world
var inited bool

func initOnce() {
	if inited {
		return
	}
	inited = true
	cfg := core.DefaultConfig()
	cfg.Core.LogLevel = "FATAL"
	cfg.Fw.Threads = 1
	cfg.Tables.Rib.ReadvertiseNlsr = false
	cfg.Tables.ContentStore.Admit = false
	cfg.Tables.ContentStore.Serve = false
	cfg.Faces.CongestionMarking = false
	cfg.Faces.Udp.PortUnicast = 46363 // local port of the unicast UDP faces made by faces/create
	core.LoadConfig(cfg, "")
	lf := os.DevNull
	if os.Getenv("VERIF_C17_LOG") != "" {
		cfg.Core.LogLevel = os.Getenv("VERIF_C17_LOG")
		lf = ""
	}
	core.InitializeLogger(lf)
	face.Configure()
	fw.Configure()
}

func mustURI(s string) *defn.URI {
	u := defn.DecodeURIString(s)
	if u == nil || u.Canonize() != nil {
		panic("harness: bad uri " + s)
	}
	return u
}

func (w *world) real(logical uint64) uint64 {
	if logical >= 1 && logical < 1000 {
		return w.base + logical - 1
	}
	return logical
}

func (w *world) logical(real uint64) uint64 {
	if real >= w.base && real < w.base+999 {
		return real - w.base + 1
	}
	return real
}

// URIs on op lines name the loopback TCP listeners as {T1}, {T2}; real ports differ per run.
func (w *world) portsIn(s string) string {
	for i, l := range w.lis {
		s = strings.ReplaceAll(s, fmt.Sprintf("{T%d}", i+1), fmt.Sprint(l.Addr().(*net.TCPAddr).Port))
	}
	return s
}

func (w *world) portsOut(s string) string {
	if !strings.HasPrefix(s, "tcp") {
		return s // only TCP URIs name a listener (an ephemeral port may coincide with a UDP port)
	}
	for i, l := range w.lis {
		s = strings.ReplaceAll(s, fmt.Sprintf(":%d", l.Addr().(*net.TCPAddr).Port), fmt.Sprintf(":{T%d}", i+1))
	}
	return s
}

// localURIText: the local URI of an outgoing TCP face is set by its connect goroutine (a fake one
// is reported until then): not compared.
func (w *world) localURIText(remote, local string) string {
	if strings.HasPrefix(remote, "tcp") {
		return "tcp-local"
	}
	return w.portsOut(local)
}

// closeFace closes a face locally. An outgoing TCP face connects on its own goroutine: closing it
// before that goroutine has marked it up is a different scenario (the face then stays up), so
// the close is issued once the face reports Up.
func (w *world) closeFace(l face.LinkService) {
	if strings.HasPrefix(l.RemoteURI().Scheme(), "tcp") {
		waitUntil("flush", func() bool { return l.State() == defn.Up })
	}
	l.Close()
}

// routesOf counts the RIB routes that point at a face. The RIB's mutex is held for the whole of
// CleanUpFace, so once this is 0 after the face left the face table, the clean-up is complete.
func routesOf(id uint64) int {
	n := 0
	for _, e := range table.Rib.GetAllEntries() {
		for _, r := range e.GetRoutes() {
			if r.FaceID == id {
				n++
			}
		}
	}
	return n
}

// trackCreated remembers faces that appeared in the face table (faces/create) for teardown.
func (w *world) trackCreated() {
	for _, f := range face.FaceTable.GetAll() {
		if !w.known[f.FaceID()] {
			w.known[f.FaceID()] = true
			w.extra = append(w.extra, f)
		}
	}
}

func waitUntil(what string, cond func() bool) bool {
	limit := 20 * time.Second
	if what == "flush" {
		limit = 5 * time.Second // one hop: the face's own send goroutine
	}
	deadline := time.Now().Add(limit)
	for i := 0; ; i++ {
		if cond() {
			return true
		}
		if time.Now().After(deadline) {
			return false
		}
		if i < 50 {
			time.Sleep(5 * time.Microsecond)
		} else {
			time.Sleep(100 * time.Microsecond)
		}
	}
}

// emptyRib removes every route through the RIB's own API.
func emptyRib() {
	for i := 0; i < 1000; i++ {
		es := table.Rib.GetAllEntries()
		if len(es) == 0 {
			break
		}
		for _, e := range es {
			for _, r := range append([]*table.Route{}, e.GetRoutes()...) {
				table.Rib.RemoveRouteEnc(e.Name, r.FaceID, r.Origin)
			}
		}
	}
}

func (w *world) teardown() {
	if !w.up {
		return
	}
	w.up = false
	// The RIB is emptied first, from this goroutine, while everything is quiescent: face removal
	// runs table.Rib.CleanUpFace on each face's own goroutine, and the RIB is not locked (C16).
	emptyRib()
	for _, h := range w.hooks {
		id := h.ls.FaceID()
		h.ls.Close()
		waitUntil("hook face gone", func() bool { return dispatch.GetFace(id) == nil && face.FaceTable.Get(id) == nil })
	}
	for _, l := range w.extra {
		if !w.closed[int(w.logical(l.FaceID()))] {
			w.closeFace(l)
		}
	}
	for _, l := range w.lis {
		l.Close()
	}
	w.connMu.Lock()
	for _, c := range w.conns {
		c.Close()
	}
	w.conns = nil
	w.connMu.Unlock()
	for _, l := range w.extra {
		id := l.FaceID()
		waitUntil("flush", func() bool { return face.FaceTable.Get(id) == nil })
	}
	if w.null != nil {
		id := w.null.FaceID()
		w.null.Close()
		waitUntil("null face gone", func() bool { return face.FaceTable.Get(id) == nil })
	}
	w.mface.Close()
	<-w.mgDone
	mid := w.mface.FaceID()
	waitUntil("mgmt face gone", func() bool { return face.FaceTable.Get(mid) == nil })
	core.ShouldQuit = true
	w.fwt.TellToQuit()
	<-w.fwt.HasQuit
	core.ShouldQuit = false
	// every goroutine of this history (faces, threads) has to be gone before the next one starts
	// Faces still finishing FaceTable.Remove on their own goroutines only have the RIB clean-up left,
	// which finds nothing (the RIB was emptied above) and is serialised by the RIB's mutex.
}

func (w *world) addHook(logical int, remote, local string, scope defn.Scope, localFields bool) {
	tr := face.MakeVerifC17Transport(mustURI(remote), mustURI(local), scope, defn.MaxNDNPacketSize)
	opt := face.MakeNDNLPLinkServiceOptions()
	if localFields {
		opt.IsConsumerControlledForwardingEnabled = true
		opt.IsIncomingFaceIndicationEnabled = true
		opt.IsLocalCachePolicyEnabled = true
	}
	ls := face.MakeVerifC17Face(tr, opt)
	ls.Run(nil)
	if w.logical(ls.FaceID()) != uint64(logical) {
		panic(fmt.Sprintf("harness: face numbering: expected logical %d got real %d base %d", logical, ls.FaceID(), w.base))
	}
	w.hooks[logical] = &hookFace{ls: ls, tr: tr}
}

func (w *world) setup(localhop bool, fibAlg string, readvertise bool) string {
	initOnce()
	w.teardown()
	table.VerifSetReadvertisers() // the previous history's readvertiser belongs to a dead thread
	cfg := core.GetConfig()
	cfg.Tables.Rib.ReadvertiseNlsr = readvertise
	cfg.Mgmt.AllowLocalhop = localhop
	cfg.Tables.Fib.Algorithm = fibAlg
	mgmt.Configure()
	table.Configure()
	table.CreateFIBTable(fibAlg)
	table.SetCsCapacity(1024)

	w.fwt = fw.NewThread(0)
	fw.Threads = []*fw.Thread{w.fwt}
	dispatch.InitializeFWThreads([]dispatch.FWThread{w.fwt})
	go w.fwt.Run()

	before := map[uint64]bool{}
	for _, f := range face.FaceTable.GetAll() {
		before[f.FaceID()] = true
	}
	m := mgmt.MakeMgmtThread()
	w.mgDone = make(chan struct{})
	go func() { m.Run(); close(w.mgDone) }()
	lh, _ := enc.NameFromStr("/localhost/nfd")
	if !waitUntil("mgmt up", func() bool { return len(table.FibStrategyTable.FindNextHopsEnc(lh)) == 1 }) {
		panic("harness: management thread did not come up")
	}
	w.base = table.FibStrategyTable.FindNextHopsEnc(lh)[0].Nexthop
	w.mface = face.FaceTable.Get(w.base)
	if w.mface == nil || before[w.base] {
		panic("harness: management face not found")
	}
	if localhop {
		lp, _ := enc.NameFromStr("/localhop/nfd")
		waitUntil("localhop fib", func() bool { return len(table.FibStrategyTable.FindNextHopsEnc(lp)) == 1 })
	} else {
		// Run() has nothing more to insert; one barrier below makes sure it reached its receive loop
	}
	w.hooks = map[int]*hookFace{}
	w.extra = nil
	w.addHook(fA, "udp4://127.0.0.1:7001", "udp4://127.0.0.1:6363", defn.Local, true)
	w.addHook(fB, "udp4://127.0.0.1:7002", "udp4://127.0.0.1:6363", defn.Local, false)
	w.addHook(fH0, "udp4://192.0.2.10:6363", "udp4://192.0.2.2:6363", defn.NonLocal, false)
	w.addHook(fH1, "udp4://192.0.2.11:6363", "udp4://192.0.2.2:6363", defn.NonLocal, true)
	w.addHook(fZ, "udp4://127.0.0.1:7009", "udp4://127.0.0.1:6363", defn.Local, false)
	w.null = face.MakeNullLinkService(face.MakeNullTransport())
	w.null.Run(nil)
	if w.logical(w.null.FaceID()) != fN {
		panic("harness: null face numbering")
	}
	w.lis = nil
	for i := 0; i < 2; i++ {
		l, err := net.Listen("tcp4", "127.0.0.1:0")
		if err != nil {
			panic("harness: loopback listen: " + err.Error())
		}
		w.lis = append(w.lis, l)
		go func(l net.Listener) {
			for {
				c, err := l.Accept()
				if err != nil {
					return
				}
				w.connMu.Lock()
				w.conns = append(w.conns, c)
				w.connMu.Unlock()
			}
		}(l)
	}
	w.closed = map[int]bool{}
	w.known = map[uint64]bool{}
	for _, f := range face.FaceTable.GetAll() {
		w.known[f.FaceID()] = true
	}
	w.up = true
	if !w.barrier() {
		return "HANG"
	}
	for _, h := range w.hooks {
		h.tr.TakeFrames()
	}
	return "ok"
}

// ---------------------------------------------------------------- packets

func (w *world) nextSeq() uint64 { w.seq++; return w.seq }

func makeInterestApp(name enc.Name, nonce uint64, app []byte) []byte {
	lt := 8 * time.Second
	n := nonce
	i, err := spec.Spec{}.MakeInterest(name, &ndn.InterestConfig{CanBePrefix: true, MustBeFresh: true, Nonce: &n, Lifetime: &lt}, enc.Wire{app}, nil)
	if err != nil {
		panic("harness: MakeInterest: " + err.Error())
	}
	return i.Wire.Join()
}

func makeInterest(name enc.Name, nonce uint64) []byte {
	// long enough that an answer always finds its PIT entry, however loaded the machine is
	lt := 8 * time.Second
	n := nonce
	i, err := spec.Spec{}.MakeInterest(name, &ndn.InterestConfig{CanBePrefix: true, MustBeFresh: true, Nonce: &n, Lifetime: &lt}, nil, nil)
	if err != nil {
		panic("harness: MakeInterest: " + err.Error())
	}
	return i.Wire.Join()
}

func lpFrame(inner []byte, nextHop *uint64) []byte {
	if nextHop == nil {
		return inner
	}
	p := &spec.Packet{LpPacket: &spec.LpPacket{Fragment: enc.Wire{inner}, NextHopFaceId: nextHop}}
	e := spec.PacketEncoder{}
	e.Init(p)
	return e.Encode(p).Join()
}

// dataFromFrames extracts the Data packets carried by the frames recorded on a hook transport
// (fragments of one packet are concatenated in emission order).
func dataFromFrames(frames [][]byte) (datas []*spec.Data, interests []*spec.Interest) {
	var pending []byte
	flush := func(b []byte) bool {
		p, _, err := spec.ReadPacket(enc.NewBufferReader(b))
		if err != nil {
			return false
		}
		if p.Data != nil {
			datas = append(datas, p.Data)
		} else if p.Interest != nil {
			interests = append(interests, p.Interest)
		}
		return true
	}
	for _, f := range frames {
		p, _, err := spec.ReadPacket(enc.NewBufferReader(f))
		if err != nil {
			continue
		}
		if p.LpPacket == nil {
			flush(f)
			continue
		}
		frag := p.LpPacket.Fragment.Join()
		if len(pending) == 0 && flush(frag) {
			continue
		}
		pending = append(pending, frag...)
		if flush(pending) {
			pending = nil
		}
	}
	return
}

var barrierPrefix, _ = enc.NameFromStr("/localhost/nfd/verif-barrier/x")

// barrier: a marker Interest injected on face Z after the operation; when its 501 answer has been
// emitted on Z, the management thread has finished everything queued before it.
func (w *world) barrier() bool {
	z := w.hooks[fZ]
	s := w.nextSeq()
	name := append(append(enc.Name{}, barrierPrefix...), enc.NewNumberComponent(enc.TypeSequenceNumNameComponent, s))
	z.tr.Inject(makeInterest(name, s|1<<40))
	var got [][]byte
	ok := waitUntil("barrier", func() bool {
		got = append(got, z.tr.TakeFrames()...)
		ds, _ := dataFromFrames(got)
		for _, d := range ds {
			if d.NameV.Equal(name) {
				return true
			}
		}
		return false
	})
	return ok
}

var sentinelName, _ = enc.NameFromStr("/verif-sentinel")

// flush pushes a sentinel Interest (fixed size) through the send queue of the face and returns
// every frame the face emitted up to and including the sentinel's own frames.
func (w *world) flush(h *hookFace) ([][]byte, bool) {
	s := w.nextSeq()
	sq := make([]byte, 8)
	binary.BigEndian.PutUint64(sq, s)
	name := append(append(enc.Name{}, sentinelName...), enc.NewBytesComponent(enc.TypeGenericNameComponent, sq))
	wire := makeInterest(name, 1<<41) // constant nonce width
	pkt, _, _ := spec.ReadPacket(enc.NewBufferReader(wire))
	in := w.base
	h.ls.SendPacket(dispatch.OutPkt{Pkt: &defn.Pkt{Name: name, L3: pkt, Raw: wire}, InFace: &in})
	var got [][]byte
	ok := waitUntil("flush", func() bool {
		nf := h.tr.TakeFrames()
		if len(nf) == 0 {
			return false
		}
		got = append(got, nf...)
		_, is := dataFromFrames(got)
		for _, i := range is {
			if i.NameV.Equal(name) {
				return true
			}
		}
		return false
	})
	return got, ok
}

// ---------------------------------------------------------------- dumps (canonical text)

func joinOrDash(xs []string, sep string) string {
	if len(xs) == 0 {
		return "-"
	}
	return strings.Join(xs, sep)
}

func (w *world) dumpRib() string {
	var es []string
	for _, e := range table.Rib.GetAllEntries() {
		type rt struct{ f, o, c, fl uint64; e string }
		var rs []rt
		for _, r := range e.GetRoutes() {
			x := rt{w.logical(r.FaceID), r.Origin, r.Cost, r.Flags, "-"}
			if r.ExpirationPeriod != nil {
				x.e = fmt.Sprint(uint64(*r.ExpirationPeriod / time.Millisecond))
			}
			rs = append(rs, x)
		}
		sort.Slice(rs, func(i, j int) bool {
			if rs[i].f != rs[j].f {
				return rs[i].f < rs[j].f
			}
			return rs[i].o < rs[j].o
		})
		var ss []string
		for _, r := range rs {
			ss = append(ss, fmt.Sprintf("%d:%d:%d:%d:%s", r.f, r.o, r.c, r.fl, r.e))
		}
		es = append(es, common.NameText(e.Name)+"{"+strings.Join(ss, ",")+"}")
	}
	sort.Strings(es)
	return joinOrDash(es, "|")
}

func (w *world) hopsText(hs [][2]uint64) string {
	sort.Slice(hs, func(i, j int) bool { return hs[i][0] < hs[j][0] })
	var ss []string
	for _, h := range hs {
		ss = append(ss, fmt.Sprintf("%d:%d", h[0], h[1]))
	}
	return strings.Join(ss, ",")
}

func (w *world) dumpFib() string {
	var es []string
	for _, e := range table.FibStrategyTable.GetAllFIBEntries() {
		var hs [][2]uint64
		for _, h := range e.GetNextHops() {
			hs = append(hs, [2]uint64{w.logical(h.Nexthop), h.Cost})
		}
		es = append(es, common.NameText(e.Name())+"{"+w.hopsText(hs)+"}")
	}
	sort.Strings(es)
	return joinOrDash(es, "|")
}

func (w *world) dumpSc() string {
	var es []string
	for _, e := range table.FibStrategyTable.GetAllForwardingStrategies() {
		es = append(es, common.NameText(e.Name())+">"+common.NameText(e.GetStrategy()))
	}
	sort.Strings(es)
	return joinOrDash(es, "|")
}

func faceText(id uint64, uri string, luri string, scope uint64, pers uint64, mtu uint64, flags uint64, bcmi *uint64, dct *uint64) string {
	b, d := "-", "-"
	if bcmi != nil {
		b = fmt.Sprint(*bcmi)
	}
	if dct != nil {
		d = fmt.Sprint(*dct)
	}
	return fmt.Sprintf("%d,%s,%s,%d,%d,%d,%d,%s,%s", id, uri, luri, scope, pers, mtu, flags, b, d)
}

func (w *world) dumpFaces() string {
	type fe struct {
		id uint64
		s  string
	}
	var fs []fe
	for _, f := range face.FaceTable.GetAll() {
		id := w.logical(f.FaceID())
		var flags uint64
		var bcmi, dct *uint64
		if l, ok := f.(*face.NDNLPLinkService); ok {
			o := l.Options()
			flags = o.Flags()
			b := uint64(o.BaseCongestionMarkingInterval.Nanoseconds())
			bcmi, dct = &b, &o.DefaultCongestionThresholdBytes
		}
		ru := f.RemoteURI().String()
		fs = append(fs, fe{id, faceText(id, w.portsOut(ru), w.localURIText(ru, f.LocalURI().String()), uint64(f.Scope()), uint64(f.Persistency()), uint64(f.MTU()), flags, bcmi, dct)})
	}
	sort.Slice(fs, func(i, j int) bool { return fs[i].id < fs[j].id })
	var ss []string
	for _, f := range fs {
		ss = append(ss, f.s)
	}
	return joinOrDash(ss, "|")
}

func (w *world) dump() string {
	return "rib=" + w.dumpRib() + " fib=" + w.dumpFib() + " sc=" + w.dumpSc() + " cs=" + fmt.Sprint(table.CsCapacity()) + " faces=" + w.dumpFaces()
}

// ---------------------------------------------------------------- response canonicalisation

func u64p(k string, p *uint64, out *[]string) {
	if p != nil {
		*out = append(*out, k+"="+fmt.Sprint(*p))
	}
}

func strp(k string, p *string, out *[]string) {
	if p != nil {
		*out = append(*out, k+"="+common.Hex([]byte(*p)))
	}
}

func (w *world) argsText(a *mg.ControlArgs) string {
	if a == nil {
		return "nil"
	}
	var o []string
	if a.Name != nil {
		o = append(o, "N="+common.NameText(a.Name))
	}
	if a.FaceId != nil {
		v := w.logical(*a.FaceId)
		u64p("F", &v, &o)
	}
	if a.Uri != nil {
		u := w.portsOut(*a.Uri)
		strp("U", &u, &o)
	}
	if a.LocalUri != nil {
		ru := ""
		if a.Uri != nil {
			ru = *a.Uri
		}
		l := w.localURIText(ru, *a.LocalUri)
		strp("L", &l, &o)
	}
	u64p("O", a.Origin, &o)
	u64p("C", a.Cost, &o)
	u64p("K", a.Capacity, &o)
	u64p("T", a.Count, &o)
	u64p("G", a.Flags, &o)
	u64p("M", a.Mask, &o)
	if a.Strategy != nil {
		o = append(o, "S="+common.NameText(a.Strategy.Name))
	}
	u64p("E", a.ExpirationPeriod, &o)
	u64p("P", a.FacePersistency, &o)
	u64p("B", a.BaseCongestionMarkInterval, &o)
	u64p("H", a.DefaultCongestionThreshold, &o)
	u64p("X", a.Mtu, &o)
	return joinOrDash(o, ",")
}

func optU(p *uint64) string {
	if p == nil {
		return "-"
	}
	return fmt.Sprint(*p)
}

// datasetText decodes a status dataset by the module/verb of its name.
func (w *world) datasetText(kind string, content []byte) string {
	r := enc.NewBufferReader(content)
	switch kind {
	case "rib/list":
		m, err := mg.ParseRibStatus(r, true)
		if err != nil {
			return "undecodable"
		}
		var es []string
		for _, e := range m.Entries {
			type rt struct{ f, o, c, fl uint64; e string }
			var rs []rt
			for _, x := range e.Routes {
				rs = append(rs, rt{w.logical(x.FaceId), x.Origin, x.Cost, x.Flags, optU(x.ExpirationPeriod)})
			}
			sort.Slice(rs, func(i, j int) bool {
				if rs[i].f != rs[j].f {
					return rs[i].f < rs[j].f
				}
				return rs[i].o < rs[j].o
			})
			var ss []string
			for _, x := range rs {
				ss = append(ss, fmt.Sprintf("%d:%d:%d:%d:%s", x.f, x.o, x.c, x.fl, x.e))
			}
			es = append(es, common.NameText(e.Name)+"{"+strings.Join(ss, ",")+"}")
		}
		sort.Strings(es)
		return joinOrDash(es, "|")
	case "fib/list":
		m, err := mg.ParseFibStatus(r, true)
		if err != nil {
			return "undecodable"
		}
		var es []string
		for _, e := range m.Entries {
			var hs [][2]uint64
			for _, h := range e.NextHopRecords {
				hs = append(hs, [2]uint64{w.logical(h.FaceId), h.Cost})
			}
			es = append(es, common.NameText(e.Name)+"{"+w.hopsText(hs)+"}")
		}
		sort.Strings(es)
		return joinOrDash(es, "|")
	case "strategy-choice/list":
		m, err := mg.ParseStrategyChoiceMsg(r, true)
		if err != nil {
			return "undecodable"
		}
		var es []string
		for _, e := range m.StrategyChoices {
			s := "nil"
			if e.Strategy != nil {
				s = common.NameText(e.Strategy.Name)
			}
			es = append(es, common.NameText(e.Name)+">"+s)
		}
		sort.Strings(es)
		return joinOrDash(es, "|")
	case "cs/info":
		m, err := mg.ParseCsInfoMsg(r, true)
		if err != nil || m.CsInfo == nil {
			return "undecodable"
		}
		return fmt.Sprintf("cap=%d,flags=%d,n=%d", m.CsInfo.Capacity, m.CsInfo.Flags, m.CsInfo.NCsEntries)
	case "status/general":
		m, err := mg.ParseGeneralStatus(r, true)
		if err != nil {
			return "undecodable"
		}
		return fmt.Sprintf("nfib=%d", m.NFibEntries)
	case "faces/list", "faces/query":
		m, err := mg.ParseFaceStatusMsg(r, true)
		if err != nil {
			return "undecodable"
		}
		type fe struct {
			id uint64
			s  string
		}
		var fs []fe
		for _, f := range m.Vals {
			mtu := uint64(0)
			if f.Mtu != nil {
				mtu = *f.Mtu
			}
			id := w.logical(f.FaceId)
			fs = append(fs, fe{id, faceText(id, w.portsOut(f.Uri), w.localURIText(f.Uri, f.LocalUri), f.FaceScope, f.FacePersistency, mtu, f.Flags, f.BaseCongestionMarkInterval, f.DefaultCongestionThreshold)})
		}
		if kind == "faces/query" {
			// the code leaves query results in map order
			sort.SliceStable(fs, func(i, j int) bool { return fs[i].id < fs[j].id })
		}
		var ss []string
		for _, f := range fs {
			ss = append(ss, f.s)
		}
		return joinOrDash(ss, "|")
	}
	return "unknown-dataset"
}

// respText renders what the requester received for its Interest `name`.
func (w *world) respText(name enc.Name, datas []*spec.Data) string {
	var outs []string
	for _, d := range datas {
		content := d.Content().Join()
		if d.NameV.Equal(name) {
			r, err := mg.ParseControlResponse(enc.NewBufferReader(content), true)
			if err != nil || r.Val == nil {
				outs = append(outs, "badresp")
				continue
			}
			outs = append(outs, fmt.Sprintf("%d:%s", r.Val.StatusCode, w.argsText(r.Val.Params)))
			continue
		}
		// dataset: <request name> + version + segment, or <localhost prefix>/<module>/<verb> + version + segment
		n := d.NameV
		if len(n) >= 6 && n[len(n)-1].Typ == enc.TypeSegmentNameComponent && n[len(n)-2].Typ == enc.TypeVersionNameComponent {
			ver, _, _ := enc.ParseNat(n[len(n)-2].Val)
			seg, _, _ := enc.ParseNat(n[len(n)-1].Val)
			kind := n[2].String() + "/" + n[3].String()
			pfx := "other"
			if n[0].String() == "localhost" && n[1].String() == "nfd" {
				pfx = "lh"
			} else if n[0].String() == "localhop" && n[1].String() == "nfd" {
				pfx = "lp"
			}
			fin := "nofinal"
			if fb := d.FinalBlockID(); fb != nil && fb.Equal(n[len(n)-1]) {
				fin = "final"
			}
			outs = append(outs, fmt.Sprintf("ds:%s:%s:%d:v%d:s%d:%s:%s", pfx, kind, len(n), uint64(ver), uint64(seg), fin, w.datasetText(kind, content)))
			continue
		}
		outs = append(outs, "otherdata:"+common.NameText(n))
	}
	// an earlier, still pending CanBePrefix Interest of the same face makes the forwarder deliver
	// the same Data once per PIT entry: identical copies are one answer
	var uniq []string
	for _, o := range outs {
		if len(uniq) == 0 || uniq[len(uniq)-1] != o {
			uniq = append(uniq, o)
		}
	}
	if len(uniq) == 0 {
		return "none"
	}
	return strings.Join(uniq, "+")
}

func pitToken(x uint32) []byte {
	b := make([]byte, 6)
	binary.BigEndian.PutUint32(b[2:], x)
	return b
}
