package c17

import (
	"fmt"
	"strconv"
	"strings"
	"testing"
	"time"

	"github.com/named-data/ndnd/fw/defn"
	"github.com/named-data/ndnd/fw/dispatch"
	"github.com/named-data/ndnd/fw/face"
	enc "github.com/named-data/ndnd/std/encoding"
	"github.com/named-data/ndnd/std/ndn"
	spec "github.com/named-data/ndnd/std/ndn/spec_2022"
	sec "github.com/named-data/ndnd/std/security"
	"verif/harness/common"
)

// ---------------------------------------------------------------- ControlParameters composer
//
// params token:  "-"                 no parameters component in the name
//                "raw:<hex>"         component value = these bytes (malformed / no ControlParameters)
//                "<f>;<f>;..."       ControlParameters(0x68){ fields in this order }, "e" = no field
// field:         N=<name> S=<name> U=<hexstr> L=<hexstr>
//                F O C K T G M E P B H X = <decimal>[/<width bytes>]      (naturals)
//                u<type>=<hex>                                            (unknown element)
// FaceId values 1..999 are logical face numbers (translated to the real face id of this run).

var natType = map[byte]uint64{'F': 0x69, 'O': 0x6f, 'C': 0x6a, 'K': 0x83, 'T': 0x84, 'G': 0x6c, 'M': 0x70,
	'E': 0x6d, 'P': 0x85, 'B': 0x87, 'H': 0x88, 'X': 0x89}

func tlv(t uint64, v []byte) []byte {
	out := tlnum(t)
	out = append(out, tlnum(uint64(len(v)))...)
	return append(out, v...)
}

func tlnum(x uint64) []byte {
	switch {
	case x <= 0xfc:
		return []byte{byte(x)}
	case x <= 0xffff:
		return []byte{0xfd, byte(x >> 8), byte(x)}
	case x <= 0xffffffff:
		return []byte{0xfe, byte(x >> 24), byte(x >> 16), byte(x >> 8), byte(x)}
	}
	return []byte{0xff, byte(x >> 56), byte(x >> 48), byte(x >> 40), byte(x >> 32), byte(x >> 24), byte(x >> 16), byte(x >> 8), byte(x)}
}

func natBytes(v uint64, width int) []byte {
	if width == 0 {
		switch {
		case v <= 0xff:
			width = 1
		case v <= 0xffff:
			width = 2
		case v <= 0xffffffff:
			width = 4
		default:
			width = 8
		}
	}
	b := make([]byte, width)
	for i := width - 1; i >= 0; i-- {
		b[i] = byte(v)
		v >>= 8
	}
	return b
}

func nameInner(n enc.Name) []byte {
	var b []byte
	for _, c := range n {
		b = append(b, tlv(uint64(c.Typ), c.Val)...)
	}
	return b
}

// composeFilter: "q:<f>;..." → FaceQueryFilter(0x96){...}; F faceid, S uri scheme, U uri, L local uri,
// C scope, P persistency, T link type; "q:e" = empty filter
func (w *world) composeFilter(tok string) []byte {
	var inner []byte
	if tok != "e" {
		for _, f := range strings.Split(tok, ";") {
			k, v, _ := strings.Cut(f, "=")
			switch k {
			case "F":
				inner = append(inner, tlv(0x69, natBytes(w.real(common.Atou(v)), 0))...)
			case "S":
				inner = append(inner, tlv(0x83, common.UnHex(v))...)
			case "U":
				inner = append(inner, tlv(0x72, []byte(w.portsIn(string(common.UnHex(v)))))...)
			case "L":
				inner = append(inner, tlv(0x81, []byte(w.portsIn(string(common.UnHex(v)))))...)
			case "C":
				inner = append(inner, tlv(0x84, natBytes(common.Atou(v), 0))...)
			case "P":
				inner = append(inner, tlv(0x85, natBytes(common.Atou(v), 0))...)
			case "T":
				inner = append(inner, tlv(0x86, natBytes(common.Atou(v), 0))...)
			default:
				panic("harness: bad filter field " + f)
			}
		}
	}
	return tlv(0x96, inner)
}

func (w *world) composeParams(tok string) []byte {
	if strings.HasPrefix(tok, "raw:") {
		return common.UnHex(tok[4:])
	}
	if strings.HasPrefix(tok, "q:") {
		return w.composeFilter(tok[2:])
	}
	var inner []byte
	if tok != "e" {
		for _, f := range strings.Split(tok, ";") {
			k, v, _ := strings.Cut(f, "=")
			switch {
			case k == "N":
				inner = append(inner, tlv(7, nameInner(common.ParseNameText(v)))...)
			case k == "S":
				inner = append(inner, tlv(0x6b, tlv(7, nameInner(common.ParseNameText(v))))...)
			case k == "U":
				inner = append(inner, tlv(0x72, []byte(w.portsIn(string(common.UnHex(v)))))...)
			case k == "L":
				inner = append(inner, tlv(0x81, []byte(w.portsIn(string(common.UnHex(v)))))...)
			case len(k) > 1 && k[0] == 'u':
				inner = append(inner, tlv(common.Atou(k[1:]), common.UnHex(v))...)
			default:
				t, ok := natType[k[0]]
				if !ok || len(k) != 1 {
					panic("harness: bad field " + f)
				}
				num, wd, _ := strings.Cut(v, "/")
				x := common.Atou(num)
				if k == "F" {
					x = w.real(x)
				}
				width := 0
				if wd != "" {
					width = common.Atoi(wd)
				}
				inner = append(inner, tlv(t, natBytes(x, width))...)
			}
		}
	}
	return tlv(0x68, inner)
}

// ---------------------------------------------------------------- exec

func compOrNone(s string) []enc.Component {
	if s == "-" {
		return nil
	}
	return []enc.Component{common.ParseCompText(s)}
}

func (w *world) cmdName(f []string) enc.Name {
	// cmd <from> <nh> <prefix> <module> <verb> <tail> <params>
	name := append(enc.Name{}, common.ParseNameText(f[3])...)
	name = append(name, compOrNone(f[4])...)
	name = append(name, compOrNone(f[5])...)
	if f[7] == "ap:nodigest" {
		name = append(name, enc.Component{Typ: enc.TypeParametersSha256DigestComponent, Val: make([]byte, 32)})
	} else if f[7] != "-" && !strings.HasPrefix(f[7], "ap:") {
		name = append(name, enc.Component{Typ: enc.TypeGenericNameComponent, Val: w.composeParams(f[7])})
	}
	for i := 0; i < common.Atoi(f[6]); i++ {
		name = append(name, enc.NewStringComponent(enc.TypeGenericNameComponent, "t"+strconv.FormatUint(w.nextSeq(), 10)))
	}
	return name
}

func exec(op string) string {
	f := common.Fields(op)
	switch f[0] {
	case "new":
		// new lh=<0|1> fib=<alg>
		lh := strings.HasSuffix(f[1], "=1")
		// "+rv": the management thread starts with the NLSR readvertiser (tables.rib.readvertise_nlsr,
		// the daemon's default); it only reports routes of origin client, the tables stay as commanded
		alg := strings.TrimPrefix(f[2], "fib=")
		rv := strings.HasSuffix(alg, "+rv")
		alg = strings.TrimSuffix(alg, "+rv")
		if r := w.setup(lh, alg, rv); r != "ok" {
			return r
		}
		return "ok " + w.dump()
	}
	if !w.up {
		return "skip"
	}
	switch f[0] {
	case "cmd":
		from, ok := w.hooks[common.Atoi(f[1])]
		if !ok {
			return "skip"
		}
		var nh *uint64
		if f[2] != "-" {
			v := w.real(common.Atou(f[2]))
			nh = &v
		}
		name := w.cmdName(f)
		for _, h := range w.hooks {
			h.tr.TakeFrames()
		}
		before := w.mface.NOutInterests()
		wire := []byte(nil)
		switch f[7] {
		case "ap:data":
			// rib/announce with a prefix announcement object as application parameters
			wire = makeInterestApp(name, w.nextSeq(), announcement())
		case "ap:garbage":
			wire = makeInterestApp(name, w.nextSeq(), []byte{0x06, 0x03, 0x07, 0x05, 0x08})
		default:
			wire = makeInterest(name, w.nextSeq())
		}
		if strings.HasPrefix(f[7], "ap:") {
			// the responder names its Data after the Interest: the digest component is part of it
			p, _, err := spec.ReadPacket(enc.NewBufferReader(wire))
			if err != nil || p.Interest == nil {
				panic("harness: cannot re-read own Interest")
			}
			name = p.Interest.NameV
		}
		from.tr.Inject(lpFrame(wire, nh))
		if !w.barrier() {
			return "HANG barrier"
		}
		delivered := w.mface.NOutInterests() - before - 1
		var datas []*spec.Data
		if !w.closed[common.Atoi(f[1])] { // a closed transport emits nothing any more
			frames, ok := w.flush(from)
			if !ok {
				return "HANG flush"
			}
			datas, _ = dataFromFrames(frames)
		}
		w.trackCreated()
		return fmt.Sprintf("d=%d r=%s %s", delivered, w.respText(name, datas), w.dump())
	case "send":
		// send <face> <size>: an Interest of <size> bytes is queued for sending on the face, exactly
		// as the forwarding thread does it (liveness of the face after an MTU change)
		lf := common.Atou(f[1])
		ls := face.FaceTable.Get(w.real(lf))
		if ls == nil {
			return "noface"
		}
		size := common.Atoi(f[2])
		name, _ := enc.NameFromStr("/verif-send")
		pad := size - 40
		if pad < 1 {
			pad = 1
		}
		name = append(name, enc.NewBytesComponent(enc.TypeGenericNameComponent, make([]byte, pad)))
		wire := makeInterest(name, w.nextSeq())
		pkt, _, _ := spec.ReadPacket(enc.NewBufferReader(wire))
		in := w.base
		tok := pitToken(7)
		if len(f) == 4 { // send <face> <size> <token length>: a downstream's own PIT token (1..32 bytes)
			tok = make([]byte, common.Atoi(f[3]))
			for i := range tok {
				tok[i] = byte(i + 1)
			}
		}
		h := w.hooks[int(lf)]
		if h == nil {
			ls.SendPacket(dispatch.OutPkt{Pkt: &defn.Pkt{Name: name, L3: pkt, Raw: wire, PitToken: tok}, PitToken: tok, InFace: &in})
			if !w.barrier() {
				return "HANG barrier"
			}
			return "ok"
		}
		// frames a lone sentinel takes on this face, then packet + sentinel
		h.tr.TakeFrames()
		alone, ok := w.flush(h)
		if !ok {
			return "HANG flush"
		}
		ls.SendPacket(dispatch.OutPkt{Pkt: &defn.Pkt{Name: name, L3: pkt, Raw: wire, PitToken: tok}, PitToken: tok, InFace: &in})
		frames, ok := w.flush(h)
		if !ok {
			return "HANG flush"
		}
		_, is := dataFromFrames(frames)
		carried := 0
		for _, i := range is {
			if i.NameV.Equal(name) {
				carried = 1
			}
		}
		maxLen := 0
		for _, fr := range frames {
			if len(fr) > maxLen {
				maxLen = len(fr)
			}
		}
		nframes := len(frames) - len(alone)
		if carried == 1 && nframes < 1 {
			// a packet that arrived took at least one frame: the sentinel-only baseline was too high (a frame of
			// earlier asynchronous traffic reached the socket during the baseline flush — seen under heavy load in
			// the thorough tier); measurement noise, never a property of the face
			nframes = 1
		}
		return fmt.Sprintf("ok frames=%d carried=%d maxframe=%d mtu=%d", nframes, carried, maxLen, ls.MTU())
	case "close":
		// close <face>: the face's transport is closed locally — what the expiration handler and
		// the shutdown path do (LinkService.Close). The face has to leave the face table.
		lf := common.Atoi(f[1])
		if lf == fM || lf == fZ {
			return "skip"
		}
		ls := face.FaceTable.Get(w.real(uint64(lf)))
		if ls == nil || w.closed[lf] {
			return "noface"
		}
		w.closed[lf] = true
		id := ls.FaceID()
		w.closeFace(ls)
		if !waitUntil("flush", func() bool { return face.FaceTable.Get(id) == nil }) {
			return "STUCK " + w.dump()
		}
		// the RIB clean-up follows on the face's goroutine (leftover routes show in the dump)
		waitUntil("flush", func() bool { return routesOf(id) == 0 })
		return "gone " + w.dump()
	case "probe":
		// probe <from> <name>: an ordinary Interest enters the forwarder (liveness of the forwarding
		// thread after strategy-choice changes)
		from, ok := w.hooks[common.Atoi(f[1])]
		if !ok {
			return "skip"
		}
		name := append(enc.Name{}, common.ParseNameText(f[2])...)
		name = append(name, enc.NewStringComponent(enc.TypeGenericNameComponent, "p"+strconv.FormatUint(w.nextSeq(), 10)))
		from.tr.Inject(makeInterest(name, w.nextSeq()))
		if !w.barrier() {
			return "HANG barrier"
		}
		return "ok"
	}
	return "bad-op"
}

// announcement builds a prefix announcement object (a Data packet) with the repo's own encoder.
func announcement() []byte {
	n, _ := enc.NameFromStr("/verif/announced/32=PA/v=1/seg=0")
	ct := ndn.ContentType(5)
	fr := time.Second
	d, err := spec.Spec{}.MakeData(n, &ndn.DataConfig{ContentType: &ct, Freshness: &fr}, enc.Wire{[]byte{0x6d, 0x01, 0x0a}}, sec.NewSha256Signer())
	if err != nil {
		panic("harness: announcement: " + err.Error())
	}
	return d.Wire.Join()
}

func TestVerif(t *testing.T) { common.Main(t, gen, exec) }
