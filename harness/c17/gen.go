package c17

import (
	"regexp"
	"fmt"
	"strings"

	enc "github.com/named-data/ndnd/std/encoding"
	mg "github.com/named-data/ndnd/std/ndn/mgmt_2022"
	"verif/harness/common"
)

// ---------------------------------------------------------------- generator
//
// A history = one forwarder configuration (localhop management on/off, FIB algorithm) and 8..16
// operations. Commands are drawn per module with every ControlParameters field independently
// present/absent and boundary values mixed in; arrival face (local/non-local, with/without the
// NextHopFaceId privilege) and arrival prefix (/localhost/nfd, /localhop/nfd, others) vary
// independently. MTU changes are followed by a send on the face, strategy changes by a probe.

func hexs(s string) string { return common.Hex([]byte(s)) }
func gc(s string) string   { return "8:" + hexs(s) }

var (
	pLocalhost = "/" + gc("localhost") + "/" + gc("nfd")
	pLocalhop  = "/" + gc("localhop") + "/" + gc("nfd")
	stratPfx   = pLocalhost + "/" + gc("strategy")
)

var routeNames = []string{"/", "/8:61", "/8:61/8:62", "/8:61/8:62/8:63", "/8:62", "/8:61/8:63", "/8:61/32:62", "/8:", "/8:62/8:61"}

func u64s(xs ...uint64) []string {
	var o []string
	for _, x := range xs {
		o = append(o, fmt.Sprint(x))
	}
	return o
}

var (
	poolFace   = u64s(0, 1, 2, 2, 3, 3, 4, 4, 5, 6, 7, 50, 4294967296, 9223372036854775808, 18446744073709551615)
	poolOrigin = u64s(0, 0, 65, 128, 255, 1000)
	poolCost   = u64s(0, 1, 10, 10, 4294967296, 18446744073709551615)
	poolRFlags = u64s(0, 1, 1, 2, 3, 4)
	poolExp    = u64s(0, 1, 60000, 4294967296, 9223372036854, 9223372036855, 9223372036854775808, 18446744073709551615)
	poolMtu    = u64s(0, 1, 10, 35, 36, 37, 56, 57, 63, 64, 65, 66, 67, 68, 69, 70, 71, 72, 73, 80, 100, 576, 1280, 1500, 8800, 8801, 65536, 4294967296, 9223372036854775808, 18446744073709551615)
	poolCap    = u64s(0, 1, 100, 1024, 65535, 2147483648, 4294967296, 9223372036854775807, 9223372036854775808, 18446744073709551615)
	poolPers   = u64s(0, 0, 1, 2, 2, 3, 4294967296)
	poolFFlags = u64s(0, 1, 2, 3, 4, 5, 7)
	poolBcmi   = u64s(0, 1, 100000000, 9223372036854775808, 18446744073709551615)
	poolDct    = u64s(0, 65536, 18446744073709551615)
	poolCount  = u64s(0, 5)
)

var strategies = []string{
	stratPfx + "/" + gc("best-route"),
	stratPfx + "/" + gc("multicast"),
	stratPfx + "/" + gc("best-route") + "/54:01",
	stratPfx + "/" + gc("multicast") + "/54:01",
	stratPfx + "/" + gc("multicast") + "/54:02",           // unknown version
	stratPfx + "/" + gc("best-route") + "/54:0001",         // version 1, 2-byte encoding
	stratPfx + "/" + gc("best-route") + "/54:01/8:78",      // trailing component
	stratPfx + "/" + gc("best-route") + "/54:",             // empty version value
	stratPfx + "/" + gc("best-route") + "/54:010203",       // 3-byte version value
	stratPfx + "/" + gc("best-route") + "/8:7631",          // second component is not a version
	stratPfx,                                                // no strategy component (F-17a)
	pLocalhost,                                              // shorter than the strategy prefix
	"/",
	stratPfx + "/" + gc("foo"),                              // unknown strategy
	stratPfx + "/32:" + hexs("best-route"),                  // typed component
	"/8:61/8:62/8:63/" + gc("best-route"),                  // wrong prefix, right length
}

// remote URIs for faces/create: the strings of `uriTable` in lean/NdnVerif/C17/Tables.lean
var (
	urisOk    = []string{"udp4://127.0.0.1:7101", "udp4://127.0.0.1:7102", "udp://127.0.0.1:7101", "udp4://127.0.0.1:07102", "udp4://127.0.0.2:7101", "tcp4://127.0.0.1:{T1}", "tcp://127.0.0.1:{T2}"}
	urisTaken = []string{"udp4://127.0.0.1:7001", "udp4://127.0.0.1:7002"} // remote URIs of faces 2 and 3
	urisBad   = []string{"udp4://224.0.0.1:6363", "udp4://255.255.255.255:6363", "udp4://0.0.0.0:6363", "unix:///tmp/verif-c17.sock", "dev://eth0", "fd://3",
		"udp4://127.0.0.1:0", "internal://", "null://", "ether://[08:00:27:01:01:01]", "", "bogus", "udp4://", "udp4://127.0.0.1", "UDP4://127.0.0.1:7101", "wsclient://127.0.0.1:1"}
	localUris = []string{"udp4://127.0.0.1:6363", "udp4://192.0.2.2:6363", "udp4://127.0.0.1:46363", "internal://", "null://", "tcp-local"}
	schemes   = []string{"udp4", "udp4", "tcp4", "internal", "null", "unix", "bogus", ""}
)

func pickURI(g *common.Gen) string {
	switch x := g.R.Intn(10); {
	case x < 6:
		return common.Pick(g.R, urisOk)
	case x < 8:
		return common.Pick(g.R, urisTaken)
	}
	return common.Pick(g.R, urisBad)
}

// genFilter: a FaceQueryFilter with every field independently present or absent
func genFilter(g *common.Gen) string {
	r := g.R
	switch x := r.Intn(20); {
	case x == 0:
		return "raw:-" // no FaceQueryFilter element at all
	case x == 1:
		// byte strings the REAL filter decoder refuses or finds no filter element in
		var bad []string
		for _, rp := range []string{"raw:9603", "raw:690105", "raw:ff", "raw:c80100", "raw:96026905", "raw:9604690105ff"} {
			v, err := mg.ParseFaceQueryFilter(enc.NewBufferReader(common.UnHex(rp[4:])), true)
			if err != nil || v.Val == nil {
				bad = append(bad, rp)
			}
		}
		return common.Pick(r, bad)
	case x == 2:
		return "F=3" // ControlParameters where a filter is expected
	}
	var f []string
	if r.Chance(1, 3) {
		f = append(f, "F="+common.Pick(r, []string{"1", "2", "3", "4", "7", "8", "9", "50"}))
	}
	if r.Chance(1, 3) {
		f = append(f, "S="+hexs(common.Pick(r, schemes)))
	}
	if r.Chance(1, 5) {
		f = append(f, "U="+hexs(common.Pick(r, append(append([]string{"udp4://192.0.2.10:6363", "internal://"}, urisOk...), urisTaken...))))
	}
	if r.Chance(1, 5) {
		f = append(f, "L="+hexs(common.Pick(r, localUris)))
	}
	if r.Chance(1, 3) {
		f = append(f, "C="+common.Pick(r, []string{"0", "1", "1", "2"}))
	}
	if r.Chance(1, 4) {
		f = append(f, "P="+common.Pick(r, []string{"0", "0", "1", "2"}))
	}
	if r.Chance(1, 6) {
		f = append(f, "T="+common.Pick(r, []string{"0", "0", "1"}))
	}
	if len(f) == 0 {
		return "q:e"
	}
	return "q:" + strings.Join(f, ";")
}

type pgen struct {
	g *common.Gen
	f []string
}

func (p *pgen) add(k string, v string) { p.f = append(p.f, k+"="+v) }
func (p *pgen) maybe(num, den int, k string, pool []string) {
	if p.g.R.Chance(num, den) {
		v := common.Pick(p.g.R, pool)
		if p.g.R.Chance(1, 12) && v != "0" {
			v += "/8" // non-minimal encoding of the natural
		} else if p.g.R.Chance(1, 14) {
			// MALFORMED: a non-negative integer is 1, 2, 4 or 8 bytes long (NDN packet format); the whole
			// ControlParameters element is then undecodable and the command must be refused
			v += common.Pick(p.g.R, []string{"/3", "/3", "/5", "/6", "/7", "/9"})
			p.g.Stat("field.bad-width")
		}
		p.add(k, v)
		p.g.Stat("field." + k)
	}
}
func (p *pgen) noise() {
	// fields that the verb does not look at, unknown elements, duplicates
	if p.g.R.Chance(1, 8) {
		p.add("u201", "0102")
		p.g.Stat("field.unknown")
	}
	if p.g.R.Chance(1, 10) {
		p.maybe(1, 1, common.Pick(p.g.R, []string{"T", "K", "X", "P", "B", "H", "M", "C", "O"}), poolCount)
	}
	if p.g.R.Chance(1, 12) && len(p.f) > 0 {
		p.f = append(p.f, p.f[p.g.R.Intn(len(p.f))]) // duplicate an element
		p.g.Stat("field.duplicate")
	}
	if p.g.R.Chance(1, 10) {
		p.g.R.Fork() // keep the stream position independent of the shuffle size
		for i := len(p.f) - 1; i > 0; i-- {
			j := p.g.R.Intn(i + 1)
			p.f[i], p.f[j] = p.f[j], p.f[i]
		}
	}
}
func (p *pgen) done() string {
	if len(p.f) == 0 {
		return "e"
	}
	return strings.Join(p.f, ";")
}

var rawParams = []string{
	"raw:-",               // empty component: no ControlParameters element
	"raw:6805",            // truncated
	"raw:680369",          // inner element truncated
	"raw:690105",          // FaceId outside a ControlParameters element
	"raw:6803070508",      // name component runs past the end
	"raw:68020701",        // Name length 1 but no bytes
	"raw:c80100",          // only an unknown element
	"raw:68fdffff",        // huge length
	"raw:6804072a0800",    // name longer than its container
	"raw:6803698001",      // natural length 0x80 > remaining
	"raw:ff",              // lone 8-byte length marker
	"raw:68026b05",        // Strategy truncated
	"raw:68046b020701",    // Strategy.Name truncated
}

var undecodable []string

// undecodableParams keeps the byte strings the REAL decoder (the entry point management uses)
// refuses or finds no ControlParameters element in; what is "malformed" is the decoder's call
// (properties C04/C13), the model only needs the class.
func undecodableParams() []string {
	if undecodable == nil {
		for _, rp := range rawParams {
			v, err := mg.ParseControlParameters(enc.NewBufferReader(common.UnHex(rp[4:])), true)
			if err != nil || v.Val == nil {
				undecodable = append(undecodable, rp)
			}
		}
	}
	return undecodable
}

func genParams(g *common.Gen, module, verb string) string {
	r := g.R
	if r.Chance(1, 14) {
		g.Stat("params.raw")
		return common.Pick(r, undecodableParams())
	}
	if r.Chance(1, 25) {
		g.Stat("params.absent")
		return "-"
	}
	p := &pgen{g: g}
	switch module {
	case "rib":
		if r.Chance(11, 12) {
			p.add("N", common.Pick(r, routeNames))
		}
		p.maybe(1, 2, "F", poolFace)
		p.maybe(1, 3, "O", poolOrigin)
		if verb != "unregister" || r.Chance(1, 5) {
			p.maybe(1, 2, "C", poolCost)
			p.maybe(1, 3, "G", poolRFlags)
			p.maybe(1, 4, "E", poolExp)
		}
	case "fib":
		if r.Chance(11, 12) {
			p.add("N", common.Pick(r, routeNames))
		}
		p.maybe(1, 2, "F", poolFace)
		p.maybe(1, 2, "C", poolCost)
	case "strategy-choice":
		if r.Chance(11, 12) {
			p.add("N", common.Pick(r, routeNames))
		}
		if verb != "unset" && r.Chance(11, 12) || r.Chance(1, 6) {
			p.add("S", common.Pick(r, strategies))
		}
	case "cs":
		p.maybe(3, 4, "K", poolCap)
		if r.Chance(1, 3) {
			p.maybe(1, 1, "G", poolFFlags)
			if r.Chance(4, 5) {
				p.maybe(1, 1, "M", poolFFlags)
			}
		} else {
			p.maybe(1, 8, "M", poolFFlags)
		}
	case "faces":
		switch verb {
		case "update":
			if r.Chance(3, 4) {
				p.add("F", common.Pick(r, []string{"0", "1", "2", "3", "3", "4", "4", "5", "5", "7", "8", "8", "9", "50", "18446744073709551615"}))
			}
			p.maybe(2, 3, "X", poolMtu)
			p.maybe(1, 3, "P", poolPers)
			if r.Chance(1, 3) {
				p.maybe(1, 1, "G", poolFFlags)
				if r.Chance(5, 6) {
					p.maybe(1, 1, "M", poolFFlags)
				}
			} else {
				p.maybe(1, 10, "M", poolFFlags)
			}
			p.maybe(1, 4, "B", poolBcmi)
			p.maybe(1, 4, "H", poolDct)
		case "destroy":
			if r.Chance(9, 10) {
				// never the management face or the barrier face (see design/C17.md, assumptions)
				p.add("F", common.Pick(r, []string{"0", "2", "3", "4", "5", "7", "8", "8", "9", "10", "50", "9223372036854775808"}))
			}
			p.maybe(1, 6, "X", poolMtu)
			if r.Chance(1, 6) {
				// a field that has nothing to do with the command (structured: Strategy carries a name)
				p.add("S", common.Pick(r, strategies))
			}
		case "create":
			if r.Chance(14, 15) {
				p.add("U", hexs(pickURI(g)))
			}
			p.maybe(1, 2, "X", poolMtu)
			p.maybe(1, 3, "P", poolPers)
			if r.Chance(1, 3) {
				p.maybe(1, 1, "G", poolFFlags)
				if r.Chance(5, 6) {
					p.maybe(1, 1, "M", poolFFlags)
				}
			} else {
				p.maybe(1, 10, "M", poolFFlags)
			}
			p.maybe(1, 4, "B", poolBcmi)
			p.maybe(1, 4, "H", poolDct)
			if r.Chance(1, 8) {
				p.add("L", hexs("udp4://127.0.0.1:1"))
			}
		default:
			p.maybe(1, 2, "F", poolFace)
		}
	default:
		p.maybe(1, 2, "F", poolFace)
		if r.Chance(1, 2) {
			p.add("N", common.Pick(r, routeNames))
		}
	}
	p.noise()
	return p.done()
}

var moduleVerbs = map[string][]string{
	"rib":             {"register", "register", "register", "unregister", "unregister", "announce", "list"},
	"fib":             {"add-nexthop", "add-nexthop", "remove-nexthop", "list"},
	"strategy-choice": {"set", "set", "unset", "list"},
	"cs":              {"config", "config", "info", "erase", "query"},
	"faces":           {"update", "update", "update", "destroy", "list", "create", "create", "create", "query", "query"},
	"status":          {"general"},
}

var datasetVerbs = [][2]string{{"rib", "list"}, {"fib", "list"}, {"strategy-choice", "list"}, {"cs", "info"}, {"faces", "list"}, {"status", "general"}}

func pickFrom(g *common.Gen) (from int, nh string) {
	r := g.R
	switch x := r.Intn(20); {
	case x < 9:
		from = fA
	case x < 12:
		from = fB
	case x < 16:
		from = fH0
	default:
		from = fH1
	}
	nh = "-"
	if r.Chance(1, 7) {
		nh = common.Pick(r, []string{"1", "1", "1", "3", "50"})
		g.Stat("arrival.nexthop-face-id")
	}
	g.Stat(fmt.Sprintf("arrival.face%d", from))
	return
}

func pickPrefix(g *common.Gen) string {
	r := g.R
	switch x := r.Intn(20); {
	case x < 12:
		g.Stat("prefix.localhost")
		return pLocalhost
	case x < 18:
		g.Stat("prefix.localhop")
		return pLocalhop
	default:
		g.Stat("prefix.other")
		return common.Pick(r, []string{"/" + gc("localhost") + "/" + gc("nfx"), "/" + gc("localhop") + "/" + gc("nfx"),
			"/" + gc("localhost"), "/8:61/" + gc("nfd"), "/32:" + hexs("localhost") + "/" + gc("nfd"), "/" + gc("localhost") + "/" + gc("nfd") + "/" + gc("x")})
	}
}

func genOp(g *common.Gen) {
	r := g.R
	from, nh := pickFrom(g)
	prefix := pickPrefix(g)
	if (from == fH0 || from == fH1) && prefix == pLocalhost && r.Chance(2, 3) {
		// a non-local face under /localhost is dropped by the forwarder: keep a third of those
		if r.Chance(1, 2) {
			prefix = pLocalhop
		} else {
			from = fA
		}
	}
	emit := func(module, verb string, tail int, params string) {
		g.Op("cmd %d %s %s %s %s %d %s", from, nh, prefix, module, verb, tail, params)
	}
	switch x := r.Intn(100); {
	case x < 62: // a command of a known module
		module := common.Pick(r, []string{"rib", "rib", "rib", "fib", "fib", "strategy-choice", "strategy-choice", "cs", "faces", "faces"})
		verb := common.Pick(r, moduleVerbs[module])
		params := genParams(g, module, verb)
		if module == "faces" && verb == "query" {
			params = genFilter(g)
		}
		if module == "rib" && verb == "announce" && r.Chance(2, 3) {
			params = common.Pick(r, []string{"ap:data", "ap:data", "ap:garbage", "ap:nodigest"})
		}
		tail := 1
		if r.Chance(1, 8) {
			tail = common.Pick(r, []int{0, 0, 2})
		}
		if params == "-" || strings.HasPrefix(params, "ap:") {
			tail = 0
		}
		g.Stat("cmd." + module + "." + verb)
		if module == "faces" && verb == "destroy" && r.Chance(1, 2) {
			// give the face that is about to go routes (two origins) and a next hop first
			for _, fid := range []string{"3", "4", "5", "2", "7"} {
				if strings.Contains(params, "F="+fid+";") || strings.HasSuffix(params, "F="+fid) {
					n := common.Pick(r, routeNames)
					g.Op("cmd %d - %s %s %s 1 N=%s;F=%s", fA, pLocalhost, gc("rib"), gc("register"), n, fid)
					if r.Chance(1, 2) {
						g.Op("cmd %d - %s %s %s 1 N=%s;F=%s;O=65;C=7", fA, pLocalhost, gc("rib"), gc("register"), n, fid)
					}
					if r.Chance(1, 2) {
						g.Op("cmd %d - %s %s %s 1 N=%s;F=%s", fA, pLocalhost, gc("fib"), gc("add-nexthop"), common.Pick(r, routeNames), fid)
					}
					g.Stat("destroy.with-routes")
					break
				}
			}
		}
		emit(gc(module), gc(verb), tail, params)
		if module == "faces" && verb == "create" && strings.Contains(params, "U=746370") {
			// a TCP face was (probably) just created: an out-of-range FacePersistency for the newest faces
			for _, fid := range []string{"8", "9", "10"} {
				g.Op("cmd %d - %s %s %s 1 F=%s;P=%s", fA, pLocalhost, gc("faces"), gc("update"), fid, common.Pick(r, []string{"3", "77", "1099511627776", "18446744073709551615"}))
			}
			g.Stat("update.persistency-out-of-range-tcp")
		}
		if module == "faces" && verb == "update" && r.Chance(1, 3) {
			// nothing but an out-of-range FacePersistency, on every kind of face (internal, udp, tcp, null)
			g.Op("cmd %d - %s %s %s 1 F=%s;P=%s", fA, pLocalhost, gc("faces"), gc("update"),
				common.Pick(r, []string{"8", "8", "8", "9", "9", "2", "7", "1"}), common.Pick(r, []string{"3", "77", "1099511627776", "18446744073709551615"}))
			g.Stat("update.persistency-out-of-range")
		}
		// follow-ups that observe liveness
		if module == "faces" && verb == "update" && strings.Contains(params, "X=") {
			for _, fid := range []string{"3", "4", "5", "2"} {
				if strings.Contains(params, "F="+fid+";") || strings.HasSuffix(params, "F="+fid) || (fid == fmt.Sprint(from) && !strings.Contains(params, "F=")) {
					g.Op("send %s %d", fid, common.Pick(r, []int{60, 300, 1400, 4000, 8000}))
					// a small accepted MTU: packets that need fragmenting, with downstream PIT tokens of every
					// legal length (the header grows with the token until nothing is left for payload)
					if m := regexp.MustCompile(`X=(\d+)`).FindStringSubmatch(params); m != nil && len(m[1]) <= 3 && common.Atoi(m[1]) <= 120 {
						for tl := 1; tl <= 32; tl++ {
							g.Op("send %s %d %d", fid, common.Pick(r, []int{200, 300, 1400}), tl)
						}
						g.Stat("send.token-length-sweep")
					}
					g.Stat("send")
					break
				}
			}
		}
		if module == "faces" && verb == "destroy" && r.Chance(1, 2) {
			// what a client sees right after the answer
			mv := common.Pick(r, [][2]string{{"rib", "list"}, {"faces", "list"}, {"fib", "list"}})
			g.Op("cmd %d - %s %s %s 0 -", fA, pLocalhost, gc(mv[0]), gc(mv[1]))
			g.Stat("dataset.after-destroy")
		}
		if module == "strategy-choice" && verb == "set" && strings.Contains(params, "N=") {
			g.Op("probe %d %s", fB, common.Pick(r, routeNames))
			g.Stat("probe")
		}
	case x < 80: // status datasets
		mv := common.Pick(r, datasetVerbs)
		tail := 0
		if r.Chance(1, 10) {
			tail = 1
		}
		g.Stat("dataset." + mv[0])
		emit(gc(mv[0]), gc(mv[1]), tail, "-")
	case x < 88: // unknown module / verb, typed components
		switch r.Intn(4) {
		case 0:
			emit(gc("nope"), gc("list"), r.Intn(2), "-")
		case 1:
			emit(gc(common.Pick(r, []string{"rib", "fib", "cs", "faces", "status", "strategy-choice"})), gc("nope"), 1, genParams(g, "rib", "register"))
		case 2:
			emit("32:"+hexs("rib"), gc("register"), 1, genParams(g, "rib", "register"))
		default:
			emit(gc("rib"), "32:"+hexs("register"), 1, genParams(g, "rib", "register"))
		}
		g.Stat("cmd.unknown")
	case x < 93: // names too short for a module + verb
		if r.Chance(1, 2) {
			emit(gc(common.Pick(r, []string{"rib", "fib", "faces"})), "-", 0, "-")
		} else {
			emit("-", "-", 0, "-")
		}
		g.Stat("cmd.short")
	default: // a face closing on its own, a send or a probe
		if r.Chance(1, 3) {
			// never the management or the barrier face
			g.Op("close %d", common.Pick(r, []int{2, 3, 4, 5, 7, 8, 8, 9, 10, 50}))
			g.Stat("close")
			if r.Chance(1, 2) {
				g.Op("cmd %d - %s %s %s 0 -", fA, pLocalhost, gc("faces"), gc("list"))
			}
		} else if r.Chance(1, 2) {
			g.Op("send %d %d", common.Pick(r, []int{2, 3, 4, 5, 7, 50}), common.Pick(r, []int{60, 1400, 8000}))
			g.Stat("send")
		} else {
			g.Op("probe %d %s", common.Pick(r, []int{fA, fB, fH0}), common.Pick(r, routeNames))
			g.Stat("probe")
		}
	}
}

// genNested: a parent prefix with a route of its own and a single child prefix below it; the
// child's route goes away (unregister, faces/destroy or the face closing), then the datasets are
// read and the parent is registered again — the parent's entry must have survived.
func genNested(g *common.Gen) {
	r := g.R
	parent := common.Pick(r, []string{"/8:61", "/8:62", "/8:61/8:62", "/"})
	child := parent + "/8:78"
	if parent == "/" {
		child = "/8:78"
	}
	grand := ""
	if r.Chance(1, 3) {
		grand = child + "/8:79" // the child's route sits one level further down
	}
	x := common.Pick(r, []string{"2", "3"})
	y := common.Pick(r, []string{"4", "5", "3"})
	if y == x {
		y = "4"
	}
	origin := common.Pick(r, []string{"", "", ";O=65"})
	cmd := func(module, verb, params string, tail int) {
		g.Op("cmd %d - %s %s %s %d %s", fA, pLocalhost, gc(module), gc(verb), tail, params)
	}
	leaf := child
	if grand != "" {
		leaf = grand
	}
	cmd("rib", "register", "N="+parent+";F="+x+";C=3", 1)
	cmd("rib", "register", "N="+leaf+";F="+y+origin, 1)
	switch r.Intn(4) {
	case 0, 1:
		cmd("rib", "unregister", "N="+leaf+";F="+y+origin, 1)
	case 2:
		cmd("faces", "destroy", "F="+y, 1)
	default:
		g.Op("close %s", y)
	}
	cmd("rib", "list", "-", 0)
	cmd("fib", "list", "-", 0)
	if r.Chance(1, 2) {
		cmd("rib", "register", "N="+parent+";F="+common.Pick(r, []string{"2", "3", "6"})+";C=9", 1)
	} else {
		cmd("rib", "unregister", "N="+parent+";F="+x, 1)
	}
	cmd("rib", "list", "-", 0)
	g.Stat("scenario.nested-prefix")
}

// genReRegister: an existing route is registered again (same prefix, face, origin) with another
// cost or other flags (child-inherit / capture switched), with a child entry below that inherits
// from it; fib/list is read right after, before anything else touches the branch.
func genReRegister(g *common.Gen) {
	r := g.R
	parent := common.Pick(r, []string{"/8:61", "/8:62", "/8:61/8:63", "/"})
	child := parent + "/8:7a"
	if parent == "/" {
		child = "/8:7a"
	}
	x := common.Pick(r, []string{"2", "3", "4"})
	y := common.Pick(r, []string{"5", "3", "2"})
	origin := common.Pick(r, []string{"", "", ";O=128"})
	cmd := func(module, verb, params string, tail int) {
		g.Op("cmd %d - %s %s %s %d %s", fA, pLocalhost, gc(module), gc(verb), tail, params)
	}
	cmd("rib", "register", "N="+parent+";F="+x+origin+";C="+common.Pick(r, []string{"5", "10"})+";G="+common.Pick(r, []string{"1", "1", "3"}), 1)
	if r.Chance(2, 3) {
		cmd("rib", "register", "N="+child+";F="+y+";C=20"+common.Pick(r, []string{"", "", ";G=0", ";G=2"}), 1)
	}
	// the same route again, changed
	cmd("rib", "register", "N="+parent+";F="+x+origin+common.Pick(r, []string{";C=1", ";C=7;G=0", ";G=0", ";C=10;G=2", ";C=30;G=3", ";C=2;G=1"}), 1)
	cmd("fib", "list", "-", 0)
	cmd("rib", "list", "-", 0)
	g.Stat("scenario.re-register")
}

// genRemoveBelow: fib/remove-nexthop addressed to prefixes that have no FIB entry (never
// registered, or already removed) below an entry that carries the named or defaulted face;
// duplicate removes; fib/list right after.
func genRemoveBelow(g *common.Gen) {
	r := g.R
	parent := common.Pick(r, []string{"/8:61", "/8:62", "/8:61/8:62", "/8:63"})
	below := parent + common.Pick(r, []string{"/8:71", "/8:71/8:72", "/8:62/8:63"})
	x := common.Pick(r, []string{"2", "2", "3", "4"})
	cmd := func(module, verb, params string, tail int) {
		g.Op("cmd %d - %s %s %s %d %s", fA, pLocalhost, gc(module), gc(verb), tail, params)
	}
	if r.Chance(1, 2) {
		cmd("fib", "add-nexthop", "N="+parent+";F="+x+";C=4", 1)
	} else {
		cmd("rib", "register", "N="+parent+";F="+x+";C=4", 1)
	}
	if r.Chance(1, 3) {
		cmd("fib", "add-nexthop", "N="+parent+";F=5;C=6", 1)
	}
	face := ";F=" + x
	if x == "2" && r.Chance(1, 2) {
		face = "" // the default: the requesting face (2)
	}
	cmd("fib", "remove-nexthop", "N="+below+face, 1)
	cmd("fib", "list", "-", 0)
	if r.Chance(1, 2) {
		cmd("fib", "remove-nexthop", "N="+parent+face, 1)
		cmd("fib", "remove-nexthop", "N="+parent+face, 1) // duplicate
		cmd("fib", "remove-nexthop", "N="+below+face, 1)
		cmd("fib", "list", "-", 0)
	}
	g.Stat("scenario.remove-below")
}

// genTwoStrategies: strategy choices for two (or three) different prefixes naming DIFFERENT strategies, one
// after the other through the same module, then the listing and a fib/list: a later command must not
// rewrite what an earlier one stored.
func genTwoStrategies(g *common.Gen) {
	r := g.R
	fA := common.Pick(r, []string{"2", "3"})
	cmd := func(module, verb, params string, tail int) {
		g.Op("cmd %s - %s %s %s %d %s", fA, pLocalhost, gc(module), gc(verb), tail, params)
	}
	names := []string{"/8:61", "/8:62", "/8:61/8:63", "/8:64/8:65"}
	strat := []string{stratPfx + "/" + gc("multicast"), stratPfx + "/" + gc("best-route"), stratPfx + "/" + gc("multicast") + "/54:01"}
	k := r.Intn(len(strat))
	for j := r.Range(2, 3); j > 0; j-- {
		cmd("strategy-choice", "set", "N="+common.Pick(r, names)+";S="+strat[k%len(strat)], 1)
		k++
	}
	cmd("strategy-choice", "list", "-", 0)
	g.Stat("scenario.two-strategies")
}

func gen(g *common.Gen) {
	for i := 0; i < g.N; i++ {
		lh := g.R.Intn(2)
		alg := common.Pick(g.R, []string{"nametree", "nametree", "hashtable"})
		g.Stat("config.lh" + fmt.Sprint(lh) + "." + alg)
		if g.R.Chance(1, 2) {
			alg += "+rv" // with the NLSR readvertiser behind the RIB (the daemon's default)
			g.Stat("config.readvertiser")
		}
		g.Op("new lh=%d fib=%s", lh, alg)
		n := g.R.Range(8, 16)
		nestedAt, reregAt, removeAt, stratAt := -1, -1, -1, -1
		if g.R.Chance(1, 3) {
			stratAt = g.R.Intn(n)
		}
		if g.R.Chance(1, 3) {
			nestedAt = g.R.Intn(n)
		}
		if g.R.Chance(1, 3) {
			reregAt = g.R.Intn(n)
		}
		if g.R.Chance(1, 3) {
			removeAt = g.R.Intn(n)
		}
		for k := 0; k < n; k++ {
			if k == nestedAt {
				genNested(g)
			}
			if k == reregAt {
				genReRegister(g)
			}
			if k == removeAt {
				genRemoveBelow(g)
			}
			if k == stratAt {
				genTwoStrategies(g)
			}
			genOp(g)
		}
	}
}
