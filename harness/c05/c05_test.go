// Package c05: correspondence harness for property C05 (FIB lookup is longest-prefix match in
// both FIB implementations).  Drives fresh instances of BOTH real FIBs (fw/table
// FibStrategyTree and FibStrategyHashTable, built by the production constructors through the
// verif hook) with the same operation history and prints their canonicalised observables.
package c05

import (
	"fmt"
	"sort"
	"strconv"
	"strings"
	"testing"

	"github.com/named-data/ndnd/fw/table"
	enc "github.com/named-data/ndnd/std/encoding"
	"verif/harness/common"
)

// ---------------------------------------------------------------- generator

// universe: random prefix-closed name tree (root included) grown by extending existing names, so
// chains, siblings and gaps are frequent; components differ in value, length and TLV type.
var compPool = []enc.Component{
	enc.NewStringComponent(enc.TypeGenericNameComponent, "a"),
	enc.NewStringComponent(enc.TypeGenericNameComponent, "b"),
	enc.NewStringComponent(enc.TypeGenericNameComponent, "ab"),
	enc.NewStringComponent(enc.TypeGenericNameComponent, ""),
	{Typ: 32, Val: []byte("a")},
	{Typ: enc.TypeGenericNameComponent, Val: []byte{0, 8, 1, 0x61}},
}

func genUniverse(r *common.Rand, size, maxDepth int) []enc.Name {
	u := []enc.Name{{}}
	seen := map[string]bool{"/": true}
	width := r.Range(2, len(compPool))
	pool := compPool
	if r.Chance(1, 4) {
		// one long component (beyond any small batching buffer a hash or key routine may use: 241,
		// 253, 300 bytes), mostly not in first position
		pool = append([]enc.Component(nil), compPool...)
		long := make([]byte, common.Pick(r, []int{241, 253, 300}))
		for i := range long {
			long[i] = byte('a' + i%7)
		}
		pool[r.Intn(width)] = enc.Component{Typ: enc.TypeGenericNameComponent, Val: long}
	}
	if r.Chance(1, 4) {
		// a twin of the component "a" (slot 0) that differs in its TLV type only, by a multiple of 256 or
		// beyond 16 / 32 bits: whatever keys a table by a narrowed or packed type conflates the two
		if &pool[0] == &compPool[0] {
			pool = append([]enc.Component(nil), compPool...)
		}
		typ := common.Pick(r, []uint64{264, 8 + 4096, 8 + 65280, 8 + 1<<32, 8 + 1<<56})
		pool[1+r.Intn(width-1)] = enc.Component{Typ: enc.TLNum(typ), Val: []byte("a")}
	}
	for tries := 0; len(u) < size && tries < size*20; tries++ {
		var base enc.Name
		if r.Chance(2, 3) {
			base = u[len(u)-1-r.Intn(min(len(u), 4))] // extend a recent name: long chains
		} else {
			base = common.Pick(r, u)
		}
		if len(base) >= maxDepth {
			continue
		}
		n := append(base.Clone(), pool[r.Intn(width)])
		k := common.NameText(n)
		if seen[k] {
			continue
		}
		seen[k] = true
		u = append(u, n)
	}
	return u
}

var strategies = []string{
	"/8:6c6f63616c686f7374/8:6e6664/8:7374726174656779/8:6d756c746963617374/54:01",   // /localhost/nfd/strategy/multicast/v=1
	"/8:6c6f63616c686f7374/8:6e6664/8:7374726174656779/8:626573742d726f757465/54:01", // …/best-route/v=1
	"/8:73/54:02",
}

// cost 0 is frequent on purpose: it is the default of `nfdc route add` and of the management thread
var costs0 = []uint64{0, 0, 0, 1, 5, 10, 10, 77, 18446744073709551615}

func gen(g *common.Gen) {
	// common.NewRand(seed+1) is common.NewRand(seed) advanced by one step, so the batches of the
	// thorough tier (consecutive seeds) would be shifted copies of each other; mix the seed in.
	root := common.NewRand(g.R.U64() ^ (common.Seed() * 0xD1B54A32D192ED03))
	for i := 0; i < g.N; i++ {
		r := root.Fork()
		size := r.Range(6, 28)
		u := genUniverse(r, size, 7)
		var m int
		switch {
		case r.Chance(1, 10):
			m = r.Range(7, 9)
		default:
			m = r.Range(1, 6)
		}
		texts := make([]string, len(u))
		var targets []string // names that operations act on: depth 0..6
		for j, n := range u {
			texts[j] = common.NameText(n)
			if len(n) <= 6 {
				targets = append(targets, texts[j])
			}
		}
		g.Op("new %d %s", m, strings.Join(texts, ","))
		g.Stat(fmt.Sprintf("m=%d", m))
		if r.Chance(2, 5) {
			// the caller reuses the memory of every name it passed (1), and passes the root as nil (2)
			k := 1 + r.Range(0, 1)
			g.Op("own %d", k)
			g.Stat(fmt.Sprintf("own-%d", k))
		}
		// "hot" names concentrate the operations so that entries are hit again
		hot := make([]string, 0, 5)
		for k := 0; k < r.Range(2, 5); k++ {
			hot = append(hot, common.Pick(r, targets))
		}
		pick := func() string {
			if r.Chance(3, 5) {
				return common.Pick(r, hot)
			}
			return common.Pick(r, targets)
		}
		nops := r.Range(8, 40)
		type fc struct {
			f int
			c uint64
		}
		// generator-side picture of the next hops per name (only used to aim operations)
		cur := map[string][]fc{}
		var withHops []string // names that got next hops at some time
		upsert := func(l []fc, f int, c uint64) []fc {
			for k := range l {
				if l[k].f == f {
					l[k].c = c
					return l
				}
			}
			return append(l, fc{f, c})
		}
		hopsText := func(l []fc) string {
			if len(l) == 0 {
				return "-"
			}
			p := make([]string, len(l))
			for k, h := range l {
				p[k] = fmt.Sprintf("%d:%d", h.f, h.c)
			}
			return strings.Join(p, ",")
		}
		// a replacement list for a prefix that currently holds c
		newList := func(c []fc) []fc {
			var out []fc
			used := map[int]bool{}
			fresh := func() int {
				for t := 0; t < 20; t++ {
					f := r.Range(1, 6)
					if !used[f] {
						return f
					}
				}
				return 7
			}
			switch mode := r.Intn(10); {
			case mode < 5 && len(c) > 0: // same length: keep some hops, re-cost some, swap the others for new faces
				for _, h := range c {
					used[h.f] = true
				}
				for _, h := range c {
					switch y := r.Intn(100); {
					case y < 45:
						out = append(out, h)
					case y < 60:
						out = append(out, fc{h.f, common.Pick(r, costs0)})
					default:
						f := fresh()
						used[f] = true
						out = append(out, fc{f, common.Pick(r, costs0)})
					}
				}
				g.Stat("rep-same-length")
			case mode == 5 && len(c) > 0: // unchanged set, rotated
				k := r.Intn(len(c))
				out = append(append(out, c[k:]...), c[:k]...)
				g.Stat("rep-unchanged")
			case mode == 6:
				g.Stat("rep-empty")
			case mode == 9: // a face listed twice: the later cost wins
				f := r.Range(1, 4)
				out = []fc{{f, common.Pick(r, costs0)}, {fresh(), 5}, {f, common.Pick(r, costs0)}}
				g.Stat("rep-duplicate-face")
			default:
				for k := r.Range(1, 3); k > 0; k-- {
					f := fresh()
					used[f] = true
					out = append(out, fc{f, common.Pick(r, costs0)})
				}
				g.Stat("rep-random")
			}
			return out
		}
		var stratSet []string // non-root names a strategy was set on
		for k := 0; k < nops; k++ {
			n := pick()
			x := r.Intn(100)
			switch {
			case x < 32:
				f, c := r.Range(1, 4), common.Pick(r, costs0)
				g.Op("ins %s %d %d", n, f, c)
				cur[n] = upsert(cur[n], f, c)
				withHops = append(withHops, n)
				g.Stat("op-ins")
			case x < 50:
				f := r.Range(1, 4)
				if len(withHops) > 0 && r.Chance(7, 10) {
					n = common.Pick(r, withHops)
					if l := cur[n]; len(l) > 0 {
						f = common.Pick(r, l).f
					}
				}
				g.Op("rem %s %d", n, f)
				kept := cur[n][:0:0]
				for _, h := range cur[n] {
					if h.f != f {
						kept = append(kept, h)
					}
				}
				cur[n] = kept
				g.Stat("op-rem")
			case x < 56:
				if len(withHops) > 0 && r.Chance(6, 10) {
					n = common.Pick(r, withHops)
				}
				g.Op("clr %s", n)
				delete(cur, n)
				g.Stat("op-clr")
			case x < 72: // ReplaceNextHopsEnc, one prefix or a batch
				cnt := 1
				if r.Chance(1, 5) {
					cnt = r.Range(2, 3)
				}
				var parts []string
				for ; cnt > 0; cnt-- {
					if len(withHops) > 0 && r.Chance(7, 10) {
						n = common.Pick(r, withHops)
					} else {
						n = pick()
					}
					l := newList(cur[n])
					parts = append(parts, n+"="+hopsText(l))
					var col []fc
					for _, h := range l {
						col = upsert(col, h.f, h.c)
					}
					cur[n] = col
					if len(col) > 0 {
						withHops = append(withHops, n)
					}
				}
				g.Op("rep %s", strings.Join(parts, ";"))
				g.Stat("op-rep")
			case x < 88:
				g.Op("sets %s %s", n, common.Pick(r, strategies))
				if n != "/" {
					stratSet = append(stratSet, n)
				}
				g.Stat("op-sets")
			default:
				if len(stratSet) > 0 && r.Chance(7, 10) {
					n = common.Pick(r, stratSet)
				}
				if n == "/" { // management refuses to unset the root strategy
					g.Op("sets / %s", common.Pick(r, strategies))
					g.Stat("op-sets")
				} else {
					g.Op("unsets %s", n)
					g.Stat("op-unsets")
				}
			}
			g.Stat(fmt.Sprintf("depth=%d", strings.Count(n, "/")-b2i(n == "/")))
			g.Op("qa")
			if r.Chance(1, 2) {
				g.Op("lf")
				g.Op("ls")
			}
		}
		g.Op("lf")
		g.Op("ls")
		g.Op("wb") // white-box dump, informational (coverage tags wb-*), never a verdict
		g.Stat("histories")
	}
}

func b2i(b bool) int {
	if b {
		return 1
	}
	return 0
}

// ---------------------------------------------------------------- executor

var (
	tree *table.FibStrategyTree
	hash *table.FibStrategyHashTable
	univ []enc.Name
)

func hopsText(h []*table.FibNextHopEntry) string {
	if len(h) == 0 {
		return "-"
	}
	type fc struct{ f, c uint64 }
	v := make([]fc, len(h))
	for i, e := range h {
		v[i] = fc{e.Nexthop, e.Cost}
	}
	sort.Slice(v, func(i, j int) bool { return v[i].f < v[j].f || (v[i].f == v[j].f && v[i].c < v[j].c) })
	s := make([]string, len(v))
	for i, e := range v {
		s[i] = strconv.FormatUint(e.f, 10) + ":" + strconv.FormatUint(e.c, 10)
	}
	return strings.Join(s, ",")
}

func stratText(s enc.Name) string {
	if s == nil {
		return "nil"
	}
	return common.NameText(s)
}

func item(f table.FibStrategy, n enc.Name) string {
	// every call gets its own copy of the name: the tables may keep what they are given
	return hopsText(f.FindNextHopsEnc(n.Clone())) + "@" + stratText(f.FindStrategyEnc(n.Clone()))
}

func listing(kv [][2]string) string {
	if len(kv) == 0 {
		return "-"
	}
	sort.Slice(kv, func(i, j int) bool { return kv[i][0] < kv[j][0] || (kv[i][0] == kv[j][0] && kv[i][1] < kv[j][1]) })
	s := make([]string, len(kv))
	for i, e := range kv {
		s[i] = e[0] + "=" + e[1]
	}
	return strings.Join(s, ";")
}

func listFib(f table.FibStrategy) string {
	var kv [][2]string
	for _, e := range f.GetAllFIBEntries() {
		kv = append(kv, [2]string{common.NameText(e.Name()), hopsText(e.GetNextHops())})
	}
	return listing(kv)
}

func listStrat(f table.FibStrategy) string {
	var kv [][2]string
	for _, e := range f.GetAllForwardingStrategies() {
		kv = append(kv, [2]string{common.NameText(e.Name()), stratText(e.GetStrategy())})
	}
	return listing(kv)
}

func both(f func(t table.FibStrategy) string) string {
	return "T " + f(tree) + " H " + f(hash)
}

func each(f func(t table.FibStrategy)) string {
	f(tree)
	f(hash)
	return "ok"
}

// checkHashes verifies assumption A-hash on the names of this run: distinct names (and
// prefixes) have distinct xxhash64 values.
func checkHashes(names []enc.Name) string {
	seen := map[uint64]string{}
	for _, n := range names {
		for k := 0; k <= len(n); k++ {
			p := n[:k]
			t := common.NameText(p)
			h := p.Hash()
			if o, ok := seen[h]; ok && o != t {
				return "hash-collision " + o + " " + t
			}
			seen[h] = t
		}
	}
	return ""
}

// white-box dumps (not compared as observables of C05; see design/C05.md)

// dumpTree: every node of the name tree as <path>:<n|-><h|-><s|->, sorted.
func dumpTree() string {
	var out []string
	for _, nd := range tree.VerifDumpNodes() {
		fl := func(b bool, c string) string {
			if b {
				return c
			}
			return "-"
		}
		out = append(out, common.NameText(nd.Path)+":"+fl(nd.HasName, "n")+fl(len(nd.NextHops) > 0, "h")+fl(nd.Strategy != nil, "s"))
	}
	sort.Strings(out)
	return strings.Join(out, ";")
}

// dumpHash: real names, then virtual entries <virtual name>:<md>:<number of recorded names>, sorted.
func dumpHash() string {
	_, real, virt := hash.VerifDump()
	byHash := map[uint64]string{}
	for _, n := range univ {
		for k := 0; k <= len(n); k++ {
			byHash[n[:k].Hash()] = common.NameText(n[:k])
		}
	}
	var r, v []string
	for _, e := range real {
		r = append(r, common.NameText(e.Name))
	}
	for _, e := range virt {
		nm, ok := byHash[e.Hash]
		if !ok {
			nm = "?"
		}
		md := "-"
		if e.InVirt {
			md = strconv.Itoa(e.Md)
		}
		cnt := "-"
		if e.InNames {
			cnt = strconv.Itoa(len(e.NamesBytes))
		}
		v = append(v, nm+":"+md+":"+cnt)
	}
	sort.Strings(r)
	sort.Strings(v)
	return "real=" + strings.Join(r, ";") + " virt=" + strings.Join(v, ";")
}

// ownMode: how the caller treats the names it hands to the tables. 0: every name is a fresh value
// the caller never touches again. 1: the caller REUSES its name memory after the call returns (a name
// decoded from a packet buffer that is recycled): the harness overwrites every component of every
// name it passed (types, value bytes and the slice itself) once the call is over — a table that keeps
// the caller's slice instead of a copy then lists / prunes by a name nobody registered. 2: the same,
// and the root is passed as a nil Name (enc.Name(nil) is the root as much as enc.Name{} is).
var ownMode int
var owned []enc.Name

// own parses a name that is handed to a table operation
func own(s string) enc.Name {
	n := common.ParseNameText(s)
	if ownMode == 2 && len(n) == 0 {
		return nil
	}
	if ownMode >= 1 {
		owned = append(owned, n)
	}
	return n
}

// scribble: the caller reuses the memory of every name it passed during the operation
func scribble() {
	for _, n := range owned {
		for i := range n {
			for j := range n[i].Val {
				n[i].Val[j] ^= 0x5a
			}
			n[i] = enc.Component{Typ: 0xdead, Val: []byte("reused")}
		}
	}
	owned = owned[:0]
}

func exec(op string) string {
	defer scribble()
	return exec1(op)
}

func exec1(op string) string {
	f := common.Fields(op)
	if f[0] != "new" && tree == nil {
		return "skip"
	}
	switch f[0] {
	case "own":
		ownMode = common.Atoi(f[1])
		return "ok"
	case "new":
		ownMode = 0
		m := common.Atoi(f[1])
		univ = univ[:0]
		for _, s := range strings.Split(f[2], ",") {
			univ = append(univ, common.ParseNameText(s))
		}
		if c := checkHashes(univ); c != "" {
			tree, hash = nil, nil
			return c
		}
		tree = table.VerifNewFibTree()
		hash = table.VerifNewFibHashTable(uint16(m))
		return "ok " + stratText(tree.FindStrategyEnc(enc.Name{})) + " " + stratText(hash.FindStrategyEnc(enc.Name{}))
	case "ins":
		n, face, cost := f[1], common.Atou(f[2]), common.Atou(f[3])
		return each(func(t table.FibStrategy) { t.InsertNextHopEnc(own(n), face, cost) })
	case "rem":
		n, face := f[1], common.Atou(f[2])
		return each(func(t table.FibStrategy) { t.RemoveNextHopEnc(own(n), face) })
	case "clr":
		return each(func(t table.FibStrategy) { t.ClearNextHopsEnc(own(f[1])) })
	case "rep": // <name>=<f:c,f:c|->;<name>=…  one ReplaceNextHopsEnc call
		return each(func(t table.FibStrategy) {
			var ups []table.FibNextHopsUpdate
			for _, part := range strings.Split(f[1], ";") {
				kv := strings.SplitN(part, "=", 2)
				up := table.FibNextHopsUpdate{Name: own(kv[0])}
				if kv[1] != "-" {
					for _, h := range strings.Split(kv[1], ",") {
						fcs := strings.SplitN(h, ":", 2)
						up.NextHops = append(up.NextHops, table.FibNextHopEntry{Nexthop: common.Atou(fcs[0]), Cost: common.Atou(fcs[1])})
					}
				}
				ups = append(ups, up)
			}
			t.ReplaceNextHopsEnc(ups)
		})
	case "sets":
		return each(func(t table.FibStrategy) { t.SetStrategyEnc(own(f[1]), own(f[2])) })
	case "unsets":
		if f[1] == "/" {
			return "skip" // not producible through management (strategy-choice/unset rejects the root)
		}
		return each(func(t table.FibStrategy) { t.UnSetStrategyEnc(own(f[1])) })
	case "qa":
		return both(func(t table.FibStrategy) string {
			s := make([]string, len(univ))
			for i, n := range univ {
				s[i] = item(t, n)
			}
			return strings.Join(s, "|")
		})
	case "q":
		n := common.ParseNameText(f[1])
		return both(func(t table.FibStrategy) string { return item(t, n) })
	case "wb":
		return "T " + dumpTree() + " H " + dumpHash()
	case "lf":
		return both(listFib)
	case "ls":
		return both(listStrat)
	}
	return "bad-op"
}

func TestVerif(t *testing.T) { common.Main(t, gen, exec) }
