// Package c07 (non-test part): hand-encoding of small Data packets, shared with harness/c08.
package c07

import (
	enc "github.com/named-data/ndnd/std/encoding"
)

// ------------------------------------------------------------------ wire building (generator)

func tlv(typ byte, val []byte) []byte {
	if len(val) >= 253 {
		panic("harness: long tlv")
	}
	return append([]byte{typ, byte(len(val))}, val...)
}

func natBytes(v uint64) []byte {
	switch {
	case v < 1<<8:
		return []byte{byte(v)}
	case v < 1<<16:
		return []byte{byte(v >> 8), byte(v)}
	case v < 1<<32:
		return []byte{byte(v >> 24), byte(v >> 16), byte(v >> 8), byte(v)}
	}
	panic("harness: big nat")
}

// DataWire hand-encodes a small Data packet (Name, MetaInfo{FreshnessPeriod}?, Content, DigestSha256-less
// signature block with an empty value: the CS never validates signatures).
func DataWire(name enc.Name, freshMs int, content []byte) []byte {
	var body []byte
	body = append(body, name.Bytes()...)
	if freshMs >= 0 {
		body = append(body, tlv(0x14, tlv(0x19, natBytes(uint64(freshMs))))...)
	}
	body = append(body, tlv(0x15, content)...)
	body = append(body, tlv(0x16, tlv(0x1b, []byte{0}))...)
	body = append(body, tlv(0x17, nil)...)
	return tlv(0x06, body)
}

