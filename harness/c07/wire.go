// Package c07 (non-test part): hand-encoding of small Data packets, shared with harness/c08.
package c07

import (
	enc "github.com/named-data/ndnd/std/encoding"
	"verif/harness/common"
)

// twinTypes: generic, implicit-digest-like, keyword, segment, version component types, and legal types beyond one
// byte (1..65535) that agree with a small one in their low byte(s): 264 = 8 + 256, 288 = 32 + 256, 520 = 8 + 512
var twinTypes = []enc.TLNum{8, 9, 32, 50, 54, 8, 32, 264, 288, 520, 65535}

// Twin returns a copy of n in which one component has another TLV type and the same value bytes
// (names that differ only in a component type), occasionally also a zero byte in front of the value
// (the same number in a wider encoding).
func Twin(r *common.Rand, n enc.Name) enc.Name {
	if len(n) == 0 {
		return n
	}
	out := n.Clone()
	i := r.Intn(len(out))
	out[i] = enc.Component{Typ: common.Pick(r, twinTypes), Val: append([]byte{}, out[i].Val...)}
	if r.Chance(1, 6) {
		out[i].Val = append([]byte{0}, out[i].Val...)
	}
	return out
}

// ------------------------------------------------------------------ wire building (generator)

func tlv(typ byte, val []byte) []byte {
	if len(val) >= 253 {
		panic("harness: long tlv")
	}
	return append([]byte{typ, byte(len(val))}, val...)
}

func natBytes(v uint64) []byte {
	switch {
	case v < 1<<8:
		return []byte{byte(v)}
	case v < 1<<16:
		return []byte{byte(v >> 8), byte(v)}
	case v < 1<<32:
		return []byte{byte(v >> 24), byte(v >> 16), byte(v >> 8), byte(v)}
	}
	return []byte{byte(v >> 56), byte(v >> 48), byte(v >> 40), byte(v >> 32), byte(v >> 24), byte(v >> 16), byte(v >> 8), byte(v)}
}

// DataWire hand-encodes a small Data packet (Name, MetaInfo{FreshnessPeriod}?, Content, DigestSha256-less
// signature block with an empty value: the CS never validates signatures).
func DataWire(name enc.Name, freshMs int, content []byte) []byte {
	var body []byte
	body = append(body, name.Bytes()...)
	if freshMs >= 0 {
		body = append(body, tlv(0x14, tlv(0x19, natBytes(uint64(freshMs))))...)
	}
	body = append(body, tlv(0x15, content)...)
	body = append(body, tlv(0x16, tlv(0x1b, []byte{0}))...)
	body = append(body, tlv(0x17, nil)...)
	return tlv(0x06, body)
}

