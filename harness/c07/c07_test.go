// Package c07: correspondence harness for property C07 (Content Store answers).
//
// Real code driven: table.NewPitCS, PitCsTree.InsertData / FindMatchingDataFromCS / CsSize,
// CsEntry.Copy, table.SetCsCapacity — at table level, inside a testing/synctest bubble so that
// time.Now (staleness) is a deterministic virtual clock advanced by the `adv` op.
//
//	new K                                 capacity K, fresh table            => ok
//	ins <name> <fresh-ms|-> <wirehex>     InsertData(parsed wire, wire)      => CsSize
//	find <name> <cbp> <mbf>               FindMatchingDataFromCS + Copy()    => none | <name> <wirehex>
//	cap K                                 SetCsCapacity                      => ok
//	adv <ms>                              virtual time passes                => ok
//	probe                                 which inserted names are cached    => n1,n2 | -
//	                                      (CanBePrefix lookups: they return the entry AT the node when
//	                                      there is one and do not touch the LRU order)
package c07

import (
	"sort"
	"strconv"
	"strings"
	"testing"
	"testing/synctest"
	"time"

	"github.com/named-data/ndnd/fw/core"
	"github.com/named-data/ndnd/fw/face"
	"github.com/named-data/ndnd/fw/mgmt"
	"github.com/named-data/ndnd/fw/table"
	mgmt_2022 "github.com/named-data/ndnd/std/ndn/mgmt_2022"
	enc "github.com/named-data/ndnd/std/encoding"
	spec "github.com/named-data/ndnd/std/ndn/spec_2022"
	"github.com/named-data/ndnd/std/utils"
	"verif/harness/common"
)

// ------------------------------------------------------------------ generator

func gen(g *common.Gen) {
	// consecutive VERIF_SEEDs give splitmix streams shifted by one draw: re-seed from the first draw so
	// that the batches of the thorough tier are unrelated
	base := common.NewRand(g.R.U64() ^ 0x5bd1e995c07)
	for i := 0; i < g.N; i++ {
		r := base.Fork()
		// small alphabets: equal names, prefixes and siblings are frequent
		u := common.NameUniverse{Alphabet: []string{"a", "b", "c"}[:r.Range(2, 3)], MaxDepth: r.Range(2, 4)}
		capK := common.Pick(r, []int{0, 1, r.Range(2, 8), r.Range(2, 8)})
		big := r.Chance(1, 10)
		if big {
			capK = r.Range(80, 300)
		}
		g.Op("new %d", capK)
		g.Stat("cap" + strconv.Itoa(min(capK, 4)))
		nops := r.Range(20, 80)
		seq := 0
		var inserted []enc.Name
		if big {
			// a big store whose capacity is then lowered by far more than a handful of entries: the next insertion
			// under a new name has to bring it all the way down
			fill := r.Range(70, min(capK+20, 280))
			for j := 0; j < fill; j++ {
				n := enc.Name{enc.NewStringComponent(enc.TypeGenericNameComponent, "f"), enc.NewStringComponent(enc.TypeGenericNameComponent, strconv.Itoa(j))}
				seq++
				g.Op("ins %s - %s", common.NameText(n), common.Hex(DataWire(n, -1, []byte{byte(seq >> 8), byte(seq)})))
				if j%16 == 0 {
					inserted = append(inserted, n)
				}
			}
			k := r.Range(0, 20)
			if r.Chance(1, 2) {
				g.Op("cap %d", k)
			} else {
				g.Op("mcap %d %d", k, common.Pick(r, []int{0, 1}))
			}
			n := enc.Name{enc.NewStringComponent(enc.TypeGenericNameComponent, "g")}
			seq++
			g.Op("ins %s - %s", common.NameText(n), common.Hex(DataWire(n, -1, []byte{byte(seq >> 8), byte(seq)})))
			inserted = append(inserted, n)
			g.Op("probe")
			g.Stat("big-drop")
			nops = r.Range(10, 30)
		}
		draw := func() enc.Name {
			if len(inserted) > 0 && r.Chance(1, 2) {
				n := common.Pick(r, inserted)
				switch r.Intn(6) {
				case 0: // a prefix of an inserted name
					return n[:r.Intn(len(n)+1)]
				case 1: // a typed twin of an inserted name: same value bytes, another TLV type
					return Twin(r, n)
				default:
					return n
				}
			}
			n := u.Draw(r)
			if r.Chance(1, 4) {
				n = Twin(r, n)
			}
			return n
		}
		for k := 0; k < nops; k++ {
			switch x := r.Intn(100); {
			case x < 5:
				// a refresh with byte-identical bytes after time has passed, then MustBeFresh lookups around the two
				// candidate stale instants (first insertion + F, refresh + F)
				n := draw()
				fresh := common.Pick(r, []int{10, 50, 100})
				seq++
				w := common.Hex(DataWire(n, fresh, []byte{byte(seq >> 8), byte(seq)}))
				a := common.Pick(r, []int{1, fresh / 2, fresh - 1})
				g.Op("ins %s %d %s", common.NameText(n), fresh, w)
				g.Op("adv %d", a)
				g.Op("ins %s %d %s", common.NameText(n), fresh, w)
				inserted = append(inserted, n)
				g.Op("adv %d", common.Pick(r, []int{fresh - a, fresh - a + a/2, fresh - 1, fresh, fresh + 1}))
				g.Op("find %s 0 1", common.NameText(n))
				if r.Chance(1, 2) {
					g.Op("find %s 1 1", common.NameText(n))
				}
				g.Stat("ins-identical")
			case x < 40:
				n := draw()
				fresh := -1
				switch r.Intn(5) {
				case 0:
				case 1:
					fresh = 0
				default:
					fresh = common.Pick(r, []int{1, 5, 10, 50, 100, 1000})
					if r.Chance(1, 6) {
						// very long freshness periods: up to the largest period a time.Duration holds
						// (insertion time + period lies beyond the year 2262, where UnixNano wraps)
						fresh = common.Pick(r, []int{3000000000000, 7430000000000, 8000000000000, 9223372036854, 86400000 * 365,
							9223372036855, 10000000000000, 18446744073734, 9223372036854775807})
						g.Stat("ins-fresh-very-long")
					}
				}
				seq++
				w := DataWire(n, fresh, []byte{byte(seq >> 8), byte(seq)})
				fs := "-"
				if fresh >= 0 {
					fs = strconv.Itoa(fresh)
				}
				g.Op("ins %s %s %s", common.NameText(n), fs, common.Hex(w))
				inserted = append(inserted, n)
				g.Stat("ins")
			case x < 75:
				n := draw()
				cbp, mbf := r.Intn(2), r.Intn(2)
				g.Op("find %s %d %d", common.NameText(n), cbp, mbf)
				g.Stat("find-cbp" + strconv.Itoa(cbp) + "-mbf" + strconv.Itoa(mbf))
			case x < 77:
				k := r.Range(0, 8)
				if r.Chance(1, 3) {
					k = capK // back to exactly the start-up capacity
				}
				g.Op("cap %d", k)
				g.Stat("cap")
			case x < 82:
				// the same change through the management module (cs/config), with and without Flags+Mask
				k := strconv.Itoa(r.Range(0, 8))
				if r.Chance(1, 3) {
					k = strconv.Itoa(capK)
				}
				fm := common.Pick(r, []int{0, 0, 1, 1, 1, 2})
				if r.Chance(1, 8) {
					k = "-"
				}
				g.Op("mcap %s %d", k, fm)
				g.Stat("mcap")
			case x < 92:
				g.Op("adv %d", common.Pick(r, []int{1, 4, 5, 6, 10, 49, 50, 51, 100, 500, 1000}))
				g.Stat("adv")
			default:
				g.Op("probe")
				g.Stat("probe")
			}
		}
		g.Op("probe")
	}
}

// ------------------------------------------------------------------ executor

var (
	cfgC07   *core.Config
	mg       *mgmt.Thread
	mgTr     *face.InternalTransport
	pc       *table.PitCsTree
	seen     map[string]enc.Name
	hashClash bool
)

func mkInterest(n enc.Name, cbp, mbf bool) *spec.Interest {
	return &spec.Interest{NameV: n, CanBePrefixV: cbp, MustBeFreshV: mbf, NonceV: utils.IdPtr(uint32(1))}
}

// answers of earlier hits of this history, exactly as FindMatchingDataFromCS / Copy returned them
type hit struct {
	d    *spec.Data
	w    []byte
	text string
}

var hits []hit

// hitsStable: "" while every earlier answer still is the packet it was, else " hs=0:<index>"
func hitsStable() string {
	for i, h := range hits {
		ok := func() (ok bool) {
			defer func() {
				if recover() != nil {
					ok = false
				}
			}()
			return common.NameText(h.d.NameV)+" "+common.Hex(h.w) == h.text
		}()
		if !ok {
			return " hs=0:" + strconv.Itoa(i)
		}
	}
	return ""
}

func exec(op string) string {
	f := common.Fields(op)
	if f[0] != "new" && pc == nil {
		return "skip"
	}
	switch f[0] {
	case "new":
		// the store starts from a CONFIGURED capacity (start-up value in the core config), as the daemon does
		cfgC07.Tables.ContentStore.Capacity = uint16(common.Atoi(f[1]))
		table.Configure()
		pc = table.NewPitCS(func(table.PitEntry) {})
		go func(c <-chan struct{}) { <-c }(pc.UpdateTimer()) // consume the single armed update signal
		seen = map[string]enc.Name{}
		hits = nil
		return "ok"
	case "ins":
		wire := common.UnHex(f[3])
		pkt, _, err := spec.ReadPacket(enc.NewBufferReader(wire))
		if err != nil || pkt.Data == nil {
			return "bad-op"
		}
		d := pkt.Data
		want := common.ParseNameText(f[1])
		if !d.NameV.Equal(want) {
			return "bad-op"
		}
		fs := "-"
		if d.MetaInfo != nil && d.MetaInfo.FreshnessPeriod != nil {
			fs = strconv.FormatInt(d.MetaInfo.FreshnessPeriod.Milliseconds(), 10)
		}
		if fs != f[2] && !(len(f[2]) >= 13 && f[2] > "9223372036854" || len(f[2]) > 13) {
			return "bad-op" // (periods beyond a time.Duration: what the decoder made of them is under test)
		}
		// assumption A-hash, checked: distinct names of the run have distinct hashes
		// (a hash shared by two distinct names is not reported here: it shows as a wrong answer or size)
		seen[f[1]] = want
		pc.InsertData(d, wire)
		return strconv.Itoa(pc.CsSize()) + hitsStable()
	case "find":
		n := common.ParseNameText(f[1])
		e := pc.FindMatchingDataFromCS(mkInterest(n, f[2] == "1", f[3] == "1"))
		if e == nil {
			return "none"
		}
		d, w, err := e.Copy()
		if err != nil || d == nil {
			return "copy-error"
		}
		// the answer of a hit is handed to a face's send queue and may sit there while the store goes
		// on admitting and evicting: it is kept (uncopied) and looked at again after every insertion
		if len(hits) < 64 {
			hits = append(hits, hit{d, w, common.NameText(d.NameV) + " " + common.Hex(w)})
		}
		return common.NameText(d.NameV) + " " + common.Hex(w)
	case "cap":
		table.SetCsCapacity(common.Atoi(f[1]))
		return "ok"
	case "mcap":
		args := &mgmt_2022.ControlArgs{}
		if f[1] != "-" {
			args.Capacity = utils.IdPtr(common.Atou(f[1]))
		}
		if f[2] != "0" {
			args.Flags = utils.IdPtr(uint64(3))
		}
		if f[2] == "1" {
			args.Mask = utils.IdPtr(uint64(3))
		}
		params := (&mgmt_2022.ControlParameters{Val: args}).Bytes()
		name, _ := enc.NameFromStr("/localhost/nfd/cs/config")
		name = append(name, enc.NewBytesComponent(enc.TypeGenericNameComponent, params))
		face.VerifC16TakeSent(mgTr)
		if !mg.VerifC07Dispatch(&spec.Interest{NameV: name, NonceV: utils.IdPtr(uint32(7))}, 1) {
			return "no-module"
		}
		frames := face.VerifC16TakeSent(mgTr)
		if len(frames) != 1 {
			return "responses=" + strconv.Itoa(len(frames))
		}
		lp, _, err := spec.ReadPacket(enc.NewBufferReader(frames[0]))
		if err != nil || lp.LpPacket == nil {
			return "bad-response"
		}
		inner, _, err := spec.ReadPacket(enc.NewWireReader(lp.LpPacket.Fragment))
		if err != nil || inner.Data == nil {
			return "bad-response"
		}
		resp, err := mgmt_2022.ParseControlResponse(enc.NewWireReader(inner.Data.ContentV), true)
		if err != nil || resp.Val == nil {
			return "bad-response"
		}
		echo := "-"
		if resp.Val.Params != nil && resp.Val.Params.Capacity != nil {
			echo = strconv.FormatUint(*resp.Val.Params.Capacity, 10)
		}
		return strconv.FormatUint(resp.Val.StatusCode, 10) + " " + echo
	case "adv":
		time.Sleep(time.Duration(common.Atoi(f[1])) * time.Millisecond)
		return "ok"
	case "probe":
		var out []string
		for txt, n := range seen {
			e := pc.FindMatchingDataFromCS(mkInterest(n, true, false))
			if e == nil {
				continue
			}
			d, _, err := e.Copy()
			if err == nil && d != nil && d.NameV.Equal(n) {
				out = append(out, txt)
			}
		}
		if len(out) == 0 {
			return "-"
		}
		sort.Strings(out)
		return strings.Join(out, ",")
	}
	return "bad-op"
}

func TestVerif(t *testing.T) {
	cfg := core.DefaultConfig()
	cfgC07 = cfg
	cfg.Core.LogLevel = "FATAL"
	core.LoadConfig(cfg, "")
	core.InitializeLogger("/dev/null")
	cfg.Tables.Rib.ReadvertiseNlsr = false
	face.Configure()
	table.Configure()
	mgmt.Configure()
	mg, mgTr = mgmt.VerifC07NewMgmt()
	synctest.Test(t, func(t *testing.T) {
		common.Main(t, gen, exec)
		time.Sleep(time.Second) // let the last armed update signal fire and be consumed
	})
}
