// Package c16: concurrency harness for property C16 (shared tables tolerate concurrent updates,
// teardown and lookups).  Several goroutines issue RIB / strategy operations and lookups against
// ONE real RIB on top of ONE real FIB (name tree or hash table); every operation is recorded with
// the ticks of a global atomic counter at invocation and return.  The binary is built with the
// race detector (GORACE=halt_on_error=1): a data race kills the process and is reported as CRASH.
// The recorded history is checked for linearizability by the Lean driver (Driver/C16.lean).
package c16

import (
	"fmt"
	"os"
	"runtime"
	"sort"
	"strconv"
	"strings"
	"sync"
	"sync/atomic"
	"testing"
	"time"

	"github.com/named-data/ndnd/fw/core"
	defn "github.com/named-data/ndnd/fw/defn"
	"github.com/named-data/ndnd/fw/dispatch"
	"github.com/named-data/ndnd/fw/face"
	"github.com/named-data/ndnd/fw/mgmt"
	"github.com/named-data/ndnd/fw/table"
	enc "github.com/named-data/ndnd/std/encoding"
	mg "github.com/named-data/ndnd/std/ndn/mgmt_2022"
	spec "github.com/named-data/ndnd/std/ndn/spec_2022"
	"github.com/named-data/ndnd/std/utils"
	"verif/harness/common"
)

// ---------------------------------------------------------------- generator

var comps = []string{"a", "b"}

func genUniverse(r *common.Rand) []enc.Name {
	u := common.NameUniverse{Alphabet: comps, MaxDepth: 3}.All() // 15 names incl. the root
	// keep the root, and a random subset that is dense around one branch (contention)
	out := []enc.Name{{}}
	for _, n := range u[1:] {
		if r.Chance(2, 3) {
			out = append(out, n)
		}
	}
	return out
}

var strategies = []string{"/8:6c6f63616c686f7374/8:6e6664/8:7374726174656779/8:626573742d726f757465/54:01",
	"/8:6c6f63616c686f7374/8:6e6664/8:7374726174656779/8:6d756c746963617374/54:01"}

// prefixes below /f are managed by direct FIB commands only (never by the RIB)
var directPrefixes = []string{"/8:66", "/8:66/8:61", "/8:66/8:61/8:62", "/8:66/8:62"}

// directHeavy histories concentrate on the prefixes managed by direct FIB commands
var directHeavy bool

// clientHeavy histories register mostly routes of origin client (65): the ones the RIB hands to the
// NLSR readvertiser (same prefix over several faces, withdrawn one by one)
var clientHeavy bool

func genOrigin(r *common.Rand) uint64 {
	if clientHeavy && r.Chance(4, 5) {
		return 65
	}
	return common.Pick(r, []uint64{0, 65, 255})
}

func genWrite(r *common.Rand, g *common.Gen, u []enc.Name, faces []uint64) string {
	if r.Chance(1, 4) || (directHeavy && r.Chance(3, 4)) {
		n := common.Pick(r, directPrefixes)
		if r.Chance(3, 5) {
			g.Stat("op-fib-insert")
			return fmt.Sprintf("fins,%s,%d,%d", n, common.Pick(r, []uint64{5, 6, 7, 8, 9, 10, 11}), common.Pick(r, []uint64{0, 1, 5, 10, 77}))
		}
		g.Stat("op-fib-remove")
		return fmt.Sprintf("frem,%s,%d", n, common.Pick(r, []uint64{5, 6, 7, 8, 9, 10, 11}))
	}
	n := common.NameText(common.Pick(r, u))
	switch k := r.Intn(10); {
	case k < 5:
		g.Stat("op-reg")
		return fmt.Sprintf("reg,%s,%d,%d,%d,%d", n, common.Pick(r, faces), genOrigin(r),
			common.Pick(r, []uint64{0, 1, 5, 10, 77}), r.Intn(4))
	case k < 7:
		g.Stat("op-unreg")
		return fmt.Sprintf("unreg,%s,%d,%d", n, common.Pick(r, faces), genOrigin(r))
	case k < 8:
		g.Stat("op-cleanup")
		return fmt.Sprintf("cleanup,%d", common.Pick(r, faces))
	case k < 9:
		g.Stat("op-sets")
		return fmt.Sprintf("sets,%s,%s", n, common.Pick(r, strategies))
	default:
		if n == "/" { // management refuses to unset the root strategy
			g.Stat("op-sets")
			return fmt.Sprintf("sets,%s,%s", n, common.Pick(r, strategies))
		}
		g.Stat("op-unsets")
		return fmt.Sprintf("unsets,%s", n)
	}
}

func genRead(r *common.Rand, g *common.Gen, u []enc.Name) string {
	// lookups of names at and below the universe prefixes
	n := common.Pick(r, u)
	if r.Chance(1, 4) || (directHeavy && r.Chance(3, 4)) {
		n = common.ParseNameText(common.Pick(r, directPrefixes))
	}
	if r.Chance(1, 2) {
		n = append(n.Clone(), enc.NewStringComponent(enc.TypeGenericNameComponent, common.Pick(r, []string{"a", "b", "x"})))
	}
	switch k := r.Intn(10); {
	case k < 6:
		g.Stat("op-nh")
		return "nh," + common.NameText(n)
	case k < 8:
		g.Stat("op-st")
		return "st," + common.NameText(n)
	case k < 9:
		g.Stat("op-lf")
		return "lf"
	default:
		g.Stat("op-lr")
		return "lr"
	}
}

func gen(g *common.Gen) {
	r := g.R
	maxG := 6
	if common.Thorough() {
		maxG = 16
	}
	for i := 0; i < g.N; i++ {
		kind := "tree"
		if r.Chance(1, 2) {
			kind = "hash:" + strconv.Itoa(r.Range(1, 4))
		}
		// a third of the histories issue route registrations through the real management module; there the
		// mutations all come from ONE goroutine (the management thread), as in the daemon
		viaMgmt := r.Chance(1, 3)
		if viaMgmt {
			g.Stat("histories-via-management")
			g.Op("new %s %s mgmt", kind, strategies[0])
		} else {
			g.Op("new %s %s", kind, strategies[0])
		}
		u := genUniverse(r)
		faces := []uint64{5, 6, 7, 8}[:r.Range(2, 4)]
		directHeavy = r.Chance(1, 3)
		clientHeavy = !directHeavy && r.Chance(1, 2)
		if clientHeavy {
			g.Stat("histories-client-origin-heavy")
		}
		if directHeavy {
			g.Stat("histories-direct-fib-heavy")
			// several next hops per directly managed prefix, so that removals shift elements in place
			for _, d := range directPrefixes[:r.Range(1, 2)] {
				for f := uint64(5); f < uint64(r.Range(8, 12)); f++ {
					g.Op("fins,%s,%d,%d", d, f, common.Pick(r, []uint64{0, 1, 5, 10, 77}))
				}
			}
		}
		for k := r.Range(0, 6); k > 0; k-- {
			g.Op("%s", genWrite(r, g, u, faces))
		}
		ng := r.Range(2, maxG)
		threads := make([]string, ng)
		writers := 0
		for t := 0; t < ng; t++ {
			isReader := t > 0 && (r.Chance(2, 5) || viaMgmt)
			if !isReader {
				writers++
			}
			nops := r.Range(2, 7)
			if ng > 6 { // many goroutines: fewer operations each, the linearizability search stays small
				nops = r.Range(1, 3)
			}
			ops := make([]string, nops)
			for k := range ops {
				if viaMgmt && t > 0 && r.Chance(1, 5) {
					ops[k] = fmt.Sprintf("cleanup,%d", common.Pick(r, faces)) // face teardown runs on the face's own goroutine
					g.Stat("op-cleanup")
				} else if isReader || r.Chance(1, 4) {
					ops[k] = genRead(r, g, u)
				} else {
					ops[k] = genWrite(r, g, u, faces)
				}
			}
			threads[t] = strings.Join(ops, ";")
		}
		g.StatN("goroutines", ng)
		if writers >= 2 {
			g.Stat("histories-with-2+-writers")
		}
		for k := r.Range(2, 5); k > 0; k-- {
			g.Op("faces,%d", r.Range(2, 8))
			g.Stat("op-face-table-round")
		}
		if i%8 == 3 {
			g.Op("latereg,%s", common.NameText(common.Pick(r, u)))
			g.Stat("op-late-register")
		}
		if i == 5 || i == 85 {
			// one RIB operation over many prefixes (a few, and more than 256) is one step towards lookups
			g.Op("atomic,%d", common.Pick(r, []int{3, 40}))
			g.Op("atomic,%d", common.Pick(r, []int{257, 300}))
			g.Stat("op-operation-atomic")
		}
		g.Op("adv")
		if r.Chance(1, 2) {
			// the life of a real face: registered, (destroyed through management,) a late route, transport closes
			g.Op("life,%d,%s,%s", r.Intn(2), common.NameText(common.Pick(r, u)), common.NameText(common.Pick(r, u)))
			g.Stat("op-face-life")
		}
		g.Op("par %s", strings.Join(threads, " | "))
		// final observation: the whole RIB, strategy table, FIB and a lookup per universe name
		g.Op("lr")
		g.Op("adv")
		g.Op("ls")
		g.Op("lf")
		for _, d := range directPrefixes {
			g.Op("nh,%s", d)
			g.Op("nh,%s/8:78", d)
		}
		for _, n := range u {
			g.Op("nh,%s", common.NameText(n))
			g.Op("nh,%s", common.NameText(append(n.Clone(), enc.NewStringComponent(enc.TypeGenericNameComponent, "x"))))
		}
	}
}

// ---------------------------------------------------------------- executor

var (
	fib  table.FibStrategy
	rib  *table.RibTable
	tick atomic.Uint64

	// the real NLSR readvertiser of this history, the transport its commands queue on, the commands
	// taken from there so far ("r:<name>" / "u:<name>", in queue order) and the names seen (by hash)
	rv      *mgmt.NlsrReadvertiser
	rvT     *face.InternalTransport
	rvSeq   []string
	rvNames map[uint64]string

	// set by the watchdog: goroutines of this history are blocked inside the tables (they may still hold
	// references to them, so the tables are left alone and the rest of the history is skipped)
	wedged bool
)

func init() {
	// the readvertiser logs every command and queues it on an internal transport: quiet logger, and the
	// configured face queue size (1024) instead of the zero value (an unbuffered queue would block the sender)
	cfg := core.DefaultConfig()
	cfg.Core.LogLevel = "FATAL"
	cfg.Tables.Rib.ReadvertiseNlsr = false // the harness installs its own (real) readvertiser per history
	core.LoadConfig(cfg, "")
	core.InitializeLogger(os.DevNull)
	face.Configure()
	// the real management thread (detached internal transport) and four real faces for the logical
	// faces 5..8: rib/register refuses a face that is not in the face table
	mgmtT, mgmtTr = mgmt.VerifC07NewMgmt()
	for l := uint64(5); l <= 8; l++ {
		ls := face.MakeNullLinkService(face.MakeNullTransport())
		face.FaceTable.Add(ls)
		realFace[l] = ls.FaceID()
		logicalFace[ls.FaceID()] = l
	}
}

var (
	mgmtT       *mgmt.Thread
	mgmtTr      *face.InternalTransport
	mgmtMode    bool // this history issues reg / unreg through the real rib/register and rib/unregister handlers
	realFace    = map[uint64]uint64{}
	logicalFace = map[uint64]uint64{}
)

// rf / lf translate between the logical face numbers of the op lines and the identifiers the face table gave
func rf(l uint64) uint64 {
	if r, ok := realFace[l]; ok {
		return r
	}
	return l + 1000000 // faces used by direct FIB commands only: never in the face table
}

func lf(r uint64) uint64 {
	if l, ok := logicalFace[r]; ok {
		return l
	}
	if r >= 1000000 {
		return r - 1000000
	}
	return r
}

// ribCommand runs /localhost/nfd/rib/<verb>/<ControlParameters> through the real management module
func ribCommand(verb string, args *mg.ControlArgs, inFace uint64) {
	name, _ := enc.NameFromStr("/localhost/nfd/rib/" + verb)
	params := &mg.ControlParameters{Val: args}
	name = append(name, enc.NewBytesComponent(enc.TypeGenericNameComponent, params.Encode().Join()))
	mgmtT.VerifC07Dispatch(&spec.Interest{NameV: name}, inFace)
}

// drainReadvertiser takes the commands the readvertiser queued since the last call.
func drainReadvertiser() {
	if rvT == nil {
		return
	}
	for _, frame := range face.VerifC16TakeSent(rvT) {
		rvSeq = append(rvSeq, decodeCommand(frame))
	}
}

func decodeCommand(frame []byte) string {
	pkt, _, err := spec.ReadPacket(enc.NewBufferReader(frame))
	if err != nil || pkt.LpPacket == nil {
		return "?:lp"
	}
	inner, _, err := spec.ReadPacket(enc.NewWireReader(pkt.LpPacket.Fragment))
	if err != nil || inner.Interest == nil {
		return "?:interest"
	}
	n := inner.Interest.NameV
	if len(n) < 5 || n[0].String() != "localhost" || n[1].String() != "nlsr" || n[2].String() != "rib" {
		return "?:name"
	}
	cp, err := mg.ParseControlParameters(enc.NewBufferReader(n[4].Val), true)
	if err != nil || cp.Val == nil {
		return "?:params"
	}
	switch n[3].String() {
	case "register":
		return "r:" + common.NameText(cp.Val.Name)
	case "unregister":
		return "u:" + common.NameText(cp.Val.Name)
	}
	return "?:verb"
}

// faceLife: a real NDNLPv2 face over an in-memory transport is started (registering itself), gets a route,
// is optionally destroyed the way faces/destroy does it (taken out of the tables, transport left open), gets a
// late route, and then its transport closes: the link service's own teardown must leave no route of the face.
func faceLife(destroyFirst bool, n1, n2 enc.Name) string {
	uri := func(s string) *defn.URI {
		u := defn.DecodeURIString(s)
		if u == nil || u.Canonize() != nil {
			panic("harness: bad uri " + s)
		}
		return u
	}
	tr := face.MakeVerifC17Transport(uri("udp4://198.51.100.9:6363"), uri("udp4://198.51.100.1:6363"), defn.NonLocal, defn.MaxNDNPacketSize)
	ls := face.MakeVerifC17Face(tr, face.MakeNDNLPLinkServiceOptions())
	ls.Run(nil)
	id := ls.FaceID()
	rib.AddEncRoute(n1, &table.Route{FaceID: id, Origin: 0, Cost: 3, Flags: 1})
	if destroyFirst {
		face.FaceTable.Remove(id)
	}
	rib.AddEncRoute(n2, &table.Route{FaceID: id, Origin: 0, Cost: 4, Flags: 1})
	tr.Close()
	left := -1
	for i := 0; i < 400; i++ { // up to 2 s for the link service's send goroutine to tear the face down
		left = 0
		for _, e := range rib.GetAllEntries() {
			for _, rt := range e.GetRoutes() {
				if rt.FaceID == id {
					left++
				}
			}
		}
		if left == 0 && face.FaceTable.Get(id) == nil {
			break
		}
		time.Sleep(5 * time.Millisecond)
	}
	return fmt.Sprintf("routes-left=%d registered=%v", left, face.FaceTable.Get(id) != nil)
}

func renderAdv() string {
	var kv [][2]string
	for h, c := range mgmt.VerifC16Advertised(rv) {
		if c == 0 {
			continue
		}
		n, ok := rvNames[h]
		if !ok {
			n = fmt.Sprintf("?%x", h)
		}
		kv = append(kv, [2]string{n, strconv.Itoa(c)})
	}
	nr, nu := 0, 0
	for _, c := range rvSeq {
		if strings.HasPrefix(c, "r:") {
			nr++
		} else if strings.HasPrefix(c, "u:") {
			nu++
		}
	}
	return fmt.Sprintf("%s reg=%d unreg=%d | %s", renderListing(kv), nr, nu, strings.Join(rvSeq, " "))
}

func renderHops(hs []*table.FibNextHopEntry) string {
	if len(hs) == 0 {
		return "-"
	}
	// what best-route does with the result: sort it in place, then read it
	sort.Slice(hs, func(i, j int) bool { return hs[i].Cost < hs[j].Cost })
	parts := make([]string, len(hs))
	for i, h := range hs {
		parts[i] = fmt.Sprintf("%d:%d", lf(h.Nexthop), h.Cost)
	}
	sort.Slice(parts, func(i, j int) bool {
		a, b := strings.Split(parts[i], ":"), strings.Split(parts[j], ":")
		x, _ := strconv.ParseUint(a[0], 10, 64)
		y, _ := strconv.ParseUint(b[0], 10, 64)
		if x != y {
			return x < y
		}
		cx, _ := strconv.ParseUint(a[1], 10, 64)
		cy, _ := strconv.ParseUint(b[1], 10, 64)
		return cx < cy
	})
	return strings.Join(parts, ",")
}

func renderListing(kv [][2]string) string {
	if len(kv) == 0 {
		return "-"
	}
	sort.Slice(kv, func(i, j int) bool {
		if kv[i][0] != kv[j][0] {
			return kv[i][0] < kv[j][0]
		}
		return kv[i][1] < kv[j][1]
	})
	parts := make([]string, len(kv))
	for i, p := range kv {
		parts[i] = p[0] + "=" + p[1]
	}
	return strings.Join(parts, ";")
}

func doOp(op string) string {
	f := strings.Split(op, ",")
	switch f[0] {
	case "adv":
		return renderAdv()
	case "life":
		return faceLife(f[1] == "1", common.ParseNameText(f[2]), common.ParseNameText(f[3]))
	case "reg":
		if mgmtMode {
			ribCommand("register", &mg.ControlArgs{Name: common.ParseNameText(f[1]), FaceId: utils.IdPtr(rf(common.Atou(f[2]))),
				Origin: utils.IdPtr(common.Atou(f[3])), Cost: utils.IdPtr(common.Atou(f[4])), Flags: utils.IdPtr(common.Atou(f[5]))}, rf(common.Atou(f[2])))
			return "ok"
		}
		rib.AddEncRoute(common.ParseNameText(f[1]), &table.Route{FaceID: rf(common.Atou(f[2])), Origin: common.Atou(f[3]),
			Cost: common.Atou(f[4]), Flags: common.Atou(f[5])})
		return "ok"
	case "unreg":
		if mgmtMode {
			ribCommand("unregister", &mg.ControlArgs{Name: common.ParseNameText(f[1]), FaceId: utils.IdPtr(rf(common.Atou(f[2]))),
				Origin: utils.IdPtr(common.Atou(f[3]))}, rf(common.Atou(f[2])))
			return "ok"
		}
		rib.RemoveRouteEnc(common.ParseNameText(f[1]), rf(common.Atou(f[2])), common.Atou(f[3]))
		return "ok"
	case "cleanup":
		rib.CleanUpFace(rf(common.Atou(f[1])))
		return "ok"
	case "fins":
		fib.InsertNextHopEnc(common.ParseNameText(f[1]), rf(common.Atou(f[2])), common.Atou(f[3]))
		return "ok"
	case "frem":
		fib.RemoveNextHopEnc(common.ParseNameText(f[1]), rf(common.Atou(f[2])))
		return "ok"
	case "sets":
		fib.SetStrategyEnc(common.ParseNameText(f[1]), common.ParseNameText(f[2]))
		return "ok"
	case "unsets":
		fib.UnSetStrategyEnc(common.ParseNameText(f[1]))
		return "ok"
	case "nh":
		return renderHops(fib.FindNextHopsEnc(common.ParseNameText(f[1])))
	case "st":
		s := fib.FindStrategyEnc(common.ParseNameText(f[1]))
		if s == nil {
			return "none"
		}
		return common.NameText(s)
	case "lf":
		var kv [][2]string
		for _, e := range fib.GetAllFIBEntries() {
			kv = append(kv, [2]string{common.NameText(e.Name()), renderHops(e.GetNextHops())})
		}
		return renderListing(kv)
	case "ls":
		var kv [][2]string
		for _, e := range fib.GetAllForwardingStrategies() {
			kv = append(kv, [2]string{common.NameText(e.Name()), common.NameText(e.GetStrategy())})
		}
		return renderListing(kv)
	case "lr":
		var kv [][2]string
		for _, e := range rib.GetAllEntries() {
			var rs [][4]uint64
			for _, rt := range e.GetRoutes() {
				rs = append(rs, [4]uint64{lf(rt.FaceID), rt.Origin, rt.Cost, rt.Flags})
			}
			sort.Slice(rs, func(i, j int) bool {
				for k := 0; k < 4; k++ {
					if rs[i][k] != rs[j][k] {
						return rs[i][k] < rs[j][k]
					}
				}
				return false
			})
			parts := make([]string, len(rs))
			for i, x := range rs {
				parts[i] = fmt.Sprintf("%d/%d/%d/%d", x[0], x[1], x[2], x[3])
			}
			kv = append(kv, [2]string{common.NameText(e.Name), strings.Join(parts, ",")})
		}
		return renderListing(kv)
	}
	return "bad-op"
}

// noteNames records (before anything runs) the names the operations of this line register, so that
// the readvertiser's hash-keyed counts can be printed by name.
func noteNames(op string) {
	for _, part := range strings.FieldsFunc(op, func(c rune) bool { return c == ' ' || c == ';' || c == '|' }) {
		if f := strings.Split(part, ","); f[0] == "reg" && len(f) > 1 {
			rvNames[common.ParseNameText(f[1]).Hash()] = f[1]
		}
	}
}

// exec runs one line; the commands the readvertiser queued meanwhile are taken off its transport
// afterwards (the queue holds 1024, far more than one line can produce).
func exec(op string) string {
	if rvNames != nil {
		noteNames(op)
	}
	res := exec1(op)
	drainReadvertiser()
	face.VerifC16TakeSent(mgmtTr) // responses of the management module
	return res
}

// probeFib passes every call through to the real FIB and runs `after` when a ReplaceNextHopsEnc call has returned.
type probeFib struct {
	table.FibStrategy
	after func()
	seen  []int
}

func (p *probeFib) ReplaceNextHopsEnc(updates []table.FibNextHopsUpdate) {
	p.FibStrategy.ReplaceNextHopsEnc(updates)
	p.after()
}

func exec1(op string) string {
	if wedged {
		// goroutines of an earlier history are blocked inside the tables for good: this process observes
		// nothing more (the violation has been reported; the remaining lines of the batch are skipped)
		return "skip"
	}
	if strings.HasPrefix(op, "new ") {
		f := strings.Split(op, " ")
		if strings.HasPrefix(f[1], "hash:") {
			fib = table.VerifNewFibHashTable(uint16(common.Atoi(f[1][5:])))
		} else {
			fib = table.VerifNewFibTree()
		}
		table.FibStrategyTable = fib // the RIB writes to the process global
		fib.SetStrategyEnc(enc.Name{}, common.ParseNameText(f[2]))
		rib = table.VerifResetGlobalRib() // the management module works on the process-global RIB
		mgmtMode = len(f) > 3 && f[3] == "mgmt"
		rv, rvT = mgmt.VerifC16NewReadvertiser()
		table.VerifSetReadvertisers(rv)
		rvSeq, rvNames = nil, map[uint64]string{}
		return "ok"
	}
	if fib == nil {
		return "skip"
	}
	if strings.HasPrefix(op, "atomic,") {
		// atomic,<n>: n prefixes /8:67/<i> with routes of their own; then ONE RIB operation at a time that touches all
		// of them (a child-inherit route registered above them, re-costed, the face torn down). The FIB is wrapped by
		// a pass-through that looks every prefix up after each ReplaceNextHopsEnc call the operation makes: an
		// observer between two calls of one operation must see the operation's face at all of the prefixes or at none
		n := common.Atoi(op[7:])
		if n < 1 || n > 2000 {
			return "bad-op"
		}
		g := enc.NewStringComponent(enc.TypeGenericNameComponent, "g")
		names := make([]enc.Name, n)
		for i := range names {
			names[i] = enc.Name{g, enc.NewStringComponent(enc.TypeGenericNameComponent, strconv.Itoa(i))}
			rib.AddEncRoute(names[i], &table.Route{FaceID: uint64(30 + i%3), Origin: 0, Cost: 1, Flags: 0})
		}
		const f9 = uint64(9)
		pf := &probeFib{FibStrategy: table.FibStrategyTable}
		pf.after = func() {
			c := 0
			for _, nm := range names {
				for _, nh := range pf.FibStrategy.FindNextHopsEnc(nm) {
					if nh.Nexthop == f9 {
						c++
						break
					}
				}
			}
			pf.seen = append(pf.seen, c)
		}
		table.FibStrategyTable = pf
		defer func() { table.FibStrategyTable = pf.FibStrategy }()
		torn := 0
		var calls []string
		step := func(f func()) {
			pf.seen = nil
			f()
			calls = append(calls, strconv.Itoa(len(pf.seen)))
			for _, c := range pf.seen[:max(len(pf.seen)-1, 0)] { // every observation BETWEEN two calls
				if c != 0 && c != n {
					torn++
				}
			}
		}
		step(func() { rib.AddEncRoute(enc.Name{g}, &table.Route{FaceID: f9, Origin: 0, Cost: 5, Flags: 1}) })
		step(func() { rib.AddEncRoute(enc.Name{g}, &table.Route{FaceID: f9, Origin: 0, Cost: 7, Flags: 1}) })
		step(func() { rib.CleanUpFace(f9) })
		step(func() { rib.AddEncRoute(enc.Name{g}, &table.Route{FaceID: f9, Origin: 0, Cost: 5, Flags: 1}) })
		step(func() { rib.RemoveRouteEnc(enc.Name{g}, f9, 0) })
		for _, nm := range names {
			rib.RemoveRouteEnc(nm, uint64(30), 0)
			rib.RemoveRouteEnc(nm, uint64(31), 0)
			rib.RemoveRouteEnc(nm, uint64(32), 0)
		}
		return fmt.Sprintf("n=%d torn=%d", n, torn)
	}
	if strings.HasPrefix(op, "latereg,") {
		// latereg,<name>: a face comes up, sends `rib/register <name>` for itself (no FaceId) and goes down; the
		// management thread gets to the command only after the teardown has cleaned the tables. A route to a face
		// that no longer exists must not stay behind (no later operation would ever remove it)
		ls := face.MakeNDNLPLinkService(face.VerifNewTransport(1500, defn.NonLocal), face.MakeNDNLPLinkServiceOptions())
		face.FaceTable.Add(ls)
		id := ls.FaceID()
		face.FaceTable.Remove(id)
		ribCommand("register", &mg.ControlArgs{Name: common.ParseNameText(op[8:])}, id)
		left := 0
		for _, e := range rib.GetAllEntries() {
			for _, rt := range e.GetRoutes() {
				if rt.FaceID == id {
					left++
				}
			}
		}
		for _, e := range table.FibStrategyTable.GetAllFIBEntries() {
			for _, nh := range e.GetNextHops() {
				if nh.Nexthop == id {
					left++
				}
			}
		}
		rib.CleanUpFace(id) // whatever stayed behind must not disturb the rest of the history
		return fmt.Sprintf("routes-left=%d", left)
	}
	if strings.HasPrefix(op, "faces,") {
		// K goroutines register one new face each in the global face table at the same moment;
		// every face must get its own identifier and be found under it in both tables
		k := common.Atoi(op[6:])
		faces := make([]*face.NDNLPLinkService, k)
		var wg sync.WaitGroup
		start := make(chan struct{})
		for i := 0; i < k; i++ {
			wg.Add(1)
			go func(i int) {
				defer wg.Done()
				ls := face.MakeNDNLPLinkService(face.VerifNewTransport(1500, defn.NonLocal), face.MakeNDNLPLinkServiceOptions())
				<-start
				face.FaceTable.Add(ls)
				faces[i] = ls
			}(i)
		}
		close(start)
		wg.Wait()
		distinct, consistent := true, true
		seen := map[uint64]bool{}
		for _, ls := range faces {
			id := ls.FaceID()
			if seen[id] {
				distinct = false
			}
			seen[id] = true
			if face.FaceTable.Get(id) != face.LinkService(ls) || dispatch.GetFace(id) != dispatch.Face(ls) {
				consistent = false
			}
		}
		for id := range seen {
			face.FaceTable.Remove(id)
		}
		for id := range seen {
			if face.FaceTable.Get(id) != nil || dispatch.GetFace(id) != nil {
				consistent = false
			}
		}
		return fmt.Sprintf("n=%d distinct=%v consistent=%v", k, distinct, consistent)
	}
	if strings.HasPrefix(op, "par ") {
		threads := strings.Split(op[4:], " | ")
		type rec struct {
			id       int
			inv, ret uint64
			res      string
		}
		results := make([][]rec, len(threads))
		var wg sync.WaitGroup
		start := make(chan struct{})
		var arrived atomic.Int32 // spin barrier: all goroutines begin their first operation together
		for t, spec := range threads {
			wg.Add(1)
			go func(t int, spec string) {
				defer wg.Done()
				ops := strings.Split(spec, ";")
				<-start
				arrived.Add(1)
				for spin := 0; arrived.Load() < int32(len(threads)) && spin < 1<<22; spin++ {
				}
				for k, o := range ops {
					if o == "" {
						continue
					}
					if k > 0 && (k+t)%2 == 0 {
						runtime.Gosched() // vary the interleaving between operations
					}
					inv := tick.Add(1)
					res := doOp(o)
					ret := tick.Add(1)
					results[t] = append(results[t], rec{100*t + k, inv, ret, res})
				}
			}(t, spec)
		}
		close(start)
		// watchdog: operations on in-memory tables finish in microseconds; goroutines still blocked
		// after 20 s are deadlocked (e.g. a reader re-entering the RWMutex behind a queued writer)
		done := make(chan struct{})
		go func() { wg.Wait(); close(done) }()
		select {
		case <-done:
		case <-time.After(20 * time.Second):
			wedged = true // the tables of this history are wedged: nothing more to observe
			return "CRASH TIMEOUT deadlock: goroutines of the concurrent block are still blocked after 20 s"
		}
		var parts []string
		for _, rs := range results {
			for _, r := range rs {
				parts = append(parts, fmt.Sprintf("%d,%d,%d,%s", r.id, r.inv, r.ret, r.res))
			}
		}
		return strings.Join(parts, " ")
	}
	// a sequential operation under the same watchdog (a leaked mutex wedges the next operation)
	resc := make(chan string, 1)
	go func() { resc <- doOp(op) }()
	select {
	case res := <-resc:
		return res
	case <-time.After(20 * time.Second):
		wedged = true
		return "CRASH TIMEOUT deadlock: the operation is still blocked after 20 s"
	}
}

func TestVerif(t *testing.T) { common.Main(t, gen, exec) }
