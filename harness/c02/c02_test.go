package c02

import (
	"testing"

	"verif/harness/c01/fwh"
	"verif/harness/common"
)

// TestVerif: generator profile P02 over the shared forwarding-pipeline harness (see c01/fwh).
func TestVerif(t *testing.T) { fwh.Main(t, func(g *common.Gen) { fwh.Gen(g, fwh.P02) }) }
