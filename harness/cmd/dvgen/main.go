// dvgen: regenerate the facts of the DV models (C18, C19) from the working tree with go/ast.
//
//	go run ./cmd/dvgen c18 <repo> <verif>   ->  lean/NdnVerif/Gen/C18Consts.lean  (CostInfinity)
//	go run ./cmd/dvgen c19 <repo> <verif>   ->  lean/NdnVerif/Gen/C19Consts.lean  (CostInfinity, snapshot
//	    threshold and operand order of the publisher's rule, gap threshold of the fetch rule)
//
// A site the extractor expects but cannot find is an error (broken tie), never silently defaulted.
// Files are rewritten only when their content changes (keeps lake's trace valid).
package main

import (
	"fmt"
	"go/ast"
	"go/parser"
	"go/token"
	"os"
	"path/filepath"
	"sort"
	"strconv"
	"strings"
)

func die(f string, a ...any) {
	fmt.Fprintf(os.Stderr, "dvgen: "+f+"\n", a...)
	os.Exit(1)
}

func parse(path string) *ast.File {
	fs := token.NewFileSet()
	f, err := parser.ParseFile(fs, path, nil, 0)
	if err != nil {
		die("cannot parse %s: %v", path, err)
	}
	return f
}

// value of `const <name> = uint64(<lit>)` or `const <name> = <lit>`
func constValue(f *ast.File, name string) (uint64, bool) {
	for _, d := range f.Decls {
		gd, ok := d.(*ast.GenDecl)
		if !ok || gd.Tok != token.CONST {
			continue
		}
		for _, s := range gd.Specs {
			vs := s.(*ast.ValueSpec)
			for i, n := range vs.Names {
				if n.Name != name || i >= len(vs.Values) {
					continue
				}
				e := vs.Values[i]
				if c, ok := e.(*ast.CallExpr); ok && len(c.Args) == 1 {
					e = c.Args[0]
				}
				if l, ok := e.(*ast.BasicLit); ok && l.Kind == token.INT {
					v, err := strconv.ParseUint(l.Value, 0, 64)
					if err == nil {
						return v, true
					}
				}
			}
		}
	}
	return 0, false
}

func selName(e ast.Expr) string {
	switch x := e.(type) {
	case *ast.Ident:
		return x.Name
	case *ast.SelectorExpr:
		return x.Sel.Name
	}
	return ""
}

// find `<a> - <b> <op> <lit>` inside function fn; returns (lit, name of a, name of b)
func subCompare(f *ast.File, fn string, op token.Token) (uint64, string, string, bool) {
	var lit uint64
	var a, b string
	found := 0
	for _, d := range f.Decls {
		fd, ok := d.(*ast.FuncDecl)
		if !ok || fd.Name.Name != fn || fd.Body == nil {
			continue
		}
		ast.Inspect(fd.Body, func(n ast.Node) bool {
			be, ok := n.(*ast.BinaryExpr)
			if !ok || be.Op != op {
				return true
			}
			sub, ok := be.X.(*ast.BinaryExpr)
			if !ok || sub.Op != token.SUB {
				return true
			}
			l, ok := be.Y.(*ast.BasicLit)
			if !ok || l.Kind != token.INT {
				return true
			}
			v, err := strconv.ParseUint(l.Value, 0, 64)
			if err != nil {
				return true
			}
			lit, a, b = v, selName(sub.X), selName(sub.Y)
			found++
			return true
		})
	}
	return lit, a, b, found == 1
}

// execBlocks: in NfdMgmtThread.Exec the command is sent on m.channel by a plain (blocking) send statement,
// not from a select with a default case (which would drop it when the queue is full). Also reports the
// capacity of the queue.
func execBlocks(f *ast.File) (blocks bool, found bool) {
	for _, d := range f.Decls {
		fd, ok := d.(*ast.FuncDecl)
		if !ok || fd.Name.Name != "Exec" || fd.Body == nil {
			continue
		}
		sends, inDefaultSelect := 0, 0
		ast.Inspect(fd.Body, func(n ast.Node) bool {
			switch x := n.(type) {
			case *ast.SelectStmt:
				hasDefault, hasSend := false, false
				for _, c := range x.Body.List {
					cc := c.(*ast.CommClause)
					if cc.Comm == nil {
						hasDefault = true
					} else if _, ok := cc.Comm.(*ast.SendStmt); ok {
						hasSend = true
					}
				}
				if hasSend {
					sends++
					if hasDefault {
						inDefaultSelect++
					}
				}
				return false
			case *ast.SendStmt:
				sends++
			}
			return true
		})
		return sends == 1 && inDefaultSelect == 0, sends >= 1
	}
	return false, false
}

// ---------------------------------------------------------------- task structure of the router (C18 Async model)

// fnFact: what one router method does with the router mutex and with goroutines.
type fnFact struct {
	name   string
	locks  bool       // takes dv.mutex itself (outside the goroutines it spawns)
	calls  []string   // router methods it calls directly (sorted, unique)
	spawns [][]string // per `go` statement: the router methods the new goroutine calls (sorted, unique)
	incs   []string   // router fields it increments
	// straight: the body has no branching / looping / return statement of its own (outside function literals): a
	// helper extracted from a caller ("extract method") — its calls, spawns and increments count as the caller's
	straight bool
}

func isStraight(body *ast.BlockStmt) bool {
	ok := true
	ast.Inspect(body, func(x ast.Node) bool {
		switch x.(type) {
		case *ast.FuncLit:
			return false
		case *ast.IfStmt, *ast.ForStmt, *ast.RangeStmt, *ast.SwitchStmt, *ast.TypeSwitchStmt, *ast.SelectStmt, *ast.ReturnStmt:
			ok = false
		}
		return ok
	})
	return ok
}

func recvIsRouter(e ast.Expr, recv string) bool {
	id, ok := e.(*ast.Ident)
	return ok && id.Name == recv
}

func uniqSorted(xs []string) []string {
	sort.Strings(xs)
	var out []string
	for i, x := range xs {
		if i == 0 || x != xs[i-1] {
			out = append(out, x)
		}
	}
	return out
}

// router methods called anywhere below n (receiver identifier recv), not descending into `go` statements
func routerCalls(n ast.Node, recv string, intoGo bool, locks *bool, incs *[]string, spawns *[][]string) []string {
	var calls []string
	ast.Inspect(n, func(x ast.Node) bool {
		switch v := x.(type) {
		case *ast.GoStmt:
			if intoGo {
				return true
			}
			var g []string
			if sel, ok := v.Call.Fun.(*ast.SelectorExpr); ok && recvIsRouter(sel.X, recv) {
				g = []string{sel.Sel.Name}
			} else if fl, ok := v.Call.Fun.(*ast.FuncLit); ok {
				var l bool
				var i []string
				g = routerCalls(fl.Body, recv, true, &l, &i, nil)
			}
			if spawns != nil {
				*spawns = append(*spawns, uniqSorted(g))
			}
			return false
		case *ast.CallExpr:
			if sel, ok := v.Fun.(*ast.SelectorExpr); ok {
				if recvIsRouter(sel.X, recv) {
					calls = append(calls, sel.Sel.Name)
				}
				if inner, ok := sel.X.(*ast.SelectorExpr); ok && recvIsRouter(inner.X, recv) && inner.Sel.Name == "mutex" && sel.Sel.Name == "Lock" {
					*locks = true
				}
			}
		case *ast.IncDecStmt:
			if v.Tok == token.INC {
				if sel, ok := v.X.(*ast.SelectorExpr); ok && recvIsRouter(sel.X, recv) {
					*incs = append(*incs, sel.Sel.Name)
				}
			}
		}
		return true
	})
	return calls
}

func asyncFacts(repo string, want []string) []fnFact {
	dir := filepath.Join(repo, "dv/dv")
	ents, err := os.ReadDir(dir)
	if err != nil {
		die("%v", err)
	}
	found := map[string]fnFact{}
	for _, e := range ents {
		n := e.Name()
		if !strings.HasSuffix(n, ".go") || strings.HasSuffix(n, "_test.go") || strings.HasPrefix(n, "verif_hooks") {
			continue
		}
		f := parse(filepath.Join(dir, n))
		for _, d := range f.Decls {
			fd, ok := d.(*ast.FuncDecl)
			if !ok || fd.Body == nil || fd.Recv == nil || len(fd.Recv.List) != 1 || len(fd.Recv.List[0].Names) != 1 {
				continue
			}
			recv := fd.Recv.List[0].Names[0].Name
			ff := fnFact{name: fd.Name.Name, straight: isStraight(fd.Body)}
			ff.calls = uniqSorted(routerCalls(fd.Body, recv, false, &ff.locks, &ff.incs, &ff.spawns))
			ff.incs = uniqSorted(ff.incs)
			sort.Slice(ff.spawns, func(i, j int) bool { return strings.Join(ff.spawns[i], ",") < strings.Join(ff.spawns[j], ",") })
			found[ff.name] = ff
		}
	}
	listed := map[string]bool{}
	for _, w := range want {
		listed[w] = true
	}
	// names of router methods, with straight-line helpers that the model does not name replaced by what they call
	var expand func(names []string, depth int) []string
	expand = func(names []string, depth int) []string {
		var out []string
		for _, n := range names {
			h, ok := found[n]
			if ok && !listed[n] && h.straight && depth < 4 {
				out = append(out, expand(h.calls, depth+1)...)
			} else {
				out = append(out, n)
			}
		}
		return uniqSorted(out)
	}
	var out []fnFact
	for _, w := range want {
		ff, ok := found[w]
		if !ok {
			die("dv/dv: router method %s not found (the task-level model of the advertisement machinery names it)", w)
		}
		var calls []string
		for _, c := range ff.calls {
			h, ok := found[c]
			if ok && !listed[c] && h.straight {
				calls = append(calls, expand(h.calls, 1)...)
				ff.spawns = append(ff.spawns, h.spawns...)
				ff.incs = uniqSorted(append(ff.incs, h.incs...))
				ff.locks = ff.locks || h.locks
			} else {
				calls = append(calls, c)
			}
		}
		ff.calls = uniqSorted(calls)
		for i, g := range ff.spawns {
			ff.spawns[i] = expand(g, 0)
		}
		sort.Slice(ff.spawns, func(i, j int) bool { return strings.Join(ff.spawns[i], ",") < strings.Join(ff.spawns[j], ",") })
		out = append(out, ff)
	}
	return out
}

func leanStrList(xs []string) string {
	q := make([]string, len(xs))
	for i, x := range xs {
		q[i] = strconv.Quote(x)
	}
	return "[" + strings.Join(q, ", ") + "]"
}

func leanAsyncFacts(fs []fnFact) string {
	var sb strings.Builder
	sb.WriteString("-- GENERATED by harness/cmd/dvgen from dv/dv/*.go (go/ast) — do not edit\n")
	sb.WriteString("namespace Ndn.Gen.C18Async\n\n")
	sb.WriteString("/-- what one router method does with `dv.mutex` and with goroutines: takes the mutex itself; router methods it\n")
	sb.WriteString("    calls directly; per `go` statement the router methods the spawned goroutine calls; router fields it increments -/\n")
	sb.WriteString("structure Fn where\n  name : String\n  locks : Bool\n  calls : List String\n  spawns : List (List String)\n  incs : List String\nderiving DecidableEq, Repr\n\n")
	sb.WriteString("def facts : List Fn := [\n")
	for i, f := range fs {
		var sp []string
		for _, g := range f.spawns {
			sp = append(sp, leanStrList(g))
		}
		fmt.Fprintf(&sb, "  { name := %q, locks := %v, calls := %s, spawns := [%s], incs := %s }", f.name, f.locks, leanStrList(f.calls), strings.Join(sp, ", "), leanStrList(f.incs))
		if i+1 < len(fs) {
			sb.WriteString(",")
		}
		sb.WriteString("\n")
	}
	sb.WriteString("]\n\nend Ndn.Gen.C18Async\n")
	return sb.String()
}

// callsUnderOwnLock: inside method `fn` (receiver recv) a call `recv.<callee>(…)` is made in the method body proper —
// not inside a function literal (deferred to run after the deferred Unlock, or spawned) — while the method locks
// `recv.<mutexField>` itself.
func callsUnderOwnLock(f *ast.File, fn, mutexField, callee string) (bool, bool) {
	for _, d := range f.Decls {
		fd, ok := d.(*ast.FuncDecl)
		if !ok || fd.Name.Name != fn || fd.Body == nil || fd.Recv == nil || len(fd.Recv.List) != 1 || len(fd.Recv.List[0].Names) != 1 {
			continue
		}
		recv := fd.Recv.List[0].Names[0].Name
		locks, calls := false, false
		ast.Inspect(fd.Body, func(n ast.Node) bool {
			switch v := n.(type) {
			case *ast.FuncLit:
				return false
			case *ast.CallExpr:
				if sel, ok := v.Fun.(*ast.SelectorExpr); ok {
					if recvIsRouter(sel.X, recv) && sel.Sel.Name == callee {
						calls = true
					}
					if inner, ok := sel.X.(*ast.SelectorExpr); ok && recvIsRouter(inner.X, recv) && inner.Sel.Name == mutexField && sel.Sel.Name == "Lock" {
						locks = true
					}
				}
			}
			return true
		})
		return locks && calls, true
	}
	return false, false
}

func writeIfChanged(path, content string) {
	old, err := os.ReadFile(path)
	if err == nil && string(old) == content {
		return
	}
	if err := os.MkdirAll(filepath.Dir(path), 0o755); err != nil {
		die("%v", err)
	}
	if err := os.WriteFile(path, []byte(content), 0o644); err != nil {
		die("%v", err)
	}
}

func main() {
	if len(os.Args) != 4 {
		die("usage: dvgen c18|c19 <repo> <verif>")
	}
	which, repo, verif := os.Args[1], os.Args[2], os.Args[3]
	cfg := parse(filepath.Join(repo, "dv/config/config.go"))
	inf, ok := constValue(cfg, "CostInfinity")
	if !ok {
		die("dv/config/config.go: const CostInfinity not found as an integer literal")
	}
	switch which {
	case "c18":
		writeIfChanged(filepath.Join(verif, "lean/NdnVerif/Gen/C18Consts.lean"), fmt.Sprintf(
			"-- GENERATED by harness/cmd/dvgen from dv/config/config.go — do not edit\n"+
				"namespace Ndn.Gen.C18\n\n/-- `config.CostInfinity` -/\ndef costInfinity : Nat := %d\n\nend Ndn.Gen.C18\n", inf))
		writeIfChanged(filepath.Join(verif, "lean/NdnVerif/Gen/C18Async.lean"), leanAsyncFacts(asyncFacts(repo, []string{
			"ribUpdate", "checkDeadNeighbors", "fibUpdate", "advertSyncNotifyNew", "advertSyncSendInterest",
			"advertSyncOnInterest", "advertDataFetch", "advertDataOnInterest", "advertDataHandler"})))
	case "c19":
		pt := parse(filepath.Join(repo, "dv/table/prefix_table.go"))
		ps := parse(filepath.Join(repo, "dv/dv/prefix_sync.go"))
		snap, a, b, ok := subCompare(pt, "publishOp", token.GEQ)
		if !ok {
			die("dv/table/prefix_table.go publishOp: expected exactly one `x - y >= <int>` snapshot rule")
		}
		var snapMinusSeq bool
		switch {
		case a == "snapshotAt" && b == "seq":
			snapMinusSeq = true
		case a == "seq" && b == "snapshotAt":
			snapMinusSeq = false
		default:
			die("dv/table/prefix_table.go publishOp: unrecognised operands %s - %s of the snapshot rule", a, b)
		}
		gap, c, d, ok := subCompare(ps, "prefixDataFetch", token.GTR)
		if !ok || c != "Latest" || d != "Known" {
			die("dv/dv/prefix_sync.go prefixDataFetch: expected exactly one `router.Latest - router.Known > <int>` rule")
		}
		blocks, found := execBlocks(parse(filepath.Join(repo, "dv/nfdc/nfdc.go")))
		if !found {
			die("dv/nfdc/nfdc.go: NfdMgmtThread.Exec with a send on the command channel not found")
		}
		// lock order between the router and its prefix-table sync group: SvSync delivers updates to the router's
		// callback (which takes Router.mutex) while holding SvSync.mutex?  The router calls into SvSync (IncrSeqNo via
		// PrefixTable.Announce / Withdraw, which take SvSync.mutex) while holding Router.mutex?
		svsUnder, f1 := callsUnderOwnLock(parse(filepath.Join(repo, "std/sync/svs.go")), "onReceiveStateVector", "mutex", "onUpdate")
		if !f1 {
			die("std/sync/svs.go: SvSync.onReceiveStateVector not found")
		}
		rvUnder := false
		{
			rf := parse(filepath.Join(repo, "dv/dv/readvertise.go"))
			found := false
			for _, d := range rf.Decls {
				fd, ok := d.(*ast.FuncDecl)
				if !ok || fd.Name.Name != "readvertiseOnInterest" || fd.Body == nil {
					continue
				}
				found = true
				var l bool
				var i []string
				routerCalls(fd.Body, fd.Recv.List[0].Names[0].Name, false, &l, &i, nil)
				announces := false
				ast.Inspect(fd.Body, func(n ast.Node) bool {
					if c, ok := n.(*ast.CallExpr); ok {
						if sel, ok := c.Fun.(*ast.SelectorExpr); ok && (sel.Sel.Name == "Announce" || sel.Sel.Name == "Withdraw") {
							announces = true
						}
					}
					return true
				})
				rvUnder = l && announces
			}
			if !found {
				die("dv/dv/readvertise.go: readvertiseOnInterest not found")
			}
		}
		writeIfChanged(filepath.Join(verif, "lean/NdnVerif/Gen/C19Locks.lean"), fmt.Sprintf(
			"-- GENERATED by harness/cmd/dvgen from std/sync/svs.go, dv/dv/readvertise.go (go/ast) — do not edit\n"+
				"namespace Ndn.Gen.C19\n\n/-- SvSync.onReceiveStateVector calls the application's onUpdate in its own body while it holds SvSync.mutex\n"+
				"    (false: the updates are handed over after the mutex is released) -/\ndef svsUpdateUnderLock : Bool := %v\n\n"+
				"/-- readvertiseOnInterest holds Router.mutex while PrefixTable.Announce / Withdraw call into SvSync (IncrSeqNo takes SvSync.mutex) -/\n"+
				"def announceUnderRouterLock : Bool := %v\n\nend Ndn.Gen.C19\n", svsUnder, rvUnder))
		writeIfChanged(filepath.Join(verif, "lean/NdnVerif/Gen/C19Consts.lean"), fmt.Sprintf(
			"-- GENERATED by harness/cmd/dvgen from dv/config/config.go, dv/table/prefix_table.go, dv/dv/prefix_sync.go, dv/nfdc/nfdc.go — do not edit\n"+
				"namespace Ndn.Gen.C19\n\n/-- `config.CostInfinity` -/\ndef costInfinity : Nat := %d\n\n"+
				"/-- publishOp: `if <a> - <b> >= snapshotThreshold { publishSnap() }` -/\ndef snapshotThreshold : Nat := %d\n\n"+
				"/-- operand order of that rule: true = `pt.snapshotAt - seq` (as on the pinned tree: wraps around), false = `seq - pt.snapshotAt` -/\ndef snapshotAtMinusSeq : Bool := %v\n\n"+
				"/-- prefixDataFetch: `isSnap := router.Latest-router.Known > fetchGap` -/\ndef fetchGap : Nat := %d\n\n"+
				"/-- NfdMgmtThread.Exec hands the command to the queue with a blocking send (never a select with a default that drops it) -/\ndef execSendBlocks : Bool := %v\n\nend Ndn.Gen.C19\n",
			inf, snap, snapMinusSeq, gap, blocks))
	default:
		die("unknown fact set %s", which)
	}
}
