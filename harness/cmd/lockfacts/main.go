// lockfacts: re-extracts, from the CURRENT working tree, the lock discipline facts of the shared
// forwarder tables (property C16) and writes them as a Lean table.
//
//	go run ./cmd/lockfacts <repo> <out.lean>
//
// For every exported method of FibStrategyTree, FibStrategyHashTable and RibTable (files of package
// fw/table without the verif tag) it records, purely syntactically (go/ast, no type information):
//
//	lock          "Lock" / "RLock" / "none": the first statement is  recv.<mutex>.Lock() / RLock()
//	deferUnlock   the second statement is   defer recv.<same mutex>.Unlock() / RUnlock()
//	sharedWrites  number of statements, in the method body and in every package function it can
//	              reach by name, that assign through a selector or index expression whose root
//	              variable is not a fresh local (make / new / composite literal), or call delete()
//	returnsLive   number of return statements / appends to the result that hand out a field
//	              selector or a traversal variable instead of a copy
//	lockOps       number of Lock/Unlock/RLock/RUnlock calls in the method and its callees; exactly 2 for a
//	              FIB method (the lock and its deferred unlock: the critical section is never left early)
//	reentrant     number of calls, from the method or its same-type callees, to an exported (= locking)
//	              method of the same table type (must be 0: sync.RWMutex is not re-entrant)
//	fibCalls      call sites `FibStrategyTable.<method>(…)` in the method and its same-type callees, and how
//	fibCallsInLoop many of them sit inside a loop (a RIB mutation installs its FIB changes through exactly
//	              ONE call outside any loop = one inner critical section; a RIB listing makes none)
//	callsRib      the method (transitively) mentions the identifier Rib (lock order: RIB -> FIB only)
//	ptrRecv       the method has a pointer receiver (a value receiver would lock a COPY of the table's mutex)
//
// For the NLSR readvertiser (fw/mgmt/nlsr_readvertiser.go: Announce/Withdraw run INSIDE the RIB critical
// section, on whatever goroutine changes the RIB) a second table `readvertiser` records, per exported
// method: lock = "Lock" when a top-level statement recv.mutex.Lock() exists and no statement before it
// mentions the guarded map `advertised`; deferUnlock = the statement right after it is the matching
// deferred unlock (so no path can leave with the mutex held); lockOps (2 = that pair only); sharedWrites;
// fibCalls / callsRib = mentions of FibStrategyTable / Rib (a call back into the tables would re-enter the
// RIB mutex the caller already holds).
//
// The Lean side (NdnVerif/C16/Props.lean) proves by evaluation that every method is disciplined.
// This is a fact table with stated heuristics, not a data-flow analysis: behaviour is tied by the
// race-detector / linearizability correspondence.
package main

import (
	"fmt"
	"go/ast"
	"go/parser"
	"go/token"
	"os"
	"path/filepath"
	"sort"
	"strings"
)

type fn struct {
	recv string
	decl *ast.FuncDecl
}

var tableTypes = map[string]bool{"FibStrategyTree": true, "FibStrategyHashTable": true, "RibTable": true}

func recvType(d *ast.FuncDecl) string {
	if d.Recv == nil || len(d.Recv.List) == 0 {
		return ""
	}
	t := d.Recv.List[0].Type
	if s, ok := t.(*ast.StarExpr); ok {
		t = s.X
	}
	if id, ok := t.(*ast.Ident); ok {
		return id.Name
	}
	return ""
}

// ptrRecv: the method has a pointer receiver (a value receiver copies the table, and with it its mutex)
func ptrRecv(d *ast.FuncDecl) bool {
	if d.Recv == nil || len(d.Recv.List) == 0 {
		return false
	}
	_, ok := d.Recv.List[0].Type.(*ast.StarExpr)
	return ok
}

func recvName(d *ast.FuncDecl) string {
	if d.Recv == nil || len(d.Recv.List) == 0 || len(d.Recv.List[0].Names) == 0 {
		return ""
	}
	return d.Recv.List[0].Names[0].Name
}

// lockCall matches  <recv>.<mutex>.<method>()  and returns (mutex, method)
func lockCall(e ast.Expr, recv string) (string, string) {
	c, ok := e.(*ast.CallExpr)
	if !ok || len(c.Args) != 0 {
		return "", ""
	}
	s, ok := c.Fun.(*ast.SelectorExpr)
	if !ok {
		return "", ""
	}
	m, ok := s.X.(*ast.SelectorExpr)
	if !ok {
		return "", ""
	}
	if id, ok := m.X.(*ast.Ident); !ok || id.Name != recv {
		return "", ""
	}
	return m.Sel.Name, s.Sel.Name
}

func rootIdent(e ast.Expr) string {
	for {
		switch x := e.(type) {
		case *ast.Ident:
			return x.Name
		case *ast.SelectorExpr:
			e = x.X
		case *ast.IndexExpr:
			e = x.X
		case *ast.StarExpr:
			e = x.X
		case *ast.ParenExpr:
			e = x.X
		default:
			return ""
		}
	}
}

func isFreshExpr(e ast.Expr) bool {
	switch x := e.(type) {
	case *ast.CompositeLit:
		return true
	case *ast.UnaryExpr:
		if x.Op == token.AND {
			_, ok := x.X.(*ast.CompositeLit)
			return ok
		}
	case *ast.CallExpr:
		if id, ok := x.Fun.(*ast.Ident); ok && (id.Name == "make" || id.Name == "new") {
			return true
		}
	}
	return false
}

type facts struct {
	writes, live, lockOps, reentrant int
	fibCalls, fibCallsInLoop         int
	callsRib                         bool
}

func analyse(d *ast.FuncDecl, byName map[string][]*ast.FuncDecl, seen map[*ast.FuncDecl]bool, f *facts, top bool, owner string) {
	// mutex operations are counted only in code of the method's own table type (and free functions)
	countLocks := recvType(d) == owner || recvType(d) == "" || (owner == "RibTable" && recvType(d) == "RibEntry")
	if d.Body == nil || seen[d] {
		return
	}
	seen[d] = true
	fresh := map[string]bool{}
	// named results are fresh locals
	if d.Type.Results != nil {
		for _, r := range d.Type.Results.List {
			for _, n := range r.Names {
				fresh[n.Name] = true
			}
		}
	}
	rangeVars := map[string]bool{}
	// source ranges of loop bodies, to tell whether a call site sits inside a loop
	type span struct{ lo, hi token.Pos }
	var loops []span
	ast.Inspect(d.Body, func(n ast.Node) bool {
		switch x := n.(type) {
		case *ast.ForStmt:
			loops = append(loops, span{x.Body.Pos(), x.Body.End()})
		case *ast.RangeStmt:
			loops = append(loops, span{x.Body.Pos(), x.Body.End()})
		}
		return true
	})
	inLoop := func(p token.Pos) bool {
		for _, l := range loops {
			if l.lo <= p && p < l.hi {
				return true
			}
		}
		return false
	}
	ast.Inspect(d.Body, func(n ast.Node) bool {
		switch x := n.(type) {
		case *ast.AssignStmt:
			if x.Tok == token.DEFINE {
				for i, l := range x.Lhs {
					if id, ok := l.(*ast.Ident); ok && i < len(x.Rhs) && isFreshExpr(x.Rhs[i]) {
						fresh[id.Name] = true
					}
				}
			}
			for _, l := range x.Lhs {
				switch l.(type) {
				case *ast.SelectorExpr, *ast.IndexExpr, *ast.StarExpr:
					if r := rootIdent(l); !fresh[r] {
						f.writes++
					}
				}
			}
		case *ast.DeclStmt:
			if g, ok := x.Decl.(*ast.GenDecl); ok && g.Tok == token.VAR {
				for _, s := range g.Specs {
					if v, ok := s.(*ast.ValueSpec); ok {
						for _, n := range v.Names {
							fresh[n.Name] = true // zero value or initialiser: a local variable
						}
					}
				}
			}
		case *ast.IncDecStmt:
			switch x.X.(type) {
			case *ast.SelectorExpr, *ast.IndexExpr:
				if r := rootIdent(x.X); !fresh[r] {
					f.writes++
				}
			}
		case *ast.RangeStmt:
			for _, v := range []ast.Expr{x.Key, x.Value} {
				if id, ok := v.(*ast.Ident); ok && id.Name != "_" {
					rangeVars[id.Name] = true
				}
			}
		case *ast.CallExpr:
			if sel, ok := x.Fun.(*ast.SelectorExpr); ok {
				// a call into the FIB through the process-global table: one inner critical section
				if id, ok := sel.X.(*ast.Ident); ok && id.Name == "FibStrategyTable" && countLocks {
					f.fibCalls++
					if inLoop(x.Pos()) {
						f.fibCallsInLoop++
					}
				}
			}
			if sel, ok := x.Fun.(*ast.SelectorExpr); ok && len(x.Args) == 0 {
				switch sel.Sel.Name {
				case "Lock", "Unlock", "RLock", "RUnlock":
					if countLocks {
						f.lockOps++
					} // every mutex operation in the method and its callees (2 = lock + deferred unlock)
				}
			}
			switch fun := x.Fun.(type) {
			case *ast.Ident:
				if fun.Name == "delete" {
					f.writes++
				}
				if fun.Name == "append" && top && len(x.Args) >= 2 {
					// appending a traversal variable (an internal entry) to a result list
					for _, a := range x.Args[1:] {
						if id, ok := a.(*ast.Ident); ok && !fresh[id.Name] && (rangeVars[id.Name] || strings.HasSuffix(id.Name, "Entry")) {
							f.live++
						}
					}
				}
				for _, callee := range byName[fun.Name] {
					analyse(callee, byName, seen, f, false, owner)
				}
			case *ast.SelectorExpr:
				for _, callee := range byName[fun.Sel.Name] {
					// a table method (or its same-type callee) calling an EXPORTED method of its own table
					// type would take the table's mutex a second time: sync.RWMutex is not re-entrant
					// (a reader re-entering deadlocks as soon as a writer is queued in between)
					if countLocks && recvType(callee) == owner && ast.IsExported(callee.Name.Name) {
						f.reentrant++
					}
					analyse(callee, byName, seen, f, false, owner)
				}
			}
		case *ast.ReturnStmt:
			if top {
				for _, r := range x.Results {
					if sel, ok := r.(*ast.SelectorExpr); ok {
						// `strategy` and `name` hold values that are replaced wholesale and never written
						// through (enc.Name treated as immutable): handing them out is not an alias hazard
						if sel.Sel.Name != "strategy" && sel.Sel.Name != "name" {
							f.live++ // returns a field of table state
						}
					}
				}
			}
		case *ast.Ident:
			if x.Name == "Rib" {
				f.callsRib = true
			}
		}
		return true
	})
}

// readvertiserFacts: the lock facts of NlsrReadvertiser's exported methods (see the header comment)
func readvertiserFacts(repo string) string {
	fset := token.NewFileSet()
	file, err := parser.ParseFile(fset, filepath.Join(repo, "fw", "mgmt", "nlsr_readvertiser.go"), nil, 0)
	var sb strings.Builder
	sb.WriteString("def readvertiser : List MethodFact := [\n")
	var rows []string
	if err == nil {
		for _, d := range file.Decls {
			fd, ok := d.(*ast.FuncDecl)
			if !ok || recvType(fd) != "NlsrReadvertiser" || !ast.IsExported(fd.Name.Name) || fd.Body == nil || fd.Name.Name == "String" {
				continue
			}
			rn := recvName(fd)
			lock, deferOK := "none", false
			for i, st := range fd.Body.List {
				touches := false
				ast.Inspect(st, func(n ast.Node) bool {
					if id, ok := n.(*ast.Ident); ok && id.Name == "advertised" {
						touches = true
					}
					return true
				})
				if es, ok := st.(*ast.ExprStmt); ok {
					if mu, meth := lockCall(es.X, rn); meth == "Lock" {
						lock = "Lock"
						if i+1 < len(fd.Body.List) {
							if ds, ok := fd.Body.List[i+1].(*ast.DeferStmt); ok {
								mu2, meth2 := lockCall(ds.Call, rn)
								deferOK = mu2 == mu && meth2 == "Unlock"
							}
						}
						break
					}
				}
				if touches {
					break // the guarded map is used before (or without) the lock
				}
			}
			var f facts
			analyse(fd, map[string][]*ast.FuncDecl{}, map[*ast.FuncDecl]bool{}, &f, true, "NlsrReadvertiser")
			ast.Inspect(fd.Body, func(n ast.Node) bool {
				if id, ok := n.(*ast.Ident); ok && id.Name == "FibStrategyTable" {
					f.fibCalls++
				}
				return true
			})
			rows = append(rows, fmt.Sprintf("  ⟨%q, %q, %q, %v, %d, %d, %d, %d, %d, %d, %v, %v⟩", "NlsrReadvertiser", fd.Name.Name, lock, deferOK, f.writes, f.live, f.lockOps, f.reentrant, f.fibCalls, f.fibCallsInLoop, f.callsRib, ptrRecv(fd)))
		}
	}
	sort.Strings(rows)
	sb.WriteString(strings.Join(rows, ",\n"))
	sb.WriteString("\n]\n")
	return sb.String()
}

// mgmtHandlerFacts: for every command / dataset handler of the management modules that touch the shared
// tables (fw/mgmt/rib.go, fib.go, strategy-choice.go: methods taking (interest, pitToken, inFace)), the
// number of MUTATING calls it makes into table.Rib / table.FibStrategyTable (fibCalls) and how many of them
// sit in a loop (fibCallsInLoop). One management command must be ONE table operation: a command implemented
// as two table operations (e.g. re-registration as remove + add) exposes the state between them to lookups.
//
// One call is not the command's own: `table.Rib.CleanUpFace(x)` inside `if face.FaceTable.Get(x) == nil { … }`.
// FaceTable.Remove takes the face out of the face table BEFORE it cleans the RIB, so a handler that finds the
// face gone after its insertion repeats the (idempotent) clean-up of that face's teardown: the state between the
// two calls is the one of the order "command, then teardown" and the state after it the one every order ends in.
// These are listed separately (mgmtGuardedCleanups) and do not count as a second operation of the command.
func mgmtHandlerFacts(repo string) string {
	mut := map[string]bool{"AddEncRoute": true, "RemoveRouteEnc": true, "CleanUpFace": true, "InsertNextHopEnc": true,
		"RemoveNextHopEnc": true, "ClearNextHopsEnc": true, "ReplaceNextHopsEnc": true, "SetStrategyEnc": true, "UnSetStrategyEnc": true}
	var rows, cleanups []string
	for _, file := range []string{"rib.go", "fib.go", "strategy-choice.go"} {
		fset := token.NewFileSet()
		f, err := parser.ParseFile(fset, filepath.Join(repo, "fw", "mgmt", file), nil, 0)
		if err != nil {
			continue
		}
		for _, d := range f.Decls {
			fd, ok := d.(*ast.FuncDecl)
			if !ok || fd.Body == nil || recvType(fd) == "" || fd.Type.Params == nil || len(fd.Type.Params.List) < 3 {
				continue
			}
			if fd.Name.Name == "handleIncomingInterest" {
				continue // the verb dispatcher: calls exactly one handler
			}
			type span struct{ lo, hi token.Pos }
			var loops []span
			ast.Inspect(fd.Body, func(n ast.Node) bool {
				switch x := n.(type) {
				case *ast.ForStmt:
					loops = append(loops, span{x.Body.Pos(), x.Body.End()})
				case *ast.RangeStmt:
					loops = append(loops, span{x.Body.Pos(), x.Body.End()})
				}
				return true
			})
			// `if face.FaceTable.Get(x) == nil { … }` blocks, by the identifier x
			type goneSpan struct {
				span
				id string
			}
			var gone []goneSpan
			ast.Inspect(fd.Body, func(n ast.Node) bool {
				is, ok := n.(*ast.IfStmt)
				if !ok {
					return true
				}
				be, ok := is.Cond.(*ast.BinaryExpr)
				if !ok || be.Op != token.EQL {
					return true
				}
				if nl, ok := be.Y.(*ast.Ident); !ok || nl.Name != "nil" {
					return true
				}
				c, ok := be.X.(*ast.CallExpr)
				if !ok || len(c.Args) != 1 {
					return true
				}
				arg, ok := c.Args[0].(*ast.Ident)
				if !ok {
					return true
				}
				if sel, ok := c.Fun.(*ast.SelectorExpr); ok && sel.Sel.Name == "Get" {
					if inner, ok := sel.X.(*ast.SelectorExpr); ok && inner.Sel.Name == "FaceTable" {
						gone = append(gone, goneSpan{span{is.Body.Pos(), is.Body.End()}, arg.Name})
					}
				}
				return true
			})
			calls, inLoop, guarded := 0, 0, 0
			ast.Inspect(fd.Body, func(n ast.Node) bool {
				c, ok := n.(*ast.CallExpr)
				if !ok {
					return true
				}
				sel, ok := c.Fun.(*ast.SelectorExpr)
				if !ok || !mut[sel.Sel.Name] {
					return true
				}
				if inner, ok := sel.X.(*ast.SelectorExpr); ok {
					if pk, ok := inner.X.(*ast.Ident); ok && pk.Name == "table" && (inner.Sel.Name == "Rib" || inner.Sel.Name == "FibStrategyTable") {
						if sel.Sel.Name == "CleanUpFace" && len(c.Args) == 1 {
							if a, ok := c.Args[0].(*ast.Ident); ok {
								own := false
								for _, g := range gone {
									if g.id == a.Name && g.lo <= c.Pos() && c.Pos() < g.hi {
										own = true
									}
								}
								inl := false
								for _, l := range loops {
									if l.lo <= c.Pos() && c.Pos() < l.hi {
										inl = true
									}
								}
								if own && !inl {
									guarded++
									return true
								}
							}
						}
						calls++
						for _, l := range loops {
							if l.lo <= c.Pos() && c.Pos() < l.hi {
								inLoop++
								break
							}
						}
					}
				}
				return true
			})
			rows = append(rows, fmt.Sprintf("  ⟨%q, %q, %q, %v, %d, %d, %d, %d, %d, %d, %v, %v⟩", recvType(fd), fd.Name.Name, "none", false, 0, 0, 0, 0, calls, inLoop, false, ptrRecv(fd)))
			if guarded > 0 {
				cleanups = append(cleanups, fmt.Sprintf("  (%q, %q, %d)", recvType(fd), fd.Name.Name, guarded))
			}
		}
	}
	sort.Strings(rows)
	sort.Strings(cleanups)
	return "def mgmtHandlers : List MethodFact := [\n" + strings.Join(rows, ",\n") + "\n]\n\n" +
		"/-- `table.Rib.CleanUpFace(x)` under `if face.FaceTable.Get(x) == nil`: the teardown's clean-up repeated -/\n" +
		"def mgmtGuardedCleanups : List (String × String × Nat) := [\n" + strings.Join(cleanups, ",\n") + "\n]\n"
}

// teardownFacts: the two facts the model of `rib/register` racing the teardown of its face needs
// (lean/NdnVerif/C16/Teardown.lean):
//
//	faceRemoveDeletesBeforeCleanup  fw/face/table.go Table.Remove calls `t.faces.Delete(..)` exactly once, calls
//	                                `table.Rib.CleanUpFace(..)` exactly once, and the first comes first
//	registerRechecksFace            fw/mgmt/rib.go RIBModule.register: after its (only) `table.Rib.AddEncRoute(..)` call
//	                                there is an `if face.FaceTable.Get(x) == nil { … table.Rib.CleanUpFace(x) … return }`
//	                                with x the identifier the inserted Route's FaceID is set from
func teardownFacts(repo string) string {
	del, clean := []token.Pos{}, []token.Pos{}
	fset := token.NewFileSet()
	if f, err := parser.ParseFile(fset, filepath.Join(repo, "fw", "face", "table.go"), nil, 0); err == nil {
		for _, d := range f.Decls {
			fd, ok := d.(*ast.FuncDecl)
			if !ok || fd.Body == nil || fd.Name.Name != "Remove" || recvType(fd) != "Table" {
				continue
			}
			ast.Inspect(fd.Body, func(n ast.Node) bool {
				switch n.(type) {
				case *ast.FuncLit, *ast.GoStmt, *ast.DeferStmt, *ast.IfStmt, *ast.ForStmt, *ast.RangeStmt, *ast.SwitchStmt:
					return false // only unconditional statements of the body itself count
				}
				c, ok := n.(*ast.CallExpr)
				if !ok {
					return true
				}
				if sel, ok := c.Fun.(*ast.SelectorExpr); ok {
					if inner, ok := sel.X.(*ast.SelectorExpr); ok {
						if sel.Sel.Name == "Delete" && inner.Sel.Name == "faces" {
							del = append(del, c.Pos())
						}
						if sel.Sel.Name == "CleanUpFace" && inner.Sel.Name == "Rib" {
							clean = append(clean, c.Pos())
						}
					}
				}
				return true
			})
		}
	}
	order := len(del) == 1 && len(clean) == 1 && del[0] < clean[0]

	recheck := false
	fset = token.NewFileSet()
	if f, err := parser.ParseFile(fset, filepath.Join(repo, "fw", "mgmt", "rib.go"), nil, 0); err == nil {
		for _, d := range f.Decls {
			fd, ok := d.(*ast.FuncDecl)
			if !ok || fd.Body == nil || fd.Name.Name != "register" || recvType(fd) != "RIBModule" {
				continue
			}
			var adds []token.Pos
			faceIdent := ""
			ast.Inspect(fd.Body, func(n ast.Node) bool {
				c, ok := n.(*ast.CallExpr)
				if !ok {
					return true
				}
				if sel, ok := c.Fun.(*ast.SelectorExpr); ok && sel.Sel.Name == "AddEncRoute" {
					adds = append(adds, c.End())
					ast.Inspect(c, func(m ast.Node) bool {
						if kv, ok := m.(*ast.KeyValueExpr); ok {
							if k, ok := kv.Key.(*ast.Ident); ok && k.Name == "FaceID" {
								if v, ok := kv.Value.(*ast.Ident); ok {
									faceIdent = v.Name
								}
							}
						}
						return true
					})
				}
				return true
			})
			if len(adds) != 1 || faceIdent == "" {
				continue
			}
			// top-level statements of the body after the insertion
			for _, st := range fd.Body.List {
				is, ok := st.(*ast.IfStmt)
				if !ok || is.Pos() < adds[0] || is.Init != nil {
					continue
				}
				be, ok := is.Cond.(*ast.BinaryExpr)
				if !ok || be.Op != token.EQL {
					continue
				}
				if nl, ok := be.Y.(*ast.Ident); !ok || nl.Name != "nil" {
					continue
				}
				c, ok := be.X.(*ast.CallExpr)
				if !ok || len(c.Args) != 1 {
					continue
				}
				if a, ok := c.Args[0].(*ast.Ident); !ok || a.Name != faceIdent {
					continue
				}
				sel, ok := c.Fun.(*ast.SelectorExpr)
				if !ok || sel.Sel.Name != "Get" {
					continue
				}
				if inner, ok := sel.X.(*ast.SelectorExpr); !ok || inner.Sel.Name != "FaceTable" {
					continue
				}
				cleans, returns := false, false
				for _, bs := range is.Body.List {
					if es, ok := bs.(*ast.ExprStmt); ok {
						if cc, ok := es.X.(*ast.CallExpr); ok {
							if s2, ok := cc.Fun.(*ast.SelectorExpr); ok && s2.Sel.Name == "CleanUpFace" && len(cc.Args) == 1 {
								if a, ok := cc.Args[0].(*ast.Ident); ok && a.Name == faceIdent {
									cleans = true
								}
							}
						}
					}
					if _, ok := bs.(*ast.ReturnStmt); ok {
						returns = true
					}
				}
				if cleans && returns {
					recheck = true
				}
			}
		}
	}
	return fmt.Sprintf("\n/-- fw/face/table.go Table.Remove: `t.faces.Delete` once, `table.Rib.CleanUpFace` once, in this order -/\ndef faceRemoveDeletesBeforeCleanup : Bool := %v\n\n/-- fw/mgmt/rib.go register: after the insertion, `if face.FaceTable.Get(f) == nil { table.Rib.CleanUpFace(f); …; return }` -/\ndef registerRechecksFace : Bool := %v\n", order, recheck)
}

func main() {
	repo, out := os.Args[1], os.Args[2]
	dir := filepath.Join(repo, "fw", "table")
	fset := token.NewFileSet()
	ents, err := os.ReadDir(dir)
	if err != nil {
		fmt.Fprintln(os.Stderr, err)
		os.Exit(1)
	}
	byName := map[string][]*ast.FuncDecl{}
	var methods []fn
	for _, e := range ents {
		n := e.Name()
		if !strings.HasSuffix(n, ".go") || strings.HasSuffix(n, "_test.go") || strings.HasPrefix(n, "verif_") {
			continue
		}
		file, err := parser.ParseFile(fset, filepath.Join(dir, n), nil, 0)
		if err != nil {
			fmt.Fprintln(os.Stderr, err)
			os.Exit(1)
		}
		for _, d := range file.Decls {
			if fd, ok := d.(*ast.FuncDecl); ok {
				byName[fd.Name.Name] = append(byName[fd.Name.Name], fd)
				if tableTypes[recvType(fd)] && ast.IsExported(fd.Name.Name) {
					methods = append(methods, fn{recvType(fd), fd})
				}
			}
		}
	}
	// the unexported constructors etc. are not table operations; exported methods only
	sort.Slice(methods, func(i, j int) bool {
		if methods[i].recv != methods[j].recv {
			return methods[i].recv < methods[j].recv
		}
		return methods[i].decl.Name.Name < methods[j].decl.Name.Name
	})
	if len(methods) == 0 {
		fmt.Fprintln(os.Stderr, "lockfacts: no table methods found (layout changed?)")
		os.Exit(1)
	}
	var sb strings.Builder
	sb.WriteString("/- GENERATED by harness/cmd/lockfacts from the working tree on every run of ./check C16. Do not edit. -/\n")
	sb.WriteString("namespace Ndn.Gen.C16\n\nstructure MethodFact where\n  typ : String\n  name : String\n  lock : String\n  deferUnlock : Bool\n  sharedWrites : Nat\n  returnsLive : Nat\n  lockOps : Nat\n  reentrant : Nat\n  fibCalls : Nat\n  fibCallsInLoop : Nat\n  callsRib : Bool\n  ptrRecv : Bool\nderiving Repr, DecidableEq\n\ndef methods : List MethodFact := [\n")
	for i, m := range methods {
		d := m.decl
		rn := recvName(d)
		lock, deferOK := "none", false
		if d.Body != nil && len(d.Body.List) >= 1 {
			if es, ok := d.Body.List[0].(*ast.ExprStmt); ok {
				mu, meth := lockCall(es.X, rn)
				if meth == "Lock" || meth == "RLock" {
					lock = meth
					if len(d.Body.List) >= 2 {
						if ds, ok := d.Body.List[1].(*ast.DeferStmt); ok {
							mu2, meth2 := lockCall(ds.Call, rn)
							deferOK = mu2 == mu && ((meth == "Lock" && meth2 == "Unlock") || (meth == "RLock" && meth2 == "RUnlock"))
						}
					}
				}
			}
		}
		var f facts
		analyse(d, byName, map[*ast.FuncDecl]bool{}, &f, true, m.recv)
		sep := ","
		if i == len(methods)-1 {
			sep = ""
		}
		fmt.Fprintf(&sb, "  ⟨%q, %q, %q, %v, %d, %d, %d, %d, %d, %d, %v, %v⟩%s\n", m.recv, d.Name.Name, lock, deferOK, f.writes, f.live, f.lockOps, f.reentrant, f.fibCalls, f.fibCallsInLoop, f.callsRib, ptrRecv(d), sep)
	}
	sb.WriteString("]\n\n")
	sb.WriteString(readvertiserFacts(repo))
	sb.WriteString("\n")
	sb.WriteString(mgmtHandlerFacts(repo))
	sb.WriteString(teardownFacts(repo))
	sb.WriteString("\nend Ndn.Gen.C16\n")
	old, _ := os.ReadFile(out)
	if string(old) != sb.String() {
		if err := os.WriteFile(out, []byte(sb.String()), 0o644); err != nil {
			fmt.Fprintln(os.Stderr, err)
			os.Exit(1)
		}
	}
}
