#!/bin/sh
# usage: run.sh <repo> <verif>   — builds/runs schemagen against the given source tree (offline)
set -e
repo="$1"; verif="$2"
cd "$verif/harness"
export GOFLAGS=-mod=mod GOPROXY=off GOSUMDB=off GOTOOLCHAIN=local
tag=$(printf %s "$repo" | sha1sum | cut -c1-8)
mod="$verif/harness/.mod-$tag.mod"
sed "s#=> /repo#=> $repo#" go.mod > "$mod.tmp$$"
if [ -f "$mod" ] && cmp -s "$mod" "$mod.tmp$$"; then rm -f "$mod.tmp$$"; else mv "$mod.tmp$$" "$mod"; fi
cp "$repo/go.sum" "${mod%.mod}.sum"
exec ${VERIF_GO:-go1.26} run -modfile "$mod" ./cmd/schemagen -repo "$repo" -verif "$verif"
