// schemagen — regenerates, from the working tree given by -repo, on every check run:
//
//	lean/NdnVerif/Gen/C13Schemas.lean   the table of ALL generated TLV models as Lean `Schema`s
//	harness/c13/zz_registry_gen.go      the same table for the Go harness + constructors / parse /
//	                                    encode closures over the REAL generated types
//
// Models are discovered, not listed: every directory of the tree that contains a zz_generated.go is
// a definitions directory; its annotated structs are read with the repository's OWN annotation
// parser (std/encoding/codegen: Generator.ProcessDecl, the code path of gondn_tlv_gen) and the
// resulting model list is cross-checked against the `type XEncoder struct` declarations found in
// the checked-in zz_generated.go.  Any disagreement is an extraction failure (broken tie).
//
// The parsed models live in unexported fields of codegen.Generator; they are read through
// reflection (reads of unexported fields are permitted, no hook file is needed).
package main

import (
	"bytes"
	"flag"
	"fmt"
	"go/ast"
	"go/parser"
	"go/token"
	"io"
	"log"
	"os"
	"path/filepath"
	"reflect"
	"regexp"
	"sort"
	"strings"

	"github.com/named-data/ndnd/std/encoding/codegen"
)

type kind struct {
	Tag    string // natural fixedUint time bool binary string wire name struct seq map marker signature interestName
	Opt    bool
	W      uint64
	Struct string // struct: model name (same package)
	Sub    *kind  // seq
	Key    *kind  // map
	Val    *kind
	ValTyp uint64
}

type field struct {
	Name string
	Typ  uint64
	K    kind
}

type model struct {
	Dir, ImportPath, Pkg, Name string
	Ordered, NoCopy, Private   bool
	Fields                     []field
}

func (m *model) id() string { return "s_" + m.Pkg + "_" + m.Name }

func fail(format string, a ...any) {
	fmt.Fprintf(os.Stderr, "schemagen: "+format+"\n", a...)
	os.Exit(1)
}

func str(v reflect.Value, name string) string {
	f := v.FieldByName(name)
	if !f.IsValid() {
		fail("codegen field %s.%s no longer exists", v.Type(), name)
	}
	return f.String()
}
func boolean(v reflect.Value, name string) bool {
	f := v.FieldByName(name)
	if !f.IsValid() {
		fail("codegen field %s.%s no longer exists", v.Type(), name)
	}
	return f.Bool()
}
func uinteger(v reflect.Value, name string) uint64 {
	f := v.FieldByName(name)
	if !f.IsValid() {
		fail("codegen field %s.%s no longer exists", v.Type(), name)
	}
	return f.Uint()
}

// fieldOf reads one codegen.TlvField (an interface value holding a pointer to a *XxxField struct).
func fieldOf(v reflect.Value) (name string, typ uint64, k kind) {
	for v.Kind() == reflect.Interface || v.Kind() == reflect.Ptr {
		v = v.Elem()
	}
	base := v.FieldByName("BaseTlvField")
	if !base.IsValid() {
		fail("codegen field type %s has no BaseTlvField", v.Type())
	}
	name, typ = str(base, "name"), uinteger(base, "typeNum")
	switch tn := v.Type().Name(); tn {
	case "NaturalField":
		k = kind{Tag: "natural", Opt: boolean(v, "opt")}
	case "FixedUintField":
		k = kind{Tag: "fixedUint", Opt: boolean(v, "opt"), W: uinteger(v, "l")}
	case "TimeField":
		k = kind{Tag: "time", Opt: boolean(v, "opt")}
	case "BoolField":
		k = kind{Tag: "bool"}
	case "BinaryField":
		k = kind{Tag: "binary"}
	case "StringField":
		k = kind{Tag: "string", Opt: boolean(v, "opt")}
	case "WireField":
		k = kind{Tag: "wire"}
	case "NameField":
		k = kind{Tag: "name"}
	case "StructField":
		k = kind{Tag: "struct", Struct: str(v, "StructType")}
	case "SequenceField":
		_, _, sub := fieldOf(v.FieldByName("SubField"))
		k = kind{Tag: "seq", Sub: &sub}
	case "MapField":
		_, _, key := fieldOf(v.FieldByName("KeyField"))
		_, vt, val := fieldOf(v.FieldByName("ValField"))
		k = kind{Tag: "map", Key: &key, Val: &val, ValTyp: vt}
	case "ProcedureArgument", "OffsetMarker", "RangeMarker":
		k = kind{Tag: "marker"}
		typ = 0
	case "SignatureField":
		k = kind{Tag: "signature"}
	case "InterestNameField":
		k = kind{Tag: "interestName"}
	default:
		fail("unknown codegen field class %s (field %s): the schema interpreter has no kind for it", tn, name)
	}
	return
}

var encoderRe = regexp.MustCompile(`(?m)^type (\w+)Encoder struct`)

func modulePath(repo string) string {
	b, err := os.ReadFile(filepath.Join(repo, "go.mod"))
	if err != nil {
		fail("%v", err)
	}
	for _, ln := range strings.Split(string(b), "\n") {
		if strings.HasPrefix(ln, "module ") {
			return strings.TrimSpace(ln[7:])
		}
	}
	fail("no module line in go.mod")
	return ""
}

func discover(repo string) []*model {
	mod := modulePath(repo)
	var dirs []string
	filepath.Walk(repo, func(p string, info os.FileInfo, err error) error {
		if err != nil {
			return nil
		}
		if info.IsDir() && (info.Name() == ".git" || info.Name() == "node_modules") {
			return filepath.SkipDir
		}
		if !info.IsDir() && info.Name() == "zz_generated.go" {
			dirs = append(dirs, filepath.Dir(p))
		}
		return nil
	})
	sort.Strings(dirs)
	var out []*model
	log.SetOutput(io.Discard) // the codegen package logs through the standard logger
	for _, dir := range dirs {
		fset := token.NewFileSet()
		pkgs, err := parser.ParseDir(fset, dir, nil, parser.ParseComments)
		if err != nil {
			fail("parse %s: %v", dir, err)
		}
		g := codegen.NewGenerator()
		pkgName := ""
		for _, pkg := range pkgs {
			if strings.HasSuffix(pkg.Name, "_test") {
				continue
			}
			if pkgName != "" && pkgName != pkg.Name {
				continue
			}
			pkgName = pkg.Name
			var names []string
			for fn := range pkg.Files {
				names = append(names, fn)
			}
			sort.Strings(names)
			for _, fn := range names {
				if filepath.Base(fn) == "zz_generated.go" || strings.HasSuffix(fn, "_test.go") {
					continue
				}
				ast.Inspect(pkg.Files[fn], g.ProcessDecl)
			}
		}
		rel, _ := filepath.Rel(repo, dir)
		ms := reflect.ValueOf(g).Elem().FieldByName("models")
		if !ms.IsValid() {
			fail("codegen.Generator.models no longer exists")
		}
		found := map[string]bool{}
		for i := 0; i < ms.Len(); i++ {
			mv := ms.Index(i)
			m := &model{Dir: rel, ImportPath: mod + "/" + filepath.ToSlash(rel), Pkg: pkgName, Name: str(mv, "Name"),
				Ordered: boolean(mv, "Ordered"), NoCopy: boolean(mv, "NoCopy"), Private: boolean(mv, "PrivMethods")}
			fs := mv.FieldByName("Fields")
			for j := 0; j < fs.Len(); j++ {
				n, t, k := fieldOf(fs.Index(j))
				m.Fields = append(m.Fields, field{n, t, k})
			}
			found[m.Name] = true
			out = append(out, m)
		}
		// cross-check with the checked-in generated file
		src, err := os.ReadFile(filepath.Join(dir, "zz_generated.go"))
		if err != nil {
			fail("%v", err)
		}
		gen := map[string]bool{}
		for _, mm := range encoderRe.FindAllStringSubmatch(string(src), -1) {
			gen[mm[1]] = true
		}
		for n := range gen {
			if !found[n] {
				fail("%s/zz_generated.go contains model %s that the annotation parser does not produce", rel, n)
			}
		}
		for n := range found {
			if !gen[n] {
				fail("%s: annotated model %s is missing from zz_generated.go", rel, n)
			}
		}
	}
	return out
}

// topological order: inner models first
func order(ms []*model) []*model {
	byKey := map[string]*model{}
	for _, m := range ms {
		byKey[m.Pkg+"."+m.Name] = m
	}
	var out []*model
	state := map[*model]int{}
	var visit func(m *model)
	var deps func(m *model, k *kind)
	deps = func(m *model, k *kind) {
		switch k.Tag {
		case "struct":
			d := byKey[m.Pkg+"."+k.Struct]
			if d == nil {
				fail("%s.%s refers to unknown model %s", m.Pkg, m.Name, k.Struct)
			}
			visit(d)
		case "seq":
			deps(m, k.Sub)
		case "map":
			deps(m, k.Key)
			deps(m, k.Val)
		}
	}
	visit = func(m *model) {
		switch state[m] {
		case 2:
			return
		case 1:
			fail("recursive model %s.%s: the schema interpreter needs finite trees", m.Pkg, m.Name)
		}
		state[m] = 1
		for i := range m.Fields {
			deps(m, &m.Fields[i].K)
		}
		state[m] = 2
		out = append(out, m)
	}
	for _, m := range ms {
		visit(m)
	}
	return out
}

func lb(b bool) string {
	if b {
		return "true"
	}
	return "false"
}

func leanKind(m *model, all map[string]*model, k *kind) string {
	switch k.Tag {
	case "natural":
		return "(.natural " + lb(k.Opt) + ")"
	case "fixedUint":
		return fmt.Sprintf("(.fixedUint %d %s)", k.W, lb(k.Opt))
	case "time":
		return "(.time " + lb(k.Opt) + ")"
	case "string":
		return "(.string " + lb(k.Opt) + ")"
	case "bool", "binary", "wire", "name", "marker", "signature", "interestName":
		return "." + k.Tag
	case "struct":
		d := all[m.Pkg+"."+k.Struct]
		return fmt.Sprintf("(.struct %s %s)", lb(d.Ordered), d.id())
	case "seq":
		return "(.seq " + leanKind(m, all, k.Sub) + ")"
	case "map":
		return fmt.Sprintf("(.map %s %d %s)", leanKind(m, all, k.Key), k.ValTyp, leanKind(m, all, k.Val))
	}
	fail("kind %s", k.Tag)
	return ""
}

func goKind(k *kind) string {
	s := fmt.Sprintf("Kind{Tag: %q, Opt: %v, W: %d, Struct: %q, ValTyp: %d", k.Tag, k.Opt, k.W, k.Struct, k.ValTyp)
	if k.Sub != nil {
		s += ", Sub: &" + goKind(k.Sub)
	}
	if k.Key != nil {
		s += ", Key: &" + goKind(k.Key) + ", Val: &" + goKind(k.Val)
	}
	return s + "}"
}

func writeIfChanged(path string, data []byte) {
	old, err := os.ReadFile(path)
	if err == nil && bytes.Equal(old, data) {
		return
	}
	os.MkdirAll(filepath.Dir(path), 0o755)
	tmp := fmt.Sprintf("%s.tmp%d", path, os.Getpid())
	if err := os.WriteFile(tmp, data, 0o644); err != nil {
		fail("%v", err)
	}
	if err := os.Rename(tmp, path); err != nil {
		fail("%v", err)
	}
}

func main() {
	repo := flag.String("repo", "/repo", "source tree")
	verif := flag.String("verif", "/verif", "verification tree")
	flag.Parse()
	ms := order(discover(*repo))
	all := map[string]*model{}
	for _, m := range ms {
		all[m.Pkg+"."+m.Name] = m
	}

	// ---------------------------------------------------------------- Lean
	var L bytes.Buffer
	fmt.Fprintf(&L, "/- GENERATED by harness/cmd/schemagen from the working tree on every check run — do not edit.\n")
	fmt.Fprintf(&L, "   %d generated TLV models in %d packages (std/encoding/codegen annotation parser). -/\n", len(ms), countPkgs(ms))
	fmt.Fprintf(&L, "import NdnVerif.C13.Schema\nnamespace Ndn.Gen.C13\nopen Ndn.C13\n\n")
	for _, m := range ms {
		fmt.Fprintf(&L, "/-- %s  %s%s -/\ndef %s : Fields :=\n", m.Dir, m.Name, flags(m), m.id())
		for _, f := range m.Fields {
			fmt.Fprintf(&L, "  .cons %d %s <|  -- %s\n", f.Typ, leanKind(m, all, &f.K), f.Name)
		}
		fmt.Fprintf(&L, "  .nil\n\n")
	}
	fmt.Fprintf(&L, "def allSchemas : List Schema := [\n")
	for i, m := range ms {
		sep := ","
		if i == len(ms)-1 {
			sep = ""
		}
		fmt.Fprintf(&L, "  ⟨\"%s.%s\", %s, %s⟩%s\n", m.Pkg, m.Name, lb(m.Ordered), m.id(), sep)
	}
	fmt.Fprintf(&L, "]\n\ndef modelCount : Nat := %d\n\nend Ndn.Gen.C13\n", len(ms))
	writeIfChanged(filepath.Join(*verif, "lean/NdnVerif/Gen/C13Schemas.lean"), L.Bytes())

	// ---------------------------------------------------------------- facts of the decoder templates
	// GenNaturalNumberDecode (std/encoding/codegen/utils.go): does the template of natural / time fields refuse a
	// length other than 1, 2, 4 or 8 (repair F-13e)?  The checked-in generated code IS this template's output
	// (op regen compares them byte for byte on every run), so the template decides for all 79 models.
	tsrc, err := os.ReadFile(filepath.Join(*repo, "std/encoding/codegen/utils.go"))
	if err != nil {
		fmt.Fprintln(os.Stderr, "schemagen: cannot read std/encoding/codegen/utils.go:", err)
		os.Exit(1)
	}
	ti := bytes.Index(tsrc, []byte("func GenNaturalNumberDecode("))
	if ti < 0 {
		fmt.Fprintln(os.Stderr, "schemagen: func GenNaturalNumberDecode not found in std/encoding/codegen/utils.go")
		os.Exit(1)
	}
	tbody := tsrc[ti:]
	if te := bytes.Index(tbody[1:], []byte("\nfunc ")); te >= 0 {
		tbody = tbody[:te+1]
	}
	squash := strings.Join(strings.Fields(string(tbody)), " ")
	checked := strings.Contains(squash, "l != 1 && l != 2 && l != 4 && l != 8")
	var F bytes.Buffer
	fmt.Fprintf(&F, "/- GENERATED by harness/cmd/schemagen from the working tree on every check run — do not edit.\n   source: std/encoding/codegen/utils.go GenNaturalNumberDecode -/\nnamespace Ndn.Gen.C13\n\n")
	fmt.Fprintf(&F, "/-- the decoder template of natural and time fields refuses a length other than 1, 2, 4 or 8 -/\ndef naturalWidthChecked : Bool := %s\n\nend Ndn.Gen.C13\n", lb(checked))
	writeIfChanged(filepath.Join(*verif, "lean/NdnVerif/Gen/C13Facts.lean"), F.Bytes())

	// ---------------------------------------------------------------- Go registry
	var G bytes.Buffer
	fmt.Fprintf(&G, "// Code generated by harness/cmd/schemagen from the working tree on every check run; DO NOT EDIT.\n\npackage c13\n\nimport (\n\tenc \"github.com/named-data/ndnd/std/encoding\"\n")
	alias := map[string]string{}
	var paths []string
	for _, m := range ms {
		if _, ok := alias[m.ImportPath]; !ok {
			alias[m.ImportPath] = fmt.Sprintf("p%d", len(alias))
			paths = append(paths, m.ImportPath)
		}
	}
	for _, p := range paths {
		fmt.Fprintf(&G, "\t%s %q\n", alias[p], p)
	}
	fmt.Fprintf(&G, ")\n\nvar Models = []*Model{\n")
	for _, m := range ms {
		a := alias[m.ImportPath]
		exported := ast.IsExported(m.Name)
		fmt.Fprintf(&G, "\t{Pkg: %q, Name: %q, Dir: %q, Ordered: %v, NoCopy: %v, Private: %v, Exported: %v,\n\t\tFields: []Field{\n",
			m.Pkg, m.Name, m.Dir, m.Ordered, m.NoCopy, m.Private, exported)
		for _, f := range m.Fields {
			fmt.Fprintf(&G, "\t\t\t{Name: %q, Typ: %d, K: %s},\n", f.Name, f.Typ, goKind(&f.K))
		}
		fmt.Fprintf(&G, "\t\t},\n")
		if exported {
			T := a + "." + m.Name
			fmt.Fprintf(&G, "\t\tNew: func() any { return &%s{} },\n", T)
			fmt.Fprintf(&G, "\t\tNewEncoder: func(v any) any { e := &%sEncoder{}; e.Init(v.(*%s)); return e },\n", T, T)
			fmt.Fprintf(&G, "\t\tEncode: func(e any, v any) enc.Wire { return e.(*%sEncoder).Encode(v.(*%s)) },\n", T, T)
			if m.NoCopy {
				fmt.Fprintf(&G, "\t\tEncodeIntoWire: func(e any, v any, w enc.Wire) { e.(*%sEncoder).EncodeInto(v.(*%s), w) },\n", T, T)
			} else {
				fmt.Fprintf(&G, "\t\tEncodeInto: func(e any, v any, b []byte) { e.(*%sEncoder).EncodeInto(v.(*%s), b) },\n", T, T)
			}
			fmt.Fprintf(&G, "\t\tParse: func(r enc.ParseReader, ic bool) (any, error) {\n\t\t\tc := %sParsingContext{}\n\t\t\tc.Init()\n\t\t\tv, err := c.Parse(r, ic)\n\t\t\tif v == nil {\n\t\t\t\treturn nil, err\n\t\t\t}\n\t\t\treturn v, err\n\t\t},\n", T)
		}
		fmt.Fprintf(&G, "\t},\n")
	}
	fmt.Fprintf(&G, "}\n")
	writeIfChanged(filepath.Join(*verif, "harness/c13/zz_registry_gen.go"), G.Bytes())
	fmt.Printf("schemagen: %d models in %d packages\n", len(ms), countPkgs(ms))
}

func countPkgs(ms []*model) int {
	s := map[string]bool{}
	for _, m := range ms {
		s[m.Dir] = true
	}
	return len(s)
}

func flags(m *model) string {
	s := ""
	if m.Ordered {
		s += " ordered"
	}
	if m.NoCopy {
		s += " nocopy"
	}
	if m.Private {
		s += " private"
	}
	return s
}
