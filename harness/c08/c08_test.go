// Package c08: correspondence harness for property C08 (forwarder state is reclaimed).
//
// Real code driven, inside one testing/synctest bubble (virtual clock):
//   - `new pit …`: a real fw.Thread (its own PitCsTree, DeadNonceList, strategies) with fake
//     dispatch.Face faces and the production name-tree FIB holding one entry at "/"; packets are
//     queued with QueueInterest/QueueData, time passes with time.Sleep, and after every operation the
//     white-box hooks (build tag verif) dump the PIT-CS tree, the expiry queue, the LRU bookkeeping
//     and the dead nonce list.
//   - `new fibtree` / `new fibhash m`: the production FIB mutators, dump of nodes / tables.
//   - `new rib tree|hash m`: the production RIB (AddEncRoute / RemoveRouteEnc / CleanUpFace) on top
//     of a fresh FIB, dump of RIB nodes and of the FIB.
//
// Line protocol: see lean/Driver/C08.lean.
package c08

import (
	"encoding/binary"
	"fmt"
	"sort"
	"strconv"
	"strings"
	"testing"
	"testing/synctest"
	"time"

	"github.com/named-data/ndnd/fw/core"
	"github.com/named-data/ndnd/fw/defn"
	"github.com/named-data/ndnd/fw/dispatch"
	"github.com/named-data/ndnd/fw/fw"
	"github.com/named-data/ndnd/fw/table"
	enc "github.com/named-data/ndnd/std/encoding"
	spec "github.com/named-data/ndnd/std/ndn/spec_2022"
	"github.com/named-data/ndnd/std/utils"
	"verif/harness/c07"
	"verif/harness/common"
)

// ------------------------------------------------------------------ generator

var lifetimes = []int{10, 50, 100, 250, 1000, -1, 0, 1} // 0: InterestLifetime present with value 0

func genPit(g *common.Gen, r *common.Rand) {
	u := common.NameUniverse{Alphabet: []string{"a", "b", "c"}[:r.Range(2, 3)], MaxDepth: r.Range(2, 3)}
	capK := common.Pick(r, []int{0, 1, 2, 3, 5})
	dnl := common.Pick(r, []int{50, 200, 1000})
	strat := common.Pick(r, []string{"best", "multi"})
	var nh []string
	cost := 10
	for _, f := range []int{3, 4, 2, 1} {
		if r.Chance(2, 5) || (f == 3 && r.Chance(1, 2)) {
			nh = append(nh, fmt.Sprintf("%d:%d", f, cost))
			cost += r.Range(1, 9)
		}
	}
	nhs := "-"
	if len(nh) > 0 {
		nhs = strings.Join(nh, ",")
	}
	g.Op("new pit cap=%d dnl=%d strat=%s nh=%s", capK, dnl, strat, nhs)
	g.Stat("pit-" + strat)
	// two flag combinations per history (keeps ≤ 2 entries per node, see design/C08.md)
	flags := [][2]int{{r.Intn(2), r.Intn(2)}, {r.Intn(2), r.Intn(2)}}
	var names []enc.Name
	nInterest := 0
	maxLife := 0
	seq := 0
	draw := func() enc.Name {
		if len(names) > 0 && r.Chance(3, 5) {
			n := common.Pick(r, names)
			if r.Chance(1, 8) {
				n = c07.Twin(r, n) // same value bytes, another component type
				names = append(names, n)
			}
			return n
		}
		n := u.Draw(r)
		if r.Chance(1, 5) {
			n = c07.Twin(r, n)
		}
		names = append(names, n)
		return n
	}
	if flags[0] == flags[1] && r.Chance(2, 3) {
		flags[1][r.Intn(2)] ^= 1 // two different entries per name: Data matches both
	}
	lastFace := map[string]int{} // face of the latest Interest per name
	if r.Chance(1, 20) {
		// burst: > 100 dead-nonce records falling due in one tick of the reaper (retransmissions 50 µs apart
		// put the previous nonce on the list; distinct expiries keep the reaping order deterministic)
		n, fl, face := draw(), common.Pick(r, flags), r.Range(1, 4)
		g.Op("I %d %s %d %d %d - - -", face, common.NameText(n), fl[0], fl[1], 1000)
		burst := r.Range(101, 140)
		for k := 1; k <= burst; k++ {
			g.Op("advu 50")
			g.Op("I %d %s %d %d %d - - -", face, common.NameText(n), fl[0], fl[1], 1000+k)
		}
		g.Stat("dnl-burst")
		maxLife = 4000
		for k := 0; k < 3; k++ {
			g.Op("adv %d", common.Pick(r, []int{dnl, dnl + 60, 100, 130}))
		}
		g.Op("quiesce %d", maxLife+dnl+500)
		return
	}
	nops := r.Range(15, 60)
	for k := 0; k < nops; k++ {
		switch x := r.Intn(100); {
		case x < 45:
			n := draw()
			fl := common.Pick(r, flags)
			life := common.Pick(r, lifetimes)
			ls := "-"
			if life >= 0 {
				ls = strconv.Itoa(life)
				maxLife = max(maxLife, life)
			} else {
				maxLife = max(maxLife, 4000)
			}
			// features that reach the early-return branches of processIncomingInterest
			face, nonce, hl, nhf := r.Range(1, 4), strconv.Itoa(r.Range(1, 5)), "-", "-"
			if r.Chance(1, 40) {
				face = 9 // no such face
			}
			if r.Chance(1, 30) {
				nonce = "-"
			}
			switch r.Intn(20) {
			case 0:
				hl = "0"
			case 1:
				hl = "1"
			case 2:
				hl = strconv.Itoa(r.Range(2, 5))
			}
			if r.Chance(1, 5) {
				nhf = strconv.Itoa(common.Pick(r, []int{1, 2, 3, 4, 9, 9}))
			}
			if r.Chance(1, 30) {
				n = append(enc.Name{enc.NewStringComponent(enc.TypeGenericNameComponent, "localhost")}, n...)
			}
			g.Op("I %d %s %d %d %s %s %s %s", face, common.NameText(n), fl[0], fl[1], nonce, ls, hl, nhf)
			lastFace[common.NameText(n)] = face
			nInterest++
			g.Stat("I")
		case x < 70:
			n := draw()
			if r.Chance(1, 3) {
				n = append(n.Clone(), enc.NewStringComponent(enc.TypeGenericNameComponent, common.Pick(r, u.Alphabet)))
			}
			fresh := common.Pick(r, []int{-1, 0, 10, 100, 1000})
			fs := "-"
			if fresh >= 0 {
				fs = strconv.Itoa(fresh)
			}
			tok := "-"
			switch y := r.Intn(10); {
			case y < 3 && nInterest > 0:
				tok = "T" + strconv.Itoa(max(0, nInterest-1-r.Intn(4)))
			case y == 3:
				tok = "X"
			}
			seq++
			dface := r.Range(1, 4)
			if lf, ok := lastFace[common.NameText(n)]; ok && r.Chance(1, 3) {
				dface = lf // Data arriving on the face the Interest came from (consumer and producer behind one face)
			}
			if r.Chance(1, 40) {
				dface = 9
			}
			if r.Chance(1, 20) {
				tok = "S" // a PIT token that is not 6 bytes long is ignored
			}
			if r.Chance(1, 40) {
				n = append(enc.Name{enc.NewStringComponent(enc.TypeGenericNameComponent, "localhost")}, n...)
			}
			g.Op("D %d %s %s %s %s", dface, common.NameText(n), fs, tok, common.Hex(c07.DataWire(n, fresh, []byte{byte(seq >> 8), byte(seq)})))
			g.Stat("D-tok" + tok[:1])
		case x < 95:
			g.Op("adv %d", common.Pick(r, []int{1, 10, 50, 99, 100, 101, 300, 600, 2000}))
			g.Stat("adv")
		default:
			k := r.Range(0, 6)
			if r.Chance(1, 3) {
				k = capK // back to exactly the start-up capacity
			}
			g.Op("cap %d", k)
			g.Stat("cap")
		}
	}
	g.Op("quiesce %d", maxLife+dnl+500)
}

func genFib(g *common.Gen, r *common.Rand) {
	u := common.NameUniverse{Alphabet: []string{"a", "b", "c"}[:r.Range(2, 3)], MaxDepth: r.Range(2, 4)}
	if r.Chance(1, 2) {
		g.Op("new fibtree")
		g.Stat("fibtree")
	} else {
		g.Op("new fibhash %d", r.Range(1, 4))
		g.Stat("fibhash")
	}
	var used []enc.Name
	draw := func() enc.Name {
		if len(used) > 0 && r.Chance(2, 3) {
			n := common.Pick(r, used)
			if r.Chance(1, 5) {
				return n[:r.Intn(len(n)+1)]
			}
			return n
		}
		n := u.Draw(r)
		used = append(used, n)
		return n
	}
	type nf struct {
		n enc.Name
		f int
	}
	var hops []nf    // (name, face) pairs inserted so far (approximation: removals are not tracked exactly)
	var strats []enc.Name
	for k, nops := 0, r.Range(10, 50); k < nops; k++ {
		n := draw()
		switch x := r.Intn(100); {
		case x < 35:
			f := r.Range(1, 3)
			g.Op("fins %s %d %d", common.NameText(n), f, r.Range(0, 20))
			hops = append(hops, nf{n, f})
		case x < 65:
			f := r.Range(1, 3)
			if len(hops) > 0 && r.Chance(4, 5) {
				i := r.Intn(len(hops))
				n, f = hops[i].n, hops[i].f
				hops = append(hops[:i], hops[i+1:]...)
			}
			g.Op("frem %s %d", common.NameText(n), f)
		case x < 75:
			if len(hops) > 0 && r.Chance(2, 3) {
				n = common.Pick(r, hops).n
			}
			g.Op("fclr %s", common.NameText(n))
		case x < 87:
			g.Op("fset %s", common.NameText(n))
			strats = append(strats, n)
		default:
			if len(strats) > 0 && r.Chance(4, 5) {
				i := r.Intn(len(strats))
				n = strats[i]
				strats = append(strats[:i], strats[i+1:]...)
			}
			if len(n) == 0 {
				continue // the root strategy cannot be unset (guarded by management, F-05b)
			}
			g.Op("funs %s", common.NameText(n))
		}
		g.Stat("fib-op")
	}
}

func genRib(g *common.Gen, r *common.Rand) {
	u := common.NameUniverse{Alphabet: []string{"a", "b", "c"}[:r.Range(2, 3)], MaxDepth: r.Range(2, 4)}
	if r.Chance(1, 2) {
		g.Op("new rib tree 0")
	} else {
		g.Op("new rib hash %d", r.Range(1, 4))
	}
	g.Stat("rib")
	var used []enc.Name
	draw := func() enc.Name {
		if len(used) > 0 && r.Chance(2, 3) {
			return common.Pick(r, used)
		}
		n := u.Draw(r)
		if r.Chance(1, 8) {
			n = enc.Name{} // the zero-component prefix "/" (default route)
		}
		used = append(used, n)
		return n
	}
	type rt struct {
		n    enc.Name
		f, o int
	}
	var routes []rt
	for k, nops := 0, r.Range(10, 40); k < nops; k++ {
		n := draw()
		switch x := r.Intn(100); {
		case x < 45:
			f, o := r.Range(1, 3), common.Pick(r, []int{0, 65})
			g.Op("radd %s %d %d %d %d", common.NameText(n), f, o, r.Range(0, 20), r.Range(0, 3))
			routes = append(routes, rt{n, f, o})
		case x < 88:
			f, o := r.Range(1, 3), common.Pick(r, []int{0, 65})
			if len(routes) > 0 && r.Chance(4, 5) {
				i := r.Intn(len(routes))
				n, f, o = routes[i].n, routes[i].f, routes[i].o
				routes = append(routes[:i], routes[i+1:]...)
			}
			g.Op("rrem %s %d %d", common.NameText(n), f, o)
		default:
			g.Op("rface %d", r.Range(1, 3))
		}
		g.Stat("rib-op")
	}
}

func gen(g *common.Gen) {
	// consecutive VERIF_SEEDs give splitmix streams shifted by one draw: re-seed from the first draw so
	// that the batches of the thorough tier are unrelated
	base := common.NewRand(g.R.U64() ^ 0x5bd1e995c08)
	for i := 0; i < g.N; i++ {
		r := base.Fork()
		switch i % 5 {
		case 0, 1, 2:
			genPit(g, r)
		case 3:
			genFib(g, r)
		default:
			genRib(g, r)
		}
	}
}

// ------------------------------------------------------------------ fake faces

type sendRec struct{ s string }

var sent []string

type fakeFace struct{ id uint64 }

func (f *fakeFace) String() string          { return "fake" + strconv.FormatUint(f.id, 10) }
func (f *fakeFace) SetFaceID(id uint64)     { f.id = id }
func (f *fakeFace) FaceID() uint64          { return f.id }
func (f *fakeFace) LocalURI() *defn.URI     { return nil }
func (f *fakeFace) RemoteURI() *defn.URI    { return nil }
func (f *fakeFace) Scope() defn.Scope       { return defn.NonLocal }
func (f *fakeFace) LinkType() defn.LinkType { return defn.PointToPoint }
func (f *fakeFace) MTU() int                { return 8800 }
func (f *fakeFace) State() defn.State       { return defn.Up }
func (f *fakeFace) SendPacket(out dispatch.OutPkt) {
	switch {
	case out.Pkt.L3.Interest != nil:
		sent = append(sent, "I>"+strconv.FormatUint(f.id, 10)+":"+common.NameText(out.Pkt.L3.Interest.NameV))
	case out.Pkt.L3.Data != nil:
		sent = append(sent, "D>"+strconv.FormatUint(f.id, 10)+":"+common.NameText(out.Pkt.L3.Data.NameV))
	}
}

// ------------------------------------------------------------------ executor state

var (
	cfg      *core.Config
	mode     string
	th       *fw.Thread
	t0       time.Time
	tokIdx   map[uint32]int
	tokReal  []uint32
	names    map[string]enc.Name // every name of the history (for the DNL / virtual-name dictionaries)
	nonces   map[uint32]bool
	hashName map[uint64]string
	clash    string
)

const multicast = "/localhost/nfd/strategy/multicast/v=1"

func noteName(n enc.Name) {
	for k := 0; k <= len(n); k++ {
		p := n[:k]
		txt := common.NameText(p)
		names[txt] = p
		h := p.Hash()
		if prev, ok := hashName[h]; ok && prev != txt {
			clash = "HASH-COLLISION " + prev + " " + txt
		}
		hashName[h] = txt
	}
}

func stopThread() {
	if th == nil {
		return
	}
	core.ShouldQuit = true
	time.Sleep(250 * time.Millisecond)
	<-th.HasQuit
	time.Sleep(250 * time.Millisecond)
	select {
	case <-th.VerifC08PitCs().UpdateTimer():
	default:
	}
	core.ShouldQuit = false
	th = nil
}

func rel(ns int64) string { return strconv.FormatInt(ns-t0.UnixNano(), 10) }

func joinOr(sep string, l []string) string {
	if len(l) == 0 {
		return "-"
	}
	return strings.Join(l, sep)
}

func sortedNames(l []enc.Name) string {
	out := make([]string, len(l))
	for i, n := range l {
		out[i] = common.NameText(n)
	}
	sort.Strings(out)
	return joinOr(",", out)
}

func b01(b bool) string {
	if b {
		return "1"
	}
	return "0"
}

func dumpPit() string {
	d := table.VerifC08DumpPitCs(th.VerifC08PitCs())
	// tokens are renamed by order of creation (at most one entry is created per operation)
	var fresh []uint32
	for _, e := range d.Pit {
		if _, ok := tokIdx[e.Token]; !ok {
			fresh = append(fresh, e.Token)
		}
	}
	sort.Slice(fresh, func(i, j int) bool { return fresh[i] < fresh[j] })
	for _, t := range fresh {
		tokIdx[t] = len(tokReal)
		tokReal = append(tokReal, t)
	}
	sort.Slice(d.Pit, func(i, j int) bool { return tokIdx[d.Pit[i].Token] < tokIdx[d.Pit[j].Token] })
	var es []string
	for _, e := range d.Pit {
		var ins, outs []string
		for _, r := range e.In {
			ins = append(ins, fmt.Sprintf("%d~%d~%s", r.Face, r.Nonce, rel(r.Expiration)))
		}
		for _, r := range e.Out {
			outs = append(outs, fmt.Sprintf("%d~%d~%s~%s", r.Face, r.Nonce, rel(r.Timestamp), rel(r.Expiration)))
		}
		q := "-"
		if e.Queued {
			q = rel(e.Priority)
		}
		es = append(es, fmt.Sprintf("T%d|%s|%s%s|%s|%s|%s|%s", tokIdx[e.Token], common.NameText(e.Name), b01(e.CanBePrefix), b01(e.MustBeFresh),
			joinOr("+", ins), joinOr("+", outs), q, b01(e.Satisfied)))
	}
	var lru []string
	for _, n := range d.LruOrder {
		if n == nil {
			lru = append(lru, "?")
		} else {
			lru = append(lru, common.NameText(n))
		}
	}
	// dead nonce list: keys are hash(name)+nonce; translate back through the names and nonces of the history
	keys, dq := th.VerifC08DeadNonceList().VerifC08Dump()
	dict := map[uint64]string{}
	for txt, n := range names {
		for nonce := range nonces {
			k := n.Hash() + uint64(nonce)
			v := txt + "#" + strconv.FormatUint(uint64(nonce), 10)
			if _, ok := dict[k]; ok {
				continue // a key shared by two (name, nonce) pairs is rendered as the first; the dump then differs from the model
			}
			dict[k] = v
		}
	}
	var dn []string
	for _, k := range keys {
		if v, ok := dict[k]; ok {
			dn = append(dn, v)
		} else {
			dn = append(dn, "?"+strconv.FormatUint(k, 16))
		}
	}
	sort.Strings(dn)
	sort.Strings(sent)
	s := fmt.Sprintf("t=%s sent=%s npit=%d ncs=%d tokmap=%d q=%d pit=%s nodes=%s cs=%s lru=%s loc=%d dnl=%s dnlq=%d",
		rel(time.Now().UnixNano()), joinOr(",", sent), d.NPit, d.NCs, d.TokenMapLen, d.QueueLen, joinOr(";", es),
		sortedNames(d.Nodes), sortedNames(d.CsNames), joinOr(",", lru), d.LruLocations, joinOr(",", dn), dq)
	sent = nil
	return s
}

func nhText(n int, hasStrategy bool) string { return strconv.Itoa(n) + "|" + b01(hasStrategy) }

func dumpFib() string {
	switch table.FibStrategyTable.(type) {
	case *table.FibStrategyTree:
		nodes, pfx := table.VerifC08FibTreeNodes()
		var l []string
		for _, n := range nodes {
			l = append(l, common.NameText(n.Path)+"|"+nhText(n.NumNextHops, n.HasStrategy))
		}
		sort.Strings(l)
		return fmt.Sprintf("nodes=%s pfx=%d", joinOr(",", l), pfx)
	default:
		m, real, virt := table.VerifC08FibHashDump()
		var l, v []string
		for _, n := range real {
			l = append(l, common.NameText(n.Path)+"|"+nhText(n.NumNextHops, n.HasStrategy))
		}
		sort.Strings(l)
		for _, e := range virt {
			name, ok := hashName[e.Hash]
			if !ok {
				name = "?"
			}
			md := "-"
			if e.InVirt {
				md = strconv.Itoa(e.Md)
			}
			ns := "!"
			if e.InNames {
				var xs []string
				for _, nb := range e.NameBytes {
					// the set holds Name.Bytes() (TLV with outer type 7)
					if nm, err := enc.NameFromBytes([]byte(nb)); err == nil {
						xs = append(xs, common.NameText(nm))
					} else {
						xs = append(xs, "?")
					}
				}
				sort.Strings(xs)
				ns = strings.Join(xs, "+")
			}
			v = append(v, name+"|"+md+"|"+ns)
		}
		sort.Strings(v)
		return fmt.Sprintf("m=%d real=%s virt=%s", m, joinOr(",", l), joinOr(",", v))
	}
}

func dumpRib() string {
	var l []string
	for _, n := range table.VerifC08RibNodes() {
		l = append(l, common.NameText(n.Path)+"|"+strconv.Itoa(n.NumRoutes))
	}
	sort.Strings(l)
	// routes and FIB next hops through the exported listings (faces sorted)
	faces := func(ids []uint64) string {
		sort.Slice(ids, func(i, j int) bool { return ids[i] < ids[j] })
		out := make([]string, len(ids))
		for i, id := range ids {
			out[i] = strconv.FormatUint(id, 10)
		}
		return strings.Join(out, "+")
	}
	var routes, fibnh []string
	for _, e := range table.Rib.GetAllEntries() {
		var ids []uint64
		for _, rt := range e.GetRoutes() {
			ids = append(ids, rt.FaceID)
		}
		routes = append(routes, common.NameText(e.Name)+"|"+faces(ids))
	}
	for _, e := range table.FibStrategyTable.GetAllFIBEntries() {
		var ids []uint64
		for _, nh := range e.GetNextHops() {
			ids = append(ids, nh.Nexthop)
		}
		fibnh = append(fibnh, common.NameText(e.Name())+"|"+faces(ids))
	}
	sort.Strings(routes)
	sort.Strings(fibnh)
	return "rib=" + joinOr(",", l) + " routes=" + joinOr(",", routes) + " ;; " + dumpFib() + " fibnh=" + joinOr(",", fibnh)
}

func resetDicts() {
	names, nonces, hashName, clash = map[string]enc.Name{}, map[uint32]bool{}, map[uint64]string{}, ""
	noteName(enc.Name{})
}

func kvArg(s string) string { return s[strings.IndexByte(s, '=')+1:] }

func exec(op string) string {
	f := common.Fields(op)
	if f[0] == "new" {
		stopThread()
		resetDicts()
		mode = ""
		switch f[1] {
		case "pit":
			cfg.Tables.ContentStore.Capacity = uint16(common.Atoi(kvArg(f[2])))
			cfg.Tables.DeadNonceList.Lifetime = common.Atoi(kvArg(f[3]))
			table.Configure()
			fw.Configure()
			table.CreateFIBTable("nametree")
			if kvArg(f[4]) == "multi" {
				sn, _ := enc.NameFromStr(multicast)
				table.FibStrategyTable.SetStrategyEnc(enc.Name{}, sn)
			}
			if nh := kvArg(f[5]); nh != "-" {
				for _, p := range strings.Split(nh, ",") {
					fc := strings.Split(p, ":")
					table.FibStrategyTable.InsertNextHopEnc(enc.Name{}, common.Atou(fc[0]), common.Atou(fc[1]))
				}
			}
			for id := uint64(1); id <= 4; id++ {
				dispatch.AddFace(id, &fakeFace{id: id})
			}
			th = fw.NewThread(0)
			fw.Threads = []*fw.Thread{th}
			dispatch.InitializeFWThreads([]dispatch.FWThread{th})
			t0 = time.Now()
			tokIdx, tokReal, sent = map[uint32]int{}, nil, nil
			go th.Run()
			synctest.Wait()
			mode = "pit"
		case "fibtree":
			table.CreateFIBTable("nametree")
			mode = "fib"
		case "fibhash":
			cfg.Tables.Fib.Hashtable.M = uint16(common.Atoi(f[2]))
			table.CreateFIBTable("hashtable")
			mode = "fib"
		case "rib":
			if f[2] == "tree" {
				table.CreateFIBTable("nametree")
			} else {
				cfg.Tables.Fib.Hashtable.M = uint16(common.Atoi(f[3]))
				table.CreateFIBTable("hashtable")
			}
			table.VerifC08ResetRib()
			mode = "rib"
		default:
			return "bad-op"
		}
		return "ok"
	}
	switch f[0] {
	case "I", "D", "adv", "advu", "quiesce", "cap":
		if mode != "pit" {
			return "skip"
		}
	case "fins", "frem", "fclr", "fset", "funs":
		if mode != "fib" {
			return "skip"
		}
	case "radd", "rrem", "rface":
		if mode != "rib" {
			return "skip"
		}
	}
	switch f[0] {
	case "I":
		n := common.ParseNameText(f[2])
		noteName(n)
		it := &spec.Interest{NameV: n, CanBePrefixV: f[3] == "1", MustBeFreshV: f[4] == "1"}
		if f[5] != "-" {
			nonce := uint32(common.Atou(f[5]))
			nonces[nonce] = true
			it.NonceV = utils.IdPtr(nonce)
		}
		if f[6] != "-" {
			it.InterestLifetimeV = utils.IdPtr(time.Duration(common.Atoi(f[6])) * time.Millisecond)
		}
		pkt := &defn.Pkt{Name: n, L3: &spec.Packet{Interest: it}, IncomingFaceID: utils.IdPtr(common.Atou(f[1]))}
		if len(f) > 7 && f[7] != "-" {
			it.HopLimitV = utils.IdPtr(byte(common.Atoi(f[7])))
		}
		if len(f) > 8 && f[8] != "-" {
			pkt.NextHopFaceID = utils.IdPtr(common.Atou(f[8]))
		}
		th.QueueInterest(pkt)
		synctest.Wait()
		return dumpPit()
	case "D":
		wire := common.UnHex(f[5])
		pkt, _, err := spec.ReadPacket(enc.NewBufferReader(wire))
		if err != nil || pkt.Data == nil || !pkt.Data.NameV.Equal(common.ParseNameText(f[2])) {
			return "bad-op"
		}
		fs := "-"
		if pkt.Data.MetaInfo != nil && pkt.Data.MetaInfo.FreshnessPeriod != nil {
			fs = strconv.FormatInt(pkt.Data.MetaInfo.FreshnessPeriod.Milliseconds(), 10)
		}
		if fs != f[3] {
			return "bad-op"
		}
		noteName(pkt.Data.NameV)
		p := &defn.Pkt{Name: pkt.Data.NameV, L3: pkt, Raw: wire, IncomingFaceID: utils.IdPtr(common.Atou(f[1]))}
		switch {
		case f[4] == "-":
		case f[4] == "S":
			p.PitToken = []byte{0, 0, 0, 1}
		case f[4] == "X":
			tok := uint32(0x7fffffff)
			for _, ok := tokIdx[tok]; ok; _, ok = tokIdx[tok] {
				tok--
			}
			p.PitToken = make([]byte, 6)
			binary.BigEndian.PutUint32(p.PitToken[2:], tok)
		default:
			k := common.Atoi(f[4][1:])
			if k >= len(tokReal) {
				return "skip"
			}
			p.PitToken = make([]byte, 6)
			binary.BigEndian.PutUint32(p.PitToken[2:], tokReal[k])
		}
		th.QueueData(p)
		synctest.Wait()
		return dumpPit()
	case "advu":
		time.Sleep(time.Duration(common.Atoi(f[1])) * time.Microsecond)
		synctest.Wait()
		return dumpPit()
	case "adv", "quiesce":
		time.Sleep(time.Duration(common.Atoi(f[1])) * time.Millisecond)
		synctest.Wait()
		return dumpPit()
	case "cap":
		table.SetCsCapacity(common.Atoi(f[1]))
		return dumpPit()
	case "fins":
		n := common.ParseNameText(f[1])
		noteName(n)
		table.FibStrategyTable.InsertNextHopEnc(n, common.Atou(f[2]), common.Atou(f[3]))
		return dumpFib()
	case "frem":
		n := common.ParseNameText(f[1])
		noteName(n)
		table.FibStrategyTable.RemoveNextHopEnc(n, common.Atou(f[2]))
		return dumpFib()
	case "fclr":
		n := common.ParseNameText(f[1])
		noteName(n)
		table.FibStrategyTable.ClearNextHopsEnc(n)
		return dumpFib()
	case "fset":
		n := common.ParseNameText(f[1])
		noteName(n)
		sn, _ := enc.NameFromStr(multicast)
		table.FibStrategyTable.SetStrategyEnc(n, sn)
		return dumpFib()
	case "funs":
		n := common.ParseNameText(f[1])
		noteName(n)
		table.FibStrategyTable.UnSetStrategyEnc(n)
		return dumpFib()
	case "radd":
		n := common.ParseNameText(f[1])
		noteName(n)
		table.Rib.AddEncRoute(n, &table.Route{FaceID: common.Atou(f[2]), Origin: common.Atou(f[3]), Cost: common.Atou(f[4]), Flags: common.Atou(f[5])})
		return dumpRib()
	case "rrem":
		n := common.ParseNameText(f[1])
		noteName(n)
		table.Rib.RemoveRouteEnc(n, common.Atou(f[2]), common.Atou(f[3]))
		return dumpRib()
	case "rface":
		table.Rib.CleanUpFace(common.Atou(f[1]))
		return dumpRib()
	}
	return "bad-op"
}

func TestVerif(t *testing.T) {
	cfg = core.DefaultConfig()
	cfg.Core.LogLevel = "FATAL"
	cfg.Fw.Threads = 1
	core.LoadConfig(cfg, "")
	core.InitializeLogger("/dev/null")
	synctest.Test(t, func(t *testing.T) {
		common.Main(t, gen, exec)
		stopThread()
	})
}
