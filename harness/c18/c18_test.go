//go:build verif

// C18 correspondence harness: simulated networks of real dv.Router tables.
//
// ops (one history = one network):
//
//	new <n>            create n routers                     => ok <hash0> ... <hash(n-1)>
//	link <a> <b>       the link a-b comes up (topology only) => ok | skip
//	unlink <a> <b>     the link a-b goes down (topology only)=> ok | skip
//	fetch <u> <w>      a Sync Interest of w announces w's current advertisement number to u (real
//	                   advertSyncOnInterest); if it is newer than what u remembers u fetches w's current
//	                   advertisement and the reply goes through the real advertDataHandler / ribUpdate
//	                                                         => <dump of u> started=<0|1> ann=ok | skip
//	snap <u> <w>       same announcement, but the reply (w's advertisement as of now) stays in flight
//	                                                         => <dump of u> started=<0|1> ann=ok | skip
//	reply <u> <w> <i|last>  the reply of the i-th fetch started by `snap u w` reaches u's advertDataHandler
//	                   (late, duplicated, out of order, after the neighbour was removed: must be ignored
//	                   unless it carries the latest announced number)   => <dump of u> ann=ok | skip
//	fetchrace <u> <w>  advertDataHandler stores w's advertisement, the dead sweep removes w, then the
//	                   pending ribUpdate runs on the removed neighbour state => <dump of u> ann=ok | skip
//	dead <u> <w>       u's dead-neighbor check removes w     => <dump of u> | skip
//	sweep <u> <w1,w2,..> ONE dead-neighbor check of u finds all of them dead => <dump of u> | skip
//	timeout <u> <w>    the Interest of u's latest advertisement fetch of w times out once (the router's
//	                   retry loop must re-express it)        => <dump of u> pending=<0|1> ann=ok | skip
//	outage <u> <w>     ... it keeps timing out for longer than the dead interval (no deadcheck in between)
//	cfg <adv> <dead>   the real Config.Parse on these intervals (ms)   => accept | reject
//	new <n> <adv> <dead>  routers with these intervals       => ok <hashes> | rejected
//	check              dump of every router                  => r0 <dump> ; r1 <dump> ; ...
//	tick               more than a dead interval passes: heartbeats with unchanged numbers over the up
//	                   links (real advertSyncOnInterest), then the deadcheck sweep at every router
//	                                                         => r0 <dump> ; r1 <dump> ; ...
//	restart <x>        router x crashes and boots again (real NewRouter: boot sequence number from the
//	                   clock, empty tables); its neighbours keep what they remember   => <dump of x> ann=ok
package c18

import (
	"fmt"
	"os"
	"strings"
	"testing"
	"testing/synctest"
	"time"

	"github.com/named-data/ndnd/dv/tlv"
	enc "github.com/named-data/ndnd/std/encoding"
	"github.com/named-data/ndnd/std/ndn"

	"verif/harness/c18/dvsim"
	"verif/harness/common"
)

// ---------------------------------------------------------------- generator

type edge struct{ a, b int }

type topo struct {
	n   int
	adj [][]bool
}

func newTopo(n int) *topo {
	t := &topo{n: n, adj: make([][]bool, n)}
	for i := range t.adj {
		t.adj[i] = make([]bool, n)
	}
	return t
}

func (t *topo) edges() []edge {
	var es []edge
	for a := 0; a < t.n; a++ {
		for b := a + 1; b < t.n; b++ {
			if t.adj[a][b] {
				es = append(es, edge{a, b})
			}
		}
	}
	return es
}

func (t *topo) directed() []edge {
	var es []edge
	for a := 0; a < t.n; a++ {
		for b := 0; b < t.n; b++ {
			if t.adj[a][b] {
				es = append(es, edge{a, b})
			}
		}
	}
	return es
}

func connectedMask(n int, mask uint32) bool {
	adj := make([][]bool, n)
	for i := range adj {
		adj[i] = make([]bool, n)
	}
	k := 0
	for a := 0; a < n; a++ {
		for b := a + 1; b < n; b++ {
			if mask&(1<<k) != 0 {
				adj[a][b], adj[b][a] = true, true
			}
			k++
		}
	}
	seen := make([]bool, n)
	st := []int{0}
	seen[0] = true
	cnt := 1
	for len(st) > 0 {
		x := st[len(st)-1]
		st = st[:len(st)-1]
		for y := 0; y < n; y++ {
			if adj[x][y] && !seen[y] {
				seen[y] = true
				cnt++
				st = append(st, y)
			}
		}
	}
	return cnt == n
}

type gspec struct {
	n    int
	mask uint32
}

// allConnected enumerates every labelled connected graph on 2..maxN routers.
func allConnected(maxN int) []gspec {
	var out []gspec
	for n := 2; n <= maxN; n++ {
		m := n * (n - 1) / 2
		for mask := uint32(0); mask < 1<<m; mask++ {
			if connectedMask(n, mask) {
				out = append(out, gspec{n, mask})
			}
		}
	}
	return out
}

func topoOf(gs gspec) *topo {
	t := newTopo(gs.n)
	k := 0
	for a := 0; a < gs.n; a++ {
		for b := a + 1; b < gs.n; b++ {
			if gs.mask&(1<<k) != 0 {
				t.adj[a][b], t.adj[b][a] = true, true
			}
			k++
		}
	}
	return t
}

func randomConnected(r *common.Rand, n int) *topo {
	t := newTopo(n)
	perm := shuffled(r, n)
	for i := 1; i < n; i++ {
		a, b := perm[i], perm[r.Intn(i)]
		t.adj[a][b], t.adj[b][a] = true, true
	}
	extra := r.Intn(n + 1)
	for i := 0; i < extra; i++ {
		a, b := r.Intn(n), r.Intn(n)
		if a != b {
			t.adj[a][b], t.adj[b][a] = true, true
		}
	}
	return t
}

func shuffled(r *common.Rand, n int) []int {
	p := make([]int, n)
	for i := range p {
		p[i] = i
	}
	for i := n - 1; i > 0; i-- {
		j := r.Intn(i + 1)
		p[i], p[j] = p[j], p[i]
	}
	return p
}

// Rounds of the convergence bound the specification uses: infinity (16) fair rounds.
const boundRounds = 16

type hgen struct {
	g    *common.Gen
	r    *common.Rand
	t    *topo
	ever []edge // every link of the initial topology
}

// one fair round: every directed edge of the current topology once, in random order, with a few
// extra (repeated) fetches mixed in
func (h *hgen) round() {
	es := h.t.directed()
	p := shuffled(h.r, len(es))
	for _, i := range p {
		h.g.Op("fetch %d %d", es[i].a, es[i].b)
		h.g.Stat("fetch")
		if len(es) > 0 && h.r.Chance(1, 8) {
			x := es[h.r.Intn(len(es))]
			h.g.Op("fetch %d %d", x.a, x.b)
			h.g.Stat("fetch")
		}
	}
}

func (h *hgen) rounds(k int) {
	for i := 0; i < k; i++ {
		h.round()
	}
}

// an unfair stretch: random fetches over the current topology
func (h *hgen) randomFetches(k int) {
	es := h.t.directed()
	if len(es) == 0 {
		return
	}
	for i := 0; i < k; i++ {
		x := es[h.r.Intn(len(es))]
		h.g.Op("fetch %d %d", x.a, x.b)
		h.g.Stat("fetch")
	}
}

// replies to advertisement fetches arrive late, duplicated and out of order on one link while the
// neighbour's advertisement changes in between
func (h *hgen) reorder() {
	// a link a->b whose far end b has another neighbour y: losing / regaining b-y changes b's advertisement
	var cands [][3]int
	for _, e := range h.t.directed() {
		for _, o := range h.incident(e.b) {
			if o.b != e.a {
				cands = append(cands, [3]int{e.a, e.b, o.b})
			}
		}
	}
	if len(cands) == 0 {
		return
	}
	c := cands[h.r.Intn(len(cands))]
	a, b, y := c[0], c[1], c[2]
	h.g.Stat("reorder-episode")
	change := func(down bool) {
		if down {
			h.g.Op("unlink %d %d", b, y)
			h.g.Op("dead %d %d", b, y)
			h.g.Op("dead %d %d", y, b)
		} else {
			h.g.Op("link %d %d", b, y)
			h.g.Op("fetch %d %d", b, y)
			h.g.Op("fetch %d %d", y, b)
		}
		if h.r.Chance(1, 2) {
			h.randomFetches(h.r.Range(0, h.t.n))
		}
	}
	h.t.adj[b][y], h.t.adj[y][b] = false, false
	change(true)
	h.g.Op("snap %d %d", a, b)
	if h.r.Chance(1, 3) {
		h.g.Op("reply %d %d last", a, b)
	}
	h.t.adj[b][y], h.t.adj[y][b] = true, true
	change(false)
	h.g.Op("snap %d %d", a, b)
	if h.r.Chance(1, 3) {
		h.t.adj[b][y], h.t.adj[y][b] = false, false
		change(true)
		h.g.Op("snap %d %d", a, b)
	}
	// deliveries in any order, with duplicates; the reply to the latest fetch arrives at some point
	order := []string{"last"}
	for i := 0; i < 3; i++ {
		if h.r.Chance(2, 3) {
			order = append(order, fmt.Sprint(i))
		}
	}
	if h.r.Chance(1, 2) {
		order = append(order, "0")
	}
	for _, i := range shuffled(h.r, len(order)) {
		h.g.Op("reply %d %d %s", a, b, order[i])
		h.g.Stat("reply")
	}
	h.g.Op("reply %d %d last", a, b)
}

// every link of the topology's history (the generator only ever re-adds links that existed) is a
// bridge: then the number of routers bounds the rounds to convergence (no counting to infinity)
func (h *hgen) forest() bool {
	parent := make([]int, h.t.n)
	for i := range parent {
		parent[i] = i
	}
	var find func(int) int
	find = func(x int) int {
		if parent[x] != x {
			parent[x] = find(parent[x])
		}
		return parent[x]
	}
	for _, e := range h.ever {
		a, b := find(e.a), find(e.b)
		if a == b {
			return false
		}
		parent[a] = b
	}
	return true
}

func (h *hgen) converge() {
	k := boundRounds
	if h.forest() && h.t.n < k {
		k = h.t.n
		h.g.Stat("converge-forest-bound")
	}
	h.rounds(k)
	h.g.Op("check")
	if h.r.Chance(1, 3) {
		// stable links: more than a dead interval of heartbeats and a deadcheck sweep change nothing
		h.g.Op("tick")
		h.g.Stat("tick")
	}
	h.round()
	h.g.Op("check")
	h.g.Stat("quiescence-check")
}

// an advertisement fetch is outstanding when the link fails; the outage lasts longer than the dead interval
// but the link is back (heartbeat) before the next deadcheck; the fetch must still complete
func (h *hgen) outage() {
	var cands [][3]int
	for _, e := range h.t.directed() {
		for _, o := range h.incident(e.b) {
			if o.b != e.a {
				cands = append(cands, [3]int{e.a, e.b, o.b})
			}
		}
	}
	if len(cands) == 0 {
		return
	}
	c := cands[h.r.Intn(len(cands))]
	a, b, y := c[0], c[1], c[2]
	h.g.Stat("outage-episode")
	// b's advertisement changes (it loses y), a is told and starts to fetch
	h.t.adj[b][y], h.t.adj[y][b] = false, false
	h.g.Op("unlink %d %d", b, y)
	h.g.Op("dead %d %d", b, y)
	h.g.Op("dead %d %d", y, b)
	h.g.Op("snap %d %d", a, b)
	if h.r.Chance(1, 3) {
		h.g.Op("timeout %d %d", a, b)
	}
	h.g.Op("unlink %d %d", a, b)
	h.g.Op("outage %d %d", a, b)
	h.g.Op("link %d %d", a, b)
	h.g.Op("fetch %d %d", a, b) // the neighbour's heartbeat: same number as announced before the outage
	h.g.Op("fetch %d %d", b, a)
	h.g.Op("reply %d %d last", a, b)
}

// a router restarts soon after it (and its neighbours) learnt something: the neighbours remember a
// sequence number of the old instance, the new instance has to be fetched from again
func (h *hgen) earlyRestart() {
	x := h.r.Intn(h.t.n)
	nb := h.incident(x)
	if len(nb) == 0 {
		return
	}
	h.g.Stat("restart-episode")
	for _, e := range nb {
		h.g.Op("fetch %d %d", x, e.b)
	}
	for _, e := range nb {
		h.g.Op("fetch %d %d", e.b, x)
	}
	if h.r.Chance(1, 2) {
		h.randomFetches(h.r.Intn(h.t.n))
	}
	h.g.Op("restart %d", x)
}

// remove the given links; the dead-neighbor detections are delivered at random points of a stretch
// of ordinary exchanges
func (h *hgen) lose(es []edge) {
	var deads []edge
	for _, e := range es {
		if !h.t.adj[e.a][e.b] {
			continue
		}
		h.t.adj[e.a][e.b], h.t.adj[e.b][e.a] = false, false
		h.g.Op("unlink %d %d", e.a, e.b)
		h.g.Stat("unlink")
		deads = append(deads, edge{e.a, e.b}, edge{e.b, e.a})
	}
	// several neighbours of one router may expire within the same dead interval: ONE sweep finds them all
	byU := map[int][]int{}
	var single []edge
	for _, d := range deads {
		byU[d.a] = append(byU[d.a], d.b)
	}
	type sweep struct {
		u  int
		ws []int
	}
	var sweeps []sweep
	for u := 0; u < h.t.n; u++ {
		ws := byU[u]
		if len(ws) >= 2 && h.r.Chance(2, 3) {
			k := h.r.Range(2, len(ws))
			sweeps = append(sweeps, sweep{u, ws[:k]})
			ws = ws[k:]
		}
		for _, w := range ws {
			single = append(single, edge{u, w})
		}
	}
	total := len(single) + len(sweeps)
	p := shuffled(h.r, total)
	for _, i := range p {
		h.randomFetches(h.r.Intn(4))
		if i < len(single) {
			if h.r.Chance(1, 4) {
				// an advertisement of the lost neighbour is still being processed when the sweep removes it
				h.g.Op("fetchrace %d %d", single[i].a, single[i].b)
				h.g.Stat("fetchrace")
			} else {
				h.g.Op("dead %d %d", single[i].a, single[i].b)
				h.g.Stat("dead")
			}
		} else {
			sw := sweeps[i-len(single)]
			parts := make([]string, len(sw.ws))
			for j, w := range sw.ws {
				parts[j] = fmt.Sprint(w)
			}
			h.g.Op("sweep %d %s", sw.u, strings.Join(parts, ","))
			h.g.Stat("sweep-multi")
		}
	}
}

func (h *hgen) relink(es []edge) {
	for _, e := range es {
		if h.t.adj[e.a][e.b] {
			continue
		}
		h.t.adj[e.a][e.b], h.t.adj[e.b][e.a] = true, true
		h.g.Op("link %d %d", e.a, e.b)
		h.g.Stat("link")
	}
}

func (h *hgen) incident(x int) []edge {
	var es []edge
	for y := 0; y < h.t.n; y++ {
		if h.t.adj[x][y] {
			es = append(es, edge{x, y})
		}
	}
	return es
}

func (h *hgen) history(t *topo, cycles int) {
	h.t = t
	h.ever = t.edges()
	if h.r.Chance(1, 8) {
		// routers with non-default intervals, if the real Config.Parse accepts them
		pairs := [][2]int{{5000, 10000}, {5000, 10001}, {6000, 30000}, {5000, 9999}, {5000, 5000}, {5000, 3000}, {8000, 4000}}
		pr := pairs[h.r.Intn(len(pairs))]
		h.g.Op("new %d %d %d", t.n, pr[0], pr[1])
		h.g.Stat("new-with-intervals")
	} else {
		h.g.Op("new %d", t.n)
	}
	// the configuration check on pairs around the boundary "dead interval at least 2 advertise intervals"
	if h.r.Chance(1, 2) {
		adv := uint64(common.Pick(h.r, []int{1000, 2000, 5000, 7000}))
		for _, dead := range []uint64{2*adv - 1, 2 * adv, 2*adv + 1, adv, adv / 2, 1, 0, 30000} {
			if h.r.Chance(1, 2) {
				h.g.Op("cfg %d %d", adv, dead)
				h.g.Stat("cfg")
			}
		}
	}
	h.g.Stat(fmt.Sprintf("routers-%d", t.n))
	for _, e := range t.edges() {
		h.g.Op("link %d %d", e.a, e.b)
		h.g.Stat("link")
	}
	if h.r.Chance(1, 3) {
		h.earlyRestart()
	}
	if h.r.Chance(1, 3) {
		h.randomFetches(h.r.Intn(3 * t.n))
	}
	h.converge()
	if h.r.Chance(1, 2) {
		h.reorder()
		h.converge()
	}
	if h.r.Chance(1, 3) {
		h.outage()
		h.converge()
	}
	if h.r.Chance(1, 4) {
		h.g.Op("restart %d", h.r.Intn(t.n))
		h.g.Stat("restart-late")
		h.converge()
	}
	for c := 0; c < cycles; c++ {
		var lost []edge
		es := t.edges()
		if len(es) == 0 {
			break
		}
		switch h.r.Intn(3) {
		case 0: // one link
			lost = []edge{es[h.r.Intn(len(es))]}
			h.g.Stat("loss-link")
		case 1: // a router (all its links)
			lost = h.incident(h.r.Intn(t.n))
			h.g.Stat("loss-router")
		default: // several links
			for _, e := range es {
				if h.r.Chance(1, 3) {
					lost = append(lost, e)
				}
			}
			h.g.Stat("loss-multi")
		}
		h.lose(lost)
		if h.r.Chance(1, 4) {
			// spurious dead detection on a live link (lost pings): the neighbor comes back with the next fetch
			if es2 := t.directed(); len(es2) > 0 {
				x := es2[h.r.Intn(len(es2))]
				h.g.Op("dead %d %d", x.a, x.b)
				h.g.Stat("dead-spurious")
			}
		}
		h.converge()
		if h.r.Chance(3, 4) {
			h.relink(lost)
			if h.r.Chance(1, 3) {
				h.randomFetches(h.r.Intn(2 * t.n))
				h.g.Op("check")
			}
			h.converge()
		}
	}
}

func gen(g *common.Gen) {
	h := &hgen{g: g, r: common.NewRand(dvsim.ScrambleSeed(common.Seed()))}
	maxN := 4
	if common.Thorough() {
		maxN = 5
	}
	all := allConnected(maxN)
	// exhaustive part: every labelled connected graph (thorough: sliced over the 8 batches by seed)
	mod, slice := 1, 0
	if common.Thorough() {
		mod, slice = 8, int(common.Seed()%8)
	}
	count := 0
	for i, gs := range all {
		if i%mod != slice {
			continue
		}
		h.history(topoOf(gs), 1)
		g.Stat("exhaustive-graph")
		count++
	}
	// closed-loop part: real Router.Start, the harness is only a lossy network (wire mode)
	wireN := g.N / 8
	if wireN < 6 {
		wireN = 6
	}
	for i := 0; i < wireN; i++ {
		h.wireHistory()
		g.Stat("wire-history")
	}
	// random part
	for ; count < g.N; count++ {
		n := h.r.Range(2, 8)
		if h.r.Chance(1, 4) {
			n = h.r.Range(5, 8)
		}
		h.history(randomConnected(h.r, n), h.r.Range(1, 3))
		g.Stat("random-graph")
	}
}

// wireHistory: n started routers on a random connected topology with short (but valid) intervals; stretches of a
// lossy, duplicating, reordering network; link changes and restarts in between; `wquiet` = the network turns
// reliable until nothing moves any more, then every table and every link is examined.
func (h *hgen) wireHistory() {
	g, r := h.g, h.r
	n := r.Range(2, 6)
	t := randomConnected(r, n)
	adv := 1000 * r.Range(1, 2)
	dead := adv * r.Range(2, 3)
	g.Op("neww %d %d %d", n, adv, dead)
	for _, e := range t.edges() {
		g.Op("link %d %d", e.a, e.b)
	}
	run := func() {
		g.Op("wrun %d %d %d %d %d", r.Range(200, 4000), r.U64()%1000000, r.Pick3(0, 10, 30), r.Pick3(0, 10, 25), r.Pick3(0, 20, 300))
	}
	for phase := r.Range(1, 3); phase > 0; phase-- {
		for k := r.Range(1, 3); k > 0; k-- {
			run()
			switch r.Intn(5) {
			case 0: // a link goes down (the topology may fall apart)
				if es := t.edges(); len(es) > 0 {
					e := es[r.Intn(len(es))]
					t.adj[e.a][e.b], t.adj[e.b][e.a] = false, false
					g.Op("unlink %d %d", e.a, e.b)
				}
			case 1: // a new link
				a, b := r.Intn(n), r.Intn(n)
				if a != b && !t.adj[a][b] {
					t.adj[a][b], t.adj[b][a] = true, true
					g.Op("link %d %d", a, b)
				}
			case 2:
				g.Op("wrestart %d", r.Intn(n))
			}
		}
		g.Op("wquiet %d", r.U64()%1000000)
	}
}

// ---------------------------------------------------------------- executor (real code)

type flight struct {
	p       dvsim.Pending
	content []byte
	live    bool // the Interest is still pending at the router (not yet timed out without a retry)
}

var (
	sim     *dvsim.Sim
	link    [][]bool
	ver     []uint64            // advertisement number of every router (advances when its advertisement changes)
	lastAdv []string            // last advertisement text of every router
	lastSeq []uint64            // the router's own advertSyncSeq when lastAdv was taken
	flights map[[2]int][]flight // replies in flight per (u, w)
)

func advText(u int) string { return strings.SplitN(sim.DumpRib(u), " ", 2)[0] }

// after an operation at router u: its advertisement number advances iff the advertisement changed;
// the router itself must then have advanced its own sequence number (dv/SPEC.md)
func touched(u int) string {
	now, seq := advText(u), sim.Nodes[u].R.VerifAdvertSeq()
	ann := "ok"
	if now != lastAdv[u] {
		ver[u]++
		if seq == lastSeq[u] {
			ann = "MISSING"
		}
	}
	lastAdv[u], lastSeq[u] = now, seq
	return " ann=" + ann
}

func valid(f []string, k int) ([]int, bool) {
	if sim == nil || len(f) != k+1 {
		return nil, false
	}
	out := make([]int, k)
	for i := 0; i < k; i++ {
		v := common.Atoi(f[i+1])
		if v < 0 || v >= len(sim.Nodes) {
			return nil, false
		}
		out[i] = v
	}
	return out, true
}

func upLink(u, w int) bool { return link[u][w] }

func exec(op string) string {
	f := common.Fields(op)
	if sim != nil && sim.IsWire() {
		switch f[0] {
		case "new", "neww", "cfg", "link", "unlink", "check", "wrun", "wquiet", "wrestart":
		default:
			return "skip" // the routers of a wire history run by themselves
		}
	}
	switch f[0] {
	case "neww":
		sim.Close()
		sim = nil
		if len(f) != 4 {
			return "bad-op"
		}
		n := common.Atoi(f[1])
		var err error
		if sim, err = dvsim.NewSimWire(n, common.Atou(f[2]), common.Atou(f[3])); err != nil {
			sim = nil
			return "rejected"
		}
		link = make([][]bool, n)
		for i := range link {
			link[i] = make([]bool, n)
		}
		flights = map[[2]int][]flight{}
		var sb strings.Builder
		sb.WriteString("ok")
		proc := "same"
		for i, nd := range sim.Nodes {
			fmt.Fprintf(&sb, " %d", nd.Hash)
			if i < len(otherProc) && otherProc[i] != nd.Hash {
				proc = "differs"
			}
		}
		return sb.String() + " proc=" + proc
	case "wrun":
		// wrun <ms> <seed> <loss%> <dup%> <max delay ms>
		if sim == nil || !sim.IsWire() || len(f) != 6 {
			return "skip"
		}
		rr := common.NewRand(common.Atou(f[2]))
		sim.WireRun(time.Duration(common.Atoi(f[1]))*time.Millisecond, 5*time.Millisecond, upLink,
			dvsim.WireFaults{Loss: common.Atoi(f[3]), Dup: common.Atoi(f[4]), MaxDelay: time.Duration(common.Atoi(f[5])) * time.Millisecond, Rand: rr.Intn})
		return "ok"
	case "wrestart":
		if sim == nil || !sim.IsWire() || len(f) != 2 {
			return "skip"
		}
		x := common.Atoi(f[1])
		if x < 0 || x >= len(sim.Nodes) {
			return "skip"
		}
		sim.RestartWire(x)
		return "ok"
	case "wquiet":
		if sim == nil || !sim.IsWire() || len(f) != 2 {
			return "skip"
		}
		rr := common.NewRand(common.Atou(f[1]))
		cfg := sim.Nodes[0].Cfg
		q := sim.WireQuiet(2*cfg.RouterDeadInterval()+2*cfg.AdvertisementSyncInterval(), upLink, rr.Intn)
		parts := make([]string, len(sim.Nodes))
		for i := range sim.Nodes {
			parts[i] = fmt.Sprintf("r%d %s", i, sim.DumpRib(i))
		}
		uns := strings.Join(sim.Unsynced(upLink), ",")
		if uns == "" {
			uns = "-"
		}
		qs := "1"
		if !q {
			qs = "0"
		}
		return strings.Join(parts, " ; ") + " | unsynced=" + uns + " q=" + qs
	}
	switch f[0] {
	case "cfg":
		// the REAL Config.Parse on the given advertise / dead intervals (milliseconds)
		if len(f) != 3 {
			return "bad-op"
		}
		if err := dvsim.ParseConfig(common.Atou(f[1]), common.Atou(f[2])); err != nil {
			return "reject"
		}
		return "accept"
	case "new":
		sim.Close()
		sim = nil
		n := common.Atoi(f[1])
		if len(f) == 4 {
			var err error
			if sim, err = dvsim.NewSimCfg(n, common.Atou(f[2]), common.Atou(f[3])); err != nil {
				sim = nil
				return "rejected"
			}
		} else {
			sim = dvsim.NewSim(n)
		}
		link = make([][]bool, n)
		ver, lastAdv, lastSeq = make([]uint64, n), make([]string, n), make([]uint64, n)
		flights = map[[2]int][]flight{}
		for i := range link {
			link[i] = make([]bool, n)
			ver[i], lastAdv[i], lastSeq[i] = 1, advText(i), sim.Nodes[i].R.VerifAdvertSeq()
		}
		var sb strings.Builder
		sb.WriteString("ok")
		proc := "same"
		for i, nd := range sim.Nodes {
			fmt.Fprintf(&sb, " %d", nd.Hash)
			if i < len(otherProc) && otherProc[i] != nd.Hash {
				proc = "differs" // another process of the same binary hashes this router name differently
			}
		}
		return sb.String() + " proc=" + proc
	case "link", "unlink":
		a, ok := valid(f, 2)
		up := f[0] == "link"
		if !ok || a[0] == a[1] || link[a[0]][a[1]] == up {
			return "skip"
		}
		link[a[0]][a[1]], link[a[1]][a[0]] = up, up
		return "ok"
	case "fetch":
		a, ok := valid(f, 2)
		if !ok || a[0] == a[1] || !link[a[0]][a[1]] {
			return "skip"
		}
		u, w := a[0], a[1]
		started := 0
		for _, p := range sim.SyncInterest(u, sim.Nodes[w].Name, dvsim.FaceOf(w), true, sim.Nodes[w].R.VerifAdvertSeq()) {
			sim.ReplyAdvert(p, sim.AdvertWire(w)) // answered at once with w's current advertisement
			started = 1
		}
		return sim.DumpRib(u) + fmt.Sprintf(" started=%d", started) + touched(u)
	case "snap":
		a, ok := valid(f, 2)
		if !ok || a[0] == a[1] || !link[a[0]][a[1]] {
			return "skip"
		}
		u, w := a[0], a[1]
		started := 0
		for _, p := range sim.SyncInterest(u, sim.Nodes[w].Name, dvsim.FaceOf(w), true, sim.Nodes[w].R.VerifAdvertSeq()) {
			flights[[2]int{u, w}] = append(flights[[2]int{u, w}], flight{p, sim.AdvertWire(w), true})
			started = 1
		}
		return sim.DumpRib(u) + fmt.Sprintf(" started=%d", started) + touched(u)
	case "reply":
		if len(f) != 4 {
			return "skip"
		}
		a, ok := valid(f[:3], 2)
		if !ok {
			return "skip"
		}
		fl := flights[[2]int{a[0], a[1]}]
		i := len(fl) - 1
		if f[3] != "last" {
			i = common.Atoi(f[3])
		}
		if i < 0 || i >= len(fl) || !fl[i].live {
			return "skip" // no such fetch, or its Interest is no longer pending
		}
		sim.ReplyAdvert(fl[i].p, fl[i].content)
		return sim.DumpRib(a[0]) + touched(a[0])
	case "timeout", "outage":
		// the Interest of the latest advertisement fetch of (u, w) is not answered: it times out (once /
		// again and again for longer than the dead interval); the router's retry loop re-expresses it
		a, ok := valid(f, 2)
		if !ok || a[0] == a[1] {
			return "skip"
		}
		u, w := a[0], a[1]
		fl := flights[[2]int{u, w}]
		if len(fl) == 0 || !fl[len(fl)-1].live {
			return "skip"
		}
		cur := &fl[len(fl)-1]
		once := func() {
			cur.live = false
			cur.p.Cb(ndn.ExpressCallbackArgs{Result: ndn.InterestResultTimeout})
			time.Sleep(150 * time.Millisecond)
			sim.Settle()
			for _, p := range sim.Nodes[u].Eng.DropPending(dvsim.IsAdvertFetch) {
				cur.p, cur.live = p, true // the retry
			}
		}
		if f[0] == "timeout" {
			once()
		} else {
			end := time.Now().Add(sim.Nodes[u].Cfg.RouterDeadInterval() + 2*time.Second)
			for time.Now().Before(end) && cur.live {
				time.Sleep(4 * time.Second) // Interest lifetime
				once()
			}
			if d := time.Until(end); d > 0 {
				time.Sleep(d)
			}
		}
		pending := 0
		if cur.live {
			pending = 1
		}
		return sim.DumpRib(u) + fmt.Sprintf(" pending=%d", pending) + touched(u)
	case "fetchrace":
		a, ok := valid(f, 2)
		if !ok || a[0] == a[1] {
			return "skip"
		}
		u, w := a[0], a[1]
		ns := sim.Nodes[u].R.VerifNeighbors().Get(sim.Nodes[w].Name)
		if ns == nil {
			return "skip"
		}
		adv, err := tlv.ParseAdvertisement(enc.NewBufferReader(sim.AdvertWire(w)), false)
		if err != nil {
			panic("harness: advertisement does not parse")
		}
		ns.Advert = adv                       // advertDataHandler: ns.Advert = advert; go dv.ribUpdate(ns)
		sim.Dead(u, sim.Nodes[w].Name)        // the dead sweep gets the router mutex first
		sim.Nodes[u].R.VerifRibUpdate(ns)     // the pending ribUpdate runs on the removed state
		sim.Settle()
		return sim.DumpRib(u) + touched(u)
	case "dead":
		a, ok := valid(f, 2)
		if !ok || a[0] == a[1] {
			return "skip"
		}
		if !sim.Dead(a[0], sim.Nodes[a[1]].Name) {
			return "skip"
		}
		return sim.DumpRib(a[0]) + touched(a[0])
	case "sweep":
		if sim == nil || len(f) != 3 {
			return "skip"
		}
		u := common.Atoi(f[1])
		if u < 0 || u >= len(sim.Nodes) {
			return "skip"
		}
		var names []enc.Name
		for _, ws := range strings.Split(f[2], ",") {
			w := common.Atoi(ws)
			if w < 0 || w >= len(sim.Nodes) || w == u {
				return "skip"
			}
			names = append(names, sim.Nodes[w].Name)
		}
		if sim.DeadMany(u, names) == 0 {
			return "skip"
		}
		return sim.DumpRib(u) + touched(u)
	case "restart":
		a, ok := valid(f, 1)
		if !ok {
			return "skip"
		}
		x := a[0]
		sim.Restart(x)
		for k := range flights {
			if k[0] == x {
				delete(flights, k) // replies to the crashed instance are lost
			}
		}
		lastAdv[x], lastSeq[x] = advText(x), sim.Nodes[x].R.VerifAdvertSeq()
		return sim.DumpRib(x) + " ann=ok"
	case "tick", "check":
		if sim == nil || (sim.IsWire() && f[0] == "tick") {
			return "skip"
		}
		if f[0] == "tick" {
			sim.Tick(func(u, w int) bool { return link[u][w] })
			for i := range sim.Nodes {
				touched(i)
			}
		}
		parts := make([]string, len(sim.Nodes))
		for i := range sim.Nodes {
			parts[i] = fmt.Sprintf("r%d %s", i, sim.DumpRib(i))
		}
		return strings.Join(parts, " ; ")
	}
	return "bad-op"
}

// hashes of the router names r0..r8 as computed by ANOTHER process of this binary
var otherProc []uint64

func TestVerif(t *testing.T) {
	if os.Getenv("VERIF_MODE") == "hashes" {
		dvsim.PrintHashes(common.EnvInt("VERIF_N", 9))
		return
	}
	if os.Getenv("VERIF_MODE") != "exec" {
		common.Main(t, gen, exec)
		return
	}
	otherProc = dvsim.OtherProcessHashes(9)
	synctest.Test(t, func(t *testing.T) {
		common.Main(t, gen, exec)
		sim.Close()
	})
}
