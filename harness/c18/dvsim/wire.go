// Wire mode: a CLOSED LOOP of real routers. Every router is started with its real Router.Start (interest
// handlers attached by register(), heartbeat and deadcheck tickers under virtual time, management thread,
// prefix-table sync group); the harness is only the network: it carries the Interests the routers express
// (Sync Interests of advertSyncSendInterest, advertisement fetches of advertDataFetch) over the links that
// are up to the handlers the neighbours attached, carries the Data back, and loses, duplicates, delays and
// reorders packets as a seeded PRNG says. Nothing decides for the routers when to announce, fetch, retry,
// update or sweep.
package dvsim

import (
	"sort"
	"strings"
	"testing/synctest"
	"time"

	"fmt"

	"github.com/named-data/ndnd/dv/config"
	"github.com/named-data/ndnd/dv/dv"
	"github.com/named-data/ndnd/dv/table"
	"github.com/named-data/ndnd/dv/tlv"
	enc "github.com/named-data/ndnd/std/encoding"
	"github.com/named-data/ndnd/std/ndn"
	spec "github.com/named-data/ndnd/std/ndn/spec_2022"
)

// OutPkt is an Interest a router expressed while its engine is in wire mode.
type OutPkt struct {
	Name     enc.Name
	Wire     []byte
	Cb       ndn.ExpressCallbackFunc
	Deadline time.Time // when the engine reports a time-out to Cb
}

type prefixHandler struct {
	prefix  enc.Name
	handler ndn.InterestHandler
}

// TakeOut returns and clears the Interests expressed since the last call.
func (e *Engine) TakeOut() []OutPkt {
	e.mu.Lock()
	defer e.mu.Unlock()
	o := e.Out
	e.Out = nil
	return o
}

// match returns the handler attached to the longest prefix of name.
func (e *Engine) match(name enc.Name) ndn.InterestHandler {
	e.mu.Lock()
	defer e.mu.Unlock()
	var best *prefixHandler
	for i := range e.prefixes {
		p := &e.prefixes[i]
		if p.prefix.IsPrefix(name) && (best == nil || len(p.prefix) > len(best.prefix)) {
			best = p
		}
	}
	if best == nil {
		return nil
	}
	return best.handler
}

// IsWire: the routers of this simulation were started and run by themselves.
func (s *Sim) IsWire() bool { return s.wire }

// NewSimWire builds n routers and STARTS them (Router.Start in a goroutine of its own).
func NewSimWire(n int, advMs, deadMs uint64) (*Sim, error) {
	s := &Sim{byHash: map[uint64]int{}, wire: true}
	for i := 0; i < n; i++ {
		nd, err := newWireNode(i, advMs, deadMs)
		if err != nil {
			s.Close()
			return nil, err
		}
		s.Nodes = append(s.Nodes, nd)
		s.byHash[nd.Hash] = i
	}
	s.wireSettle()
	return s, nil
}

func newWireNode(i int, advMs, deadMs uint64) (*Node, error) {
	cfg := config.DefaultConfig()
	cfg.Network = Network
	cfg.Router = RouterName(i)
	if advMs != 0 || deadMs != 0 {
		cfg.AdvertisementSyncInterval_ms, cfg.RouterDeadInterval_ms = advMs, deadMs
	}
	eng := &Engine{Wire: true}
	r, err := dv.NewRouter(cfg, eng)
	if err != nil {
		return nil, err
	}
	nd := &Node{Idx: i, Name: cfg.RouterName(), Hash: cfg.RouterName().Hash(), Cfg: cfg, Eng: eng, R: r}
	nd.done = make(chan struct{})
	go func() {
		defer close(nd.done)
		r.Start()
	}()
	return nd, nil
}

// stopWire stops a started router and waits until Start has returned.
func (nd *Node) stopWire() {
	if nd.done == nil {
		return
	}
	nd.R.Stop()
	<-nd.done
	nd.done = nil
}

// RestartWire: router i crashes (in-flight packets to and from it die with it) and a fresh instance starts.
func (s *Sim) RestartWire(i int) {
	old := s.Nodes[i]
	s.wireSettle()
	old.stopWire()
	nd, err := newWireNode(i, old.Cfg.AdvertisementSyncInterval_ms, old.Cfg.RouterDeadInterval_ms)
	if err != nil {
		panic("harness: NewRouter: " + err.Error())
	}
	s.Nodes[i] = nd
	var keep []*flightPkt
	for _, p := range s.inflight {
		if p.from != i && p.to != i {
			keep = append(keep, p)
		}
	}
	s.inflight = keep
	s.wireSettle()
}

// one packet in the network
type flightPkt struct {
	from, to int // to = -1: not yet routed (an Interest as the sender expressed it)
	pkt      OutPkt
	ready    time.Time
	// Data on its way back to `to`
	isData      bool
	prefixMatch bool // the Interest it answers had CanBePrefix (snapshot fetch): the Data name extends the Interest name
	data   ndn.Data
	raw    enc.Wire
	cb     ndn.ExpressCallbackFunc
}

// WireFaults are the rates (per cent) of what the network does to a packet.
type WireFaults struct {
	Loss, Dup int
	MaxDelay  time.Duration
	Rand      func(n int) int // uniform in [0, n)
}

func (s *Sim) wireSettle() {
	synctest.Wait()
}

// WireStep moves the network on by `dt` of virtual time under the given faults; `up` says which links are up.
// Returns the number of packets delivered.
func (s *Sim) WireStep(dt time.Duration, up func(u, w int) bool, f WireFaults) int {
	delivered := 0
	s.wireSettle()
	now := time.Now()
	// 1. what the routers expressed since the last step enters the network
	for i, nd := range s.Nodes {
		for _, o := range nd.Eng.TakeOut() {
			p := &flightPkt{from: i, to: -1, pkt: o, ready: now}
			if f.MaxDelay > 0 {
				p.ready = now.Add(time.Duration(f.Rand(int(f.MaxDelay/time.Millisecond)+1)) * time.Millisecond)
			}
			s.inflight = append(s.inflight, p)
			if o.Cb != nil {
				s.waiting = append(s.waiting, &waitingInterest{node: i, pkt: o, e: nd.Eng})
			}
		}
	}
	// 2. packets whose time has come, in a random order
	var due, later []*flightPkt
	for _, p := range s.inflight {
		if !p.ready.After(now) {
			due = append(due, p)
		} else {
			later = append(later, p)
		}
	}
	s.inflight = later
	for i := len(due) - 1; i > 0; i-- {
		j := f.Rand(i + 1)
		due[i], due[j] = due[j], due[i]
	}
	for _, p := range due {
		if f.Loss > 0 && f.Rand(100) < f.Loss {
			continue // lost
		}
		if f.Dup > 0 && f.Rand(100) < f.Dup {
			cp := *p
			cp.ready = now.Add(time.Duration(1+f.Rand(20)) * time.Millisecond)
			s.inflight = append(s.inflight, &cp)
		}
		delivered += s.deliver(p, up, f)
	}
	// 3. Interests nobody answered in time
	var still []*waitingInterest
	for _, w := range s.waiting {
		if w.done {
			continue
		}
		if !w.pkt.Deadline.After(now) {
			w.done = true
			if s.Nodes[w.node].Eng == w.eng() {
				cb := w.pkt.Cb
				go cb(ndn.ExpressCallbackArgs{Result: ndn.InterestResultTimeout})
			}
			continue
		}
		still = append(still, w)
	}
	s.waiting = still
	time.Sleep(dt)
	return delivered
}

type waitingInterest struct {
	node int
	pkt  OutPkt
	done bool
	e    *Engine // the engine (router instance) that expressed it
}

func (w *waitingInterest) eng() *Engine { return w.e }

// deliver hands one packet to the real code of its receiver(s).
func (s *Sim) deliver(p *flightPkt, up func(u, w int) bool, f WireFaults) int {
	if p.isData {
		// Data back to the router that expressed the Interest (if it is still waiting for it)
		for _, w := range s.waiting {
			if !w.done && w.node == p.to && w.e == s.Nodes[p.to].Eng && w.pkt.Name.Equal(p.pkt.Name) {
				w.done = true
				cb := w.pkt.Cb
				data, raw := p.data, p.raw
				go cb(ndn.ExpressCallbackArgs{Result: ndn.InterestResultData, Data: data, RawData: raw})
				return 1
			}
		}
		return 0 // unsolicited: the engine drops it
	}
	from := s.Nodes[p.from]
	name := p.pkt.Name
	sp := spec.Spec{}
	n := 0
	switch {
	case from.Cfg.AdvertisementSyncPrefix().IsPrefix(name):
		// multicast to every neighbour over an up link; each copy fares on its own
		for w := range s.Nodes {
			if w == p.from || !up(p.from, w) {
				continue
			}
			h := s.Nodes[w].Eng.match(name)
			if h == nil {
				continue
			}
			interest, _, err := sp.ReadInterest(enc.NewBufferReader(p.pkt.Wire))
			if err != nil {
				panic("harness: a router expressed something that is not an Interest: " + err.Error())
			}
			face := FaceOf(p.from)
			h(ndn.InterestHandlerArgs{Interest: interest, IncomingFaceId: &face, RawInterest: enc.Wire{p.pkt.Wire},
				Reply: func(enc.Wire) error { return nil }})
			n++
		}
	case IsAdvertFetch(name):
		// /localhop/<router>/32=DV/32=ADV/<seq>: towards the named neighbour, if the link is up
		w := -1
		if len(name) > 4 {
			w = s.IdxOfName(name[1 : len(name)-3])
		}
		if w < 0 || w == p.from || !up(p.from, w) {
			return 0
		}
		h := s.Nodes[w].Eng.match(name)
		if h == nil {
			return 0
		}
		interest, _, err := sp.ReadInterest(enc.NewBufferReader(p.pkt.Wire))
		if err != nil {
			panic("harness: a router expressed something that is not an Interest: " + err.Error())
		}
		face := FaceOf(p.from)
		back, asked := p.from, name.Clone()
		delay := f
		h(ndn.InterestHandlerArgs{Interest: interest, IncomingFaceId: &face, RawInterest: enc.Wire{p.pkt.Wire},
			Reply: func(wire enc.Wire) error {
				raw := enc.Wire{wire.Join()}
				data, _, err := sp.ReadData(enc.NewWireReader(raw))
				if err != nil {
					panic("harness: a router replied with something that is not Data: " + err.Error())
				}
				q := &flightPkt{from: w, to: back, isData: true, data: data, raw: raw, ready: time.Now()}
				q.pkt.Name = asked
				if delay.MaxDelay > 0 {
					q.ready = q.ready.Add(time.Duration(delay.Rand(int(delay.MaxDelay/time.Millisecond)+1)) * time.Millisecond)
				}
				s.replyMu.Lock()
				s.replies = append(s.replies, q)
				s.replyMu.Unlock()
				return nil
			}})
		n++
	case from.Cfg.PrefixTableSyncPrefix().IsPrefix(name):
		// Sync Interests of the prefix-table group: the forwarders multicast them along the network: every router
		// that can be reached over up links gets a copy
		for w := range s.Nodes {
			if w == p.from || !s.connected(p.from, w, up) {
				continue
			}
			h := s.Nodes[w].Eng.match(name)
			if h == nil {
				continue
			}
			interest, _, err := sp.ReadInterest(enc.NewBufferReader(p.pkt.Wire))
			if err != nil {
				panic("harness: a router expressed something that is not an Interest: " + err.Error())
			}
			face := FaceOf(p.from)
			h(ndn.InterestHandlerArgs{Interest: interest, IncomingFaceId: &face, RawInterest: enc.Wire{p.pkt.Wire},
				Reply: func(enc.Wire) error { return nil }})
			n++
		}
	default:
		// prefix data of a router (<router>/32=DV/32=PFX/...): forwarded along the installed routes, i.e. it arrives
		// iff the router is reachable over up links
		w := -1
		for i, nd := range s.Nodes {
			if i != p.from && nd.Cfg.PrefixTableDataPrefix().IsPrefix(name) {
				w = i
			}
		}
		if w < 0 || !s.connected(p.from, w, up) {
			return 0
		}
		h := s.Nodes[w].Eng.match(name)
		if h == nil {
			return 0
		}
		interest, _, err := sp.ReadInterest(enc.NewBufferReader(p.pkt.Wire))
		if err != nil {
			panic("harness: a router expressed something that is not an Interest: " + err.Error())
		}
		face := FaceOf(p.from)
		back, asked := p.from, name.Clone()
		h(ndn.InterestHandlerArgs{Interest: interest, IncomingFaceId: &face, RawInterest: enc.Wire{p.pkt.Wire},
			Reply: func(wire enc.Wire) error {
				raw := enc.Wire{wire.Join()}
				data, _, err := sp.ReadData(enc.NewWireReader(raw))
				if err != nil {
					panic("harness: a router replied with something that is not Data: " + err.Error())
				}
				q := &flightPkt{from: w, to: back, isData: true, data: data, raw: raw, ready: time.Now()}
				q.pkt.Name = asked
				if interest.CanBePrefix() {
					q.pkt.Name = asked // the engine matches the pending Interest by prefix
					q.prefixMatch = true
				}
				s.replyMu.Lock()
				s.replies = append(s.replies, q)
				s.replyMu.Unlock()
				return nil
			}})
		n++
	}
	return n
}

// connected: w can be reached from u over links that are up.
func (s *Sim) connected(u, w int, up func(a, b int) bool) bool {
	seen := map[int]bool{u: true}
	todo := []int{u}
	for len(todo) > 0 {
		x := todo[0]
		todo = todo[1:]
		if x == w {
			return true
		}
		for y := range s.Nodes {
			if !seen[y] && up(x, y) {
				seen[y] = true
				todo = append(todo, y)
			}
		}
	}
	return false
}

// collectReplies moves the Data the handlers produced (in goroutines of their own) into the network.
func (s *Sim) collectReplies() {
	s.replyMu.Lock()
	defer s.replyMu.Unlock()
	s.inflight = append(s.inflight, s.replies...)
	s.replies = nil
}

// WireRun pumps the network for `total` of virtual time in steps of `dt`.
func (s *Sim) WireRun(total, dt time.Duration, up func(u, w int) bool, f WireFaults) {
	end := time.Now().Add(total)
	for time.Now().Before(end) {
		s.WireStep(dt, up, f)
		s.wireSettle()
		s.collectReplies()
	}
}

// WireQuiet: a loss-free, duplicate-free network until nothing has been in flight, expressed or pending for a
// whole heartbeat interval after at least `atLeast` of virtual time. Reports whether such a quiet stretch was reached
// within the bound.
func (s *Sim) WireQuiet(atLeast time.Duration, up func(u, w int) bool, rnd func(int) int) bool {
	f := WireFaults{Rand: rnd}
	start := time.Now()
	adv := s.Nodes[0].Cfg.AdvertisementSyncInterval()
	bound := start.Add(atLeast + 200*adv)
	for time.Now().Before(bound) {
		// one heartbeat interval, watching whether anything but the heartbeats themselves happens
		busy := false
		t0 := time.Now()
		for time.Since(t0) < adv {
			s.wireSettle()
			s.collectReplies()
			for _, p := range s.inflight {
				if p.isData || p.pkt.Cb != nil {
					busy = true
				}
			}
			for _, w := range s.waiting {
				if !w.done {
					busy = true
				}
			}
			s.WireStep(10*time.Millisecond, up, f)
		}
		if !busy && time.Since(start) >= atLeast {
			s.wireSettle()
			s.collectReplies()
			return true
		}
	}
	return false
}

// Unsynced lists the directed up links u>w on which u does not hold w's CURRENT advertisement under w's CURRENT
// sequence number.
func (s *Sim) Unsynced(up func(u, w int) bool) []string {
	var out []string
	for u, nu := range s.Nodes {
		for w, nw := range s.Nodes {
			if u == w || !up(u, w) {
				continue
			}
			ns := nu.R.VerifNeighbors().Get(nw.Name)
			if ns == nil || ns.AdvertSeq != nw.R.VerifAdvertSeq() || ns.Advert == nil ||
				s.advertText(ns) != s.ribAdvertText(nw) {
				out = append(out, idx(u)+">"+idx(w))
			}
		}
	}
	return out
}

func (s *Sim) advertText(ns *table.NeighborState) string {
	var out []string
	for _, e := range ns.Advert.Entries {
		out = append(out, s.entryText(destName(e.Destination), destName(e.NextHop), e.Cost, e.OtherCost))
	}
	sort.Strings(out)
	return strings.Join(out, ",")
}

func destName(d *tlv.Destination) enc.Name {
	if d == nil {
		return nil
	}
	return d.Name
}

func (s *Sim) ribAdvertText(nw *Node) string {
	var out []string
	for _, e := range nw.R.VerifRib().Advert().Entries {
		out = append(out, s.entryText(destName(e.Destination), destName(e.NextHop), e.Cost, e.OtherCost))
	}
	sort.Strings(out)
	return strings.Join(out, ",")
}

func (s *Sim) entryText(d, nh enc.Name, cost, other uint64) string {
	return fmt.Sprintf("%s:%s:%d:%d", idx(s.IdxOfName(d)), idx(s.IdxOfName(nh)), cost, other)
}
