//go:build verif

// Package dvsim: simulated networks of REAL dv.Router instances (real table.Rib, NeighborTable,
// PrefixTable, Fib) around a harness ndn.Engine. No network I/O: the harness moves advertisements
// and prefix data between routers itself and calls the same functions the daemon calls.
// Shared by the C18 and C19 correspondence harnesses. Must run inside a testing/synctest bubble
// (virtual time: neighbor liveness, the 1 ms pacing of the nfdc thread).
package dvsim

import (
	"fmt"
	"os"
	"os/exec"
	"strconv"
	"sort"
	"strings"
	"sync"
	"testing/synctest"
	"time"

	"github.com/named-data/ndnd/dv/config"
	"github.com/named-data/ndnd/dv/dv"
	"github.com/named-data/ndnd/dv/table"
	"github.com/named-data/ndnd/dv/tlv"
	enc "github.com/named-data/ndnd/std/encoding"
	ndnlog "github.com/named-data/ndnd/std/log"
	"github.com/named-data/ndnd/std/ndn"
	mgmt "github.com/named-data/ndnd/std/ndn/mgmt_2022"
	spec "github.com/named-data/ndnd/std/ndn/spec_2022"
	svs "github.com/named-data/ndnd/std/ndn/svs_2024"
	"github.com/named-data/ndnd/std/security"
	"github.com/named-data/ndnd/std/utils"
)

func init() { ndnlog.SetLevel(ndnlog.FatalLevel) } // log text is not an observable

// OtherProcessHashes runs this test binary once more as a child process (mode "hashes") and returns the
// Name.Hash() values the CHILD computes for the router names r0..r(n-1): the tie-break of equal-cost next
// hops compares these values, so the order must be the same in every process (a router that restarts is
// another process).
func OtherProcessHashes(n int) []uint64 {
	cmd := exec.Command(os.Args[0], "-test.run", "^TestVerif$")
	cmd.Env = append(os.Environ(), "VERIF_MODE=hashes", fmt.Sprintf("VERIF_N=%d", n))
	out, err := cmd.Output()
	if err != nil {
		panic("harness: child process for the hash comparison failed: " + err.Error())
	}
	var hs []uint64
	for _, ln := range strings.Split(string(out), "\n") {
		if strings.HasPrefix(ln, "HASH ") {
			v, err := strconv.ParseUint(strings.TrimPrefix(ln, "HASH "), 10, 64)
			if err != nil {
				panic("harness: bad hash line " + ln)
			}
			hs = append(hs, v)
		}
	}
	if len(hs) != n {
		panic("harness: child process printed the wrong number of hashes")
	}
	return hs
}

// PrintHashes is the child side of OtherProcessHashes.
func PrintHashes(n int) {
	for i := 0; i < n; i++ {
		nm, err := enc.NameFromStr(RouterName(i))
		if err != nil {
			panic(err)
		}
		fmt.Printf("HASH %d\n", nm.Hash())
	}
}

// ScrambleSeed decorrelates consecutive seeds (common.NewRand streams of seeds s and s+1 are the
// same stream shifted by one draw; the check driver uses consecutive seeds for thorough batches).
func ScrambleSeed(seed uint64) uint64 {
	z := seed + 0x9E3779B97F4A7C15
	z = (z ^ (z >> 30)) * 0xBF58476D1CE4E5B9
	z = (z ^ (z >> 27)) * 0x94D049BB133111EB
	return z ^ (z >> 31)
}

// ---------------------------------------------------------------- harness engine

// Cmd is one recorded management command.
type Cmd struct {
	Module, Cmd string
	Name        enc.Name
	Face        uint64
	HasFace     bool
	Cost        uint64
	HasCost     bool
	Origin      uint64
}

// Pending is an expressed Interest waiting for the harness to answer it.
type Pending struct {
	Name        enc.Name
	CanBePrefix bool
	Cb          ndn.ExpressCallbackFunc
}

type Engine struct {
	mu      sync.Mutex
	Cmds    []Cmd
	Pending []Pending
	nonce   uint64
	// transient forwarder failure: the next command satisfying FailOnce is refused once
	FailOnce func(Cmd) bool
	failed   *Cmd // refused, not yet accepted on a retry
	stall    chan struct{} // non-nil: the forwarder does not answer (ExecMgmtCmd blocks until released)
	handlers map[uint64]ndn.InterestHandler
	// wire mode (wire.go): every expressed Interest is kept with its wire for the harness network
	Wire     bool
	Out      []OutPkt
	prefixes []prefixHandler
}

// Stall makes the forwarder unresponsive: every ExecMgmtCmd blocks until Release.
func (e *Engine) Stall() {
	e.mu.Lock()
	defer e.mu.Unlock()
	if e.stall == nil {
		e.stall = make(chan struct{})
	}
}

// Release ends a Stall.
func (e *Engine) Release() {
	e.mu.Lock()
	defer e.mu.Unlock()
	if e.stall != nil {
		close(e.stall)
		e.stall = nil
	}
}

// ArmFailOnce sets (or clears) the predicate selecting the next command to refuse once.
func (e *Engine) ArmFailOnce(f func(Cmd) bool) {
	e.mu.Lock()
	defer e.mu.Unlock()
	e.FailOnce = f
}

// Busy: a refused command has not been accepted yet (the management thread will retry it).
func (e *Engine) Busy() bool {
	e.mu.Lock()
	defer e.mu.Unlock()
	return e.failed != nil
}

func sameCmd(a, b Cmd) bool {
	return a.Module == b.Module && a.Cmd == b.Cmd && a.Name.Equal(b.Name) && a.Face == b.Face && a.Cost == b.Cost
}

type timer struct{ e *Engine }

func (timer) Now() time.Time        { return time.Now() }
func (timer) Sleep(d time.Duration) { time.Sleep(d) }
func (timer) Schedule(d time.Duration, f func()) func() error {
	t := time.AfterFunc(d, f)
	return func() error { t.Stop(); return nil }
}
func (t timer) Nonce() []byte {
	t.e.mu.Lock()
	defer t.e.mu.Unlock()
	t.e.nonce++
	b := make([]byte, 8)
	for i := range b {
		b[i] = byte(t.e.nonce >> (8 * i))
	}
	return b
}

func (e *Engine) EngineTrait() ndn.Engine { return e }
func (e *Engine) Spec() ndn.Spec          { return spec.Spec{} }
func (e *Engine) Timer() ndn.Timer        { return timer{e} }
func (e *Engine) Start() error            { return nil }
func (e *Engine) Stop() error             { return nil }
func (e *Engine) IsRunning() bool         { return true }
func (e *Engine) AttachHandler(prefix enc.Name, handler ndn.InterestHandler) error {
	e.mu.Lock()
	defer e.mu.Unlock()
	if e.handlers == nil {
		e.handlers = map[uint64]ndn.InterestHandler{}
	}
	e.handlers[prefix.Hash()] = handler
	e.prefixes = append(e.prefixes, prefixHandler{prefix.Clone(), handler})
	return nil
}

// Handler returns the Interest handler attached to exactly this prefix (nil: none).
func (e *Engine) Handler(prefix enc.Name) ndn.InterestHandler {
	e.mu.Lock()
	defer e.mu.Unlock()
	return e.handlers[prefix.Hash()]
}
func (e *Engine) DetachHandler(prefix enc.Name) error   { return nil }
func (e *Engine) RegisterRoute(prefix enc.Name) error   { return nil }
func (e *Engine) UnregisterRoute(prefix enc.Name) error { return nil }

func (e *Engine) Express(interest *ndn.EncodedInterest, cb ndn.ExpressCallbackFunc) error {
	if e.Wire {
		life := 4 * time.Second
		if interest.Config != nil && interest.Config.Lifetime != nil {
			life = *interest.Config.Lifetime
		}
		e.mu.Lock()
		defer e.mu.Unlock()
		e.Out = append(e.Out, OutPkt{Name: interest.FinalName.Clone(), Wire: interest.Wire.Join(), Cb: cb,
			Deadline: time.Now().Add(life)})
		return nil
	}
	if cb == nil {
		return nil // sync Interests: no reply expected
	}
	e.mu.Lock()
	defer e.mu.Unlock()
	e.Pending = append(e.Pending, Pending{Name: interest.FinalName.Clone(), CanBePrefix: interest.Config.CanBePrefix, Cb: cb})
	return nil
}

func (e *Engine) ExecMgmtCmd(module string, cmd string, args any) error {
	a, ok := args.(*mgmt.ControlArgs)
	if !ok {
		return fmt.Errorf("bad args")
	}
	c := Cmd{Module: module, Cmd: cmd, Name: a.Name.Clone()}
	if a.FaceId != nil {
		c.Face, c.HasFace = *a.FaceId, true
	}
	if a.Cost != nil {
		c.Cost, c.HasCost = *a.Cost, true
	}
	if a.Origin != nil {
		c.Origin = *a.Origin
	}
	e.mu.Lock()
	gate := e.stall
	e.mu.Unlock()
	if gate != nil {
		<-gate
	}
	e.mu.Lock()
	defer e.mu.Unlock()
	if e.FailOnce != nil && e.FailOnce(c) {
		e.FailOnce = nil
		e.failed = &c
		return fmt.Errorf("transient failure")
	}
	if e.failed != nil && sameCmd(*e.failed, c) {
		e.failed = nil
	}
	e.Cmds = append(e.Cmds, c)
	return nil
}

// TakeCmds returns and clears the recorded commands.
func (e *Engine) TakeCmds() []Cmd {
	e.mu.Lock()
	defer e.mu.Unlock()
	c := e.Cmds
	e.Cmds = nil
	return c
}

func (e *Engine) NumCmds() int {
	e.mu.Lock()
	defer e.mu.Unlock()
	return len(e.Cmds)
}

// IsAdvertFetch: the Interest asks for an advertisement (…/32=DV/32=ADV/seq).
func IsAdvertFetch(n enc.Name) bool {
	adv := enc.NewStringComponent(enc.TypeKeywordNameComponent, "ADV")
	for _, c := range n {
		if c.Equal(adv) {
			return true
		}
	}
	return false
}

// DropPending removes the expressed Interests whose name satisfies f and returns them.
func (e *Engine) DropPending(f func(enc.Name) bool) []Pending {
	e.mu.Lock()
	defer e.mu.Unlock()
	var keep, drop []Pending
	for _, p := range e.Pending {
		if f(p.Name) {
			drop = append(drop, p)
		} else {
			keep = append(keep, p)
		}
	}
	e.Pending = keep
	return drop
}

// TakePending returns and clears the expressed Interests.
func (e *Engine) TakePending() []Pending {
	e.mu.Lock()
	defer e.mu.Unlock()
	p := e.Pending
	e.Pending = nil
	return p
}

// ---------------------------------------------------------------- simulated network

type Node struct {
	Idx  int
	Name enc.Name
	Hash uint64
	Cfg  *config.Config
	Eng  *Engine
	R    *dv.Router
	done chan struct{} // wire mode: closed when Router.Start has returned
}

type Sim struct {
	Nodes   []*Node
	byHash  map[uint64]int
	stopped bool
	svsOn   map[int]bool // routers whose prefix-table SvSync has been started
	// wire mode (wire.go)
	wire     bool
	inflight []*flightPkt
	waiting  []*waitingInterest
	replies  []*flightPkt
	replyMu  sync.Mutex
}

const Network = "/verif"

// SpecInfinity is the protocol's infinity metric (dv/SPEC.md), hard-wired like in the Lean specs.
const SpecInfinity = 16

// RouterName is the `router:` URI of router i as an operator may write it: every other one (router 0,
// the publisher of the C19 histories, among them) with a trailing slash (accepted by Config.Parse,
// same name).
func RouterName(i int) string {
	if i == 3 {
		// the components of router 1's name in another order (an operator's naming scheme may well
		// produce such pairs: /<site>/<role> and /<role>/<site>)
		return "/r1" + Network
	}
	if i%2 == 0 {
		return fmt.Sprintf("%s/r%d/", Network, i)
	}
	return fmt.Sprintf("%s/r%d", Network, i)
}

// NewSim creates n routers (real dv.Router around a harness engine), starts their management
// threads and adds each router to its own RIB (what Router.Start does).
func NewSim(n int) *Sim {
	s, err := NewSimCfg(n, 0, 0)
	if err != nil {
		panic("harness: NewRouter: " + err.Error())
	}
	return s
}

// ParseConfig runs the REAL Config.Parse on a configuration with the given intervals (milliseconds).
func ParseConfig(advMs, deadMs uint64) error {
	cfg := config.DefaultConfig()
	cfg.Network = Network
	cfg.Router = RouterName(0)
	cfg.AdvertisementSyncInterval_ms, cfg.RouterDeadInterval_ms = advMs, deadMs
	return cfg.Parse()
}

// NewSimCfg: like NewSim with the given advertise / dead intervals in milliseconds (0, 0 = defaults);
// the error is the one of the real Config.Parse (called by NewRouter).
func NewSimCfg(n int, advMs, deadMs uint64) (*Sim, error) {
	s := &Sim{byHash: map[uint64]int{}}
	for i := 0; i < n; i++ {
		cfg := config.DefaultConfig()
		cfg.Network = Network
		cfg.Router = RouterName(i)
		if advMs != 0 || deadMs != 0 {
			cfg.AdvertisementSyncInterval_ms, cfg.RouterDeadInterval_ms = advMs, deadMs
		}
		eng := &Engine{}
		r, err := dv.NewRouter(cfg, eng)
		if err != nil {
			s.Close()
			return nil, err
		}
		nd := &Node{Idx: i, Name: cfg.RouterName(), Hash: cfg.RouterName().Hash(), Cfg: cfg, Eng: eng, R: r}
		s.Nodes = append(s.Nodes, nd)
		s.byHash[nd.Hash] = i
		go r.VerifNfdc().Start()
		r.VerifRib().Set(nd.Name, nd.Name, 0)
	}
	// two routers with one name hash (assumption A-hash violated): not a reason to stop here — the keys
	// are printed by the `new` operation and judged by the model driver (clause A-hash)
	s.Settle()
	for _, nd := range s.Nodes {
		nd.Eng.TakeCmds()
	}
	return s, nil
}

// Close stops the management threads (every goroutine of the bubble must exit).
func (s *Sim) Close() {
	if s == nil || s.stopped {
		return
	}
	s.stopped = true
	if s.wire {
		synctest.Wait()
		for _, nd := range s.Nodes {
			nd.stopWire()
		}
		synctest.Wait()
		return
	}
	s.Settle()
	for i, nd := range s.Nodes {
		if s.svsOn[i] {
			nd.R.VerifPfxSvs().Stop()
		}
		nd.R.VerifNfdc().Stop()
	}
	synctest.Wait()
}

// StartPrefixSync starts the REAL prefix-table SvSync instance of router i (Router.Start does this):
// its handler is attached to the harness engine, its main loop runs under virtual time.
func (s *Sim) StartPrefixSync(i int) {
	if s.svsOn == nil {
		s.svsOn = map[int]bool{}
	}
	if s.svsOn[i] {
		return
	}
	if err := s.Nodes[i].R.VerifPfxSvs().Start(); err != nil {
		panic("harness: SvSync.Start: " + err.Error())
	}
	s.svsOn[i] = true
	s.Settle()
}

// PrefixSyncInterest delivers a Sync Interest of the prefix-table sync group carrying "router name is at
// sequence number seq" to router i's SvSync (onSyncInterest -> onReceiveStateVector -> onPfxSyncUpdate).
func (s *Sim) PrefixSyncInterest(i int, name enc.Name, seq uint64) {
	s.PrefixSyncInterestNoSettle(i, name, seq)
	s.Settle()
}

// PrefixSyncInterestNoSettle hands the Sync Interest to the SvSync handler and returns at once (several
// Sync Interests can so be read back to back).
func (s *Sim) PrefixSyncInterestNoSettle(i int, name enc.Name, seq uint64) {
	nd := s.Nodes[i]
	h := nd.Eng.Handler(nd.Cfg.PrefixTableSyncPrefix())
	if h == nil {
		panic("harness: prefix sync group not started")
	}
	sv := &svs.StateVectorAppParam{StateVector: &svs.StateVector{
		Entries: []*svs.StateVectorEntry{{NodeId: name, SeqNo: seq}}}}
	iname := append(nd.Cfg.PrefixTableSyncPrefix().Clone(), enc.NewVersionComponent(2))
	sp := spec.Spec{}
	ei, err := sp.MakeInterest(iname, &ndn.InterestConfig{Lifetime: utils.IdPtr(time.Second)}, sv.Encode(), nil)
	if err != nil {
		panic("harness: MakeInterest: " + err.Error())
	}
	interest, _, err := sp.ReadInterest(enc.NewWireReader(ei.Wire))
	if err != nil {
		panic("harness: ReadInterest: " + err.Error())
	}
	h(ndn.InterestHandlerArgs{Interest: interest})
}

// Settle lets every goroutine spawned by the routers finish and the management queues drain.
func (s *Sim) Settle() {
	for {
		synctest.Wait()
		before := 0
		for _, nd := range s.Nodes {
			before += nd.Eng.NumCmds()
		}
		time.Sleep(20 * time.Millisecond)
		synctest.Wait()
		after := 0
		for _, nd := range s.Nodes {
			after += nd.Eng.NumCmds()
		}
		if after == before {
			return
		}
	}
}

// SettleIdle additionally waits until every refused management command has been retried successfully.
func (s *Sim) SettleIdle() {
	for i := 0; ; i++ {
		s.Settle()
		busy := false
		for _, nd := range s.Nodes {
			busy = busy || nd.Eng.Busy()
		}
		if !busy || i > 100 {
			return
		}
		time.Sleep(50 * time.Millisecond)
	}
}

// IdxOfName maps a router name to its index (-1: unknown / nil).
func (s *Sim) IdxOfName(n enc.Name) int {
	if len(n) == 0 {
		return -1
	}
	if i, ok := s.byHash[n.Hash()]; ok && s.Nodes[i].Name.Equal(n) {
		return i
	}
	return -1
}

// FaceOf is the face id router u uses for neighbor w in the simulation (distinct per neighbor).
func FaceOf(w int) uint64 { return uint64(w + 1) }

// SyncInterest delivers an Advertisement Sync Interest of router wName, arriving on `face`, to the
// REAL advertSyncOnInterest of router u (neighbor creation, RecvPing, face change -> fibUpdate).
func (s *Sim) SyncInterest(u int, wName enc.Name, face uint64, active bool, seq uint64) []Pending {
	nd := s.Nodes[u]
	sv := &svs.StateVectorAppParam{StateVector: &svs.StateVector{
		Entries: []*svs.StateVectorEntry{{NodeId: wName, SeqNo: seq}}}}
	prefix := nd.Cfg.AdvertisementSyncPassivePrefix()
	if active {
		prefix = nd.Cfg.AdvertisementSyncActivePrefix()
	}
	name := append(prefix.Clone(), enc.NewVersionComponent(2))
	sp := spec.Spec{}
	ei, err := sp.MakeInterest(name, &ndn.InterestConfig{MustBeFresh: true,
		Lifetime: utils.IdPtr(time.Millisecond), HopLimit: utils.IdPtr(uint(2))}, sv.Encode(), nil)
	if err != nil {
		panic("harness: MakeInterest: " + err.Error())
	}
	interest, _, err := sp.ReadInterest(enc.NewWireReader(ei.Wire))
	if err != nil {
		panic("harness: ReadInterest: " + err.Error())
	}
	f := face
	nd.R.VerifAdvertSyncOnInterest(ndn.InterestHandlerArgs{Interest: interest, IncomingFaceId: &f}, active)
	s.Settle()
	// the advertisement fetch this may have started (advertDataFetch) is answered by the harness itself
	return nd.Eng.DropPending(IsAdvertFetch)
}

// AdvertWire is router w's current advertisement as advertDataOnInterest would encode it.
// It is produced by the REAL advertDataOnInterest: an Interest under w's advertisement data prefix is
// handed to the router's handler and the content of the Data it replies with is returned.
func (s *Sim) AdvertWire(w int) []byte {
	nd := s.Nodes[w]
	name := append(nd.Cfg.AdvertisementDataPrefix().Clone(), enc.NewVersionComponent(1))
	sp := spec.Spec{}
	ei, err := sp.MakeInterest(name, &ndn.InterestConfig{MustBeFresh: true, Lifetime: utils.IdPtr(4 * time.Second)}, nil, nil)
	if err != nil {
		panic("harness: MakeInterest: " + err.Error())
	}
	interest, _, err := sp.ReadInterest(enc.NewWireReader(ei.Wire))
	if err != nil {
		panic("harness: ReadInterest: " + err.Error())
	}
	var reply enc.Wire
	// the fetch arrives on a face of its own: when both ends of a link dial each other (connection-oriented
	// faces) a neighbour's Sync Interests and its advertisement fetches come in on different faces, and the
	// face recorded for the neighbour is the one of its Sync Interests
	inFace := uint64(900 + w)
	nd.R.VerifAdvertDataOnInterest(ndn.InterestHandlerArgs{Interest: interest, IncomingFaceId: &inFace, Reply: func(wire enc.Wire) error {
		reply = wire
		return nil
	}})
	if reply == nil {
		return nil // no answer: the fetch will time out
	}
	data, _, err := sp.ReadData(enc.NewWireReader(reply))
	if err != nil {
		panic("harness: advertDataOnInterest replied with something that is not Data: " + err.Error())
	}
	if !data.Name().Equal(name) {
		panic("harness: advertDataOnInterest replied with Data named " + data.Name().String())
	}
	return data.Content().Join()
}

// ReplyAdvert answers an advertisement fetch of router u with the given content through the REAL
// Express callback (advertDataHandler: sequence check, ns.Advert = ..., go ribUpdate).
func (s *Sim) ReplyAdvert(p Pending, content []byte) {
	if content == nil { // the router asked did not answer
		p.Cb(ndn.ExpressCallbackArgs{Result: ndn.InterestResultTimeout})
		s.Settle()
		return
	}
	sp := spec.Spec{}
	ed, err := sp.MakeData(p.Name, &ndn.DataConfig{ContentType: utils.IdPtr(ndn.ContentTypeBlob),
		Freshness: utils.IdPtr(10 * time.Second)}, enc.Wire{content}, security.NewSha256Signer())
	if err != nil {
		panic("harness: MakeData: " + err.Error())
	}
	data, _, err := sp.ReadData(enc.NewWireReader(ed.Wire))
	if err != nil {
		panic("harness: ReadData: " + err.Error())
	}
	p.Cb(ndn.ExpressCallbackArgs{Result: ndn.InterestResultData, Data: data, RawData: ed.Wire})
	s.Settle()
}

// Ping: a sync Interest of w reaches u on the given face; returns u's neighbor state for w.
func (s *Sim) Ping(u, w int, face uint64, active bool) *table.NeighborState {
	s.SyncInterest(u, s.Nodes[w].Name, face, active, 1)
	return s.Nodes[u].R.VerifNeighbors().Get(s.Nodes[w].Name)
}

// Fetch: u obtains w's current advertisement (encoded and parsed as on the wire) and processes it.
func (s *Sim) Fetch(u, w int) {
	ns := s.Ping(u, w, FaceOf(w), true)
	s.FetchNs(u, w, ns)
}

func (s *Sim) FetchNs(u, w int, ns *table.NeighborState) {
	nu, nw := s.Nodes[u], s.Nodes[w]
	wire := nw.R.VerifRib().Advert().Encode()
	adv, err := tlv.ParseAdvertisement(enc.NewBufferReader(wire.Join()), false)
	if err != nil {
		panic("harness: advertisement does not parse: " + err.Error())
	}
	ns.Advert = adv
	ns.AdvertSeq = nw.R.VerifAdvertSeq()
	nu.R.VerifRibUpdate(ns)
	s.Settle()
}

// Dead: u stops hearing from w; the dead interval elapses for w only (every other neighbor of u
// keeps pinging on its current face); the dead check runs. wName may be any router name.
func (s *Sim) Dead(u int, wName enc.Name) bool {
	return s.DeadMany(u, []enc.Name{wName}) > 0
}

// DeadMany: u stops hearing from ALL the given routers at once; the dead interval elapses for them
// together and ONE checkDeadNeighbors sweep finds them all. Returns how many of them had a
// neighbor state (0: the sweep is not run).
func (s *Sim) DeadMany(u int, names []enc.Name) int {
	nu := s.Nodes[u]
	nt := nu.R.VerifNeighbors()
	gone := func(n enc.Name) bool {
		for _, x := range names {
			if x.Equal(n) {
				return true
			}
		}
		return false
	}
	k := 0
	for _, n := range names {
		if nt.Get(n) != nil {
			k++
		}
	}
	if k == 0 {
		return 0
	}
	time.Sleep(nu.Cfg.RouterDeadInterval() + time.Millisecond)
	for _, ns := range nt.GetAll() {
		if gone(ns.Name) {
			continue
		}
		s.Heartbeat(u, ns) // the live neighbors keep sending their periodic Sync Interests
	}
	nu.R.VerifCheckDeadNeighbors()
	s.Settle()
	return k
}

// Heartbeat: the periodic Sync Interest of a neighbor whose advertisement has NOT changed (it repeats
// the sequence number u already remembers) reaches the REAL advertSyncOnInterest of router u on the
// face the neighbor is known on. It must only refresh the neighbor's liveness.
func (s *Sim) Heartbeat(u int, ns *table.NeighborState) {
	s.SyncInterest(u, ns.Name, ns.VerifFaceId(), true, ns.AdvertSeq)
}

// Tick lets more than a dead interval of virtual time pass on stable links: the neighbors over the
// links that are up keep sending heartbeats with unchanged sequence numbers (real
// advertSyncOnInterest), nothing is heard over the links that are down, then the deadcheck ticker
// fires at every router (real checkDeadNeighbors).
func (s *Sim) Tick(up func(u, w int) bool) {
	adv, dead := s.Nodes[0].Cfg.AdvertisementSyncInterval(), s.Nodes[0].Cfg.RouterDeadInterval()
	t0 := time.Now()
	until := func(t time.Time) {
		if d := time.Until(t); d > 0 {
			time.Sleep(d)
		}
	}
	beat := func() {
		for u, nu := range s.Nodes {
			for _, ns := range nu.R.VerifNeighbors().GetAll() {
				if w := s.IdxOfName(ns.Name); w >= 0 && up(u, w) {
					s.Heartbeat(u, ns)
				}
			}
		}
	}
	// the neighbours send a heartbeat every advertise interval (t0, t0+adv, ...), the deadcheck ticker fires
	// every dead interval (t0+dead, t0+2*dead); only the heartbeat rounds that are the last before a sweep
	// are played
	beat()
	last := time.Duration(0)
	for j := 1; j <= 2; j++ {
		sweep := time.Duration(j) * dead
		if h := (sweep / adv) * adv; h > last {
			until(t0.Add(h))
			beat()
			last = h
		}
		until(t0.Add(sweep))
		for _, nu := range s.Nodes {
			nu.R.VerifCheckDeadNeighbors()
		}
		s.Settle()
	}
}

// Restart: router i crashes and comes back — a fresh Router from the REAL NewRouter (boot sequence
// numbers from the clock, empty tables) with the same name; its neighbors keep what they remember.
func (s *Sim) Restart(i int) {
	old := s.Nodes[i]
	s.Settle()
	if s.svsOn[i] {
		old.R.VerifPfxSvs().Stop()
		delete(s.svsOn, i)
	}
	old.R.VerifNfdc().Stop()
	eng := &Engine{}
	r, err := dv.NewRouter(old.Cfg, eng)
	if err != nil {
		panic("harness: NewRouter: " + err.Error())
	}
	old.Eng, old.R = eng, r
	go r.VerifNfdc().Start()
	r.VerifRib().Set(old.Name, old.Name, 0)
	s.Settle()
	eng.TakeCmds()
}

// DumpRib renders the observable routing state of router u in canonical sorted form:
//
//	adv=<d>:<nh>:<cost>:<other>,...  ent=<d>:<face1>:<cost1>:<face2>:<cost2>,...
//
// adv = Rib.Advert() (every entry), ent = Rib.Entries() with GetFibEntries (best / second-best
// face and cost); routers are written as indices, "-" for none/unknown.
func (s *Sim) DumpRib(u int) string {
	nu := s.Nodes[u]
	rib := nu.R.VerifRib()
	var adv []string
	for _, e := range rib.Advert().Entries {
		d, nh := -1, -1
		if e.Destination != nil {
			d = s.IdxOfName(e.Destination.Name)
		}
		if e.NextHop != nil {
			nh = s.IdxOfName(e.NextHop.Name)
		}
		adv = append(adv, fmt.Sprintf("%s:%s:%d:%d", idx(d), idx(nh), e.Cost, e.OtherCost))
	}
	sort.Strings(adv)
	var ent []string
	for _, e := range rib.Entries() {
		d := s.IdxOfName(e.Name())
		fes := rib.GetFibEntries(nu.R.VerifNeighbors(), e.Name().Hash())
		for i := range fes {
			if fes[i].Cost >= SpecInfinity {
				fes[i].FaceId = 0 // which hop carries an infinite cost is not an observable
			}
		}
		ent = append(ent, fmt.Sprintf("%s:%d:%d:%d:%d", idx(d), fes[0].FaceId, fes[0].Cost, fes[1].FaceId, fes[1].Cost))
	}
	sort.Strings(ent)
	return "adv=" + dash(strings.Join(adv, ",")) + " ent=" + dash(strings.Join(ent, ","))
}

func idx(i int) string {
	if i < 0 {
		return "-"
	}
	return fmt.Sprint(i)
}

func dash(s string) string {
	if s == "" {
		return "-"
	}
	return s
}
