// Package c11: correspondence harness for property C11 (stream framing).
//
// Real code under test: fw/face.readTlvStream (through the add-only hook VerifReadTlvStream) and
// std/engine/face.StreamFace.Run (through VerifNewStreamFaceOnConn), both fed by a scripted reader
// that hands out exactly the chunks the history prescribes.
//
// ops:
//
//	new fw|app            start the real reader goroutine on a fresh scripted connection
//	new tcp|unix <mtu>    the REAL UnicastTCPTransport / UnixStreamTransport receive loop (runReceive) on
//	                      a loopback connection, SetMTU(<mtu>) applied; the frames are what reaches the
//	                      transport's link service; rd writes to the peer end (=> k=<n> w), the frames
//	                      are reported at eof (=> nil f=<all frames>)
//	new udp <rmtu>        the REAL UnicastUDPTransport receive loop (loopback UDP) with SetMTU(<rmtu>); `sf`
//	                      writes the next block as one datagram from a plain socket
//	new tcps|unixs|udps <smtu> <rmtu>
//	                      send-side leg: the peer's end is a real transport of the same kind with
//	                      SetMTU(<smtu>); `sf` hands the next block to ITS sendFrame (as a link service
//	                      does, => k=<len> w); the receiving transport has SetMTU(<rmtu>) (possibly
//	                      lower: asymmetric link); the frames that reach its link service are reported
//	                      at eof
//	new appsend           a StreamFace (std/engine/face) on a connection that logs what is written
//	cs <na> <nb>          two goroutines call Send on it: the next block as a Wire of <na> buffers (held
//	                      inside its first Write) and the block after it as a Wire of <nb> buffers;
//	                      => k=<bytes> f=<the written bytes framed into blocks again>
//	rde <n>               like rd, but the bytes are returned TOGETHER with an error that the
//	                      ignoreError callback swallows (n = 0: the error alone); fw kind only
//	blk <typ> <len> <seed> append one well-formed TLV block (type, value length, fill seed) to the
//	                      byte stream the peer "sent"                               => ok
//	blkf <typ> <tf> <len> <lf> <seed>
//	                      the same with T written in the <tf>-byte and L in the <lf>-byte form (1, 3, 5 or
//	                      9 bytes, not necessarily the shortest that holds the number)  => ok
//	rd <n>                the next Read returns min(n, bytes pending, len(p)) bytes  (app: repeated
//	                      until n or all pending bytes were taken)
//	                      => k=<bytes handed over> f=<len:fnv64 of every frame delivered, in order | ->
//	eof                   the reader reports io.EOF                => nil | err  (return value)
//	                      app kind: + h=<len:fnv64 of EVERY packet delivered in this history, which the
//	                      harness retained without copying, digested again now>
//
// A Read offered an empty slice is reported as "stall ..." (the real loop would spin on (0,nil));
// a reader goroutine that neither comes back to Read nor returns within the watchdog time as
// "hang ...".
package c11

import (
	"errors"
	"fmt"
	"io"
	"net"
	"net/http"
	"os"
	"strconv"
	"strings"
	"sync"
	"testing"
	"time"

	"github.com/gorilla/websocket"
	"github.com/named-data/ndnd/fw/core"
	"github.com/named-data/ndnd/fw/defn"
	"github.com/named-data/ndnd/fw/dispatch"
	fwface "github.com/named-data/ndnd/fw/face"
	"github.com/named-data/ndnd/fw/fw"
	enc "github.com/named-data/ndnd/std/encoding"
	ndnlog "github.com/named-data/ndnd/std/log"
	appface "github.com/named-data/ndnd/std/engine/face"
	"verif/harness/common"
)

const maxPkt = 8800

// ---------------------------------------------------------------- byte material

// Fill is the deterministic value pattern shared with the Lean driver:
// byte i = (seed*131 + i*7 + i/256*13 + (i*i)%251) mod 256; seed 0 = all 0xfd (looks like a 3-byte
// TL number everywhere), seed 1 = all 0xff.
func Fill(n int, seed int) []byte {
	b := make([]byte, n)
	for i := range b {
		switch seed {
		case 0:
			b[i] = 0xfd
		case 1:
			b[i] = 0xff
		default:
			b[i] = byte(seed*131 + i*7 + i/256*13 + (i*i)%251)
		}
	}
	return b
}

func Block(typ uint64, n int, seed int) []byte {
	t, l := enc.TLNum(typ), enc.TLNum(n)
	b := make([]byte, t.EncodingLength()+l.EncodingLength()+n)
	p := t.EncodeInto(b)
	p += l.EncodeInto(b[p:])
	copy(b[p:], Fill(n, seed))
	return b
}

// tlForm writes x as a TLV number in the form that takes `form` bytes (1, 3, 5 or 9) — not necessarily
// the shortest one; the readers accept every form.
func tlForm(form int, x uint64) []byte {
	switch form {
	case 1:
		return []byte{byte(x)}
	case 3:
		return []byte{0xfd, byte(x >> 8), byte(x)}
	case 5:
		return []byte{0xfe, byte(x >> 24), byte(x >> 16), byte(x >> 8), byte(x)}
	default:
		return []byte{0xff, byte(x >> 56), byte(x >> 48), byte(x >> 40), byte(x >> 32), byte(x >> 24), byte(x >> 16), byte(x >> 8), byte(x)}
	}
}

// formFits: the form holds the value (the one-byte form holds 0..0xfc)
func formFits(form int, x uint64) bool {
	switch form {
	case 1:
		return x <= 0xfc
	case 3:
		return x <= 0xffff
	case 5:
		return x <= 0xffffffff
	case 9:
		return true
	}
	return false
}

// BlockForm: a block whose T is written in the <tf>-byte form and whose L in the <lf>-byte form
func BlockForm(typ uint64, tf int, n int, lf int, seed int) []byte {
	b := append(tlForm(tf, typ), tlForm(lf, uint64(n))...)
	return append(b, Fill(n, seed)...)
}

// InterestBlock: a block that is an Interest (so that a full NDNLP link service accepts it): name of one
// generic component of n filler bytes, Nonce 01020304.
func InterestBlock(n int, seed int) []byte {
	comp := Block(8, n, seed)
	name := append(append([]byte{7}, tlnum(len(comp))...), comp...)
	body := append(name, 0x0a, 4, 1, 2, 3, 4)
	return append(append([]byte{5}, tlnum(len(body))...), body...)
}

func tlnum(x int) []byte {
	t := enc.TLNum(x)
	b := make([]byte, t.EncodingLength())
	t.EncodeInto(b)
	return b
}

func fnv64(b []byte) uint64 {
	h := uint64(0xcbf29ce484222325)
	for _, c := range b {
		h ^= uint64(c)
		h *= 0x100000001b3
	}
	return h
}

// ---------------------------------------------------------------- scripted connection

type readReq struct{ n int } // a Read was called with len(p) = n
// one Read result prescribed by the history: the bytes and the error returned TOGETHER with them
type readRes struct {
	b   []byte
	err error
}

// errIgnorable is the error the ignoreError callback of the fw kind swallows (what the UDP
// transports do with transient socket errors).
var errIgnorable = errors.New("verif: transient read error")

type conn struct {
	idle chan readReq // reader goroutine -> harness: "I am in Read"
	data chan readRes // harness -> reader: the result of this Read (err io.EOF = end of stream)
	eof  bool
}

func (c *conn) Read(p []byte) (int, error) {
	if c.eof {
		return 0, io.EOF
	}
	c.idle <- readReq{len(p)}
	d := <-c.data
	if d.err == io.EOF {
		c.eof = true
	}
	if len(d.b) > len(p) {
		panic("harness: chunk larger than the buffer offered")
	}
	return copy(p, d.b), d.err
}
func (c *conn) Write(p []byte) (int, error)        { return len(p), nil }
func (c *conn) Close() error                       { return nil }
func (c *conn) LocalAddr() net.Addr                { return nil }
func (c *conn) RemoteAddr() net.Addr               { return nil }
func (c *conn) SetDeadline(t time.Time) error      { return nil }
func (c *conn) SetReadDeadline(t time.Time) error  { return nil }
func (c *conn) SetWriteDeadline(t time.Time) error { return nil }

// ---------------------------------------------------------------- state of the running history

type run struct {
	kind    string
	c       *conn
	done    chan string // return value of the real function
	pending []byte      // stream bytes defined and not yet handed to Read
	frames  []string    // frames delivered since the last collection
	offered int         // len(p) of the Read the goroutine currently sits in; -1 = finished
	result  string
	hung    bool
	sock    net.Conn // socket kinds (tcp, unix): the peer's end of the real connection
	closed  bool
	// send-side leg (tcps, unixs): the peer's end is a real transport too
	send    func([]byte) // its sendFrame
	closeS  func()       // its Close
	blocks  [][]byte     // blocks defined and not yet sent
	kept    [][]byte     // app kind: every delivered packet, retained uncopied
	isSock  bool
	udp     bool
	udpc    *net.UDPConn // udp (receive leg only): the harness's plain peer socket
	bp      *backPressure // tcpb: sender behind a peer that does not read for a while
	lis     bool            // listener leg: blocks are Interests, frames are what reaches the forwarding thread
	appo    bool            // application face that opens (and re-opens) its own connection
	hold    chan struct{}   // appo: the next callback waits for this channel
	inCb    chan struct{}   // appo: the held callback has started
	ws      *websocket.Conn // listener leg, WebSocket: the client's end
	closeL  func()          // listener leg: stop the listener
	ln      net.Listener  // tcpr: the peer's listener (the permanent face dials it again after a failure)
	ends    []int         // tcpr: ends of the blocks defined on the current connection
	defined int           // tcpr: bytes defined on the current connection
	written int           // tcpr: bytes written on the current connection
	full    int           // tcpr: blocks completely written on earlier connections
	rcvSend func([]byte) // udp: sendFrame of the RECEIVING transport
	pa, pb  uint16       // udp: peer port, transport port
	closeR  func() // udp: Close of the receiving transport (UDP has no end of stream)
	mu      sync.Mutex
	nframes int
	wc      *wconn              // appsend kind
	face    *appface.StreamFace // appsend kind
}

var cur *run
var sockSeq int

// startSock runs the REAL stream transport (UnicastTCPTransport / UnixStreamTransport runReceive) on
// a loopback connection, with SetMTU(mtu) applied as management would; frames are what reaches the
// transport's link service.  The kernel decides the chunking, so frames are reported at eof.
// ---------------------------------------------------------------- application-side SEND leg

// wconn is the connection under a StreamFace whose Send is exercised by two goroutines: it logs what
// is written, and the FIRST Write after arm() reports itself and blocks until released, so that the
// second sender gets its chance exactly while the first one is in the middle of its Wire.
type wconn struct {
	conn
	mu      sync.Mutex
	written []byte
	nwrites int
	armed   bool
	inWrite chan struct{}
	release chan struct{}
}

func (c *wconn) Write(p []byte) (int, error) {
	c.mu.Lock()
	gate := c.armed
	c.armed = false
	c.written = append(c.written, p...)
	c.nwrites++
	c.mu.Unlock()
	if gate {
		c.inWrite <- struct{}{}
		<-c.release
	}
	return len(p), nil
}

func (c *wconn) writes() int {
	c.mu.Lock()
	defer c.mu.Unlock()
	return c.nwrites
}

// split cuts b into n non-empty buffers (a Wire of n buffers).
func split(b []byte, n int) enc.Wire {
	if n > len(b) {
		n = len(b)
	}
	if n < 1 {
		n = 1
	}
	w := make(enc.Wire, 0, n)
	step := len(b) / n
	for i := 0; i < n; i++ {
		end := (i + 1) * step
		if i == n-1 {
			end = len(b)
		}
		w = append(w, b[i*step:end])
	}
	return w
}

// frameBytes cuts a byte stream into TLV blocks the way a receiver would; whatever cannot be framed
// is reported as one pseudo frame "x<len>:<hash>".
func frameBytes(b []byte) string {
	var out []string
	for len(b) > 0 {
		rd := enc.NewBufferReader(b)
		t, err1 := enc.ReadTLNum(rd)
		l, err2 := enc.ReadTLNum(rd)
		n := t.EncodingLength() + l.EncodingLength() + int(l)
		if err1 != nil || err2 != nil || uint64(l) > uint64(len(b)) || n > len(b) {
			out = append(out, "x"+strconv.Itoa(len(b))+":"+strconv.FormatUint(fnv64(b), 16))
			break
		}
		out = append(out, strconv.Itoa(n)+":"+strconv.FormatUint(fnv64(b[:n]), 16))
		b = b[n:]
	}
	if len(out) == 0 {
		return "-"
	}
	return strings.Join(out, ",")
}

func startAppSend() *run {
	wc := &wconn{inWrite: make(chan struct{}), release: make(chan struct{})}
	r := &run{kind: "appsend", done: make(chan string, 1), offered: -1, wc: wc}
	r.face = appface.VerifNewStreamFaceOnConn(wc, true)
	r.send = func([]byte) {} // blocks are queued, not appended to a stream
	return r
}

// concurrentSend: sender A starts a Wire of na buffers and is held inside its first Write; sender B
// then sends a Wire of nb buffers; A is released; the bytes written are framed again.
func (r *run) concurrentSend(na, nb int) string {
	if len(r.blocks) < 2 {
		return "skip"
	}
	a, b := r.blocks[0], r.blocks[1]
	r.blocks = r.blocks[2:]
	wc := r.wc
	wc.mu.Lock()
	wc.written, wc.nwrites, wc.armed = nil, 0, true
	wc.mu.Unlock()
	doneA, doneB := make(chan string, 1), make(chan string, 1)
	go func() {
		doneA <- common.Guard(func() string { r.face.Send(split(a, na)); return "ok" })
	}()
	select {
	case <-wc.inWrite:
	case <-time.After(watchdog):
		return "hang k=0 f=-"
	}
	before := wc.writes()
	go func() {
		doneB <- common.Guard(func() string { r.face.Send(split(b, nb)); return "ok" })
	}()
	// B either blocks on the face's send lock (no Write arrives) or writes at once
	for i := 0; i < 40 && wc.writes() == before; i++ {
		time.Sleep(time.Millisecond)
	}
	wc.release <- struct{}{}
	for _, d := range []chan string{doneA, doneB} {
		select {
		case res := <-d:
			if res != "ok" {
				return res
			}
		case <-time.After(watchdog):
			return "hang k=0 f=-"
		}
	}
	wc.mu.Lock()
	defer wc.mu.Unlock()
	return fmt.Sprintf("k=%d f=%s", len(a)+len(b), frameBytes(wc.written))
}

// ---------------------------------------------------------------- listener legs
//
// new lis tcp <lifetime s>   the REAL TCPListener accepts the harness's connection and starts a face of
//                            its own (UnicastTCPTransport + NDNLPLinkService); blocks are Interests
//                            (InterestBlock) written with `rd`, `pause <ms>` lets real time pass; what
//                            the face queues to the (recording) forwarding thread is reported at eof
// new lis ws 0               the same through the REAL WebSocket listener handler: `sf` sends the next
//                            block as one binary WebSocket message

type lisThread struct{ r *run }

func (t *lisThread) String() string { return "lis-thread" }
func (t *lisThread) QueueInterest(p *defn.Pkt) {
	t.r.mu.Lock()
	t.r.frames = append(t.r.frames, strconv.Itoa(len(p.Raw))+":"+strconv.FormatUint(fnv64(p.Raw), 16))
	t.r.nframes++
	t.r.mu.Unlock()
}
func (t *lisThread) QueueData(p *defn.Pkt) { t.QueueInterest(p) }
func (t *lisThread) GetNumPitEntries() int { return 0 }
func (t *lisThread) GetNumCsEntries() int  { return 0 }

func startListener(kind string, lifetimeS int) *run {
	r := &run{kind: "lis" + kind, done: make(chan string, 1), offered: -1, isSock: true, lis: true}
	ndnlog.SetLevel(ndnlog.FatalLevel)
	cfg := core.DefaultConfig()
	cfg.Faces.Tcp.Lifetime = uint64(lifetimeS)
	core.LoadConfig(cfg, "/")
	fwface.Configure()
	dispatch.InitializeFWThreads([]dispatch.FWThread{&lisThread{r}})
	fw.Threads = make([]*fw.Thread, 1) // only its length is used (name-hash dispatch)
	switch kind {
	case "tcp":
		port := freeTCPPort()
		if port == 0 {
			return nil
		}
		l, err := fwface.MakeTCPListener(defn.MakeTCPFaceURI(4, "127.0.0.1", port))
		if err != nil {
			return nil
		}
		go l.Run()
		var c net.Conn
		for i := 0; i < 400; i++ {
			if c, err = net.Dial("tcp4", fmt.Sprintf("127.0.0.1:%d", port)); err == nil {
				break
			}
			time.Sleep(5 * time.Millisecond)
		}
		if err != nil {
			l.Close()
			return nil
		}
		r.sock = c
		r.closeL = func() { l.Close() }
	case "ws":
		wl, err := fwface.NewWebSocketListener(fwface.WebSocketListenerConfig{Bind: "127.0.0.1", Port: 9696})
		if err != nil {
			return nil
		}
		inner, err := net.Listen("tcp4", "127.0.0.1:0")
		if err != nil {
			return nil
		}
		srv := &http.Server{Handler: fwface.VerifWebSocketHandler(wl)}
		go srv.Serve(inner)
		c, _, err := websocket.DefaultDialer.Dial("ws://"+inner.Addr().String()+"/", nil)
		if err != nil {
			srv.Close()
			return nil
		}
		r.ws = c
		r.send = func(b []byte) { c.WriteMessage(websocket.BinaryMessage, b) }
		r.closeS = func() { c.Close() }
		r.closeL = func() { srv.Close() }
	default:
		return nil
	}
	return r
}

func freeTCPPort() uint16 {
	l, err := net.Listen("tcp4", "127.0.0.1:0")
	if err != nil {
		return 0
	}
	defer l.Close()
	return uint16(l.Addr().(*net.TCPAddr).Port)
}

// finishListener: the peer closes; wait until the face has been quiet for a while, stop the listener
func (r *run) finishListener() string {
	if r.ws != nil {
		r.ws.Close()
	} else {
		r.sock.Close()
	}
	for n, quiet := r.frameCount(), 0; quiet < 4; {
		time.Sleep(25 * time.Millisecond)
		if m := r.frameCount(); m != n {
			n, quiet = m, 0
		} else {
			quiet++
		}
	}
	r.closeL()
	r.mu.Lock()
	defer r.mu.Unlock()
	return "nil f=" + r.take()
}

// ---------------------------------------------------------------- application face life cycle
//
// new appo            a StreamFace (std/engine/face) that Open()s its own connection to a Unix socket of
//                     the harness; `rd` writes the stream, the packets handed to the engine are
//                     reported at eof
// reopen <t> <n> <s>  the block is written; while the engine's callback for it is still running the
//                     application Close()s the face and Open()s it again as soon as Open accepts; the
//                     stream continues on the new connection

func startAppOpen() *run {
	r := &run{kind: "appo", done: make(chan string, 1), offered: -1, isSock: true, appo: true}
	sockSeq++
	path := fmt.Sprintf("@verif-c11-appo-%d-%d", os.Getpid(), sockSeq)
	ln, err := net.Listen("unix", path)
	if err != nil {
		return nil
	}
	r.inCb = make(chan struct{}, 1)
	f := appface.NewStreamFace("unix", path, true)
	f.SetCallback(func(rd enc.ParseReader) error {
		b := rd.Range(0, rd.Length()).Join()
		r.mu.Lock()
		r.frames = append(r.frames, strconv.Itoa(len(b))+":"+strconv.FormatUint(fnv64(b), 16))
		r.nframes++
		hold := r.hold
		r.hold = nil
		r.mu.Unlock()
		if hold != nil {
			r.inCb <- struct{}{}
			<-hold
		}
		return nil
	}, func(err error) error { return err })
	if err := f.Open(); err != nil {
		ln.Close()
		return nil
	}
	ln.(*net.UnixListener).SetDeadline(time.Now().Add(watchdog))
	c, err := ln.Accept()
	if err != nil {
		ln.Close()
		return nil
	}
	r.sock, r.ln, r.face = c, ln, f
	return r
}

func (r *run) reopen(b []byte) string {
	if r.closed {
		return "dead " + r.result
	}
	if len(r.pending) != 0 {
		return "skip"
	}
	// everything written so far has reached the engine before the scene starts
	complete := r.full
	for _, e := range r.ends {
		if e <= r.written {
			complete++
		}
	}
	for i := 0; i < 15000 && r.frameCount() < complete; i++ {
		time.Sleep(time.Millisecond)
	}
	r.full, r.ends, r.defined, r.written = complete+1, nil, 0, 0
	hold := make(chan struct{})
	r.mu.Lock()
	r.hold = hold
	r.mu.Unlock()
	r.sock.SetWriteDeadline(time.Now().Add(watchdog))
	if _, err := r.sock.Write(b); err != nil {
		close(hold)
		r.closed = true
		return "hang k=0 f=- write: " + err.Error()
	}
	select {
	case <-r.inCb:
	case <-time.After(watchdog):
		close(hold)
		r.closed = true
		return "hang k=0 f=- the block did not reach the engine"
	}
	// the engine's callback is running: the application closes the face and wants it back at once
	r.face.Close()
	err := r.face.Open()
	close(hold)
	for i := 0; err != nil && i < 5000; i++ {
		time.Sleep(time.Millisecond)
		err = r.face.Open()
	}
	if err != nil {
		r.closed = true
		return "hang k=0 f=- the face cannot be opened again: " + err.Error()
	}
	r.ln.(*net.UnixListener).SetDeadline(time.Now().Add(watchdog))
	c, aerr := r.ln.Accept()
	if aerr != nil {
		r.closed = true
		return "hang k=0 f=- no second connection"
	}
	r.sock.Close()
	r.sock = c
	return "ok"
}

func (r *run) finishAppOpen() string {
	r.sock.Close()
	for n, quiet := r.frameCount(), 0; quiet < 4; {
		time.Sleep(25 * time.Millisecond)
		if m := r.frameCount(); m != n {
			n, quiet = m, 0
		} else {
			quiet++
		}
	}
	r.ln.Close()
	r.mu.Lock()
	defer r.mu.Unlock()
	return "nil f=" + r.take()
}

// backPressure: the blocks are handed to the sendFrame of a real TCP transport by one goroutine, one
// after the other like the link service's send loop, while the peer does not read at all for
// <stall>: the socket's send queue fills and Write blocks.  The peer then reads everything.
type backPressure struct {
	q     chan []byte
	done  chan struct{}
	srv   net.Conn
	stall time.Duration
	slow  bool // tcpo: the peer reads slowly (the face is closed while its send queue is still full)
}

func startBackPressure(smtu, stallMs int) *run {
	r := &run{kind: "tcpb", done: make(chan string, 1), offered: -1, isSock: true}
	ln, err := net.Listen("tcp4", "127.0.0.1:0")
	if err != nil {
		return nil
	}
	defer ln.Close()
	cl, err := net.Dial("tcp4", ln.Addr().String())
	if err != nil {
		return nil
	}
	srv, err := ln.Accept()
	if err != nil {
		cl.Close()
		return nil
	}
	// small socket buffers: a few blocks fill the queue
	cl.(*net.TCPConn).SetWriteBuffer(8192)
	srv.(*net.TCPConn).SetReadBuffer(8192)
	_, snd, cls, err := fwface.VerifStreamTransport("tcp", cl, smtu, func([]byte) {})
	if err != nil {
		cl.Close()
		srv.Close()
		return nil
	}
	r.send, r.closeS = snd, cls
	bp := &backPressure{q: make(chan []byte, 1<<16), done: make(chan struct{}), srv: srv, stall: time.Duration(stallMs) * time.Millisecond}
	go func() {
		defer close(bp.done)
		for b := range bp.q {
			snd(b)
		}
	}()
	r.bp = bp
	return r
}

// startCloseAfterSend (`new tcpo <smtu> 0`): the REAL outgoing UnicastTCPTransport (it dials the harness)
// sends the blocks; the peer reads slowly through a small receive window, so that most of the data still
// sits in the transport's socket send queue when the face is closed right after the last sendFrame.  A
// closed face must not take back what it has already sent.
func startCloseAfterSend(smtu int) *run {
	r := &run{kind: "tcpo", done: make(chan string, 1), offered: -1, isSock: true}
	ln, err := net.Listen("tcp4", "127.0.0.1:0")
	if err != nil {
		return nil
	}
	defer ln.Close()
	up := make(chan struct{}, 1)
	recv, snd, cls, err := fwface.VerifOutgoingTCPTransportSend(uint16(ln.Addr().(*net.TCPAddr).Port), fwface.PersistencyPersistent, smtu,
		func([]byte) {
			select {
			case up <- struct{}{}:
			default:
			}
		})
	if err != nil {
		return nil
	}
	go recv()
	ln.(*net.TCPListener).SetDeadline(time.Now().Add(watchdog))
	srv, err := ln.Accept()
	if err != nil {
		cls()
		return nil
	}
	srv.(*net.TCPConn).SetReadBuffer(4096)
	// the transport is up once its receive loop has handed up a block
	srv.Write([]byte{0x64, 0x00})
	select {
	case <-up:
	case <-time.After(watchdog):
		cls()
		srv.Close()
		return nil
	}
	r.send, r.closeS = snd, cls
	bp := &backPressure{q: make(chan []byte, 1<<16), done: make(chan struct{}), srv: srv, slow: true}
	go func() {
		defer close(bp.done)
		for b := range bp.q {
			snd(b)
		}
	}()
	r.bp = bp
	return r
}

// startAcceptedCloseAfterSend (`new tcpa <smtu> 0`): the same for a face the REAL TCPListener accepted (the
// harness dials the listener; the listener builds the transport and the link service, applies whatever socket
// options it applies to accepted connections and registers the face): the blocks go through the sendFrame of
// that face's transport, the face is closed from the forwarder's side (faces/destroy, expiry, shutdown) right
// after the last one, the peer reads slowly through a small receive window.
func startAcceptedCloseAfterSend(smtu int) *run {
	r := &run{kind: "tcpa", done: make(chan string, 1), offered: -1, isSock: true}
	ndnlog.SetLevel(ndnlog.FatalLevel)
	cfg := core.DefaultConfig()
	core.LoadConfig(cfg, "/")
	fwface.Configure()
	dispatch.InitializeFWThreads([]dispatch.FWThread{&lisThread{r}})
	fw.Threads = make([]*fw.Thread, 1)
	before := map[uint64]bool{}
	for _, f := range fwface.FaceTable.GetAll() {
		before[f.FaceID()] = true
	}
	port := freeTCPPort()
	if port == 0 {
		return nil
	}
	l, err := fwface.MakeTCPListener(defn.MakeTCPFaceURI(4, "127.0.0.1", port))
	if err != nil {
		return nil
	}
	go l.Run()
	var c net.Conn
	for i := 0; i < 400; i++ {
		if c, err = net.Dial("tcp4", fmt.Sprintf("127.0.0.1:%d", port)); err == nil {
			break
		}
		time.Sleep(5 * time.Millisecond)
	}
	if err != nil {
		l.Close()
		return nil
	}
	c.(*net.TCPConn).SetReadBuffer(4096)
	// the face the listener made for this connection
	var snd func([]byte)
	var cls func()
	for i := 0; i < 400 && snd == nil; i++ {
		for _, f := range fwface.FaceTable.GetAll() {
			if !before[f.FaceID()] && f.RemoteURI().Scheme() == "tcp4" && f.RemoteURI().Port() == uint16(c.LocalAddr().(*net.TCPAddr).Port) {
				if s2, c2, ok := fwface.VerifFaceSendAndClose(f.FaceID()); ok {
					f.SetMTU(smtu)
					snd, cls = s2, c2
				}
			}
		}
		if snd == nil {
			time.Sleep(5 * time.Millisecond)
		}
	}
	if snd == nil {
		c.Close()
		l.Close()
		return nil
	}
	r.send = snd
	r.closeS = func() { cls(); l.Close() }
	bp := &backPressure{q: make(chan []byte, 1<<16), done: make(chan struct{}), srv: c, slow: true}
	go func() {
		defer close(bp.done)
		for b := range bp.q {
			snd(b)
		}
	}()
	r.bp = bp
	return r
}

func (r *run) finishBackPressure() string {
	bp := r.bp
	close(bp.q)
	time.Sleep(bp.stall)
	got := make(chan []byte, 1)
	go func() {
		bp.srv.SetReadDeadline(time.Now().Add(2 * watchdog))
		if !bp.slow {
			b, _ := io.ReadAll(bp.srv)
			got <- b
			return
		}
		// a slow reader: 2 KiB per millisecond
		var all []byte
		buf := make([]byte, 2048)
		for {
			n, err := bp.srv.Read(buf)
			all = append(all, buf[:n]...)
			if err != nil {
				break
			}
			time.Sleep(time.Millisecond)
		}
		got <- all
	}()
	select {
	case <-bp.done:
	case <-time.After(watchdog):
		r.hung = true
		bp.srv.Close()
		return "hang k=0 f=-"
	}
	r.closeS()
	select {
	case b := <-got:
		bp.srv.Close()
		return "nil f=" + frameBytes(b)
	case <-time.After(watchdog):
		r.hung = true
		bp.srv.Close()
		return "hang k=0 f=-"
	}
}

// startReconnect: the REAL outgoing UnicastTCPTransport with persistency permanent dials a listener of
// the harness; the harness writes the stream, may abort the connection (rst => the transport's Read
// fails, it reconnects) and carries on over the new connection.
func startReconnect(mtu int) *run {
	r := &run{kind: "tcpr", done: make(chan string, 1), offered: -1, isSock: true}
	ln, err := net.Listen("tcp4", "127.0.0.1:0")
	if err != nil {
		return nil
	}
	onFrame := func(b []byte) {
		r.mu.Lock()
		r.frames = append(r.frames, strconv.Itoa(len(b))+":"+strconv.FormatUint(fnv64(b), 16))
		r.nframes++
		r.mu.Unlock()
	}
	recv, cls, err := fwface.VerifOutgoingTCPTransport(uint16(ln.Addr().(*net.TCPAddr).Port), fwface.PersistencyPermanent, mtu, onFrame)
	if err != nil {
		ln.Close()
		return nil
	}
	go func() {
		r.done <- common.Guard(func() string { recv(); return "nil" })
	}()
	ln.(*net.TCPListener).SetDeadline(time.Now().Add(watchdog))
	c, err := ln.Accept()
	if err != nil {
		cls()
		ln.Close()
		return nil
	}
	r.sock, r.ln, r.closeR = c, ln, cls
	return r
}

// reset aborts the current connection (RST), waits for the transport to dial again and carries on
// over the new connection.  What was defined and not yet written is dropped (so is, by the nature of
// a byte stream that ended, the block that was only partly written).
func (r *run) reset() string {
	if r.closed {
		return "dead " + r.result
	}
	complete := r.full
	for _, e := range r.ends {
		if e <= r.written {
			complete++
		}
	}
	// everything written so far is read by the transport before the connection is aborted
	for i := 0; i < 15000 && r.frameCount() < complete; i++ {
		time.Sleep(time.Millisecond)
	}
	time.Sleep(20 * time.Millisecond)
	r.sock.(*net.TCPConn).SetLinger(0)
	r.sock.Close()
	r.ln.(*net.TCPListener).SetDeadline(time.Now().Add(watchdog))
	c, err := r.ln.Accept()
	if err != nil {
		r.closed = true
		r.result = "hang k=0 f=- no reconnection: " + err.Error()
		return r.result
	}
	r.sock = c
	r.full, r.ends, r.defined, r.written, r.pending = complete, nil, 0, 0, nil
	return "ok"
}

func freeUDPPort() uint16 {
	c, err := net.ListenUDP("udp4", &net.UDPAddr{IP: net.IPv4(127, 0, 0, 1)})
	if err != nil {
		return 0
	}
	defer c.Close()
	return uint16(c.LocalAddr().(*net.UDPAddr).Port)
}

// startSock: kind tcp|unix|udp = receive leg only (the peer end is a plain socket the harness writes
// to), kind tcps|unixs|udps = the peer end is a real transport as well (send-side leg).  smtu is the
// MTU of the sending transport (send leg only), rmtu the MTU set on the receiving one.
func startSock(kind string, smtu, rmtu int) *run {
	r := &run{kind: kind, done: make(chan string, 1), offered: -1, isSock: true}
	sendLeg := strings.HasSuffix(kind, "s")
	kind = strings.TrimSuffix(kind, "s")
	onFrame := func(b []byte) {
		r.mu.Lock()
		r.frames = append(r.frames, strconv.Itoa(len(b))+":"+strconv.FormatUint(fnv64(b), 16))
		r.nframes++
		r.mu.Unlock()
	}
	var recv func()
	if kind == "udp" {
		fwface.UDPUnicastPort = 0
		pa, pb := freeUDPPort(), freeUDPPort()
		if pa == 0 || pb == 0 || pa == pb {
			return nil
		}
		rcv, rsnd, closeR, err := fwface.VerifUDPTransport(pb, pa, rmtu, onFrame)
		if err != nil {
			return nil
		}
		recv, r.closeR, r.udp = rcv, closeR, true
		r.rcvSend, r.pa, r.pb = rsnd, pa, pb
		if sendLeg {
			_, snd, cls, err := fwface.VerifUDPTransport(pa, pb, smtu, func([]byte) {})
			if err != nil {
				closeR()
				return nil
			}
			r.send, r.closeS = snd, cls
		} else {
			c, err := net.DialUDP("udp4", &net.UDPAddr{IP: net.IPv4(127, 0, 0, 1), Port: int(pa)},
				&net.UDPAddr{IP: net.IPv4(127, 0, 0, 1), Port: int(pb)})
			if err != nil {
				closeR()
				return nil
			}
			r.udpc = c
			r.send, r.closeS = func(b []byte) { r.udpc.Write(b) }, func() { r.udpc.Close() }
		}
	} else {
		var ln net.Listener
		var err error
		if kind == "tcp" {
			ln, err = net.Listen("tcp4", "127.0.0.1:0")
		} else {
			sockSeq++
			ln, err = net.Listen("unix", fmt.Sprintf("@verif-c11-%d-%d", os.Getpid(), sockSeq))
		}
		if err != nil {
			return nil
		}
		defer ln.Close()
		cl, err := net.Dial(ln.Addr().Network(), ln.Addr().String())
		if err != nil {
			return nil
		}
		srv, err := ln.Accept()
		if err != nil {
			cl.Close()
			return nil
		}
		recv, err = fwface.VerifStreamReceiver(kind, srv, rmtu, onFrame)
		if err != nil {
			cl.Close()
			srv.Close()
			return nil
		}
		if sendLeg {
			_, snd, cls, err := fwface.VerifStreamTransport(kind, cl, smtu, func([]byte) {})
			if err != nil {
				cl.Close()
				srv.Close()
				return nil
			}
			r.send, r.closeS = snd, cls
		}
		r.sock = cl
	}
	go func() {
		r.done <- common.Guard(func() string { recv(); return "nil" })
	}()
	return r
}

func (r *run) frameCount() int {
	r.mu.Lock()
	defer r.mu.Unlock()
	return r.nframes
}

func (r *run) sockWrite(op string, n int) string {
	if r.closed {
		return "dead " + r.result
	}
	if op != "rd" || r.send != nil || r.sock == nil {
		return "skip"
	}
	if n > len(r.pending) {
		n = len(r.pending)
	}
	if n == 0 {
		return "skip"
	}
	r.sock.SetWriteDeadline(time.Now().Add(watchdog))
	if _, err := r.sock.Write(r.pending[:n]); err != nil {
		r.closed = true
		return "hang k=0 f=- write: " + err.Error()
	}
	r.pending = r.pending[n:]
	r.written += n
	return fmt.Sprintf("k=%d w", n)
}

// sockFinish closes the peer's end and waits for the transport's receive loop to end.
func (r *run) sockFinish() string {
	if r.closed {
		return "dead " + r.result
	}
	r.closed = true
	if r.appo {
		r.result = r.finishAppOpen()
		return r.result
	}
	if r.lis {
		r.result = r.finishListener()
		return r.result
	}
	if r.bp != nil {
		r.result = r.finishBackPressure()
		return r.result
	}
	if r.udp {
		// no end of stream on UDP: wait until the receive loop is quiet, then close the receiving transport
		for n, quiet := r.frameCount(), 0; quiet < 4; {
			time.Sleep(25 * time.Millisecond)
			if m := r.frameCount(); m != n {
				n, quiet = m, 0
			} else {
				quiet++
			}
		}
		r.closeS()
		r.closeR()
	} else if r.closeS != nil {
		r.closeS() // Close of the sending transport closes its connection
	} else {
		if r.ln != nil { // end of stream (not a failure): the permanent face ends too
			r.ln.Close()
		}
		r.sock.Close()
	}
	select {
	case r.result = <-r.done:
	case <-time.After(watchdog):
		r.hung = true
		return "hang k=0 f=" + r.take()
	}
	r.mu.Lock()
	defer r.mu.Unlock()
	return r.result + " f=" + r.take()
}

// watchdog: how long the reader goroutine may stay away from Read() before it is declared spinning
const watchdog = 20 * time.Second

func (r *run) waitIdle() {
	select {
	case q := <-r.c.idle:
		r.offered = q.n
	case res := <-r.done:
		r.offered = -1
		r.result = res
	case <-time.After(watchdog):
		// neither back in Read nor returned: the real code is spinning / blocked elsewhere
		r.offered = -1
		r.hung = true
		r.result = "hung"
	}
}

func (r *run) take() string {
	if len(r.frames) == 0 {
		return "-"
	}
	s := strings.Join(r.frames, ",")
	r.frames = r.frames[:0]
	return s
}

func (r *run) stop() {
	if r.isSock {
		if !r.closed {
			r.sockFinish()
		}
		return
	}
	if r.offered >= 0 {
		r.c.data <- readRes{nil, io.EOF}
		for r.offered >= 0 {
			r.waitIdle()
			if r.offered >= 0 { // must not happen: Read after EOF
				r.c.data <- readRes{nil, io.EOF}
			}
		}
	}
}

func start(kind string) *run {
	r := &run{kind: kind, c: &conn{idle: make(chan readReq), data: make(chan readRes)}, done: make(chan string, 1)}
	onFrame := func(b []byte) {
		r.frames = append(r.frames, strconv.Itoa(len(b))+":"+strconv.FormatUint(fnv64(b), 16))
	}
	switch kind {
	case "fw":
		go func() {
			res := common.Guard(func() string {
				ignore := func(err error) bool { return errors.Is(err, errIgnorable) }
				if err := fwface.VerifReadTlvStream(r.c, onFrame, ignore); err != nil {
					return "err"
				}
				return "nil"
			})
			r.done <- res
		}()
	case "app":
		f := appface.VerifNewStreamFaceOnConn(r.c, true)
		f.SetCallback(func(rd enc.ParseReader) error {
			w := rd.Range(0, rd.Length())
			b := w.Join()
			onFrame(b)
			// the engine keeps slices of the packets it is handed (names, content): retain the
			// delivered packet WITHOUT copying; it is digested again at eof
			r.kept = append(r.kept, b)
			return nil
		}, func(err error) error {
			if errors.Is(err, io.EOF) || errors.Is(err, io.ErrUnexpectedEOF) {
				return err
			}
			return err
		})
		go func() {
			res := common.Guard(func() string { f.Run(); return "nil" })
			r.done <- res
		}()
	default:
		return nil
	}
	r.waitIdle()
	return r
}

func exec(op string) string {
	f := common.Fields(op)
	switch f[0] {
	case "new":
		if cur != nil {
			cur.stop()
			cur = nil
		}
		if len(f) < 2 {
			return "bad-op"
		}
		if f[1] == "tcp" || f[1] == "unix" || f[1] == "udp" {
			if len(f) != 3 {
				return "bad-op"
			}
			cur = startSock(f[1], 1<<30, common.Atoi(f[2]))
		} else if f[1] == "appsend" {
			cur = startAppSend()
		} else if f[1] == "appo" {
			cur = startAppOpen()
		} else if f[1] == "lis" {
			if len(f) != 4 {
				return "bad-op"
			}
			cur = startListener(f[2], common.Atoi(f[3]))
		} else if f[1] == "tcpr" {
			if len(f) != 3 {
				return "bad-op"
			}
			cur = startReconnect(common.Atoi(f[2]))
		} else if f[1] == "tcpo" {
			if len(f) != 4 {
				return "bad-op"
			}
			cur = startCloseAfterSend(common.Atoi(f[2]))
		} else if f[1] == "tcpa" {
			if len(f) != 4 {
				return "bad-op"
			}
			cur = startAcceptedCloseAfterSend(common.Atoi(f[2]))
		} else if f[1] == "tcpb" {
			if len(f) != 4 {
				return "bad-op"
			}
			cur = startBackPressure(common.Atoi(f[2]), common.Atoi(f[3]))
		} else if f[1] == "tcps" || f[1] == "unixs" || f[1] == "udps" {
			if len(f) != 4 {
				return "bad-op"
			}
			cur = startSock(f[1], common.Atoi(f[2]), common.Atoi(f[3]))
		} else {
			cur = start(f[1])
		}
		if cur == nil {
			return "bad-op"
		}
		return "ok"
	case "blk":
		if cur == nil || len(f) != 4 {
			return "skip"
		}
		b := Block(common.Atou(f[1]), common.Atoi(f[2]), common.Atoi(f[3]))
		if cur.lis {
			b = InterestBlock(common.Atoi(f[2]), common.Atoi(f[3]))
		}
		if cur.send != nil {
			cur.blocks = append(cur.blocks, b)
			return "ok"
		}
		cur.pending = append(cur.pending, b...)
		cur.defined += len(b)
		cur.ends = append(cur.ends, cur.defined)
		return "ok"
	case "blkf":
		// blkf <typ> <tform> <len> <lform> <seed>: like blk, T and L in the given (possibly not shortest) forms
		if cur == nil || len(f) != 6 || cur.lis || cur.send != nil {
			return "skip"
		}
		tf, lf := common.Atoi(f[2]), common.Atoi(f[4])
		if !formFits(tf, common.Atou(f[1])) || !formFits(lf, uint64(common.Atoi(f[3]))) {
			return "skip"
		}
		b := BlockForm(common.Atou(f[1]), tf, common.Atoi(f[3]), lf, common.Atoi(f[5]))
		cur.pending = append(cur.pending, b...)
		cur.defined += len(b)
		cur.ends = append(cur.ends, cur.defined)
		return "ok"
	case "reopen":
		if cur == nil || !cur.appo || len(f) != 4 {
			return "skip"
		}
		return cur.reopen(Block(common.Atou(f[1]), common.Atoi(f[2]), common.Atoi(f[3])))
	case "pause":
		if cur == nil || !cur.lis || len(f) != 2 {
			return "skip"
		}
		time.Sleep(time.Duration(common.Atoi(f[1])) * time.Millisecond)
		return "ok"
	case "rst":
		if cur == nil || cur.ln == nil || len(f) != 1 {
			return "skip"
		}
		return cur.reset()
	case "rs": // the SAME Wire value (<n> buffers) is passed to Send twice: a retransmission, a cached packet served again
		if cur == nil || cur.wc == nil || len(f) != 2 {
			return "skip"
		}
		if len(cur.blocks) < 1 {
			return "skip"
		}
		{
			a := cur.blocks[0]
			cur.blocks = cur.blocks[1:]
			wc := cur.wc
			wc.mu.Lock()
			wc.written, wc.nwrites, wc.armed = nil, 0, false
			wc.mu.Unlock()
			wire := split(a, common.Atoi(f[1]))
			res := common.Guard(func() string {
				if err := cur.face.Send(wire); err != nil {
					return "send-error"
				}
				if err := cur.face.Send(wire); err != nil {
					return "send-error"
				}
				return "ok"
			})
			if res != "ok" {
				return res
			}
			wc.mu.Lock()
			defer wc.mu.Unlock()
			return fmt.Sprintf("k=%d f=%s", 2*len(a), frameBytes(wc.written))
		}
	case "cs": // two goroutines Send on one StreamFace: a Wire of <na> buffers and one of <nb> buffers
		if cur == nil || cur.wc == nil || len(f) != 3 {
			return "skip"
		}
		return cur.concurrentSend(common.Atoi(f[1]), common.Atoi(f[2]))
	case "sf": // hand the next block to the sending transport's sendFrame, as a link service does
		if cur == nil || cur.send == nil || cur.wc != nil || len(f) != 1 {
			return "skip"
		}
		if cur.closed {
			return "dead " + cur.result
		}
		if len(cur.blocks) == 0 {
			return "skip"
		}
		b := cur.blocks[0]
		cur.blocks = cur.blocks[1:]
		if cur.bp != nil { // sent by the send-loop goroutine; it may block on the full socket
			cur.bp.q <- b
			return fmt.Sprintf("k=%d w", len(b))
		}
		if cur.sock != nil {
			cur.sock.SetWriteDeadline(time.Now().Add(watchdog))
		}
		before := cur.frameCount()
		cur.send(b)
		if cur.udp { // datagrams: pace the sender so that the socket buffer cannot overflow
			for i := 0; i < 30 && cur.frameCount() == before; i++ {
				time.Sleep(time.Millisecond)
			}
		}
		return fmt.Sprintf("k=%d w", len(b))
	case "sfr":
		// plain-socket UDP leg: the next block travels as TWO datagrams (the first <k> bytes, then the
		// rest).  In between the peer's port is closed and the receiving transport sends a frame of
		// its own: the kernel answers with ICMP port unreachable and the transport's pending Read
		// returns "connection refused" - the error the transport ignores (UDP is connectionless).
		// The peer then comes back on the same port.  The half block already received must survive.
		if len(f) != 2 {
			return "bad-op"
		}
		if cur == nil || cur.udpc == nil || cur.rcvSend == nil {
			return "skip"
		}
		if cur.closed {
			return "dead " + cur.result
		}
		if len(cur.blocks) == 0 {
			return "skip"
		}
		b := cur.blocks[0]
		cur.blocks = cur.blocks[1:]
		k := common.Atoi(f[1])
		if k >= len(b) {
			k = len(b) - 1
		}
		if k < 1 {
			k = 1
		}
		before := cur.frameCount()
		cur.udpc.Write(b[:k])
		time.Sleep(3 * time.Millisecond) // the transport reads the first half
		cur.udpc.Close()
		cur.rcvSend([]byte{0x64, 0x00}) // an (empty) LpPacket towards the closed port
		time.Sleep(3 * time.Millisecond) // ICMP comes back, Read returns the error
		var c *net.UDPConn
		var err error
		for i := 0; i < 50; i++ {
			c, err = net.DialUDP("udp4", &net.UDPAddr{IP: net.IPv4(127, 0, 0, 1), Port: int(cur.pa)},
				&net.UDPAddr{IP: net.IPv4(127, 0, 0, 1), Port: int(cur.pb)})
			if err == nil {
				break
			}
			time.Sleep(2 * time.Millisecond)
		}
		if err != nil {
			cur.closed = true
			return "hang k=0 f=- redial: " + err.Error()
		}
		cur.udpc = c
		c.Write(b[k:])
		// wait for the block: once it is out, the socket error has been consumed by the transport's
		// Read (errors are reported before queued datagrams), so it cannot surface in a later Write
		for i := 0; i < 2000 && cur.frameCount() == before; i++ {
			time.Sleep(time.Millisecond)
		}
		return fmt.Sprintf("k=%d w", len(b))
	case "rd", "rde":
		if cur == nil || len(f) != 2 {
			return "skip"
		}
		r := cur
		if r.isSock {
			return r.sockWrite(f[0], common.Atoi(f[1]))
		}
		if r.offered < 0 {
			return "dead " + r.result
		}
		n := common.Atoi(f[1])
		if n > len(r.pending) {
			n = len(r.pending)
		}
		var rerr error
		if f[0] == "rde" { // the bytes come TOGETHER with an error the ignoreError callback swallows
			if r.kind != "fw" {
				return "skip"
			}
			rerr = errIgnorable
			if n == 0 || r.offered == 0 {
				r.c.data <- readRes{nil, rerr}
				r.waitIdle()
				return fmt.Sprintf("k=0 f=%s", r.take())
			}
		}
		if n == 0 {
			return "skip"
		}
		k := 0
		for k < n && r.offered >= 0 {
			if r.offered == 0 {
				return fmt.Sprintf("stall k=%d f=%s", k, r.take())
			}
			m := n - k
			if m > r.offered {
				m = r.offered
			}
			chunk := r.pending[:m]
			r.pending = r.pending[m:]
			r.c.data <- readRes{chunk, rerr}
			k += m
			r.waitIdle()
			if r.kind == "fw" {
				break // one Read per op: the model knows the free space
			}
		}
		out := fmt.Sprintf("k=%d f=%s", k, r.take())
		if r.hung {
			return "hang " + out
		}
		if r.offered < 0 {
			out += " ret=" + r.result
		}
		return out
	case "eof":
		if cur == nil {
			return "skip"
		}
		r := cur
		if r.isSock {
			return r.sockFinish()
		}
		if r.wc != nil {
			return "nil"
		}
		if r.offered < 0 {
			return "dead " + r.result
		}
		r.stop()
		out := r.result
		if fr := r.take(); fr != "-" {
			out += " f=" + fr
		}
		if r.kind == "app" { // all packets delivered in this history, digested again NOW
			var hs []string
			for _, b := range r.kept {
				hs = append(hs, strconv.Itoa(len(b))+":"+strconv.FormatUint(fnv64(b), 16))
			}
			if len(hs) == 0 {
				hs = []string{"-"}
			}
			out += " h=" + strings.Join(hs, ",")
		}
		return out
	}
	return "bad-op"
}

// ---------------------------------------------------------------- generator

// typeChoices spans the 1-, 3-, 5- and 9-byte forms of T.
var typeChoices = []uint64{5, 6, 100, 0xfc, 0xfd, 0x320, 0xffff, 0x10000, 0xffffffff, 0x100000000}

// lenChoices: boundary value lengths (1-byte L up to 252, 3-byte L from 253; whole block <= 8800).
var lenChoices = []int{0, 1, 2, 3, 17, 250, 251, 252, 253, 254, 255, 256, 257, 1000, 4095, 4096, 4097, 8000, 8700, 8790}

func hdrLen(typ uint64, n int) int {
	return enc.TLNum(typ).EncodingLength() + enc.TLNum(n).EncodingLength()
}

func drawBlock(r *common.Rand, small bool) (uint64, int, int) {
	typ := common.Pick(r, typeChoices)
	if r.Chance(1, 2) {
		typ = common.Pick(r, []uint64{5, 6, 100})
	}
	var n int
	switch {
	case small:
		n = r.Range(0, 40)
		if r.Chance(1, 6) {
			n = common.Pick(r, []int{250, 251, 252, 253, 254, 255, 256})
		}
	case r.Chance(1, 3):
		n = common.Pick(r, lenChoices)
	case r.Chance(1, 3):
		n = r.Range(0, 300)
	default:
		n = r.Range(0, maxPkt)
	}
	// largest value that keeps the whole block within MaxNDNPacketSize
	for n > 0 && hdrLen(typ, n)+n > maxPkt {
		n = maxPkt - hdrLen(typ, n)
	}
	if !small && r.Chance(1, 12) { // exactly the maximum block size
		n = maxPkt - hdrLen(typ, maxPkt)
		for hdrLen(typ, n)+n < maxPkt {
			n++
		}
		for hdrLen(typ, n)+n > maxPkt {
			n--
		}
	}
	seed := r.Range(0, 40)
	return typ, n, seed
}

func gen(g *common.Gen) {
	// consecutive VERIF_SEEDs give splitmix streams shifted by one draw; spread them out
	root := common.NewRand((common.Seed() + 1) * 0xD1342543DE82EF95)
	for i := 0; i < g.N; i++ {
		r := root.Fork()
		kind := "fw"
		if i%4 == 3 {
			kind = "app"
		}
		if i%8 == 2 && (i/8)%16 == 11 {
			acceptedFace = (i/128)%2 == 1 // alternately an outgoing face and a face the real listener accepted
			genBackPressure(g, r, 0)
			continue
		}
		if i%8 == 2 && (i/8)%16 == 5 {
			// a TCP peer that stops reading for a while (> 2 s once per batch) and then resumes
			stall := r.Range(10, 150)
			if i == 42 {
				stall = 2500
			}
			genBackPressure(g, r, stall)
			continue
		}
		if i%8 == 2 && (i/8)%16 == 3 {
			genAppOpen(g, r)
			continue
		}
		if i%8 == 2 && ((i/8)%16 == 9 || (i/8)%16 == 13) {
			genListener(g, r, (i/8)%16 == 9, i == 74)
			continue
		}
		if i%8 == 6 {
			switch (i / 8) % 7 {
			case 2: // datagrams written by a plain socket, real UDP transport receiving
				genSendLeg(g, r, "udp")
				continue
			case 3, 4, 5: // blocks SENT through a real transport and read back by another one
				genSendLeg(g, r, []string{"tcps", "unixs", "udps"}[(i/8)%7-3])
				continue
			case 6: // two goroutines sending on one application-side StreamFace
				genAppSend(g, r)
				continue
			}
		}
		if i%8 == 6 { // the real stream transports' receive loops on a loopback connection
			kind = "tcp"
			if (i/8)%7 == 1 {
				kind = "unix"
			} else if (i/56)%2 == 1 {
				kind = "tcpr" // permanent outgoing TCP face whose connection is aborted now and then
			}
			mtu := common.Pick(r, []int{maxPkt, 1500, 128, 1280, 4000})
			if r.Chance(1, 2) {
				mtu = r.Range(128, maxPkt)
			}
			g.Op("new %s %d", kind, mtu)
		} else {
			g.Op("new %s", kind)
		}
		g.Stat("hist-" + kind)
		// style of the history
		style := i % 8
		if style == 4 && kind == "fw" {
			genAligned(g, r)
			continue
		}
		var total int
		switch {
		case style == 0 && kind == "fw":
			total = r.Range(300_000, 420_000) // far beyond the 281600-byte buffer
			g.Stat("style-long")
		case style == 1:
			total = r.Range(200, 3000) // one byte at a time
			g.Stat("style-bytewise")
		case style == 2:
			total = r.Range(2000, 30000) // chunk borders placed inside T / L
			g.Stat("style-header-cuts")
		default:
			total = r.Range(1000, 60000)
			g.Stat("style-mixed")
		}
		if kind == "tcpr" {
			total = r.Range(40000, 120000)
		}
		small := style == 1 || (style == 2 && r.Chance(1, 2))
		emitted, pendingLens := 0, []int{} // pendingLens: block sizes (hdr, total) not yet read, as a flat byte plan
		pend := 0
		var cuts []int // offsets (relative to pending stream start) just inside headers
		for emitted < total {
			// define a batch of blocks
			nb := r.Range(1, 6)
			huge := style == 0 && kind == "fw" && r.Chance(1, 4)
			if huge {
				nb = r.Range(40, 48) // > 272800 bytes pending: the next Read is bounded by the free space
				g.Stat("batch-beyond-buffer")
			}
			for b := 0; b < nb; b++ {
				typ, n, seed := drawBlock(r, small)
				if huge && n < 7000 {
					n = r.Range(7000, 8700)
				}
				h := hdrLen(typ, n)
				if !huge && r.Chance(1, 4) {
					// T and / or L in a form that is not the shortest one (the quantifier's "1/3/5-byte
					// length forms" of blocks of at most 8800 bytes: a 5-byte L is never the shortest)
					forms := []int{1, 3, 5, 9}
					tf, lf := common.Pick(r, forms), common.Pick(r, forms[:3])
					if r.Chance(1, 3) {
						tf = enc.TLNum(typ).EncodingLength()
					}
					for !formFits(tf, typ) {
						tf += 2
						if tf == 7 {
							tf = 9
						}
					}
					if tf+lf+n > maxPkt {
						n = maxPkt - tf - lf
					}
					for !formFits(lf, uint64(n)) {
						lf += 2
					}
					if tf+lf+n > maxPkt {
						n = maxPkt - tf - lf
					}
					h = tf + lf
					g.Op("blkf %d %d %d %d %d", typ, tf, n, lf, seed)
					g.Stat("blkf")
					g.Stat(fmt.Sprintf("blkf-T%d-L%d", tf, lf))
					if tf != enc.TLNum(typ).EncodingLength() {
						g.Stat("blkf-T-not-shortest")
					}
					if lf != enc.TLNum(n).EncodingLength() {
						g.Stat("blkf-L-not-shortest")
					}
				} else {
					g.Op("blk %d %d %d", typ, n, seed)
					g.Stat("blk")
					switch enc.TLNum(n).EncodingLength() {
					case 1:
						g.Stat("blk-L1")
					case 3:
						g.Stat("blk-L3")
					}
					g.Stat("blk-T" + strconv.Itoa(enc.TLNum(typ).EncodingLength()))
				}
				if h+n == maxPkt {
					g.Stat("blk-maxsize")
				}
				for c := 1; c < h; c++ {
					cuts = append(cuts, pend+c)
				}
				pend += h + n
				emitted += h + n
				pendingLens = append(pendingLens, h+n)
			}
			// read most of what is pending
			leave := 0
			if r.Chance(1, 2) {
				leave = r.Range(0, 20)
			}
			if kind == "tcpr" && r.Chance(3, 4) {
				leave = r.Range(1, 40) // a connection failure mostly finds part of a block received
			}
			pos := 0
			for pend-pos > leave {
				var n int
				switch {
				case style == 1:
					n = 1
				case style == 2 && len(cuts) > 0 && r.Chance(3, 4):
					// next cut strictly after pos
					n = 0
					for _, c := range cuts {
						if c > pos {
							n = c - pos
							break
						}
					}
					if n == 0 {
						n = pend - pos
					}
				case style == 0:
					switch r.Intn(4) {
					case 0:
						n = r.Range(1, 100)
					case 1:
						n = r.Range(1000, 9000)
					case 2:
						n = r.Range(8000, 70000)
					default:
						n = 1 << 20 // more than the buffer can ever offer
					}
				default:
					switch r.Intn(5) {
					case 0:
						n = 1
					case 1:
						n = r.Range(1, 10)
					case 2:
						n = r.Range(1, 300)
					case 3:
						n = r.Range(1, 9000)
					default:
						n = r.Range(1, 40000)
					}
				}
				if n > pend-pos {
					n = pend - pos
				}
				if kind == "tcpr" && n > pend-pos-leave {
					n = pend - pos - leave // stop <leave> bytes short of the end of the last block
				}
				if kind == "fw" && r.Chance(1, 40) {
					g.Op("rde 0") // an ignorable error alone
					g.Stat("rde-0")
				}
				if kind == "fw" && r.Chance(1, 10) {
					g.Op("rde %d", n) // the bytes together with an ignorable error
					g.Stat("rde")
				} else {
					g.Op("rd %d", n)
				}
				g.Stat("rd")
				if n == 1 {
					g.Stat("rd-1byte")
				}
				pos += n
			}
			// rebase the plan
			pend -= pos
			nc := cuts[:0]
			for _, c := range cuts {
				if c > pos {
					nc = append(nc, c-pos)
				}
			}
			cuts = nc
			if kind == "tcpr" && r.Chance(2, 3) {
				// the connection fails (RST), mostly with part of a block received; the permanent face
				// reconnects and the stream starts afresh on the new connection
				g.Op("rst")
				if pend > 0 {
					g.Stat("rst-mid-block")
				} else {
					g.Stat("rst-at-boundary")
				}
				pend, cuts = 0, cuts[:0]
			}
		}
		// drain and finish
		for k := 0; k < 3; k++ { // bounded reads may have left more than the plan thinks
			g.Op("rd %d", 1<<20)
			g.Stat("rd")
		}
		if r.Chance(1, 8) { // sometimes the stream ends inside a block
			typ, n, seed := drawBlock(r, small)
			g.Op("blk %d %d %d", typ, n+1, seed)
			g.Op("rd %d", r.Range(1, hdrLen(typ, n+1)+n))
			g.Stat("eof-inside-block")
		}
		g.Op("eof")
		_ = pendingLens
	}
}

// genSendLeg: blocks are handed one by one to the sendFrame of a real stream transport (MTU mostly
// the default 8800, sometimes lower) and read back through the real receive loop of a second
// transport; sizes include MTU-1, MTU, MTU+1 (a block larger than the MTU is legitimately dropped by
// the sending transport), tiny blocks, the 252/253/257 length-form boundaries and random sizes.
func genSendLeg(g *common.Gen, r *common.Rand, kind string) {
	mtu := maxPkt
	if r.Chance(1, 3) {
		mtu = common.Pick(r, []int{128, 260, 1280, 1500, 4000, 8799})
		if r.Chance(1, 2) {
			mtu = r.Range(128, maxPkt)
		}
	}
	// the receiving side's own (send) MTU: the default, or LOWER than the sender's — an asymmetric
	// link, e.g. after faces/update Mtu on one side; it must not matter for what is received
	rmtu := maxPkt
	if r.Chance(1, 2) {
		rmtu = r.Range(128, mtu)
		g.Stat("asymmetric-mtu")
	}
	if kind == "udp" { // receive leg only: the sender is a plain socket (no sending MTU)
		g.Op("new %s %d", kind, rmtu)
		mtu = maxPkt
	} else {
		g.Op("new %s %d %d", kind, mtu, rmtu)
	}
	g.Stat("hist-" + kind)
	g.Stat("style-send-leg")
	n := r.Range(12, 40)
	for j := 0; j < n; j++ {
		var size int
		switch r.Intn(8) {
		case 0:
			size = mtu
			g.Stat("sf-size-eq-mtu")
		case 1:
			size = mtu - 1
		case 2:
			size = mtu + 1
		case 3:
			size = common.Pick(r, []int{2, 3, 254, 257, 258, maxPkt})
		case 4:
			size = r.Range(2, 300)
		default:
			size = r.Range(2, maxPkt)
		}
		for !sizeOk(size) {
			size--
			if size < 2 {
				size = 2
			}
		}
		sizedBlock(g, r, size)
		if r.Chance(1, 4) && j+1 < n { // two blocks queued before they are sent
			sizedBlock(g, r, r.Range(2, 200))
			g.Op("sf")
			g.Stat("sf")
			j++
		}
		if kind == "udp" && r.Chance(1, 4) {
			// two datagrams with an ICMP "connection refused" on the receiving socket in between
			g.Op("sfr %d", common.Pick(r, []int{1, 2, 3, 4, r.Range(1, size), size - 1}))
			g.Stat("sfr")
			continue
		}
		g.Op("sf")
		g.Stat("sf")
	}
	g.Op("eof")
}

// genBackPressure: many mostly large blocks through a real TCP transport whose peer does not read
// for <stall> ms (the queue fills after a few blocks, the rest waits in Write) and then reads all.
var acceptedFace bool

func genBackPressure(g *common.Gen, r *common.Rand, stall int) {
	if stall == 0 && acceptedFace {
		// the same with a face the real TCP listener accepted
		g.Op("new tcpa %d 0", maxPkt)
		g.Stat("hist-tcpa")
	} else if stall == 0 {
		// the sending face is closed right after its last block while the peer still lags behind
		g.Op("new tcpo %d 0", maxPkt)
		g.Stat("hist-tcpo")
	} else {
		g.Op("new tcpb %d %d", maxPkt, stall)
		g.Stat("hist-tcpb")
	}
	g.Stat("style-send-leg")
	if stall >= 2000 {
		g.Stat("tcpb-stall-over-2s")
	}
	n := r.Range(30, 60)
	for j := 0; j < n; j++ {
		size := r.Range(3000, maxPkt)
		if r.Chance(1, 5) {
			size = r.Range(2, 300)
		}
		for !sizeOk(size) {
			size--
		}
		sizedBlock(g, r, size)
		g.Op("sf")
		g.Stat("sf")
	}
	g.Op("eof")
}

// genListener: Interests through a face made by the real TCP listener (stream cut into arbitrary reads;
// once per batch the connection gets older than the configured TCP face lifetime of 1 s in the middle
// of the stream) or by the real WebSocket listener handler (one binary message per block, sizes on both
// sides of the connection's 4096-byte read buffer).
func genListener(g *common.Gen, r *common.Rand, tcp bool, old bool) {
	kind := "ws"
	if tcp {
		kind = "tcp"
		g.Op("new lis tcp 1")
	} else {
		g.Op("new lis ws 0")
	}
	g.Stat("hist-lis-" + kind)
	n := r.Range(10, 24)
	for j := 0; j < n; j++ {
		size := common.Pick(r, []int{0, 1, 100, 230, 240, 1000, 4000, 4070, 4080, 4090, 4100, 4200, 5000, 6500, 8000, 8700})
		if r.Chance(1, 3) {
			size = r.Range(0, 8700)
		}
		if !tcp && j < n-2 && (j == n/3 || r.Chance(1, 8)) {
			// a WebSocket message beyond the NDN packet size limit: dropped, the messages after it still arrive
			size = common.Pick(r, []int{8790, 8800, 8900, 9000, 20000, 70000})
			g.Stat("ws-message-oversize")
		}
		g.Op("blk 8 %d %d", size, r.Range(0, 40))
		g.Stat("blk")
		if !tcp {
			g.Op("sf")
			g.Stat("sf")
			continue
		}
		if old && j == n/2 {
			g.Op("rd %d", r.Range(1, 20)) // the connection grows old in the middle of a block
			g.Op("pause 1150")
			g.Stat("lis-connection-older-than-lifetime")
		}
		for k := r.Range(1, 3); k > 0; k-- {
			g.Op("rd %d", common.Pick(r, []int{1, 7, 100, 3000, 1 << 20}))
		}
	}
	if tcp {
		g.Op("rd %d", 1<<20)
	}
	g.Op("eof")
}

// genAppOpen: an application face that dials its own connection; between stretches of the stream the
// application closes the face from under a running callback and opens it again at once.
func genAppOpen(g *common.Gen, r *common.Rand) {
	g.Op("new appo")
	g.Stat("hist-appo")
	for k := r.Range(2, 4); k > 0; k-- {
		for j := r.Range(1, 6); j > 0; j-- {
			typ, n, seed := drawBlock(r, r.Chance(1, 2))
			g.Op("blk %d %d %d", typ, n, seed)
			g.Stat("blk")
			for c := r.Range(0, 2); c > 0; c-- {
				g.Op("rd %d", common.Pick(r, []int{1, 2, 5, 100, 700, 5000}))
			}
		}
		g.Op("rd %d", 1<<20)
		if k > 1 {
			typ, n, seed := drawBlock(r, true)
			g.Op("reopen %d %d %d", typ, n, seed)
			g.Stat("reopen")
		}
	}
	g.Op("eof")
}

// genAppSend: pairs of blocks sent concurrently on one StreamFace, as Wires of 1..4 buffers.
func genAppSend(g *common.Gen, r *common.Rand) {
	g.Op("new appsend")
	g.Stat("hist-appsend")
	for k := r.Range(4, 12); k > 0; k-- {
		for j := 0; j < 2; j++ {
			s := r.Range(2, 600)
			if r.Chance(1, 4) {
				s = r.Range(2, maxPkt)
			}
			for !sizeOk(s) {
				s--
			}
			sizedBlock(g, r, s)
		}
		g.Op("cs %d %d", r.Range(1, 4), common.Pick(r, []int{1, 1, 1, 2, 3}))
		g.Stat("cs")
		if r.Chance(1, 3) {
			sizedBlock(g, r, r.Range(2, 900))
			g.Op("rs %d", r.Range(1, 4))
			g.Stat("rs")
		}
	}
	g.Op("eof")
}

// bufCap is the size of readTlvStream's receive buffer; it only steers the generator (the model
// takes the real value from the regenerated constants).
const bufCap = 32 * maxPkt

// sizedBlock emits a block of exactly `size` bytes (type 6; sizes 255 and 256 do not exist).
func sizedBlock(g *common.Gen, r *common.Rand, size int) {
	n := size - 2
	if size >= 257 {
		n = size - 4
	}
	g.Op("blk 6 %d %d", n, r.Range(0, 40))
	g.Stat("blk")
	if size == maxPkt {
		g.Stat("blk-maxsize")
	}
}

func sizeOk(s int) bool { return s >= 2 && s <= maxPkt && s != 255 && s != 256 }

// genAligned: BLOCK-ALIGNED chunkings — every read returns k whole blocks, so after every read the
// buffer is completely consumed.  Variants: (a) 32 maximum-size blocks = exactly the buffer capacity,
// (b) mixed sizes steered so that the bytes read since the buffer was last non-empty add up to
// exactly the capacity, (c) long aligned streams far beyond the capacity.  Each continues with
// more aligned reads afterwards, so anything lost after the critical point is noticed.
func genAligned(g *common.Gen, r *common.Rand) {
	variant := r.Intn(3)
	g.Stat("style-aligned-" + []string{"cap-maxblocks", "cap-mixed", "long"}[variant])
	off := 0 // bytes in the buffer in front of the next read if nothing were ever rewound
	group := func(sizes []int) {
		sum := 0
		for _, s := range sizes {
			sizedBlock(g, r, s)
			sum += s
		}
		g.Op("rd %d", sum)
		g.Stat("rd")
		g.Stat("rd-aligned")
		off += sum
	}
	randSize := func() int {
		for {
			var s int
			switch r.Intn(4) {
			case 0:
				s = r.Range(2, 60)
			case 1:
				s = r.Range(2, 600)
			case 2:
				s = maxPkt
			default:
				s = r.Range(2, maxPkt)
			}
			if sizeOk(s) {
				return s
			}
		}
	}
	if variant != 0 && r.Chance(1, 2) {
		// first some traffic with reads ending inside blocks (the buffer is rewound at an arbitrary point)
		for k := r.Range(1, 6); k > 0; k-- {
			s := randSize()
			sizedBlock(g, r, s)
			f := r.Range(1, s)
			g.Op("rd %d", f)
			g.Op("rd %d", s)
			g.StatN("rd", 2)
			if f < s {
				off = s // rewound with f unread bytes in front, then the rest of the block arrived
			} else {
				off += s
			}
		}
	}
	switch variant {
	case 0:
		per := common.Pick(r, []int{1, 1, 2, 4, 8})
		for left := 32; left > 0; {
			k := per
			if k > left {
				k = left
			}
			sizes := make([]int, k)
			for j := range sizes {
				sizes[j] = maxPkt
			}
			group(sizes)
			left -= k
		}
	case 1:
		for bufCap-off > 4*maxPkt {
			k := r.Range(1, 4)
			sizes := make([]int, k)
			for j := range sizes {
				sizes[j] = randSize()
			}
			group(sizes)
		}
		// finish exactly at the capacity
		for rem := bufCap - off; rem > 0; rem = bufCap - off {
			if sizeOk(rem) && r.Chance(1, 2) {
				group([]int{rem})
				continue
			}
			s := randSize()
			for s > rem || (rem-s != 0 && !sizeOk(rem-s) && rem-s < 300) {
				s = r.Range(2, 254)
				if rem < 600 && sizeOk(rem) {
					s = rem
				}
			}
			group([]int{s})
		}
		g.Stat("aligned-total-equals-capacity")
	default:
		total := r.Range(300_000, 600_000)
		for off < total {
			k := r.Range(1, 5)
			sizes := make([]int, k)
			for j := range sizes {
				sizes[j] = randSize()
			}
			group(sizes)
		}
	}
	// traffic after the critical point
	for k := r.Range(5, 15); k > 0; k-- {
		group([]int{randSize()})
	}
	g.Op("rd %d", 1<<20)
	g.Op("eof")
}

func TestVerif(t *testing.T) {
	common.Main(t, gen, exec)
	if cur != nil {
		cur.stop()
		cur = nil
	}
}
