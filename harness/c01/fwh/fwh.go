// Package fwh: the shared correspondence harness of C01 / C02 / C09.
//
// It drives the REAL forwarding thread (fw.Thread: processIncomingInterest / processIncomingData,
// both strategies, the real PIT-CS tree, dead nonce list, FIB and network region table) inside one
// testing/synctest bubble (go1.26), so that time.Now / AfterFunc / Ticker run on a deterministic
// virtual clock without any source change.  Fake faces implementing dispatch.Face are registered
// in dispatch.FaceDispatch and record every SendPacket (face id, packet bytes re-parsed: name, hop
// limit, content; attached PIT token).
//
// Line protocol (see design/C01.md):
//
//	new <admit> <serve> <cap> <dnl ms> <fib alg> [ls [<n>]]  => ok
//	     "ls <n>" (n = 2..4) = multi-thread mode: n real fw.Threads registered in dispatch.FWDispatch /
//	     fw.Threads; the REAL link-service dispatch decides which thread(s) get a packet (name hash for
//	     Interests, thread id of a 6-byte token / all prefix threads / exact-name thread for Data). The
//	     I / D outputs then end in " | th=<Hash%n> ph=<PrefixHash[i]%n, i=0..len>" (the name hashes are
//	     an oracle for the model's dispatch rule); counters are summed over the threads.
//	     "ls" = ingress through the REAL link service: every Interest/Data is encoded as an NDNLPv2
//	     frame (bare packet when it carries neither PIT token nor NextHopFaceId) and handed to a real
//	     NDNLPLinkService over an in-memory transport of the face's scope (fw/face verif hooks of C10),
//	     whose dispatchInterest / dispatchData queue it into the thread; without "ls" the harness
//	     builds defn.Pkt itself.  Outgoing packets are recorded by the fake faces in both modes.
//	face <id> <L|N|tcp4:ADDR|tcp6:ADDR> <p2p|multi|adhoc>    => ok
//	     tcp4:/tcp6: = the scope of the face is whatever the REAL unicast TCP transport, constructed
//	     for that remote address by face.MakeUnicastTCPTransport (no socket is opened), says; in ls
//	     mode that transport object is also the transport of the ingress link service; the answer is
//	     "scope=U" instead of "ok" when that scope is neither Local nor NonLocal
//	dynface <slot> <L|N> <p2p|multi|adhoc> | dynclose <slot>  => ok
//	     a face whose id is handed out by the REAL face table: a real link service is registered with
//	     face.FaceTable.Add (dynclose: FaceTable.Remove); <slot> (a number >= 900) names it in later
//	     ops and in the output - the harness translates slot <-> real id (newest slot of an id wins), so
//	     an id handed out twice shows as packets for a closed face appearing on another one
//	faces2 <K>                                               => ok | clash rounds=<n> accepted=<m>
//	     K rounds: a Local and a NonLocal real link service (in-memory transports) are registered
//	     CONCURRENTLY through the real face table (face.FaceTable.Add, goroutines released together).
//	     Each must get its own id, and dispatch.GetFace(id) - where the forwarder looks up the scope of
//	     an arrival - must be that very face. In a round where this fails ("clash") a /localhost
//	     Interest is injected into the NON-local one: accepted = it was not rejected (PIT grew).
//	scope <tcp4|tcp6|tcpa|udp4|udp6|unix> <ADDR>             => L | N | U | err
//	     scope classification by the real transport constructors: tcp4/tcp6 MakeUnicastTCPTransport;
//	     tcpa AcceptUnicastTCPTransport over a real loopback connection; udp4/udp6
//	     MakeUnicastUDPTransport (loopback addresses only: it connects a socket); unix
//	     MakeUnixStreamTransport over a socketpair.  err = the constructor refused / no socket
//	rmface <id>                                              => ok
//	fib <name> <face> <cost> | unfib <name> <face> | clrfib <name>   => ok
//	strat <name> <best|multi> | unstrat <name>               => ok
//	region <name>                                            => ok
//	csconf <admit> <serve> | cap <n>                         => ok
//	adv <ns>                                                 => pit=<n> cs=<n>
//	I <face> <name> <cbp> <mbf> <nonce|-> <hop|-> <life ms|-> <tok hex|-> <nh|-> <hints,|->
//	D <face> <name> <fresh ms|-> <content> <tok: - | T<k> | @<name> | hex>
//	     => <sends sorted, " ; "-separated> | oi=<n> od=<n> si=<n> pit=<n> cs=<n>
//	send:  I><face> <name> h=<hop|-> t=<T<k>|hex|->      D><face> <name> c=<content> t=<hex|->
//
// Upstream PIT tokens (6 bytes, thread id 0 + random 32 bit value) are renamed T0, T1, ... by first
// appearance. "@<name>" on a Data op refers to the token most recently attached to an Interest
// with exactly that name; an unknown reference yields "skip".
package fwh

import (
	"bufio"
	"encoding/binary"
	"fmt"
	"net"
	"net/http"
	"os"
	"reflect"
	"runtime"
	"sort"
	"strconv"
	"strings"
	"sync"
	"syscall"
	"testing"
	"testing/synctest"
	"time"

	"github.com/gorilla/websocket"
	"github.com/named-data/ndnd/fw/core"
	"github.com/named-data/ndnd/fw/defn"
	"github.com/named-data/ndnd/fw/dispatch"
	"github.com/named-data/ndnd/fw/face"
	"github.com/named-data/ndnd/fw/fw"
	"github.com/named-data/ndnd/fw/table"
	enc "github.com/named-data/ndnd/std/encoding"
	"github.com/named-data/ndnd/std/ndn"
	spec "github.com/named-data/ndnd/std/ndn/spec_2022"
	"github.com/named-data/ndnd/std/utils"
	"verif/harness/common"
)

// ---------------------------------------------------------------- fake face

type send struct {
	face  uint64
	raw   []byte
	token []byte // copy taken inside SendPacket
	ref   []byte // the very slice handed over in OutPkt.PitToken (NOT copied): the real link service
	//              only enqueues the OutPkt and serialises the token later, in the face's send goroutine
}

type fakeFace struct {
	id    uint64
	scope defn.Scope
	link  defn.LinkType
}

var sends []send
var sendsMu sync.Mutex // several forwarding threads may send at the same virtual instant

func (f *fakeFace) String() string          { return "fake-" + strconv.FormatUint(f.id, 10) }
func (f *fakeFace) SetFaceID(id uint64)     { f.id = id }
func (f *fakeFace) FaceID() uint64          { return f.id }
func (f *fakeFace) LocalURI() *defn.URI     { return nil }
func (f *fakeFace) RemoteURI() *defn.URI    { return nil }
func (f *fakeFace) Scope() defn.Scope       { return f.scope }
func (f *fakeFace) LinkType() defn.LinkType { return f.link }
func (f *fakeFace) MTU() int                { return 8800 }
func (f *fakeFace) State() defn.State       { return defn.Up }
func (f *fakeFace) SendPacket(out dispatch.OutPkt) {
	raw := append([]byte{}, out.Pkt.Raw...)
	tok := append([]byte{}, out.PitToken...)
	sendsMu.Lock()
	sends = append(sends, send{face: f.id, raw: raw, token: tok, ref: out.PitToken})
	sendsMu.Unlock()
}

// ---------------------------------------------------------------- state of one history

var (
	th       *fw.Thread        // thread 0
	threads  []*fw.Thread      // all forwarding threads (one unless multi-thread mode)
	labels   map[uint64]int    // real token (thread id << 32 | 32-bit value) -> label
	labelVal []uint64          // label -> real token
	lastTok  map[string]int    // name text -> label most recently sent upstream for that name
	lastRef  map[string][]byte // name text -> the token slice handed over with that Interest (read lazily)
	logInit  bool
	hashSeen map[uint64]string // A-hash check: name hash -> name text
	lsMode   bool
	slotID   map[uint64]uint64 // slot (>= 900) -> id handed out by the real face table
	idSlot   map[uint64]uint64 // real id -> newest slot
	lsSeq    uint64            // NDNLPv2 sequence numbers of fragmented ingress
	lsFaces  map[uint64]*face.NDNLPLinkService
)

// inject hands one packet to the real link service of face id (ls mode); false if there is none.
// realID translates a face number of the protocol into the id known to the forwarder.
func realID(x uint64) uint64 {
	if x >= 900 {
		if id, ok := slotID[x]; ok {
			return id
		}
		return x + 1000000 // a slot that was never opened: no such face
	}
	return x
}

// shownID is the inverse for the output.
func shownID(id uint64) uint64 {
	if s, ok := idSlot[id]; ok {
		return s
	}
	return id
}

// encodeLp encodes one NDNLPv2 frame.
func encodeLp(lp *spec.LpPacket) []byte {
	pkt := &spec.Packet{LpPacket: lp}
	e := spec.PacketEncoder{}
	e.Init(pkt)
	w := e.Encode(pkt)
	if w == nil {
		panic("harness: cannot encode LpPacket")
	}
	return w.Join()
}

func inject(id uint64, wire []byte, tok []byte, nh *uint64, pieces int) bool {
	l, ok := lsFaces[id]
	if !lsMode || !ok {
		return false
	}
	hdr := func(lp *spec.LpPacket) {
		if len(tok) > 0 {
			lp.PitToken = append([]byte{}, tok...)
		}
		if nh != nil {
			lp.NextHopFaceId = utils.IdPtr(*nh)
		}
	}
	if pieces > 1 && len(wire) >= pieces {
		// the packet arrives split over several NDNLPv2 fragments and is reassembled by the real link service
		base := lsSeq
		lsSeq += uint64(pieces)
		sz := (len(wire) + pieces - 1) / pieces
		for k := 0; k < pieces; k++ {
			lo, hi := k*sz, (k+1)*sz
			if hi > len(wire) {
				hi = len(wire)
			}
			lp := &spec.LpPacket{Fragment: enc.Wire{append([]byte{}, wire[lo:hi]...)},
				Sequence: utils.IdPtr(base + uint64(k)), FragIndex: utils.IdPtr(uint64(k)), FragCount: utils.IdPtr(uint64(pieces))}
			hdr(lp)
			face.VerifHandleIncomingFrame(l, encodeLp(lp))
		}
		return true
	}
	frame := wire
	if len(tok) > 0 || nh != nil {
		lp := &spec.LpPacket{Fragment: enc.Wire{wire}}
		hdr(lp)
		frame = encodeLp(lp)
	}
	face.VerifHandleIncomingFrame(l, frame)
	return true
}

func stopThread() {
	if th == nil {
		return
	}
	core.ShouldQuit = true
	time.Sleep(200 * time.Millisecond)
	for _, t := range threads {
		<-t.HasQuit
	}
	core.ShouldQuit = false
	th = nil
	threads = nil
}

func resetRegions() {
	v := reflect.ValueOf(table.NetworkRegion).Elem()
	v.Set(reflect.Zero(v.Type()))
}

func b01(s string) bool { return s == "1" }

func newHistory(f []string) string {
	stopThread()
	dispatch.FaceDispatch.Range(func(k, _ any) bool { dispatch.FaceDispatch.Delete(k); return true })
	resetRegions()
	cfg := core.DefaultConfig()
	cfg.Core.LogLevel = "FATAL"
	nThreads := 1
	if len(f) == 8 {
		nThreads = common.Atoi(f[7])
		if f[6] != "ls" || nThreads < 1 || nThreads > 8 {
			return "bad-op"
		}
	}
	cfg.Fw.Threads = nThreads
	cfg.Tables.ContentStore.Admit = b01(f[1])
	cfg.Tables.ContentStore.Serve = b01(f[2])
	cfg.Tables.ContentStore.Capacity = uint16(common.Atoi(f[3]))
	cfg.Tables.DeadNonceList.Lifetime = common.Atoi(f[4])
	// "hashtable:<m>": the hash-table FIB with virtual depth m (the default 5 is deeper than every name
	// of these histories, which would leave its virtual-node machinery idle)
	alg := f[5]
	if strings.HasPrefix(alg, "hashtable:") {
		cfg.Tables.Fib.Hashtable.M = uint16(common.Atoi(alg[len("hashtable:"):]))
		alg = "hashtable"
	}
	cfg.Tables.Fib.Algorithm = alg
	core.LoadConfig(cfg, "/")
	if !logInit {
		core.InitializeLogger("/dev/null")
		logInit = true
	}
	table.Configure()
	table.CreateFIBTable(alg)
	fw.Configure()
	threads = nil
	disp := []dispatch.FWThread{}
	for k := 0; k < nThreads; k++ {
		t := fw.NewThread(k)
		threads = append(threads, t)
		disp = append(disp, t)
	}
	th = threads[0]
	fw.Threads = threads
	dispatch.InitializeFWThreads(disp)
	lsMode = len(f) >= 7 && f[6] == "ls"
	lsFaces = map[uint64]*face.NDNLPLinkService{}
	for _, t := range threads {
		go t.Run()
	}
	synctest.Wait()
	labels = map[uint64]int{}
	labelVal = nil
	lastTok = map[string]int{}
	lastRef = map[string][]byte{}
	for _, id := range slotID {
		face.FaceTable.Remove(id)
	}
	slotID = map[uint64]uint64{}
	idSlot = map[uint64]uint64{}
	hashSeen = map[uint64]string{}
	sends = nil
	return "ok"
}

// checkHash verifies assumption A-hash on the names of this run: distinct names have hashes that
// differ by more than 2^32 (the dead nonce list keys entries by hash(name)+nonce).
func checkHash(n enc.Name) {
	t := common.NameText(n)
	h := n.Hash()
	for k, v := range hashSeen {
		if v != t {
			d := h - k
			if k > h {
				d = k - h
			}
			if d <= 1<<32 {
				panic("A-hash violated: " + t + " vs " + v)
			}
		}
	}
	hashSeen[h] = t
}

func optU(s string) (uint64, bool) {
	if s == "-" {
		return 0, false
	}
	return common.Atou(s), true
}

func counters() string {
	var oi, od, si uint64
	pit, cs := 0, 0
	for _, t := range threads {
		oi += t.NOutInterests
		od += t.NOutData
		si += t.NSatisfiedInterests
		pit += t.GetNumPitEntries()
		cs += t.GetNumCsEntries()
	}
	return fmt.Sprintf("oi=%d od=%d si=%d pit=%d cs=%d", oi, od, si, pit, cs)
}

// hashOracle is the name-hash information the model's dispatch rule needs in multi-thread mode.
func hashOracle(n enc.Name) string {
	if len(threads) <= 1 {
		return ""
	}
	k := uint64(len(threads))
	ph := n.PrefixHash()
	parts := make([]string, len(ph))
	for i, h := range ph {
		parts[i] = strconv.FormatUint(h%k, 10)
	}
	return fmt.Sprintf(" | th=%d ph=%s", n.Hash()%k, strings.Join(parts, ","))
}

// render formats and clears the recorded sends.
func render() string {
	out := make([]string, 0, len(sends))
	for _, s := range sends {
		p, _, err := spec.ReadPacket(enc.NewBufferReader(s.raw))
		if err != nil {
			out = append(out, fmt.Sprintf("?>%d unparsable", s.face))
			continue
		}
		if p.Interest != nil {
			hop := "-"
			if p.Interest.HopLimitV != nil {
				hop = strconv.Itoa(int(*p.Interest.HopLimitV))
			}
			tok := common.Hex(s.token)
			if len(s.token) == 6 && int(binary.BigEndian.Uint16(s.token)) < len(threads) {
				v := uint64(binary.BigEndian.Uint16(s.token))<<32 | uint64(binary.BigEndian.Uint32(s.token[2:]))
				l, ok := labels[v]
				if !ok {
					l = len(labelVal)
					labels[v] = l
					labelVal = append(labelVal, v)
				}
				tok = "T" + strconv.Itoa(l)
				lastTok[common.NameText(p.Interest.NameV)] = l
				lastRef[common.NameText(p.Interest.NameV)] = s.ref
			}
			out = append(out, fmt.Sprintf("I>%d %s h=%s t=%s", shownID(s.face), common.NameText(p.Interest.NameV), hop, tok))
		} else if p.Data != nil {
			c := 0
			if b := p.Data.ContentV.Join(); len(b) > 0 {
				c = int(b[0])
			}
			out = append(out, fmt.Sprintf("D>%d %s c=%d t=%s", shownID(s.face), common.NameText(p.Data.NameV), c, common.Hex(s.token)))
		} else {
			out = append(out, fmt.Sprintf("?>%d other", s.face))
		}
		// every further top-level Interest / Data TLV that travels in the same transmission is a packet
		// transmitted on that face as well
		for _, x := range extraPackets(s.raw) {
			out = append(out, fmt.Sprintf("%s>%d %s %s t=trailing", x.kind, shownID(s.face), x.name, x.attr))
		}
	}
	sends = nil
	sort.Strings(out)
	return strings.Join(out, " ; ")
}

type extraPkt struct{ kind, name, attr string }

// extraPackets: the well-formed Interest / Data TLVs that FOLLOW the first top-level TLV of a transmission.
func extraPackets(raw []byte) []extraPkt {
	var out []extraPkt
	first := true
	for len(raw) > 0 {
		typ, n1 := enc.ParseTLNum(raw)
		if n1 <= 0 || n1 >= len(raw) {
			break
		}
		l, n2 := enc.ParseTLNum(raw[n1:])
		if n2 <= 0 || n1+n2+int(l) > len(raw) {
			break
		}
		one := raw[:n1+n2+int(l)]
		raw = raw[n1+n2+int(l):]
		if first {
			first = false
			continue
		}
		if typ != 5 && typ != 6 {
			continue
		}
		p, _, err := spec.ReadPacket(enc.NewBufferReader(one))
		if err != nil {
			continue
		}
		if p.Interest != nil {
			out = append(out, extraPkt{"I", common.NameText(p.Interest.NameV), "h=-"})
		} else if p.Data != nil {
			c := 0
			if b := p.Data.ContentV.Join(); len(b) > 0 {
				c = int(b[0])
			}
			out = append(out, extraPkt{"D", common.NameText(p.Data.NameV), "c=" + strconv.Itoa(c)})
		}
	}
	return out
}

// trailing: for op IT — a second packet (Data /localhost/smuggled) appended to the Interest inside ONE frame
var trailing []byte

func doInterest(f []string) string {
	if th == nil {
		return "skip"
	}
	faceID := realID(common.Atou(f[1]))
	name := common.ParseNameText(f[2])
	checkHash(name)
	cfg := &ndn.InterestConfig{CanBePrefix: b01(f[3]), MustBeFresh: b01(f[4])}
	if v, ok := optU(f[5]); ok {
		cfg.Nonce = utils.IdPtr(v)
	}
	if v, ok := optU(f[6]); ok {
		cfg.HopLimit = utils.IdPtr(uint(v))
	}
	if v, ok := optU(f[7]); ok {
		cfg.Lifetime = utils.IdPtr(time.Duration(v) * time.Millisecond)
	}
	if f[10] != "-" {
		for _, h := range strings.Split(f[10], ",") {
			cfg.ForwardingHint = append(cfg.ForwardingHint, common.ParseNameText(h))
		}
	}
	ei, err := spec.Spec{}.MakeInterest(name, cfg, nil, nil)
	if err != nil {
		return "err-make"
	}
	wire := ei.Wire.Join()
	l3, _, err := spec.ReadPacket(enc.NewBufferReader(wire))
	if err != nil || l3.Interest == nil {
		return "err-parse"
	}
	var itok []byte
	if f[8] != "-" {
		itok = common.UnHex(f[8])
	}
	var nh *uint64
	if v, ok := optU(f[9]); ok {
		nh = utils.IdPtr(realID(v))
	}
	// an Interest carrying a HopLimit enters the link service in 2 (even) or 3 (odd) fragments
	pieces := 1
	if cfg.HopLimit != nil {
		pieces = 2 + int(*cfg.HopLimit%2)
	}
	if len(trailing) > 0 {
		if _, ok := lsFaces[faceID]; !lsMode || !ok {
			return "skip" // only a real link service decodes frames
		}
		wire = append(append([]byte{}, wire...), trailing...)
	}
	if !inject(faceID, wire, itok, nh, pieces) && len(threads) == 1 {
		pkt := &defn.Pkt{Name: l3.Interest.NameV, L3: l3, Raw: wire, IncomingFaceID: utils.IdPtr(faceID), PitToken: itok, NextHopFaceID: nh}
		th.QueueInterest(pkt)
	}
	synctest.Wait()
	return render() + " | " + counters() + hashOracle(name)
}

func doData(f []string) string {
	if th == nil {
		return "skip"
	}
	faceID := realID(common.Atou(f[1]))
	name := common.ParseNameText(f[2])
	checkHash(name)
	cfg := &ndn.DataConfig{}
	if v, ok := optU(f[3]); ok {
		cfg.Freshness = utils.IdPtr(time.Duration(v) * time.Millisecond)
	}
	content := []byte{byte(common.Atoi(f[4]))}
	var tok []byte
	switch {
	case f[5] == "-":
	case f[5][0] == 'T' || f[5][0] == '@':
		var l int
		if f[5][0] == 'T' {
			l = common.Atoi(f[5][1:])
			if l < 0 || l >= len(labelVal) {
				return "skip"
			}
		} else {
			var ok bool
			if l, ok = lastTok[f[5][1:]]; !ok {
				return "skip"
			}
		}
		tok = make([]byte, 6)
		binary.BigEndian.PutUint16(tok, uint16(labelVal[l]>>32))
		binary.BigEndian.PutUint32(tok[2:], uint32(labelVal[l]))
		if f[5][0] == '@' {
			/* "@name" = the upstream echoes the token that Interest carried ON THE WIRE. The real link
			   service serialises OutPkt.PitToken some time after SendPacket returned (send queue), so
			   the bytes are read from the handed-over slice only now - the latest possible moment. If
			   the forwarder kept writing into that slice, the echo names another PIT entry. */
			if ref := lastRef[f[5][1:]]; len(ref) == 6 {
				copy(tok, ref)
			}
		}
	default:
		tok = common.UnHex(f[5])
	}
	ed, err := spec.Spec{}.MakeData(name, cfg, enc.Wire{content}, nil)
	if err != nil {
		return "err-make"
	}
	wire := ed.Wire.Join()
	l3, _, err := spec.ReadPacket(enc.NewBufferReader(wire))
	if err != nil || l3.Data == nil {
		return "err-parse"
	}
	pieces := 1
	if content[0]%4 == 0 {
		pieces = 2
	}
	if !inject(faceID, wire, tok, nil, pieces) && len(threads) == 1 {
		pkt := &defn.Pkt{Name: l3.Data.NameV, L3: l3, Raw: wire, IncomingFaceID: utils.IdPtr(faceID), PitToken: tok}
		th.QueueData(pkt)
	}
	synctest.Wait()
	return render() + " | " + counters() + hashOracle(name)
}

var stratName = map[string]string{
	"best":  "/localhost/nfd/strategy/best-route/v=1",
	"multi": "/localhost/nfd/strategy/multicast/v=1",
}

func scopeText(s defn.Scope) string {
	switch s {
	case defn.Local:
		return "L"
	case defn.NonLocal:
		return "N"
	}
	return "U"
}

// tcpTransport constructs the real outgoing unicast TCP transport for a remote address (no socket).
func tcpTransport(kind, addr string) *face.UnicastTCPTransport {
	v := 4
	if kind == "tcp6" {
		v = 6
	}
	t, err := face.MakeUnicastTCPTransport(defn.MakeTCPFaceURI(v, addr, 6363), nil, face.PersistencyPersistent)
	if err != nil || t == nil {
		return nil
	}
	return t
}

// classify runs one real transport constructor and reports the scope it assigned.
func classify(kind, addr string) string {
	switch kind {
	case "tcp4", "tcp6":
		t := tcpTransport(kind, addr)
		if t == nil {
			return "err"
		}
		return scopeText(t.Scope())
	case "tcpa":
		ln, err := net.Listen("tcp", net.JoinHostPort(addr, "0"))
		if err != nil {
			return "err"
		}
		defer ln.Close()
		type res struct {
			c net.Conn
			e error
		}
		ch := make(chan res, 1)
		go func() { c, e := ln.Accept(); ch <- res{c, e} }()
		c, err := net.Dial("tcp", ln.Addr().String())
		if err != nil {
			return "err"
		}
		defer c.Close()
		r := <-ch
		if r.e != nil {
			return "err"
		}
		defer r.c.Close()
		t, err := face.AcceptUnicastTCPTransport(r.c, nil, face.PersistencyOnDemand)
		if err != nil || t == nil {
			return "err"
		}
		return scopeText(t.Scope())
	case "ws", "wsf":
		// a WebSocket face accepted by the real listener handler from a TCP peer with address <addr>;
		// kind wsf: the client's handshake additionally CLAIMS to come from 127.0.0.1 (X-Forwarded-For,
		// X-Real-IP, Forwarded) - only the TCP peer address decides the scope
		return classifyWebSocket(addr, kind == "wsf")
	case "tcpl":
		// a face accepted by the REAL TCP listener from a peer whose address is one of this host's own
		// non-loopback addresses (addr = "host"): not a loopback address, so NonLocal
		return classifyListenerPeer()
	case "udp4", "udp6":
		v := 4
		if kind == "udp6" {
			v = 6
		}
		if ip := net.ParseIP(addr); ip == nil || !ip.IsLoopback() {
			return "err" // never connect a socket to a non-loopback address
		}
		t, err := face.MakeUnicastUDPTransport(defn.MakeUDPFaceURI(v, addr, 6363), nil, face.PersistencyPersistent)
		if err != nil || t == nil {
			return "err"
		}
		defer t.Close()
		return scopeText(t.Scope())
	case "unix":
		fds, err := syscall.Socketpair(syscall.AF_UNIX, syscall.SOCK_STREAM, 0)
		if err != nil {
			return "err"
		}
		f0, f1 := os.NewFile(uintptr(fds[0]), "a"), os.NewFile(uintptr(fds[1]), "b")
		defer f0.Close()
		defer f1.Close()
		c, err := net.FileConn(f0)
		if err != nil {
			return "err"
		}
		defer c.Close()
		t, err := face.MakeUnixStreamTransport(defn.MakeFDFaceURI(fds[0]), defn.MakeUnixFaceURI(addr), c)
		if err != nil || t == nil {
			return "err"
		}
		return scopeText(t.Scope())
	}
	return "bad-op"
}

var idsBurnt bool

// unknownScope: the face just created has a scope that is neither Local nor NonLocal
var unknownScope bool

// burnFaceIDs advances the real face table's id counter beyond the ids of the fake faces (11, 12, ...)
// so that faces registered through FaceTable.Add never replace one of them in dispatch.FaceDispatch.
func burnFaceIDs() {
	if idsBurnt {
		return
	}
	idsBurnt = true
	// bounded: a face table that hands identifiers out again after a removal never gets there; the
	// registrations are then kept instead (identifiers in use cannot be handed out twice)
	var kept []uint64
	for n := 0; n < 3*4096; n++ {
		l := face.MakeNDNLPLinkService(face.VerifNewTransport(8800, defn.Local), face.MakeNDNLPLinkServiceOptions())
		face.FaceTable.Add(l)
		id := l.FaceID()
		if n < 4200 {
			face.FaceTable.Remove(id)
		} else {
			faceIDsReused = true
			kept = append(kept, id)
		}
		if id >= 4096 {
			break
		}
	}
	for _, id := range kept {
		face.FaceTable.Remove(id)
	}
}

// faceIDsReused: the face table handed an identifier out again after the face holding it was removed
// (observed while advancing the counter); reported by the next faces2 operation
var faceIDsReused bool

// concurrentFaces: see "faces2" in the protocol description.
func concurrentFaces(k int) string {
	if faceIDsReused {
		return "face-ids-reused: FaceTable.Add handed out an identifier that an earlier, removed face had (PIT records and routes of the old face now name the new one)"
	}
	clash, accepted := 0, 0
	for r := 0; r < k; r++ {
		ls := [2]*face.NDNLPLinkService{
			face.MakeNDNLPLinkService(face.VerifNewTransport(8800, defn.Local), face.MakeNDNLPLinkServiceOptions()),
			face.MakeNDNLPLinkService(face.VerifNewTransport(8800, defn.NonLocal), face.MakeNDNLPLinkServiceOptions()),
		}
		start := make(chan struct{})
		var wg sync.WaitGroup
		for j := 0; j < 2; j++ {
			wg.Add(1)
			go func(l *face.NDNLPLinkService) {
				defer wg.Done()
				<-start
				face.FaceTable.Add(l)
			}(ls[j])
		}
		close(start)
		wg.Wait()
		bad := ls[0].FaceID() == ls[1].FaceID()
		for j := 0; j < 2; j++ {
			g := dispatch.GetFace(ls[j].FaceID())
			if g == nil || g.Scope() != ls[j].Scope() {
				bad = true
			}
		}
		if bad {
			clash++
			if th != nil {
				// what the property is about: is a /localhost Interest from the non-local face rejected?
				before := 0
				for _, t := range threads {
					before += t.GetNumPitEntries()
				}
				n, _ := enc.NameFromStr("/localhost/verif-probe")
				ei, err := spec.Spec{}.MakeInterest(n, &ndn.InterestConfig{Nonce: utils.IdPtr(uint64(77))}, nil, nil)
				if err == nil {
					face.VerifHandleIncomingFrame(ls[1], ei.Wire.Join())
					synctest.Wait()
					after := 0
					for _, t := range threads {
						after += t.GetNumPitEntries()
					}
					if after != before {
						accepted++
					}
				}
			}
		}
		face.FaceTable.Remove(ls[0].FaceID())
		face.FaceTable.Remove(ls[1].FaceID())
	}
	if clash == 0 {
		return "ok"
	}
	return fmt.Sprintf("clash rounds=%d accepted=%d", clash, accepted)
}

// peerListener hands out connections that report <peer> as their remote address.
type peerListener struct {
	net.Listener
	peer net.Addr
}

type peerConn struct {
	net.Conn
	peer net.Addr
}

func (c peerConn) RemoteAddr() net.Addr { return c.peer }

func (l peerListener) Accept() (net.Conn, error) {
	c, err := l.Listener.Accept()
	if err != nil {
		return nil, err
	}
	return peerConn{c, l.peer}, nil
}

// hostAddr: the first non-loopback IPv4 address of an interface of this host ("" if there is none)
func hostAddr() string {
	as, err := net.InterfaceAddrs()
	if err != nil {
		return ""
	}
	for _, a := range as {
		if n, ok := a.(*net.IPNet); ok {
			if ip := n.IP.To4(); ip != nil && !ip.IsLoopback() && ip.IsGlobalUnicast() {
				return ip.String()
			}
		}
	}
	return ""
}

func classifyListenerPeer() string {
	addr := hostAddr()
	if addr == "" {
		return "err"
	}
	burnFaceIDs()
	probe, err := net.Listen("tcp4", addr+":0")
	if err != nil {
		return "err"
	}
	port := probe.Addr().(*net.TCPAddr).Port
	probe.Close()
	l, err := face.MakeTCPListener(defn.MakeTCPFaceURI(4, addr, uint16(port)))
	if err != nil {
		return "err"
	}
	go l.Run()
	defer l.Close()
	before := map[uint64]bool{}
	for _, f := range face.FaceTable.GetAll() {
		before[f.FaceID()] = true
	}
	d := net.Dialer{LocalAddr: &net.TCPAddr{IP: net.ParseIP(addr)}}
	var c net.Conn
	for i := 0; i < 200000; i++ { // no clock to wait on in the bubble: spin until the listener has bound
		if c, err = d.Dial("tcp4", net.JoinHostPort(addr, strconv.Itoa(port))); err == nil {
			break
		}
		runtime.Gosched()
	}
	if err != nil {
		return "err"
	}
	var got face.LinkService
	for i := 0; i < 2000000 && got == nil; i++ {
		for _, f := range face.FaceTable.GetAll() {
			if !before[f.FaceID()] && f.RemoteURI() != nil && f.RemoteURI().Scheme() == "tcp4" {
				got = f
			}
		}
		if got == nil {
			runtime.Gosched()
		}
	}
	res := "err"
	if got != nil {
		res = scopeText(got.Scope())
	}
	c.Close()
	if got != nil {
		for i := 0; i < 2000000 && face.FaceTable.Get(got.FaceID()) != nil; i++ {
			runtime.Gosched()
		}
	}
	return res
}

func classifyWebSocket(addr string, claimLoopback bool) string {
	ip := net.ParseIP(addr)
	if ip == nil {
		return "bad-op"
	}
	burnFaceIDs()
	l, err := face.NewWebSocketListener(face.WebSocketListenerConfig{Bind: "127.0.0.1", Port: 9696})
	if err != nil {
		return "err"
	}
	inner, err := net.Listen("tcp4", "127.0.0.1:0")
	if err != nil {
		return "err"
	}
	srv := &http.Server{Handler: face.VerifWebSocketHandler(l)}
	served := make(chan struct{})
	go func() {
		srv.Serve(peerListener{inner, &net.TCPAddr{IP: ip, Port: 40000}})
		close(served)
	}()
	defer func() { srv.Close(); <-served }()
	before := map[uint64]bool{}
	for _, f := range face.FaceTable.GetAll() {
		before[f.FaceID()] = true
	}
	hdr := http.Header{}
	if claimLoopback {
		hdr.Set("X-Forwarded-For", "127.0.0.1")
		hdr.Set("X-Real-IP", "127.0.0.1")
		hdr.Set("Forwarded", "for=127.0.0.1")
	}
	c, _, err := websocket.DefaultDialer.Dial("ws://"+inner.Addr().String()+"/", hdr)
	if err != nil {
		return "err"
	}
	// the handler registers the face right after the handshake (no fake time passes: goroutines in
	// network I/O keep the bubble's clock still, so spin instead of sleeping)
	var got face.LinkService
	for i := 0; i < 2000000 && got == nil; i++ {
		for _, f := range face.FaceTable.GetAll() {
			if !before[f.FaceID()] && f.RemoteURI() != nil && f.RemoteURI().Scheme() == "wsclient" {
				got = f
			}
		}
		if got == nil {
			runtime.Gosched()
		}
	}
	res := "err"
	if got != nil {
		res = scopeText(got.Scope())
	}
	c.Close()
	if got != nil {
		for i := 0; i < 2000000 && face.FaceTable.Get(got.FaceID()) != nil; i++ {
			runtime.Gosched()
		}
	}
	return res
}

// Exec runs one operation against the real code.
func Exec(op string) string {
	f := common.Fields(op)
	if f[0] == "new" {
		if len(f) < 6 || len(f) > 8 {
			return "bad-op"
		}
		return newHistory(f)
	}
	if f[0] == "scope" && len(f) == 3 {
		return classify(f[1], f[2])
	}
	if f[0] == "faces2" && len(f) == 2 {
		return concurrentFaces(common.Atoi(f[1]))
	}
	if th == nil {
		return "skip"
	}
	switch f[0] {
	case "face":
		ff := &fakeFace{id: common.Atou(f[1]), scope: defn.NonLocal}
		var realT *face.UnicastTCPTransport
		if f[2] == "L" {
			ff.scope = defn.Local
		} else if strings.HasPrefix(f[2], "tcp4:") || strings.HasPrefix(f[2], "tcp6:") {
			if realT = tcpTransport(f[2][:4], f[2][5:]); realT == nil {
				return "err"
			}
			ff.scope = realT.Scope()
			if ff.scope != defn.Local && ff.scope != defn.NonLocal {
				// registered all the same: the forwarder's guards then see this third value
				unknownScope = true
			}
		}
		switch f[3] {
		case "multi":
			ff.link = defn.MultiAccess
		case "adhoc":
			ff.link = defn.AdHoc
		default:
			ff.link = defn.PointToPoint
		}
		dispatch.AddFace(ff.id, ff)
		if lsMode {
			// the ingress side of the face: real link service over an in-memory transport of that scope
			opts := face.MakeNDNLPLinkServiceOptions()
			opts.IsConsumerControlledForwardingEnabled = true
			var l *face.NDNLPLinkService
			if realT != nil {
				l = face.MakeNDNLPLinkService(realT, opts)
			} else {
				l = face.MakeNDNLPLinkService(face.VerifNewTransport(8800, ff.scope), opts)
			}
			l.SetFaceID(ff.id)
			lsFaces[ff.id] = l
		}
		if unknownScope {
			unknownScope = false
			return "scope=" + scopeText(ff.scope)
		}
		return "ok"
	case "rmface":
		dispatch.RemoveFace(common.Atou(f[1]))
		return "ok"
	case "dynface":
		slot := common.Atou(f[1])
		sc := defn.NonLocal
		if f[2] == "L" {
			sc = defn.Local
		}
		opts := face.MakeNDNLPLinkServiceOptions()
		opts.IsConsumerControlledForwardingEnabled = true
		l := face.MakeNDNLPLinkService(face.VerifNewTransport(8800, sc), opts)
		face.FaceTable.Add(l) // the real face table hands out the id
		id := l.FaceID()
		ff := &fakeFace{id: id, scope: sc}
		switch f[3] {
		case "multi":
			ff.link = defn.MultiAccess
		case "adhoc":
			ff.link = defn.AdHoc
		default:
			ff.link = defn.PointToPoint
		}
		dispatch.AddFace(id, ff) // outgoing packets are recorded by a fake face under that id
		if old, ok := slotID[slot]; ok {
			face.FaceTable.Remove(old)
		}
		slotID[slot] = id
		idSlot[id] = slot
		if lsMode {
			lsFaces[id] = l
		}
		return "ok"
	case "dynclose":
		if id, ok := slotID[common.Atou(f[1])]; ok {
			face.FaceTable.Remove(id) // also removes it from dispatch.FaceDispatch
			delete(lsFaces, id)
		}
		return "ok"
	case "fib":
		table.FibStrategyTable.InsertNextHopEnc(common.ParseNameText(f[1]), realID(common.Atou(f[2])), common.Atou(f[3]))
		return "ok"
	case "unfib":
		table.FibStrategyTable.RemoveNextHopEnc(common.ParseNameText(f[1]), realID(common.Atou(f[2])))
		return "ok"
	case "clrfib":
		table.FibStrategyTable.ClearNextHopsEnc(common.ParseNameText(f[1]))
		return "ok"
	case "strat":
		s, ok := stratName[f[2]]
		if !ok {
			return "bad-op"
		}
		sn, _ := enc.NameFromStr(s)
		table.FibStrategyTable.SetStrategyEnc(common.ParseNameText(f[1]), sn)
		return "ok"
	case "unstrat":
		n := common.ParseNameText(f[1])
		if len(n) == 0 {
			return "ok" // management never unsets the root strategy (F-05b); ignored on both sides
		}
		table.FibStrategyTable.UnSetStrategyEnc(n)
		return "ok"
	case "region":
		table.NetworkRegion.Add(common.ParseNameText(f[1]))
		return "ok"
	case "csconf":
		c := core.GetConfig()
		c.Tables.ContentStore.Admit = b01(f[1])
		c.Tables.ContentStore.Serve = b01(f[2])
		cap := table.CsCapacity()
		table.Configure()
		table.SetCsCapacity(cap)
		return "ok"
	case "cap":
		table.SetCsCapacity(common.Atoi(f[1]))
		return "ok"
	case "adv":
		time.Sleep(time.Duration(common.Atou(f[1])))
		synctest.Wait()
		pit, cs := 0, 0
		for _, t := range threads {
			pit += t.GetNumPitEntries()
			cs += t.GetNumCsEntries()
		}
		return fmt.Sprintf("pit=%d cs=%d", pit, cs)
	case "I":
		if len(f) != 11 {
			return "bad-op"
		}
		return doInterest(f)
	case "IT":
		// the same Interest with a second, complete packet behind it in the SAME frame: Data /localhost/smuggled
		if len(f) != 11 {
			return "bad-op"
		}
		ed, err := spec.Spec{}.MakeData(common.ParseNameText("/8:6c6f63616c686f7374/8:736d7567676c6564"), &ndn.DataConfig{}, enc.Wire{[]byte{77}}, nil)
		if err != nil {
			return "err-make"
		}
		trailing = ed.Wire.Join()
		defer func() { trailing = nil }()
		return doInterest(f)
	case "D":
		if len(f) != 6 {
			return "bad-op"
		}
		return doData(f)
	}
	return "bad-op"
}

// ---------------------------------------------------------------- entry point

// Main is the TestVerif body shared by the c01, c02 and c09 harness packages; gen writes histories.
// exec mode runs the whole op loop inside ONE synctest bubble and leaves the process with os.Exit(0)
// once the trace is flushed: a stopped fw.Thread may leave one goroutine blocked for ever on the
// PIT update channel, which synctest would report as a deadlock when the bubble ends.
func Main(t *testing.T, gen func(g *common.Gen)) {
	if os.Getenv("VERIF_MODE") != "exec" {
		common.Main(t, gen, func(string) string { return "bad-mode" })
		return
	}
	in, err := os.Open(common.Env("VERIF_IN", "/dev/stdin"))
	if err != nil {
		t.Fatal(err)
	}
	out, err := os.Create(common.Env("VERIF_OUT", "/dev/stdout"))
	if err != nil {
		t.Fatal(err)
	}
	w := bufio.NewWriterSize(out, 1<<16)
	synctest.Test(t, func(t *testing.T) {
		burnFaceIDs()
		sc := bufio.NewScanner(in)
		sc.Buffer(make([]byte, 1<<20), 1<<28)
		for sc.Scan() {
			line := sc.Text()
			if line == "" || strings.HasPrefix(line, "#") {
				continue
			}
			if i := strings.Index(line, " => "); i >= 0 {
				line = line[:i]
			}
			w.WriteString("#run " + line + "\n")
			w.Flush()
			res := common.Guard(func() string { return Exec(line) })
			w.WriteString(line + " => " + strings.ReplaceAll(res, "\n", "\\n") + "\n")
			w.Flush()
		}
		w.Flush()
		out.Close()
		os.Exit(0)
	})
}
