package fwh

import (
	"strconv"
	"fmt"
	"strings"

	enc "github.com/named-data/ndnd/std/encoding"
	"verif/harness/common"
)

// Profile biases the shared generator towards the clauses of one property.
type Profile struct {
	ID          string
	Localhost   int // chance (in 100) that a drawn name starts with /localhost
	DataRatio   int // chance (in 100) that a packet op is a Data
	NextHop     int // chance (in 100) that an Interest carries NextHopFaceId
	Hints       int // chance (in 100) of a forwarding hint
	DynShape    int // chance (in 100) of dynShape (faces with ids from the real face table)
	ScopeShape  int // chance (in 100) of scopeShape
	SatShape    int // chance (in 100) of satisfiedShape
	McastShape  int // chance (in 100) of mcastShape
	DnlShape    int // chance (in 100) that a history contains the dead-nonce re-report shape (dnlRereport)
	FibChurn    int // chance (in 100) of a FIB/strategy/face change between packets
	DefaultToNL int // chance (in 100) of a default route towards a non-local face
	LinkSvc     int // chance (in 100) that a history enters through the real link service ("ls")
	RealTCP     int // chance (in 100) that a face takes its scope from a really constructed TCP transport
}

var (
	P01 = Profile{ID: "C01", DnlShape: 4, DynShape: 20, ScopeShape: 15, SatShape: 4, Localhost: 8, DataRatio: 45, NextHop: 3, Hints: 10, FibChurn: 6, DefaultToNL: 30, LinkSvc: 35, RealTCP: 10}
	P02 = Profile{ID: "C02", DnlShape: 20, DynShape: 5, ScopeShape: 4, SatShape: 20, McastShape: 15, Localhost: 6, DataRatio: 25, NextHop: 10, Hints: 20, FibChurn: 15, DefaultToNL: 30, LinkSvc: 35, RealTCP: 10}
	P09 = Profile{ID: "C09", DnlShape: 4, DynShape: 10, ScopeShape: 15, SatShape: 4, Localhost: 45, DataRatio: 40, NextHop: 12, Hints: 8, FibChurn: 8, DefaultToNL: 70, LinkSvc: 50, RealTCP: 35}
)

func comp(s string) enc.Component {
	return enc.NewStringComponent(enc.TypeGenericNameComponent, s)
}

func nm(parts ...string) enc.Name {
	n := enc.Name{}
	for _, p := range parts {
		n = append(n, comp(p))
	}
	return n
}

type genSt struct {
	g       *common.Gen
	r       *common.Rand
	p       Profile
	faces   []int
	local   map[int]bool
	pending []pendI // interests sent so far (to aim Data at them)
	advs    int
}

type pendI struct {
	name enc.Name
	cbp  bool
}

var alphabet = []string{"a", "b", "c"}

// two 96-byte component values that are equal in their first 80 bytes (a hash or key routine that looks
// at a bounded part of a value must still tell them apart)
var longA = strings.Repeat("k", 80) + strings.Repeat("a", 16)
var longB = strings.Repeat("k", 80) + strings.Repeat("b", 16)

// fibCost: mostly small costs; now and then the far ends of the range (a last-resort route at the largest
// cost next to a cost-0 route: differences of 2^63 and more)
func fibCost(r *common.Rand, small []int) string {
	if r.Chance(1, 10) {
		return common.Pick(r, []string{"9223372036854775808", "18446744073709551615", "9223372036854775807"})
	}
	return strconv.Itoa(common.Pick(r, small))
}

type addrT struct {
	kind, addr string
	local      bool
}

var tcpAddrs = []addrT{
	{"tcp4", "127.0.0.1", true}, {"tcp4", "127.8.9.10", true}, {"tcp6", "::1", true},
	{"tcp4", "192.0.2.2", false}, {"tcp4", "10.0.0.1", false}, {"tcp4", "128.0.0.1", false}, {"tcp4", "1.127.0.1", false},
	{"tcp6", "2001:db8::1", false}, {"tcp6", "fe80::1", false}, {"tcp4", "192.0.2.2", false}, {"tcp6", "2001:db8::1", false},
	// IPv6 link-local peers carry their zone in the canonical URI (what the listeners' on-demand faces get)
	{"tcp6", "fe80::1%eth0", false}, {"tcp6", "fe80::2:3%lo", false}, {"tcp6", "fe80::1%eth0", false},
}

var scopeProbes = append(append([]addrT{}, tcpAddrs...),
	addrT{"tcpa", "127.0.0.1", true}, addrT{"udp4", "127.0.0.1", true}, addrT{"udp6", "::1", true},
	addrT{"unix", "/run/nfd/nfd.sock", true}, addrT{"unix", "/tmp/x.sock", true},
	// WebSocket faces accepted by the real listener handler: scope by the TCP peer address, whatever
	// the client's handshake headers claim (wsf)
	addrT{"ws", "127.0.0.1", true}, addrT{"ws", "192.0.2.7", false}, addrT{"ws", "10.1.2.3", false},
	addrT{"wsf", "192.0.2.7", false}, addrT{"wsf", "203.0.113.9", false}, addrT{"wsf", "127.0.0.1", true},
	// a face accepted by the real TCP listener from one of this host's own non-loopback addresses
	addrT{"tcpl", "host", false})

func (s *genSt) name() enc.Name {
	r := s.r
	var n enc.Name
	if r.Intn(100) < s.p.Localhost {
		n = nm("localhost")
		if r.Chance(1, 4) {
			n = append(n, comp("nfd"))
		}
	} else if r.Chance(1, 25) {
		// a first component that merely resembles localhost: other type, or other value
		if r.Chance(1, 2) {
			n = enc.Name{enc.Component{Typ: 32, Val: []byte("localhost")}}
		} else {
			n = nm("localhos")
		}
	} else if r.Chance(1, 12) {
		// the other well-known scoped prefix: to the forwarding pipeline and to the thread dispatch
		// /localhop names are ordinary names
		n = nm("localhop")
		if r.Chance(1, 3) {
			n = append(n, comp("nfd"))
		}
	}
	d := r.Range(0, 3)
	if len(n) == 0 && d == 0 && r.Chance(3, 4) {
		d = 1
	}
	for i := 0; i < d; i++ {
		n = append(n, comp(common.Pick(r, alphabet)))
	}
	if d > 0 && r.Chance(1, 14) {
		n[len(n)-1] = comp(common.Pick(r, []string{longA, longB}))
	}
	if d > 0 && r.Chance(1, 10) {
		// a typed twin of an ordinary name: the same value bytes under another TLV type (keyword, segment, version,
		// and legal types beyond one byte that agree with the generic type 8 in their low byte(s): 264, 520)
		i := len(n) - 1 - r.Intn(d)
		n[i] = enc.Component{Typ: common.Pick(r, []enc.TLNum{32, 50, 54, 264, 520}), Val: n[i].Val}
		s.g.Stat("name-typed-twin")
	}
	return n
}

func (s *genSt) face() int { return common.Pick(s.r, s.faces) }

func (s *genSt) adv() {
	r := s.r
	ms := common.Pick(r, []int{1, 5, 10, 40, 60, 99, 100, 101, 250, 499, 500, 501, 700, 1000, 1500, 4000, 4100, 7000})
	s.advs++
	s.g.Op("adv %d", ms*1000000-1000)
	s.g.Stat("op-adv")
}

func (s *genSt) advMs(ms int) {
	s.advs++
	s.g.Op("adv %d", ms*1000000-1000)
	s.g.Stat("op-adv")
}

/*
dnlRereport plays the timed shape in which a (name, nonce) pair is reported dead twice, leaves the dead
nonce list, is recorded again and must then still be dead (L = dead nonce list lifetime):

	0        I f N n1 life=X      forwarded (out-record n1)
	10 ms    I f N n2             aggregated; reports n1 dead (t0)
	t1≈10+X  PIT entry expires    finalize reports the out-record's nonce n1 again (no-op while listed)
	t0+L     n1 leaves the list
	t2       I f N n1 ; I f N n3  accepted again, forwarded; the retransmission records n1 dead afresh
	t3       I f N n1             t1+L < t3 < t2+L: must be dropped (dead), in every implementation that
	                              keeps one expiry per record
*/
func (s *genSt) dnlRereport(L int) {
	r := s.r
	f := s.face()
	up := s.face()
	for up == f {
		up = s.face()
	}
	n := nm(common.Pick(r, alphabet), "dnl")
	name := common.NameText(n)
	s.g.Op("fib %s %d 0", name, up)
	X := L * 3 / 5
	s.g.Op("I %d %s 0 0 11 - %d - - -", f, name, X)
	s.advMs(10)
	s.g.Op("I %d %s 0 0 12 - %d - - -", f, name, X)
	// past t0+L and one tick, before t1+L
	s.advMs(L + 150)
	s.advMs(100)
	s.g.Op("I %d %s 0 0 11 - %d - - -", f, name, 4*L)
	s.g.Op("I %d %s 0 0 13 - %d - - -", f, name, 4*L)
	// past t1+L (≈ 10+X+100+L) and one tick, before t2+L
	s.advMs(X + 250)
	s.g.Op("I %d %s 0 0 11 - %d - - -", f, name, 4*L)
	s.g.Stat("dnl-rereport-shape")
}

// pickWhere returns a face with the wanted scope (0 if there is none).
func (s *genSt) pickWhere(local bool) int {
	var c []int
	for _, f := range s.faces {
		if s.local[f] == local {
			c = append(c, f)
		}
	}
	if len(c) == 0 {
		return 0
	}
	return common.Pick(s.r, c)
}

/* dynShape: faces whose ids are handed out by the real face table. A downstream face with an Interest
   pending upstream closes, another face is created, then the Data returns: it must go to nobody. */
func (s *genSt) dynShape() {
	r := s.r
	up := s.face()
	n := common.NameText(nm(common.Pick(r, alphabet), "dyn"))
	s.g.Op("dynface 901 %s p2p", common.Pick(r, []string{"L", "N"}))
	s.g.Op("fib %s %d 0", n, up)
	s.g.Op("I 901 %s %d 0 21 - 4000 c1 - -", n, b2i(r.Chance(1, 3)))
	if r.Chance(2, 3) {
		s.g.Op("dynclose 901")
		s.g.Op("dynface 902 %s p2p", common.Pick(r, []string{"L", "N"}))
		s.g.Stat("dyn-close-reopen")
	}
	if r.Chance(1, 2) {
		s.g.Op("D %d %s - 9 @%s", up, n, n)
	} else {
		s.g.Op("D %d %s - 9 -", up, n)
	}
	if r.Chance(1, 2) {
		s.g.Op("I 902 %s 0 0 22 - 4000 c2 - -", n)
		s.g.Op("D %d %s 1000 10 -", up, n)
	}
	s.g.Stat("dyn-shape")
}

/* scopeShape: /localhost Data that satisfies a pending Interest of a NON-local face whose own name is not
   under /localhost: (a) Interest "/" with CanBePrefix, (b) Data echoing the PIT token under another name. */
func (s *genSt) scopeShape() {
	r := s.r
	nl, lo := s.pickWhere(false), s.pickWhere(true)
	if nl == 0 || lo == 0 {
		return
	}
	lh := common.NameText(append(nm("localhost"), comp(common.Pick(r, alphabet))))
	if r.Chance(1, 2) {
		s.g.Op("I %d / 1 %d %d - 4000 %s - -", nl, b2i(r.Chance(1, 4)), r.Range(41, 45), s.tokHex())
		if r.Chance(1, 2) {
			// a second entry under "/" makes it a multi-match
			s.g.Op("I %d / 1 1 %d - 4000 - - -", nl, r.Range(46, 49))
		}
		s.g.Op("D %d %s %s %d -", lo, lh, common.Pick(r, []string{"-", "1000"}), r.Range(1, 250))
		if r.Chance(1, 2) {
			// the cache-hit variant
			s.g.Op("I %d / 1 0 %d - 4000 - - -", nl, r.Range(50, 55))
		}
		s.g.Stat("scope-shape-empty-name")
	} else {
		n := common.NameText(nm(common.Pick(r, alphabet), "sc"))
		s.g.Op("fib %s %d 0", n, lo)
		s.g.Op("I %d %s 0 0 %d - 4000 %s - -", nl, n, r.Range(41, 45), s.tokHex())
		s.g.Op("D %d %s - %d @%s", lo, lh, r.Range(1, 250), n)
		s.g.Stat("scope-shape-token")
	}
}

/* mcastShape: multicast forwarded the Interest on a face that has since left the FIB entry; a retransmission
   with another nonce inside the suppression interval must still be aggregated (the window looks at every
   out-record of the entry, not only at those of the current next hops). */
func (s *genSt) mcastShape() {
	r := s.r
	f, x := s.face(), s.face()
	for x == f {
		x = s.face()
	}
	y := s.face()
	for y == f || y == x {
		y = s.face()
	}
	n := common.NameText(nm(common.Pick(r, alphabet), "mc"))
	s.g.Op("strat %s multi", n)
	s.g.Op("fib %s %d 1", n, x)
	s.g.Op("I %d %s 0 0 51 - 4000 - - -", f, n)
	s.g.Op("unfib %s %d", n, x)
	s.g.Op("fib %s %d 1", n, y)
	if r.Chance(1, 2) {
		s.advMs(common.Pick(r, []int{10, 100, 400}))
	}
	s.g.Op("I %d %s 0 0 52 - 4000 - - -", f, n)
	s.g.Stat("mcast-shape")
}

/* satisfiedShape: a satisfied PIT entry is re-used before the sweep removes it; when it then expires
   unanswered its out-record nonce must still reach the dead nonce list. */
func (s *genSt) satisfiedShape(L int) {
	r := s.r
	f, up := s.face(), s.face()
	for up == f {
		up = s.face()
	}
	back := s.face()
	for back == up {
		back = s.face()
	}
	n := common.NameText(nm(common.Pick(r, alphabet), "sat"))
	X := L / 4
	if X < 60 {
		X = 60
	}
	s.g.Op("fib %s %d 0", n, up)
	s.g.Op("I %d %s 0 1 31 - %d - - -", f, n, X)
	s.g.Op("D %d %s - 5 %s", up, n, common.Pick(r, []string{"-", "@" + n}))
	s.g.Op("I %d %s 0 1 32 - %d - - -", f, n, X)
	s.advMs(X + 250)
	s.g.Op("I %d %s 0 1 32 - %d - - -", back, n, X)
	s.g.Stat("satisfied-reuse-shape")
}

func (s *genSt) tokHex() string {
	r := s.r
	switch r.Intn(8) {
	case 0, 1, 2:
		return "-"
	case 3:
		return common.Hex(r.Bytes(1))
	case 4:
		return common.Hex(r.Bytes(4))
	case 5:
		return "ffff" + common.Hex(r.Bytes(4)) // 6 bytes, not of this forwarder's thread-0 form
	case 6:
		return common.Hex(r.Bytes(8))
	default:
		return common.Hex([]byte{byte(r.Intn(3))})
	}
}

func (s *genSt) interest() {
	r := s.r
	var n enc.Name
	cbp, mbf := r.Chance(1, 3), r.Chance(1, 5)
	if len(s.pending) > 0 && r.Chance(1, 2) {
		// aim at an earlier Interest: retransmission / aggregation / duplicate nonce
		p := common.Pick(r, s.pending)
		n = p.name
		if r.Chance(4, 5) {
			cbp = p.cbp
			mbf = false
		}
	} else {
		n = s.name()
	}
	nonce := "-"
	if !r.Chance(1, 25) {
		nonce = fmt.Sprint(r.Range(1, 5))
	} else {
		s.g.Stat("i-no-nonce")
	}
	hop := "-"
	if r.Chance(1, 4) {
		hop = fmt.Sprint(common.Pick(r, []int{0, 1, 1, 2, 7, 255}))
		s.g.Stat("i-hop-" + hop)
	}
	life := "-"
	if r.Chance(2, 3) {
		life = fmt.Sprint(common.Pick(r, []int{50, 200, 600, 1000, 2000, 4000}))
	}
	nh := "-"
	if r.Intn(100) < s.p.NextHop {
		nh = fmt.Sprint(common.Pick(r, append([]int{99}, s.faces...)))
		s.g.Stat("i-nexthop")
	}
	fh := "-"
	if r.Intn(100) < s.p.Hints {
		var hs []string
		for k := r.Range(1, 2); k > 0; k-- {
			h := common.Pick(r, []enc.Name{nm("r"), nm("r", "x"), nm("h"), nm("h", "y"), nm("a")})
			hs = append(hs, common.NameText(h))
		}
		fh = strings.Join(hs, ",")
		s.g.Stat("i-hint")
	}
	f := s.face()
	if r.Chance(1, 30) {
		// the same Interest with a second complete packet (Data /localhost/smuggled) behind it in ONE frame
		// (decoded by a real link service only: "skip" in histories without one)
		s.g.Op("IT %d %s %d %d %s %s %s %s %s %s", f, common.NameText(n), b2i(cbp), b2i(mbf), nonce, hop, life, s.tokHex(), nh, fh)
		s.g.Stat("op-IT")
		return
	}
	s.g.Op("I %d %s %d %d %s %s %s %s %s %s", f, common.NameText(n), b2i(cbp), b2i(mbf), nonce, hop, life, s.tokHex(), nh, fh)
	s.g.Stat("op-I")
	if len(n) > 0 && string(n[0].Val) == "localhost" {
		s.g.Stat("i-localhost")
		if !s.local[f] {
			s.g.Stat("i-localhost-from-nonlocal")
		}
	}
	if cbp {
		s.g.Stat("i-cbp")
	}
	s.pending = append(s.pending, pendI{n, cbp})
}

func b2i(b bool) int {
	if b {
		return 1
	}
	return 0
}

func (s *genSt) data() {
	r := s.r
	var n enc.Name
	tok := "-"
	if len(s.pending) > 0 && r.Chance(5, 6) {
		p := common.Pick(r, s.pending)
		n = p.name.Clone()
		if p.cbp && r.Chance(1, 2) || r.Chance(1, 8) {
			n = append(n, comp(common.Pick(r, alphabet)))
		}
		switch r.Intn(10) {
		case 0, 1, 2, 3:
			tok = "@" + common.NameText(p.name) // echo the token issued for that name
			s.g.Stat("d-tok-echo")
		case 4:
			tok = fmt.Sprintf("T%d", r.Intn(4)) // some issued token, possibly of another entry
			s.g.Stat("d-tok-other")
		case 5:
			tok = "0000" + common.Hex(r.Bytes(4)) // this forwarder's format, foreign value
			s.g.Stat("d-tok-foreign6")
		case 6:
			tok = common.Hex(r.Bytes(common.Pick(r, []int{1, 4, 5, 7, 8}))) // wrong length: name match
			s.g.Stat("d-tok-wronglen")
		default:
			s.g.Stat("d-tok-none")
		}
	} else {
		n = s.name()
		s.g.Stat("d-random-name")
	}
	fresh := "-"
	if r.Chance(2, 3) {
		fresh = fmt.Sprint(common.Pick(r, []int{0, 100, 1000, 10000}))
	}
	f := s.face()
	s.g.Op("D %d %s %s %d %s", f, common.NameText(n), fresh, r.Range(1, 250), tok)
	s.g.Stat("op-D")
	if len(n) > 0 && string(n[0].Val) == "localhost" {
		s.g.Stat("d-localhost")
	}
	if r.Chance(1, 3) {
		// the repeated copy of the same Data
		s.g.Op("D %d %s %s %d %s", f, common.NameText(n), fresh, r.Range(1, 250), tok)
		s.g.Stat("d-repeat")
	}
}

func (s *genSt) fibPrefix() enc.Name {
	r := s.r
	switch r.Intn(10) {
	case 0:
		return nm("localhost")
	case 1:
		return nm("localhost", "nfd")
	case 2:
		return nm("r")
	case 3:
		return nm("h")
	case 4:
		return enc.Name{}
	default:
		d := r.Range(1, 2)
		n := enc.Name{}
		for i := 0; i < d; i++ {
			n = append(n, comp(common.Pick(r, alphabet)))
		}
		return n
	}
}

func (s *genSt) churn() {
	r := s.r
	switch r.Intn(12) {
	case 0, 1, 2, 3:
		s.g.Op("fib %s %d %s", common.NameText(s.fibPrefix()), s.face(), fibCost(r, []int{0, 1, 1, 5, 5, 10}))
	case 4, 5:
		s.g.Op("unfib %s %d", common.NameText(s.fibPrefix()), s.face())
	case 6:
		s.g.Op("clrfib %s", common.NameText(s.fibPrefix()))
	case 7, 8:
		s.g.Op("strat %s %s", common.NameText(s.fibPrefix()), common.Pick(r, []string{"best", "multi"}))
	case 9:
		s.g.Op("unstrat %s", common.NameText(s.fibPrefix()))
	case 10:
		if r.Chance(1, 2) {
			s.g.Op("csconf %d %d", b2i(r.Chance(3, 4)), b2i(r.Chance(3, 4)))
		} else {
			s.g.Op("cap %d", common.Pick(r, []int{0, 1, 2, 8}))
		}
	case 11:
		if r.Chance(1, 2) {
			s.g.Op("rmface %d", s.face())
		} else {
			// regions may nest, in either order of configuration (a broader region after a narrower one)
			s.g.Op("region %s", common.NameText(common.Pick(r, []enc.Name{nm("r"), nm("h", "y"), nm("h"), nm("r", "x")})))
		}
	}
	s.g.Stat("op-churn")
}

// Gen writes g.N histories.
func Gen(g *common.Gen, p Profile) {
	// g.R streams of consecutive seeds are shifts of one another (splitmix64 with an additive seed);
	// fork once so that every seed gets an unrelated stream of per-history generators.
	root := g.R.Fork()
	for i := 0; i < g.N; i++ {
		r := root.Fork()
		s := &genSt{g: g, r: r, p: p, local: map[int]bool{}}
		admit, serve := b2i(!r.Chance(1, 6)), b2i(!r.Chance(1, 6))
		ls := ""
		if r.Intn(100) < p.LinkSvc {
			ls = " ls"
			if r.Chance(1, 2) {
				// several forwarding threads: the real face-layer dispatch decides the thread(s)
				ls = fmt.Sprintf(" ls %d", r.Range(2, 4))
				g.Stat("ingress-link-service-multithread")
			} else {
				g.Stat("ingress-link-service")
			}
		} else {
			g.Stat("ingress-direct")
		}
		dnlMs := common.Pick(r, []int{300, 1000, 1000, 6000})
		g.Op("new %d %d %d %d %s%s", admit, serve, common.Pick(r, []int{0, 1, 2, 8, 8, 64}),
			dnlMs, common.Pick(r, []string{"nametree", "nametree", "nametree", "hashtable", "hashtable:1", "hashtable:2"}), ls)
		nf := r.Range(3, 5)
		nonlocal := []int{}
		for k := 0; k < nf; k++ {
			id := 11 + k
			sc := "N"
			if k == 0 || r.Chance(2, 5) {
				sc = "L"
				s.local[id] = true
			} else {
				nonlocal = append(nonlocal, id)
			}
			lt := common.Pick(r, []string{"p2p", "p2p", "p2p", "p2p", "multi", "adhoc"})
			if k > 0 && r.Intn(100) < p.RealTCP {
				// scope decided by the real unicast TCP transport for this remote address
				a := common.Pick(r, tcpAddrs)
				delete(s.local, id)
				if a.local {
					if sc == "N" {
						nonlocal = nonlocal[:len(nonlocal)-1]
					}
					s.local[id] = true
					sc = "L"
				} else {
					if sc == "L" {
						nonlocal = append(nonlocal, id)
					}
					sc = "N"
				}
				g.Op("face %d %s:%s p2p", id, a.kind, a.addr)
				g.Stat("face-real-tcp-" + sc)
				s.faces = append(s.faces, id)
				continue
			}
			g.Op("face %d %s %s", id, sc, lt)
			g.Stat("face-" + sc + "-" + lt)
			s.faces = append(s.faces, id)
		}
		// concurrent registration of a local and a non-local face in the real face table
		if p.ID == "C09" && r.Chance(1, 2) || r.Chance(1, 20) {
			g.Op("faces2 %d", common.Pick(r, []int{8, 16, 32}))
			g.Stat("faces2")
		}
		// scope classification by the real transport constructors
		for k := r.Range(0, 2); k > 0; k-- {
			a := common.Pick(r, scopeProbes)
			g.Op("scope %s %s", a.kind, a.addr)
			g.Stat("scope-" + a.kind)
		}
		// initial FIB
		if len(nonlocal) > 0 && r.Intn(100) < p.DefaultToNL {
			g.Op("fib / %d %d", common.Pick(r, nonlocal), common.Pick(r, []int{1, 5, 10}))
			g.Stat("default-route-nonlocal")
		}
		for k := r.Range(2, 4); k > 0; k-- {
			// several next hops on one prefix: cost ties, multicast fan-out, fall-through past unusable hops
			pfx := s.fibPrefix()
			for j := r.Range(1, 3); j > 0; j-- {
				g.Op("fib %s %d %s", common.NameText(pfx), s.face(), fibCost(r, []int{0, 1, 1, 5, 5, 10}))
			}
		}
		if r.Chance(1, 3) {
			g.Op("strat %s multi", common.NameText(common.Pick(r, []enc.Name{{}, nm("a"), nm("b"), nm("localhost")})))
			g.Stat("multicast")
		}
		if r.Chance(1, 4) {
			g.Op("region /8:72")
			if r.Chance(1, 2) {
				// a narrower region first, then the broader one that contains it (or the other way round)
				rs := []string{common.NameText(nm("h", "y")), common.NameText(nm("h"))}
				if r.Chance(1, 3) {
					rs[0], rs[1] = rs[1], rs[0]
				}
				g.Op("region %s", rs[0])
				g.Op("region %s", rs[1])
				g.Stat("regions-nested")
			}
		}
		if r.Intn(100) < p.DnlShape {
			s.dnlRereport(dnlMs)
		}
		if r.Intn(100) < p.SatShape {
			s.satisfiedShape(dnlMs)
		}
		if r.Intn(100) < p.ScopeShape {
			s.scopeShape()
		}
		if r.Intn(100) < p.McastShape && len(s.faces) >= 3 {
			s.mcastShape()
		}
		if r.Intn(100) < p.DynShape {
			s.dynShape()
		}
		np := r.Range(10, 40)
		for k := 0; k < np; k++ {
			if r.Intn(100) < p.FibChurn {
				s.churn()
			}
			if r.Chance(1, 3) {
				s.adv()
			}
			if r.Intn(100) < p.DataRatio {
				s.data()
			} else {
				s.interest()
			}
		}
		// let everything expire: quiescence
		if r.Chance(1, 2) {
			g.Op("adv %d", 9000*1000000-1000)
		}
		g.Stat("histories")
	}
}
