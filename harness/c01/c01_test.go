package c01

import (
	"testing"

	"verif/harness/c01/fwh"
	"verif/harness/common"
)

// TestVerif: generator profile P01 over the shared forwarding-pipeline harness (see c01/fwh).
func TestVerif(t *testing.T) { fwh.Main(t, func(g *common.Gen) { fwh.Gen(g, fwh.P01) }) }
